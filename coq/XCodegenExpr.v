(* XCodegenExpr.v -- a model of xcmp's expression code generation (xcmp.hpp ExprCodeGen, genBinopOperands,
   genConst, genVar) for the fragment
       e ::= number | global variable | e + e | e - e          (any nesting on both sides)
   including xcmp's constant folding of number-only subtrees and its spilling of right operands that need
   areg (needsAReg: the right operand is generated first, saved in a frame temporary, the left operand is
   generated with the frame offset bumped, the temporary is reloaded into breg), and its correctness against
   the ISA spec Isa.step and the X spec XSem.eval.

   Interface to the assembler (Layer A of DESIGN.md C01): `instr_at m pos nxt i` says that the bytes of
   instruction i occupy [pos, nxt) of memory m in the sense of the ISA itself -- started at pos with a clear
   operand register the ISA runs through the prefix bytes (silent steps that change nothing but pc and oreg) and
   arrives at the instruction byte with i's opcode and i's 32-bit operand accumulated.  That is what
   AsmSpecProofs.decode_exec establishes for every image the assembler validator accepts.

   cg_correct: if XSem evaluates e to n (so no overflow, no unassigned read), then running the generated code
   from its first byte leaves n mod 2^32 in areg, the operand register clear, the program counter just behind
   the code, and a memory that differs from the initial one only in frame temporaries at or above the current
   frame offset -- for every nesting depth. *)
From Coq Require Import ZArith List String Bool Lia.
From HexVerif Require Import WMap Isa XAst XSem.
Import ListNotations.
Local Open Scope Z_scope.

Ltac Zify.zify_post_hook ::= Z.div_mod_to_equations.

(* ---------------------------------------------------------------- the generated instructions *)
Inductive reg := RA | RB.
Inductive instr := LDAC (v : Z) | LDBC (v : Z) | LDAM (a : Z) | LDBM (a : Z) | ADD | SUB | STAI (k : Z) | LDBI (k : Z).

(* opcode nibble and the 32-bit operand the ISA must have accumulated at the instruction byte *)
Definition opcode (i : instr) : Z * Z :=
  match i with
  | LDAM a => (0, a)
  | LDBM a => (1, a)
  | LDAC v => (3, v mod W)
  | LDBC v => (4, v mod W)
  | ADD => (13, 1)
  | SUB => (13, 2)
  | STAI k => (8, k)
  | LDBI k => (7, k)
  end.

(* ---------------------------------------------------------------- model of the code generator *)
Section Codegen.
  Variable addr : string -> option Z.      (* word address of each global variable (its DATA label) *)

  (* ConstProp on the fragment: numbers, + and - of constants (C int arithmetic; the theorem only speaks of
     evaluations XSem defines, where no overflow occurs) *)
  Fixpoint const_of (e : expr) : option Z :=
    match e with
    | ENum n => Some (signed32 n)
    | EBin Plus l r => match const_of l, const_of r with Some a, Some b => Some (a + b) | _, _ => None end
    | EBin Minus l r => match const_of l, const_of r with Some a, Some b => Some (a - b) | _, _ => None end
    | _ => None
    end.

  (* genConst: operand-encoded when -65536 < v < 65536 (larger values go to the constant pool: outside the fragment) *)
  Definition small (v : Z) : bool := (-65536 <? v) && (v <? 65536).
  Definition ldc (r : reg) (v : Z) : instr := match r with RA => LDAC v | RB => LDBC v end.
  Definition ldm (r : reg) (a : Z) : instr := match r with RA => LDAM a | RB => LDBM a end.

  (* not needsAReg: the right operand is a (folded) constant or a variable reference *)
  Definition simple_right (e : expr) : bool :=
    match const_of e with
    | Some _ => true
    | None => match e with EVar _ => true | _ => false end
    end.

  Variable size : Z.         (* the frame size of the procedure (known when the directives are lowered) *)
  Variable nslots : Z.       (* frame words available for temporaries *)

  (* genExpr(e, reg) at frame offset off; a frame-base relative slot -off is lowered to sp + size - 1 - off *)
  Fixpoint cg (e : expr) (r : reg) (off : Z) : option (list instr) :=
    match const_of e with
    | Some v => if small v then Some [ldc r v] else None
    | None =>
        match e with
        | EVar x => match addr x with Some a => Some [ldm r a] | None => None end
        | EBin o l rr =>
            match o, r with
            | Plus, RA | Minus, RA =>
                let opi := match o with Plus => ADD | _ => SUB end in
                if simple_right rr then
                  match cg l RA off, cg rr RB off with
                  | Some cl, Some cr => Some (cl ++ cr ++ [opi])
                  | _, _ => None
                  end
                else if (0 <=? off) && (off <? nslots) then
                  (* genBinopOperands, needsAReg(RHS): RHS first, saved at frame offset off; LHS at off + 1 *)
                  match cg rr RA off, cg l RA (off + 1) with
                  | Some cr, Some cl =>
                      Some (cr ++ [LDBM 1; STAI (size - 1 - off)] ++ cl ++ [LDBM 1; LDBI (size - 1 - off)] ++ [opi])
                  | _, _ => None
                  end
                else None
            | _, _ => None
            end
        | _ => None
        end
    end.
End Codegen.

(* ---------------------------------------------------------------- the ISA on instruction bytes *)
Definition mk (p a b o : Z) (m : WMap.t) : arch := {| pc := p; areg := a; breg := b; oreg := o; mem := m |}.

(* silent runs: some number of instructions that emit no event and leave the input untouched *)
Definition taus (inp : inputs) (s s' : arch) : Prop :=
  exists k, Isa.run k s inp [] = ([], inp, s', Cut).

Lemma run_compose : forall k1 s inp0 evs l inp1 s1,
  Isa.run k1 s inp0 evs = (l, inp1, s1, Cut) ->
  forall k2, Isa.run (k1 + k2) s inp0 evs = Isa.run k2 s1 inp1 (rev l).
Proof.
  induction k1 as [|k IH]; intros s inp0 evs l inp1 s1 H k2.
  - cbn [Isa.run] in H. inversion H; subst. rewrite rev_involutive. reflexivity.
  - cbn [Isa.run Nat.add] in *. destruct (step s inp0) as [[[s' inp'] ev]|u]; [|discriminate].
    destruct ev; try discriminate; eapply IH; exact H.
Qed.

Lemma taus_refl inp s : taus inp s s.
Proof. exists O. reflexivity. Qed.

Lemma taus_trans inp s1 s2 s3 : taus inp s1 s2 -> taus inp s2 s3 -> taus inp s1 s3.
Proof.
  intros [k1 H1] [k2 H2]. exists (k1 + k2)%nat.
  rewrite (run_compose k1 s1 inp [] [] inp s2 H1 k2). exact H2.
Qed.

Lemma taus_one inp s s1 : step s inp = Ok (s1, inp, Tau) -> taus inp s s1.
Proof. intros H. exists 1%nat. cbn [Isa.run]. rewrite H. reflexivity. Qed.

Definition at_byte (s : arch) (opc o : Z) : Prop :=
  in_mem (pc s / 4) = true /\ fetch s / 16 = opc /\ Z.lor (oreg s) (fetch s mod 16) = o.

(* C: the memories in which the code is intact (the code generator's stores go to frame words only) *)
Definition instr_at (C : WMap.t -> Prop) (pos nxt : Z) (i : instr) : Prop :=
  0 <= pos < nxt /\
  forall m a b inp, C m -> exists s',
    taus inp (mk pos a b 0 m) s' /\ pc s' = nxt - 1 /\ areg s' = a /\ breg s' = b /\ mem s' = m /\
    at_byte s' (fst (opcode i)) (snd (opcode i)).

Fixpoint code_at (C : WMap.t -> Prop) (pos : Z) (c : list instr) (nxt : Z) : Prop :=
  match c with
  | [] => pos = nxt
  | i :: r => exists mid, instr_at C pos mid i /\ code_at C mid r nxt
  end.

Lemma code_at_le C : forall c pos nxt, code_at C pos c nxt -> pos <= nxt.
Proof.
  induction c as [|i r IH]; intros pos nxt H; cbn [code_at] in H.
  - lia.
  - destruct H as (mid & [Hp _] & Hr). specialize (IH mid nxt Hr). lia.
Qed.

Lemma code_at_app C : forall c1 c2 pos nxt,
  code_at C pos (c1 ++ c2) nxt -> exists mid, code_at C pos c1 mid /\ code_at C mid c2 nxt.
Proof.
  induction c1 as [|i r IH]; intros c2 pos nxt H; cbn [app code_at] in *.
  - exists pos. split; [reflexivity | exact H].
  - destruct H as (mid & Hi & Hr). destruct (IH c2 mid nxt Hr) as (mid2 & H1 & H2).
    exists mid2. split; [exists mid; split; assumption | exact H2].
Qed.

(* one step at the instruction byte, opcode by opcode *)
Lemma step_ldac s inp o : at_byte s 3 o ->
  step s inp = Ok (mk (wrap (pc s + 1)) o (breg s) 0 (mem s), inp, Tau).
Proof. intros (Hm & Hop & Ho). unfold step. rewrite Hm. cbv beta iota zeta delta [negb]. rewrite Hop, Ho. reflexivity. Qed.

Lemma step_ldbc s inp o : at_byte s 4 o ->
  step s inp = Ok (mk (wrap (pc s + 1)) (areg s) o 0 (mem s), inp, Tau).
Proof. intros (Hm & Hop & Ho). unfold step. rewrite Hm. cbv beta iota zeta delta [negb]. rewrite Hop, Ho. reflexivity. Qed.

Lemma step_ldam s inp o : at_byte s 0 o -> in_mem o = true ->
  step s inp = Ok (mk (wrap (pc s + 1)) (rd (mem s) o) (breg s) 0 (mem s), inp, Tau).
Proof. intros (Hm & Hop & Ho) Hin. unfold step. rewrite Hm. cbv beta iota zeta delta [negb]. rewrite Hop, Ho, Hin. reflexivity. Qed.

Lemma step_ldbm s inp o : at_byte s 1 o -> in_mem o = true ->
  step s inp = Ok (mk (wrap (pc s + 1)) (areg s) (rd (mem s) o) 0 (mem s), inp, Tau).
Proof. intros (Hm & Hop & Ho) Hin. unfold step. rewrite Hm. cbv beta iota zeta delta [negb]. rewrite Hop, Ho, Hin. reflexivity. Qed.

Lemma step_add s inp : at_byte s 13 1 ->
  step s inp = Ok (mk (wrap (pc s + 1)) (wrap (areg s + breg s)) (breg s) 0 (mem s), inp, Tau).
Proof. intros (Hm & Hop & Ho). unfold step. rewrite Hm. cbv beta iota zeta delta [negb]. rewrite Hop, Ho. reflexivity. Qed.

Lemma step_sub s inp : at_byte s 13 2 ->
  step s inp = Ok (mk (wrap (pc s + 1)) (wrap (areg s - breg s)) (breg s) 0 (mem s), inp, Tau).
Proof. intros (Hm & Hop & Ho). unfold step. rewrite Hm. cbv beta iota zeta delta [negb]. rewrite Hop, Ho. reflexivity. Qed.

Lemma step_stai s inp o : at_byte s 8 o -> in_mem (wrap (breg s + o)) = true ->
  step s inp = Ok (mk (wrap (pc s + 1)) (areg s) (breg s) 0 (wr (mem s) (wrap (breg s + o)) (areg s)), inp, Tau).
Proof. intros (Hm & Hop & Ho) Hin. unfold step. rewrite Hm. cbv beta iota zeta delta [negb]. rewrite Hop, Ho, Hin. reflexivity. Qed.

Lemma step_ldbi s inp o : at_byte s 7 o -> in_mem (wrap (breg s + o)) = true ->
  step s inp = Ok (mk (wrap (pc s + 1)) (areg s) (rd (mem s) (wrap (breg s + o))) 0 (mem s), inp, Tau).
Proof. intros (Hm & Hop & Ho) Hin. unfold step. rewrite Hm. cbv beta iota zeta delta [negb]. rewrite Hop, Ho, Hin. reflexivity. Qed.

(* what an instruction does to areg, breg and memory *)
Definition sem (i : instr) (a b : Z) (m : WMap.t) : Z * Z * WMap.t :=
  match i with
  | LDAC v => (v mod W, b, m)
  | LDBC v => (a, v mod W, m)
  | LDAM x => (rd m x, b, m)
  | LDBM x => (a, rd m x, m)
  | ADD => (wrap (a + b), b, m)
  | SUB => (wrap (a - b), b, m)
  | STAI k => (a, b, wr m (wrap (b + k)) a)
  | LDBI k => (a, rd m (wrap (b + k)), m)
  end.
Definition readable (i : instr) (b : Z) : Prop :=
  match i with
  | LDAM x => in_mem x = true
  | LDBM x => in_mem x = true
  | STAI k => in_mem (wrap (b + k)) = true
  | LDBI k => in_mem (wrap (b + k)) = true
  | _ => True
  end.

Lemma exec_instr C m pos nxt i a b inp :
  instr_at C pos nxt i -> C m -> readable i b -> nxt < W ->
  taus inp (mk pos a b 0 m)
       (mk nxt (fst (fst (sem i a b m))) (snd (fst (sem i a b m))) 0 (snd (sem i a b m))).
Proof.
  intros [Hpos Hat] HC Hr Hn. destruct (Hat m a b inp HC) as (s' & Ht & Hpc & Ha & Hb & Hm & Hby).
  eapply taus_trans; [exact Ht|]. apply taus_one.
  assert (Hw : wrap (pc s' + 1) = nxt) by (rewrite Hpc; unfold wrap; replace (nxt - 1 + 1) with nxt by lia; apply Z.mod_small; lia).
  destruct i; cbn [opcode fst snd] in Hby; cbn [sem fst snd]; cbn [readable] in Hr.
  - rewrite (step_ldac s' inp _ Hby). rewrite Hw, Hb, Hm. reflexivity.
  - rewrite (step_ldbc s' inp _ Hby). rewrite Hw, Ha, Hm. reflexivity.
  - rewrite (step_ldam s' inp _ Hby Hr). rewrite Hw, Hb, Hm. reflexivity.
  - rewrite (step_ldbm s' inp _ Hby Hr). rewrite Hw, Ha, Hm. reflexivity.
  - rewrite (step_add s' inp Hby). rewrite Hw, Ha, Hb, Hm. reflexivity.
  - rewrite (step_sub s' inp Hby). rewrite Hw, Ha, Hb, Hm. reflexivity.
  - rewrite <- Hb in Hr. rewrite (step_stai s' inp _ Hby Hr). rewrite Hw, Ha, Hb, Hm. reflexivity.
  - rewrite <- Hb in Hr. rewrite (step_ldbi s' inp _ Hby Hr). rewrite Hw, Ha, Hb, Hm. reflexivity.
Qed.

(* ---------------------------------------------------------------- inversion of the spec interpreter *)
Lemma rcase_ret {A B} (r : res A) kr kh (b : B) s :
  rcase r kr kh = Ret b s ->
  (exists a s0, r = Ret a s0 /\ kr a s0 = Ret b s) \/ (exists c s0, r = Halt c s0 /\ kh c s0 = Ret b s).
Proof. destruct r as [a s0|c s0|u]; cbn [rcase]; intros H; [left|right|discriminate]; eauto. Qed.

Lemma bind_ret {A B} (r : res A) k (b : B) s :
  bind r k = Ret b s -> exists a s0, r = Ret a s0 /\ k a s0 = Ret b s.
Proof. unfold bind. intros H. apply rcase_ret in H. destruct H as [H|(c & s0 & _ & H)]; [exact H | discriminate]. Qed.

Lemma with_eff_ret {A} (m : state -> res A) st (a : A) e s :
  with_eff m st = Ret (a, e) s ->
  exists s0, m (set_cur st eff0) = Ret a s0 /\ e = cur s0 /\ s = set_cur s0 (eff_union (cur st) (cur s0)).
Proof.
  unfold with_eff. intros H. apply rcase_ret in H. destruct H as [(a0 & s0 & H1 & H2)|(c & s0 & _ & H)]; [|discriminate].
  inversion H2; subst. exists s0. repeat split. exact H1.
Qed.

(* the state components the fragment never changes *)
Definition same_store (s s' : state) : Prop := gvars s' = gvars s /\ stk s' = stk s.
Lemma same_store_refl s : same_store s s. Proof. split; reflexivity. Qed.
Lemma same_store_trans a b c : same_store a b -> same_store b c -> same_store a c.
Proof. intros [H1 H2] [H3 H4]. split; congruence. Qed.
Lemma same_store_set_cur s e : same_store s (set_cur s e). Proof. split; reflexivity. Qed.

Lemma evals_two f ge l r st L s :
  evals f ge [l; r] st = Ret L s ->
  exists f1 f2 vl sl vr sr,
    eval f1 ge l (set_cur st eff0) = Ret vl sl /\
    eval f2 ge r (set_cur (set_cur sl (eff_union (cur st) (cur sl))) eff0) = Ret vr sr /\
    map fst L = [vl; vr] /\ same_store sr s.
Proof.
  destruct f as [|f1]; [discriminate|]. cbn [evals]. unfold evals_body at 1. intros H.
  apply rcase_ret in H. destruct H as [([vl el] & s1 & H1 & H)|(c & s0 & _ & H)].
  2:{ destruct (forallb harmless [r]); discriminate. }
  apply with_eff_ret in H1. destruct H1 as (sl & Hl & -> & ->).
  apply rcase_ret in H. destruct H as [(L1 & s2 & H2 & H)|(c & s0 & _ & H)].
  2:{ cbn [snd] in H. destruct (e_io (cur sl)); discriminate. }
  inversion H; subst L s; clear H.
  destruct f1 as [|f2]; [discriminate|]. cbn [evals] in H2. unfold evals_body at 1 in H2.
  apply rcase_ret in H2. destruct H2 as [([vr er] & s3 & H3 & H)|(c & s0 & _ & H)].
  2:{ cbn [forallb] in H. discriminate. }
  apply with_eff_ret in H3. destruct H3 as (sr & Hr & -> & ->).
  apply rcase_ret in H. destruct H as [(L2 & s4 & H4 & H)|(c & s0 & _ & H)].
  2:{ cbn [snd] in H. destruct (e_io (cur sr)); discriminate. }
  inversion H; subst L1 s2; clear H.
  destruct f2 as [|f3]; [discriminate|]. cbn [evals evals_body] in H4. inversion H4; subst L2 s4; clear H4.
  exists (S (S f3)), (S f3), vl, sl, vr, sr. repeat split; try assumption.
Qed.

Lemma eval_arith f ge o l r st v s :
  (o = Plus \/ o = Minus) -> eval f ge (EBin o l r) st = Ret v s ->
  exists f1 f2 x y sl sr z,
    eval f1 ge l (set_cur st eff0) = Ret (Vint x) sl /\
    eval f2 ge r (set_cur (set_cur sl (eff_union (cur st) (cur sl))) eff0) = Ret (Vint y) sr /\
    binop_ans o x y = inr z /\ v = Vint z /\ same_store sr s.
Proof.
  intros Ho. destruct f as [|f0]; [discriminate|]. cbn [eval].
  assert (E : eval_body (eval f0 ge) (evals f0 ge) (exec f0 ge) ge (EBin o l r) st =
              bind (operands (evals f0 ge) [l; r] st) (fun vs s1 =>
                match vs with
                | [a; b] => int_of a (fun x => int_of b (fun y =>
                              match binop_ans o x y with inr z => Ret (Vint z) s1 | inl u => Fail u end))
                | _ => Fail (Unsupported "internal: operands")
                end)) by (destruct Ho as [-> | ->]; reflexivity).
  rewrite E. clear E. intros H.
  apply bind_ret in H. destruct H as (vs & s1 & H1 & H).
  unfold operands in H1. apply bind_ret in H1. destruct H1 as (L & s2 & H2 & H1).
  destruct (conflicts (map snd L)); [discriminate|]. inversion H1; subst vs s1; clear H1.
  destruct (evals_two f0 ge l r st L s2 H2) as (f1 & f2 & vl & sl & vr & sr & Hl & Hr & HL & Hss).
  rewrite HL in H.
  destruct vl as [|x|?|?]; try discriminate. destruct vr as [|y|?|?]; try discriminate.
  cbn [int_of] in H. destruct (binop_ans o x y) as [u|z] eqn:Eb; [discriminate|].
  inversion H; subst v s; clear H.
  exists f1, f2, x, y, sl, sr, z. repeat split; try assumption; apply Hss.
Qed.

(* ---------------------------------------------------------------- correctness of the fragment *)
Section Correct.
  Variable addr : string -> option Z.
  Variable ge : genv.
  Variable m0 : WMap.t.                 (* the memory when the expression's code starts *)
  Variables sp size nslots : Z.         (* stack pointer mem[1], frame size, frame words usable as temporaries *)

  (* the temporaries: frame offset k lives at sp + size - 1 - k, for 0 <= k < nslots *)
  Definition thi : Z := sp + size - 1.
  Definition tlo : Z := sp + size - nslots.
  Definition T (a : Z) : Prop := tlo <= a <= thi.
  (* memories that differ from m0 in temporaries only *)
  Definition C (m : WMap.t) : Prop := forall a, 0 <= a -> ~ T a -> rd m a = rd m0 a.
  (* m' differs from m only in temporaries of frame offset >= off *)
  Definition keeps (off : Z) (m m' : WMap.t) : Prop := forall a, 0 <= a -> ~ (tlo <= a <= thi - off) -> rd m' a = rd m a.

  Hypothesis Hsp : rd m0 1 = sp.
  Hypothesis Hsp_not_temp : ~ T 1.
  Hypothesis Htemps_in_memory : 0 <= tlo /\ thi < MEMW.
  Hypothesis Hglobals_not_temps : forall x a, addr x = Some a -> ~ T a.

  Lemma C_m0 : C m0. Proof. intros a _ _. reflexivity. Qed.
  Lemma keeps_refl off m : keeps off m m. Proof. intros a _ _. reflexivity. Qed.
  Lemma keeps_trans off m1 m2 m3 : keeps off m1 m2 -> keeps off m2 m3 -> keeps off m1 m3.
  Proof. intros H1 H2 a Ha Hn. rewrite (H2 a Ha Hn). apply H1; assumption. Qed.
  Lemma keeps_weaken off off' m m' : off <= off' -> keeps off' m m' -> keeps off m m'.
  Proof. intros Hle H a Ha Hn. apply H; [exact Ha|]. lia. Qed.
  Lemma keeps_C off m m' : 0 <= off -> C m -> keeps off m m' -> C m'.
  Proof. intros Ho HC Hk a Ha Hn. rewrite (Hk a Ha). - apply HC; assumption. - unfold T in Hn. lia. Qed.
  Lemma keeps_wr off m a v : tlo <= a <= thi - off -> keeps off m (wr m a v).
  Proof. intros Ha b Hb Hn. apply rd_wr_other; lia. Qed.

  Lemma in_mem_temp a : T a -> in_mem a = true.
  Proof.
    unfold T. intros H. destruct Htemps_in_memory as [H0 H1]. unfold in_mem.
    apply andb_true_intro. split; [apply Z.leb_le | apply Z.ltb_lt]; lia.
  Qed.
  Lemma wrap_temp a : T a -> wrap a = a.
  Proof. unfold T, wrap. intros H. destruct Htemps_in_memory as [H0 H1]. apply Z.mod_small. unfold MEMW, W in *. lia. Qed.

  (* the source state and the machine memory agree on the global variables; no local or val hides them *)
  Definition env_ok (st : state) : Prop :=
    forall x a, addr x = Some a ->
      assoc x (f_vars (top st)) = None /\ assoc x (f_vals (top st)) = None /\ assoc x (g_vals ge) = None /\
      in_mem a = true /\
      exists v, assoc x (gvars st) = Some v /\ (v = Vundef \/ exists n, v = Vint n /\ rd m0 a = n mod W).

  Lemma env_ok_same st st' : same_store st st' -> env_ok st -> env_ok st'.
  Proof.
    intros [Hg Hs] H x a Hx. destruct (H x a Hx) as (H1 & H2 & H3 & H4 & H5).
    unfold top in *. rewrite Hg, Hs. auto.
  Qed.

  Lemma const_eval : forall e c, const_of e = Some c ->
    forall f st v s, eval f ge e st = Ret v s -> v = Vint c /\ same_store st s.
  Proof.
    induction e as [n|b|bs|x|a i|g args|n args|u e IHe|o l IHl r IHr]; intros c Hc f st v s He; cbn [const_of] in Hc; try discriminate.
    - inversion Hc; subst c. destruct f as [|f0]; [discriminate|]. cbn [eval eval_body] in He. inversion He; subst.
      split; [reflexivity | apply same_store_refl].
    - destruct o; try discriminate.
      + destruct (const_of l) as [a|] eqn:El; [|discriminate]. destruct (const_of r) as [b|] eqn:Er; [|discriminate].
        inversion Hc; subst c.
        destruct (eval_arith f ge Plus l r st v s (or_introl eq_refl) He) as (f1 & f2 & x & y & sl & sr & z & H1 & H2 & Hb & -> & Hss).
        destruct (IHl a eq_refl _ _ _ _ H1) as [Hx S1]. destruct (IHr b eq_refl _ _ _ _ H2) as [Hy S2].
        inversion Hx; inversion Hy; subst x y.
        cbn [binop_ans] in Hb. destruct (in_int (a + b)); [|discriminate]. inversion Hb; subst z.
        split; [reflexivity|].
        eapply same_store_trans; [apply (same_store_set_cur st eff0)|].
        eapply same_store_trans; [exact S1|].
        eapply same_store_trans; [apply (same_store_set_cur sl (eff_union (cur st) (cur sl)))|].
        eapply same_store_trans; [apply (same_store_set_cur _ eff0)|].
        eapply same_store_trans; [exact S2 | exact Hss].
      + destruct (const_of l) as [a|] eqn:El; [|discriminate]. destruct (const_of r) as [b|] eqn:Er; [|discriminate].
        inversion Hc; subst c.
        destruct (eval_arith f ge Minus l r st v s (or_intror eq_refl) He) as (f1 & f2 & x & y & sl & sr & z & H1 & H2 & Hb & -> & Hss).
        destruct (IHl a eq_refl _ _ _ _ H1) as [Hx S1]. destruct (IHr b eq_refl _ _ _ _ H2) as [Hy S2].
        inversion Hx; inversion Hy; subst x y.
        cbn [binop_ans] in Hb. destruct (in_int (a - b)); [|discriminate]. inversion Hb; subst z.
        split; [reflexivity|].
        eapply same_store_trans; [apply (same_store_set_cur st eff0)|].
        eapply same_store_trans; [exact S1|].
        eapply same_store_trans; [apply (same_store_set_cur sl (eff_union (cur st) (cur sl)))|].
        eapply same_store_trans; [apply (same_store_set_cur _ eff0)|].
        eapply same_store_trans; [exact S2 | exact Hss].
  Qed.

  Lemma var_eval x a f st v s : addr x = Some a -> env_ok st -> eval f ge (EVar x) st = Ret v s ->
    exists n, v = Vint n /\ rd m0 a = n mod W /\ in_mem a = true /\ same_store st s.
  Proof.
    intros Hx Henv He. destruct f as [|f0]; [discriminate|]. cbn [eval eval_body] in He. unfold read_var in He.
    destruct (Henv x a Hx) as (H1 & H2 & H3 & H4 & (w & H5 & H6)).
    rewrite H1, H2, H3, H5 in He.
    destruct H6 as [->|(n & -> & Hn)]; [discriminate|].
    inversion He; subst v s. exists n. repeat split; try assumption.
  Qed.

  (* what the code must leave in the requested register, from any admissible memory *)
  Definition lands (r : reg) (code : list instr) (n off : Z) : Prop :=
    forall m pos nxt a b inp, C m -> code_at C pos code nxt -> nxt < W ->
      match r with
      | RA => exists b' m', taus inp (mk pos a b 0 m) (mk nxt (n mod W) b' 0 m') /\ keeps off m m'
      | RB => taus inp (mk pos a b 0 m) (mk nxt a (n mod W) 0 m)
      end.

  Lemma lands_ldc r c off : lands r [ldc r c] c off.
  Proof.
    intros m pos nxt a b inp HC Hc Hn. cbn [code_at] in Hc. destruct Hc as (mid & Hi & <-).
    destruct r; cbn [ldc] in *.
    - exists b, m. split; [exact (exec_instr C m pos mid (LDAC c) a b inp Hi HC I Hn) | apply keeps_refl].
    - exact (exec_instr C m pos mid (LDBC c) a b inp Hi HC I Hn).
  Qed.

  Lemma lands_ldm r x a n off : addr x = Some a -> in_mem a = true -> rd m0 a = n mod W -> lands r [ldm r a] n off.
  Proof.
    intros Hx Hin Hrd m pos nxt a0 b inp HC Hc Hn. cbn [code_at] in Hc. destruct Hc as (mid & Hi & <-).
    assert (Ha0 : 0 <= a) by (unfold in_mem in Hin; apply andb_prop in Hin; destruct Hin as [H _]; apply Z.leb_le in H; exact H).
    assert (Hm : rd m a = n mod W) by (rewrite (HC a Ha0 (Hglobals_not_temps x a Hx)); exact Hrd).
    destruct r; cbn [ldm] in *.
    - exists b, m. split; [|apply keeps_refl]. rewrite <- Hm. exact (exec_instr C m pos mid (LDAM a) a0 b inp Hi HC Hin Hn).
    - rewrite <- Hm. exact (exec_instr C m pos mid (LDBM a) a0 b inp Hi HC Hin Hn).
  Qed.

  Lemma wrap_add x y : wrap (x mod W + y mod W) = (x + y) mod W.
  Proof. unfold wrap. rewrite <- Zplus_mod. reflexivity. Qed.
  Lemma wrap_sub x y : wrap (x mod W - y mod W) = (x - y) mod W.
  Proof. unfold wrap. rewrite <- Zminus_mod. reflexivity. Qed.

  Lemma rd_sp m : C m -> rd m 1 = sp.
  Proof. intros HC. rewrite (HC 1 ltac:(lia) Hsp_not_temp). exact Hsp. Qed.

  Lemma ss_chain st sl sr s :
    same_store (set_cur st eff0) sl ->
    same_store (set_cur (set_cur sl (eff_union (cur st) (cur sl))) eff0) sr -> same_store sr s -> same_store st s.
  Proof.
    intros S1 S2 Hss.
    eapply same_store_trans; [apply (same_store_set_cur st eff0)|].
    eapply same_store_trans; [exact S1|].
    eapply same_store_trans; [apply (same_store_set_cur sl (eff_union (cur st) (cur sl)))|].
    eapply same_store_trans; [apply (same_store_set_cur _ eff0)|].
    eapply same_store_trans; [exact S2 | exact Hss].
  Qed.

  Theorem cg_correct : forall e r off code, cg addr size nslots e r off = Some code -> 0 <= off ->
    forall f st v s, eval f ge e st = Ret v s -> env_ok st ->
    same_store st s /\ exists n, v = Vint n /\ lands r code n off.
  Proof.
    induction e as [n|b|bs|x|a i|g args|n args|u e IHe|o l IHl rr IHr]; intros r off code Hcg Hoff f st v s He Henv;
      cbn [cg] in Hcg.
    - (* number *)
      cbn [const_of] in Hcg. destruct (small (signed32 n)); [|discriminate]. inversion Hcg; subst code.
      destruct (const_eval (ENum n) (signed32 n) eq_refl f st v s He) as [-> Hss].
      split; [exact Hss|]. exists (signed32 n). split; [reflexivity | apply lands_ldc].
    - cbn [const_of] in Hcg. discriminate.
    - cbn [const_of] in Hcg. discriminate.
    - (* global variable *)
      cbn [const_of] in Hcg. destruct (addr x) as [a|] eqn:Hx; [|discriminate]. inversion Hcg; subst code.
      destruct (var_eval x a f st v s Hx Henv He) as (n & -> & Hrd & Hin & Hss).
      split; [exact Hss|]. exists n. split; [reflexivity | eapply lands_ldm; eassumption].
    - cbn [const_of] in Hcg. discriminate.
    - cbn [const_of] in Hcg. discriminate.
    - cbn [const_of] in Hcg. discriminate.
    - cbn [const_of] in Hcg. discriminate.
    - (* binary operator *)
      destruct (const_of (EBin o l rr)) as [c|] eqn:Ec.
      + (* folded by the compiler *)
        destruct (small c); [|discriminate]. inversion Hcg; subst code.
        destruct (const_eval (EBin o l rr) c Ec f st v s He) as [-> Hss].
        split; [exact Hss|]. exists c. split; [reflexivity | apply lands_ldc].
      + assert (Ho : (o = Plus \/ o = Minus) /\ r = RA).
        { destruct o; try discriminate; destruct r; try discriminate; auto. }
        destruct Ho as [Ho ->].
        set (opi := match o with Plus => ADD | _ => SUB end) in *.
        assert (Hcg' :
          (if simple_right rr then
             match cg addr size nslots l RA off, cg addr size nslots rr RB off with
             | Some cl, Some cr => Some (cl ++ cr ++ [opi])
             | _, _ => None
             end
           else if (0 <=? off) && (off <? nslots) then
             match cg addr size nslots rr RA off, cg addr size nslots l RA (off + 1) with
             | Some cr, Some cl => Some (cr ++ [LDBM 1; STAI (size - 1 - off)] ++ cl ++ [LDBM 1; LDBI (size - 1 - off)] ++ [opi])
             | _, _ => None
             end
           else None) = Some code) by (destruct Ho as [-> | ->]; exact Hcg).
        clear Hcg.
        destruct (eval_arith f ge o l rr st v s Ho He) as (f1 & f2 & x & y & sl & sr & z & H1 & H2 & Hb & -> & Hss).
        assert (E0 : env_ok (set_cur st eff0)) by (eapply env_ok_same; [apply same_store_set_cur | exact Henv]).
        assert (Hz : z mod W = match o with Plus => wrap (x mod W + y mod W) | _ => wrap (x mod W - y mod W) end).
        { destruct Ho as [-> | ->]; cbn [binop_ans] in Hb.
          - destruct (in_int (x + y)); [|discriminate]. inversion Hb; subst z. symmetry. apply wrap_add.
          - destruct (in_int (x - y)); [|discriminate]. inversion Hb; subst z. symmetry. apply wrap_sub. }
        destruct (simple_right rr).
        * (* right operand straight into breg *)
          destruct (cg addr size nslots l RA off) as [cl|] eqn:Ecl; [|discriminate].
          destruct (cg addr size nslots rr RB off) as [cr|] eqn:Ecr; [|discriminate].
          inversion Hcg'; subst code; clear Hcg'.
          destruct (IHl RA off cl Ecl Hoff f1 _ _ _ H1 E0) as [S1 (x' & Hx' & Ll)]. inversion Hx'; subst x'.
          assert (E1 : env_ok (set_cur (set_cur sl (eff_union (cur st) (cur sl))) eff0)).
          { eapply env_ok_same; [|exact E0].
            eapply same_store_trans; [exact S1|].
            eapply same_store_trans; [apply (same_store_set_cur sl (eff_union (cur st) (cur sl)))|].
            apply same_store_set_cur. }
          destruct (IHr RB off cr Ecr Hoff f2 _ _ _ H2 E1) as [S2 (y' & Hy' & Lr)]. inversion Hy'; subst y'.
          split; [exact (ss_chain st sl sr s S1 S2 Hss)|].
          exists z. split; [reflexivity|].
          intros m pos nxt a0 b0 inp HC Hc Hn.
          destruct (code_at_app C cl _ pos nxt Hc) as (mid1 & Hc1 & Hc23).
          destruct (code_at_app C cr _ mid1 nxt Hc23) as (mid2 & Hc2 & Hc3).
          cbn [code_at] in Hc3. destruct Hc3 as (mid3 & Hi & <-).
          pose proof (code_at_le C _ _ _ Hc2) as Hle2.
          assert (Hm2 : mid2 < W) by (destruct Hi as [[_ Hlt] _]; lia).
          assert (Hm1 : mid1 < W) by lia.
          destruct (Ll m pos mid1 a0 b0 inp HC Hc1 Hm1) as (b1 & m1 & T1 & K1).
          assert (HC1 : C m1) by exact (keeps_C off m m1 Hoff HC K1).
          pose proof (Lr m1 mid1 mid2 (x mod W) b1 inp HC1 Hc2 Hm2) as T2.
          exists (y mod W), m1. split; [|exact K1].
          eapply taus_trans; [exact T1|]. eapply taus_trans; [exact T2|].
          rewrite Hz. unfold opi in Hi.
          destruct Ho as [-> | ->].
          -- exact (exec_instr C m1 mid2 mid3 ADD (x mod W) (y mod W) inp Hi HC1 I Hn).
          -- exact (exec_instr C m1 mid2 mid3 SUB (x mod W) (y mod W) inp Hi HC1 I Hn).
        * (* right operand spilled to the frame *)
          destruct ((0 <=? off) && (off <? nslots)) eqn:Eoff; [|discriminate].
          apply andb_prop in Eoff. destruct Eoff as [_ Eoff]. apply Z.ltb_lt in Eoff.
          destruct (cg addr size nslots rr RA off) as [cr|] eqn:Ecr; [|discriminate].
          destruct (cg addr size nslots l RA (off + 1)) as [cl|] eqn:Ecl; [|discriminate].
          inversion Hcg'; subst code; clear Hcg'.
          destruct (IHl RA (off + 1) cl Ecl ltac:(lia) f1 _ _ _ H1 E0) as [S1 (x' & Hx' & Ll)]. inversion Hx'; subst x'.
          assert (E1 : env_ok (set_cur (set_cur sl (eff_union (cur st) (cur sl))) eff0)).
          { eapply env_ok_same; [|exact E0].
            eapply same_store_trans; [exact S1|].
            eapply same_store_trans; [apply (same_store_set_cur sl (eff_union (cur st) (cur sl)))|].
            apply same_store_set_cur. }
          destruct (IHr RA off cr Ecr Hoff f2 _ _ _ H2 E1) as [S2 (y' & Hy' & Lr)]. inversion Hy'; subst y'.
          split; [exact (ss_chain st sl sr s S1 S2 Hss)|].
          exists z. split; [reflexivity|].
          intros m pos nxt a0 b0 inp HC Hc Hn.
          (* the slot of frame offset off *)
          set (slot := thi - off).
          assert (Hslot : T slot) by (unfold T, slot, tlo, thi in *; lia).
          assert (Hk : sp + (size - 1 - off) = slot) by (unfold slot, thi; lia).
          destruct (code_at_app C cr _ pos nxt Hc) as (p1 & Hc1 & Hc').
          cbn [app code_at] in Hc'. destruct Hc' as (p2 & Hi2 & p3 & Hi3 & Hc'').
          destruct (code_at_app C cl _ p3 nxt Hc'') as (p4 & Hc4 & Hc''').
          cbn [app code_at] in Hc'''. destruct Hc''' as (p5 & Hi5 & p6 & Hi6 & p7 & Hi7 & <-).
          pose proof (code_at_le C _ _ _ Hc4) as Hle4.
          assert (B6 : p6 < W) by (destruct Hi7 as [[_ H] _]; lia).
          assert (B5 : p5 < W) by (destruct Hi6 as [[_ H] _]; lia).
          assert (B4 : p4 < W) by (destruct Hi5 as [[_ H] _]; lia).
          assert (B3 : p3 < W) by lia.
          assert (B2 : p2 < W) by (destruct Hi3 as [[_ H] _]; lia).
          assert (B1 : p1 < W) by (destruct Hi2 as [[_ H] _]; lia).
          (* 1: the right operand *)
          destruct (Lr m pos p1 a0 b0 inp HC Hc1 B1) as (b1 & m1 & T1 & K1).
          assert (HC1 : C m1) by exact (keeps_C off m m1 Hoff HC K1).
          (* 2: LDBM 1 *)
          pose proof (exec_instr C m1 p1 p2 (LDBM 1) (y mod W) b1 inp Hi2 HC1 eq_refl B2) as T2.
          cbn [sem fst snd] in T2. rewrite (rd_sp m1 HC1) in T2.
          (* 3: STAI *)
          assert (R3 : readable (STAI (size - 1 - off)) sp).
          { cbn [readable]. rewrite Hk, (wrap_temp slot Hslot). apply in_mem_temp. exact Hslot. }
          pose proof (exec_instr C m1 p2 p3 (STAI (size - 1 - off)) (y mod W) sp inp Hi3 HC1 R3 B3) as T3.
          cbn [sem fst snd] in T3. rewrite Hk, (wrap_temp slot Hslot) in T3.
          set (m2 := wr m1 slot (y mod W)) in *.
          assert (K2 : keeps off m m2).
          { eapply keeps_trans; [exact K1|]. apply keeps_wr. unfold T, slot in *. lia. }
          assert (HC2 : C m2) by exact (keeps_C off m m2 Hoff HC K2).
          (* 4: the left operand, one frame offset higher *)
          destruct (Ll m2 p3 p4 (y mod W) sp inp HC2 Hc4 B4) as (b4 & m3 & T4 & K4).
          assert (K3 : keeps off m m3).
          { eapply keeps_trans; [exact K2|]. eapply keeps_weaken; [|exact K4]. lia. }
          assert (HC3 : C m3) by exact (keeps_C off m m3 Hoff HC K3).
          assert (Hsaved : rd m3 slot = y mod W).
          { rewrite (K4 slot). - unfold m2. apply rd_wr_same. - unfold T, slot, tlo in *. lia. - unfold slot. lia. }
          (* 5: LDBM 1; LDBI *)
          pose proof (exec_instr C m3 p4 p5 (LDBM 1) (x mod W) b4 inp Hi5 HC3 eq_refl B5) as T5.
          cbn [sem fst snd] in T5. rewrite (rd_sp m3 HC3) in T5.
          assert (R6 : readable (LDBI (size - 1 - off)) sp).
          { cbn [readable]. rewrite Hk, (wrap_temp slot Hslot). apply in_mem_temp. exact Hslot. }
          pose proof (exec_instr C m3 p5 p6 (LDBI (size - 1 - off)) (x mod W) sp inp Hi6 HC3 R6 B6) as T6.
          cbn [sem fst snd] in T6. rewrite Hk, (wrap_temp slot Hslot), Hsaved in T6.
          (* 6: the operator *)
          exists (y mod W), m3. split; [|exact K3].
          eapply taus_trans; [exact T1|]. eapply taus_trans; [exact T2|]. eapply taus_trans; [exact T3|].
          eapply taus_trans; [exact T4|]. eapply taus_trans; [exact T5|]. eapply taus_trans; [exact T6|].
          rewrite Hz. unfold opi in Hi7.
          destruct Ho as [-> | ->].
          -- exact (exec_instr C m3 p6 p7 ADD (x mod W) (y mod W) inp Hi7 HC3 I Hn).
          -- exact (exec_instr C m3 p6 p7 SUB (x mod W) (y mod W) inp Hi7 HC3 I Hn).
  Qed.

  (* the statement used in Properties_C01 *)
  Corollary expr_fragment : forall e off code, cg addr size nslots e RA off = Some code -> 0 <= off ->
    forall f st n s, eval f ge e st = Ret (Vint n) s -> env_ok st ->
    forall pos nxt a b inp, code_at C pos code nxt -> nxt < W ->
    exists k s', Isa.run k (mk pos a b 0 m0) inp [] = ([], inp, s', Cut) /\
                 pc s' = nxt /\ areg s' = n mod W /\ oreg s' = 0 /\ keeps off m0 (mem s').
  Proof.
    intros e off code Hcg Hoff f st n s He Henv pos nxt a b inp Hc Hn.
    destruct (cg_correct e RA off code Hcg Hoff f st (Vint n) s He Henv) as [_ (n' & Hn' & L)]. inversion Hn'; subst n'.
    destruct (L m0 pos nxt a b inp C_m0 Hc Hn) as (b' & m' & [k Hk] & K).
    exists k, (mk nxt (n mod W) b' 0 m'). repeat split; [exact Hk | exact K].
  Qed.
End Correct.
