(* AsmListingNamesProofs.v -- the names the assembler's lexer and parser put into directives contain no blank (they are
   identifiers: a letter followed by letters, digits and underscores, or the empty stale identifier), so the hypothesis
   `Forall name_ok prog` of C17_text_listing_reads_back holds for every program that comes from source text; the
   end-to-end statement follows: for every accepted SOURCE, the listing text read back is the structured listing. *)
From Coq Require Import ZArith Lia Bool List String Ascii.
From HexVerif Require Import WMap Isa AsmModel AsmLayout AsmSpec AsmStatements AsmLayoutProofs AsmFrontProofs
  AsmListingRead AsmListingReadProofs.
Import ListNotations.
Local Open Scope Z_scope.

Definition idstr_ok (s : string) : Prop := nospace (bytes_of_string s).
Definition chars_ok (acc : list Z) : Prop := Forall (fun c => (is_alnum c || (c =? 95)) = true) acc.

Lemma alnum_range c : (is_alnum c || (c =? 95)) = true -> 48 <= c <= 122.
Proof.
  unfold is_alnum, is_alpha, is_digit. intros H.
  repeat rewrite ?orb_true_iff, ?andb_true_iff, ?Z.leb_le, ?Z.eqb_eq in H. lia.
Qed.

Lemma string_of_chars_ok : forall acc, chars_ok acc -> idstr_ok (string_of_chars acc).
Proof.
  induction acc as [|c r IH]; intros H; [constructor|].
  inversion H as [|? ? Hc Hr]; subst. pose proof (alnum_range c Hc) as Rg.
  unfold idstr_ok. cbn [string_of_chars]. rewrite Z.mod_small by lia. rewrite bytes_char by lia.
  constructor; [lia | apply IH; exact Hr].
Qed.

Definition mode_ok (m : lmode) : Prop := match m with MIdent acc => chars_ok acc | _ => True end.
Definition tok_ok (lx : lexed) : Prop := idstr_ok (lx_id lx).
Definition st_ok (s : lstate) : Prop := idstr_ok (ls_id s).
Definition step_ok (r : list lexed * lmode * lstate * bool) : Prop :=
  let '(toks, m, s, _) := r in Forall tok_ok toks /\ mode_ok m /\ st_ok s.

Lemma start_action_ok c nxt s : st_ok s -> step_ok (start_action c nxt s).
Proof.
  intros Hs. unfold start_action, step_ok.
  destruct (is_space c); [repeat split; try constructor; destruct (c =? 10); exact Hs|].
  destruct (c =? 35); [repeat split; try constructor; exact Hs|].
  destruct (is_alpha c) eqn:Ea.
  { repeat split; try constructor; try exact Hs; try constructor. unfold is_alnum. rewrite Ea. reflexivity. }
  destruct (is_digit c); [repeat split; try constructor; exact Hs|].
  destruct (c =? 45); [repeat split; try constructor; try exact Hs; constructor|].
  destruct (c =? EOFc); repeat split; try constructor; try exact Hs; constructor.
Qed.

Lemma one_char_ok m c nxt s : st_ok s -> mode_ok m -> step_ok (one_char m c nxt s).
Proof.
  intros Hs Hm. destruct m as [| |acc|acc]; cbn [one_char].
  - apply start_action_ok; exact Hs.
  - destruct (c =? 10); [repeat split; try constructor; exact Hs|].
    destruct (c =? EOFc); [apply start_action_ok; exact Hs | repeat split; try constructor; exact Hs].
  - destruct (is_alnum c || (c =? 95)) eqn:E.
    + repeat split; try constructor; try exact Hs. cbn [mode_ok] in *. apply Forall_app. split; [exact Hm|]. constructor; [exact E | constructor].
    + cbn [mode_ok] in Hm. pose proof (string_of_chars_ok acc Hm) as Hn.
      set (s1 := set_id s (string_of_chars acc)).
      assert (Hs1 : st_ok s1) by exact Hn.
      pose proof (start_action_ok c nxt s1 Hs1) as Ha. unfold step_ok in *.
      destruct (start_action c nxt s1) as [[[toks m'] s'] stop]. destruct Ha as (A & B & C).
      repeat split; try assumption. constructor; [exact Hn | exact A].
  - destruct (is_digit c); [repeat split; try constructor; exact Hs|].
    set (s1 := set_val s (number_value acc)).
    assert (Hs1 : st_ok s1) by exact Hs.
    pose proof (start_action_ok c nxt s1 Hs1) as Ha. unfold step_ok in *.
    destruct (start_action c nxt s1) as [[[toks m'] s'] stop]. destruct Ha as (A & B & C).
    repeat split; try assumption. constructor; [exact Hs | exact A].
Qed.

Lemma lex_go_ok : forall rest c m s, st_ok s -> mode_ok m -> Forall tok_ok (lex_go rest c m s).
Proof.
  induction rest as [|b rest IH]; intros c m s Hs Hm; cbn [lex_go].
  - pose proof (one_char_ok m c EOFc s Hs Hm) as H1. unfold step_ok in H1.
    destruct (one_char m c EOFc s) as [[[t1 m1] s1] stop1]. destruct H1 as (A1 & B1 & C1).
    destruct stop1; [exact A1|].
    pose proof (one_char_ok m1 EOFc EOFc s1 C1 B1) as H2. unfold step_ok in H2.
    destruct (one_char m1 EOFc EOFc s1) as [[[t2 m2] s2] stop2]. destruct H2 as (A2 & B2 & C2).
    destruct stop2; [apply Forall_app; split; assumption|].
    pose proof (one_char_ok m2 EOFc EOFc s2 C2 B2) as H3. unfold step_ok in H3.
    destruct (one_char m2 EOFc EOFc s2) as [[[t3 m3] s3] stop3]. destruct H3 as (A3 & _).
    apply Forall_app; split; [assumption|]. apply Forall_app; split; assumption.
  - pose proof (one_char_ok m c (char_of_byte b) s Hs Hm) as H1. unfold step_ok in H1.
    destruct (one_char m c (char_of_byte b) s) as [[[toks m'] s'] stop]. destruct H1 as (A & B & C).
    destruct stop; [exact A|]. apply Forall_app; split; [exact A | apply IH; assumption].
Qed.

Lemma lex_ok src : Forall tok_ok (lex src).
Proof. unfold lex. destruct src; apply lex_go_ok; try exact I; constructor. Qed.

(* ------------------------------------------------------------------ parser *)
Lemma next_tok_ok rest : Forall tok_ok rest -> tok_ok (fst (next_tok rest)) /\ Forall tok_ok (snd (next_tok rest)).
Proof. intros H. destruct rest; cbn; [split; constructor | inversion H; subst; split; assumption]. Qed.

Lemma parse_integer_ok cur rest v rest' : Forall tok_ok rest -> parse_integer cur rest = Ok (v, rest') -> Forall tok_ok rest'.
Proof.
  unfold parse_integer. intros H E. destruct (lx_tok cur); try discriminate E.
  - injection E as _ <-. exact H.
  - destruct rest as [|n r]; [discriminate E|]. destruct (token_eqb (lx_tok n) TNUMBER); [|discriminate E].
    injection E as _ <-. inversion H; assumption.
Qed.

Lemma parse_directive_ok cur rest line col d rest' :
  tok_ok cur -> Forall tok_ok rest -> parse_directive cur rest = Ok (line, col, d, rest') ->
  name_ok d /\ Forall tok_ok rest'.
Proof.
  intros Hc Hr E. unfold parse_directive in E.
  destruct (next_tok_ok rest Hr) as [Hn Hr1]. destruct (next_tok rest) as [n rest1]. cbn [fst snd] in Hn, Hr1.
  destruct (lx_tok cur) eqn:Et; cbn [is_abs_opc is_rel_opc orb] in E; try discriminate E;
    try (destruct (token_eqb (lx_tok n) TIDENTIFIER);
         [ injection E as _ _ <- <-; split; [exact Hn | exact Hr1]
         | destruct (parse_integer n rest1) as [[v r2]| | |] eqn:Ei; try discriminate E;
           injection E as _ _ <- <-; split; [exact I | eapply parse_integer_ok; eauto] ]).
  - destruct (parse_integer n rest1) as [[v r2]| | |] eqn:Ei; try discriminate E.
    injection E as _ _ <- <-. split; [exact I | eapply parse_integer_ok; eauto].
  - injection E as _ _ <- <-. split; [exact Hn | exact Hr1].
  - injection E as _ _ <- <-. split; [exact Hn | exact Hr1].
  - destruct (opr_opc (lx_tok n)); [|discriminate E]. injection E as _ _ <- <-. split; [exact I | exact Hr1].
  - injection E as _ _ <- <-. split; [exact Hc | exact Hr].
Qed.

Lemma parse_go_ok : forall fuel rest acc l, Forall tok_ok rest -> Forall (fun x => name_ok (snd x)) acc ->
  parse_go fuel rest acc = Ok l -> Forall (fun x => name_ok (snd x)) l.
Proof.
  induction fuel as [|f IH]; intros rest acc l Hr Ha E; [discriminate E|].
  cbn [parse_go] in E. destruct (next_tok_ok rest Hr) as [Hn Hr1]. destruct (next_tok rest) as [cur rest1]. cbn [fst snd] in Hn, Hr1.
  destruct (token_eqb (lx_tok cur) TEOF).
  - injection E as <-. rewrite <- rev_alt. apply Forall_rev. exact Ha.
  - destruct (parse_directive cur rest1) as [[[[line col] d] rest2]| | |] eqn:Ed; try discriminate E.
    destruct (parse_directive_ok _ _ _ _ _ _ Hn Hr1 Ed) as [Hd Hr2].
    eapply IH; [exact Hr2 | | exact E]. constructor; [exact Hd | exact Ha].
Qed.

Theorem parse_names_ok src ldirs : parse (lex src) = Ok ldirs -> Forall name_ok (map (fun x => snd x) ldirs).
Proof.
  unfold parse. intros E. apply Forall_map. eapply parse_go_ok; [apply lex_ok | constructor | exact E].
Qed.

(* ------------------------------------------------------------------ end to end, from source bytes *)
Definition C17_reads_back_src_stmt : Prop :=
  forall src out, assemble src = Ok out -> small (ao_layout out) ->
    read_listing (listing_lines (ao_listing out) (ao_total out)) = Some (struct_listing (ao_layout out)) /\
    check_listing (struct_listing (ao_layout out)) (ao_image out) = true.

Theorem source_listing_reads_back : C17_reads_back_src_stmt.
Proof.
  intros src out H Sm. unfold assemble in H.
  destruct (parse (lex src)) as [ldirs| | |] eqn:Ep; try discriminate H.
  pose proof (parse_wf _ _ Ep) as Wf. pose proof (parse_names_ok _ _ Ep) as Nm.
  split.
  - exact (listing_reads_back _ _ _ Wf Nm H Sm).
  - exact (listing_ok _ _ _ Wf H Sm).
Qed.
