open Ascii
open BinInt
open BinNums
open Datatypes
open List
open String
open Vexp
open WMap

type rstate = { r_pc : coq_Z; r_areg : coq_Z; r_breg : coq_Z; r_oreg : 
                coq_Z; r_mem : t }

val n_pc : string

val n_areg : string

val n_breg : string

val n_oreg : string

val n_mem : string

val base_env : coq_Z -> (nat -> coq_Z) -> rstate -> env

val bind : env -> string -> coq_Z -> env

val env_wires : env -> (string * vexp) list -> env

val getv : string -> (string * coq_Z) list -> coq_Z -> coq_Z

val apply_write : t -> (string * (coq_Z * (coq_Z * coq_Z))) -> t

val cycle_env : design -> coq_Z -> (nat -> coq_Z) -> rstate -> env

val state_of :
  rstate -> (string * coq_Z) list -> (string * (coq_Z * (coq_Z * coq_Z)))
  list -> rstate

val cycle_gen : design -> coq_Z -> (nat -> coq_Z) -> rstate -> rstate

val cycle : design -> rstate -> rstate

val outs : design -> rstate -> (string * coq_Z) list

val wire : design -> rstate -> string -> coq_Z
