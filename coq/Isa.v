(* Isa.v -- THE SPEC: the Hex architecture, transcribed from docs/PDFs/hexb.pdf pp. 4-5 (instruction
   definitions) and pp. 8-10 (reference simulator: main loop, svc, simout, simin).
   Words are integers in [0, 2^32); memory is word addressed; instructions are bytes.
   This file contains no proofs and nothing that models the C++ or the Verilog. *)
From Coq Require Import ZArith List.
From HexVerif Require Import WMap.
Import ListNotations.
Local Open Scope Z_scope.

Definition W : Z := 4294967296.                      (* 2^32: "unsigned int" of the reference *)
Definition MEMW : Z := 200000.                       (* unsigned int mem[200000] *)
Definition wrap (x : Z) : Z := x mod W.
Definition negative (x : Z) : bool := 2147483648 <=? x.      (* (int)areg < 0 *)
Definition signed (x : Z) : Z := if negative x then x - W else x.

Record arch := { pc : Z; areg : Z; breg : Z; oreg : Z; mem : WMap.t }.

(* input: the console stream and the eight sim files, each a list of bytes still to be read *)
Record inputs := { console : list Z; files : Z -> list Z }.
Inductive event := Tau | Exit (code : Z) | Write (byte stream : Z) | Read (stream got : Z).
Inductive undefined := BadOpcode (byte : Z) | BadOpr (operand : Z) | BadSvc (a : Z) | BadAddress (a : Z).
Inductive result (A : Type) := Ok (a : A) | Undefined (u : undefined).
Arguments Ok {A}. Arguments Undefined {A}.

(* pmem[pc]: byte pc of the little-endian word memory *)
Definition fetch (s : arch) : Z := (rd (mem s) (pc s / 4) / 2 ^ (8 * (pc s mod 4))) mod 256.

(* simin(s): stream < 256 as a signed int is the console, otherwise file (s >> 8) & 7; EOF is -1 *)
Definition next_byte (l : list Z) : Z * list Z := match l with [] => (-1, []) | b :: r => (b, r) end.
Definition is_console (stream : Z) : bool := signed stream <? 256.
Definition file_index (stream : Z) : Z := (stream / 256) mod 8.
Definition simin (inp : inputs) (stream : Z) : Z * inputs :=
  if is_console stream then
    let '(b, r) := next_byte (console inp) in (b, {| console := r; files := files inp |})
  else
    let f := file_index stream in
    let '(b, r) := next_byte (files inp f) in
    (b, {| console := console inp; files := fun g => if g =? f then r else files inp g |}).

Definition in_mem (a : Z) : bool := (0 <=? a) && (a <? MEMW).

Definition step (s : arch) (inp : inputs) : result (arch * inputs * event) :=
  if negb (in_mem (pc s / 4)) then Undefined (BadAddress (pc s / 4)) else
  let inst := fetch s in
  let pc1 := wrap (pc s + 1) in
  let o := Z.lor (oreg s) (inst mod 16) in                         (* oreg = oreg | (inst & 0xf) *)
  let upd f := Ok (f, inp, Tau) in
  let rdm a k := if in_mem a then k (rd (mem s) a) else Undefined (BadAddress a) in
  let wrm a v k := if in_mem a then k (wr (mem s) a v) else Undefined (BadAddress a) in
  match inst / 16 with
  | 0  (* LDAM *) => rdm o (fun v => upd {| pc := pc1; areg := v; breg := breg s; oreg := 0; mem := mem s |})
  | 1  (* LDBM *) => rdm o (fun v => upd {| pc := pc1; areg := areg s; breg := v; oreg := 0; mem := mem s |})
  | 2  (* STAM *) => wrm o (areg s) (fun m => upd {| pc := pc1; areg := areg s; breg := breg s; oreg := 0; mem := m |})
  | 3  (* LDAC *) => upd {| pc := pc1; areg := o; breg := breg s; oreg := 0; mem := mem s |}
  | 4  (* LDBC *) => upd {| pc := pc1; areg := areg s; breg := o; oreg := 0; mem := mem s |}
  | 5  (* LDAP *) => upd {| pc := pc1; areg := wrap (pc1 + o); breg := breg s; oreg := 0; mem := mem s |}
  | 6  (* LDAI *) => rdm (wrap (areg s + o)) (fun v => upd {| pc := pc1; areg := v; breg := breg s; oreg := 0; mem := mem s |})
  | 7  (* LDBI *) => rdm (wrap (breg s + o)) (fun v => upd {| pc := pc1; areg := areg s; breg := v; oreg := 0; mem := mem s |})
  | 8  (* STAI *) => wrm (wrap (breg s + o)) (areg s) (fun m => upd {| pc := pc1; areg := areg s; breg := breg s; oreg := 0; mem := m |})
  | 9  (* BR   *) => upd {| pc := wrap (pc1 + o); areg := areg s; breg := breg s; oreg := 0; mem := mem s |}
  | 10 (* BRZ  *) => upd {| pc := if areg s =? 0 then wrap (pc1 + o) else pc1; areg := areg s; breg := breg s; oreg := 0; mem := mem s |}
  | 11 (* BRN  *) => upd {| pc := if negative (areg s) then wrap (pc1 + o) else pc1; areg := areg s; breg := breg s; oreg := 0; mem := mem s |}
  | 14 (* PFIX *) => upd {| pc := pc1; areg := areg s; breg := breg s; oreg := wrap (o * 16); mem := mem s |}
  | 15 (* NFIX *) => upd {| pc := pc1; areg := areg s; breg := breg s; oreg := Z.lor 4294967040 (wrap (o * 16)); mem := mem s |}
  | 13 (* OPR  *) =>
      match o with
      | 0 (* BRB *) => upd {| pc := breg s; areg := areg s; breg := breg s; oreg := 0; mem := mem s |}
      | 1 (* ADD *) => upd {| pc := pc1; areg := wrap (areg s + breg s); breg := breg s; oreg := 0; mem := mem s |}
      | 2 (* SUB *) => upd {| pc := pc1; areg := wrap (areg s - breg s); breg := breg s; oreg := 0; mem := mem s |}
      | 3 (* SVC *) =>
          let s' m := {| pc := pc1; areg := areg s; breg := breg s; oreg := 0; mem := m |} in
          rdm 1 (fun sp =>                                            (* sp = mem[1] *)
          match areg s with
          | 0 => rdm (wrap (sp + 2)) (fun c => Ok (s' (mem s), inp, Exit c))
          | 1 => rdm (wrap (sp + 2)) (fun b => rdm (wrap (sp + 3)) (fun st => Ok (s' (mem s), inp, Write (b mod 256) st)))
          | 2 => rdm (wrap (sp + 2)) (fun st =>
                   let '(b, inp') := simin inp st in
                   wrm (wrap (sp + 1)) (b mod 256) (fun m => Ok (s' m, inp', Read st (b mod 256))))
          | a => Undefined (BadSvc a)
          end)
      | x => Undefined (BadOpr x)
      end
  | _ => Undefined (BadOpcode inst)
  end.

(* the unique trace of a state and an input, up to n instructions *)
Inductive stop := Exited (code : Z) | Stuck (u : undefined) | Cut.
Fixpoint run (n : nat) (s : arch) (inp : inputs) (evs : list event) : list event * inputs * arch * stop :=
  match n with
  | O => (rev evs, inp, s, Cut)
  | S k => match step s inp with
           | Undefined u => (rev evs, inp, s, Stuck u)
           | Ok (s', inp', Exit c) => (rev (Exit c :: evs), inp', s', Exited c)
           | Ok (s', inp', Tau) => run k s' inp' evs
           | Ok (s', inp', e) => run k s' inp' (e :: evs)
           end
  end.

(* the image of a binary: words loaded at address 0 into zero memory, all registers clear *)
Definition boot (ws : list Z) : arch :=
  {| pc := 0; areg := 0; breg := 0; oreg := 0; mem := load_words WMap.zero 0 ws |}.

(* little-endian packing of bytes into words (the binary file format's image part) *)
Fixpoint words_of_bytes (bs : list Z) : list Z :=
  match bs with
  | b0 :: b1 :: b2 :: b3 :: r => (b0 + 256 * b1 + 65536 * b2 + 16777216 * b3) :: words_of_bytes r
  | [] => []
  | [b0] => [b0]
  | [b0; b1] => [b0 + 256 * b1]
  | [b0; b1; b2] => [b0 + 256 * b1 + 65536 * b2]
  end.
