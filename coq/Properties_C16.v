(* Properties_C16.v -- C16: processor.v is behaviourally identical to processor.sv.
   RtlSv / RtlV / RtlVSynth are regenerated from /repo's working tree by tools/vl2coq.py on every run. *)
From Coq Require Import ZArith List String.
From HexVerif Require Import Vexp RtlEquiv RtlC16.
From HexVerif.gen Require RtlSv RtlV RtlVSynth.
Import ListNotations.
Local Open Scope Z_scope.
Local Open Scope string_scope.

(* every output port and every next-state function (and, vacuously here, every cut wire and memory write) of the
   sv2v translation equals that of processor.sv: for every instruction byte, both reset levels, every register value,
   every i_d_data and every value of the don't-care constants X k -- AND the clocked blocks that assign the registers have
   the same sensitivity lists (e.g. both `posedge i_clk or posedge i_rst`: a synchronous-reset rewrite of one file computes
   the same next-state functions but reacts differently to a reset pulse between clock edges) *)
Theorem C16_equiv :
  clocking RtlV.design = clocking RtlSv.design /\
  forall e : env, 0 <= var e "i_f_data" < 256 -> (var e "i_rst" = 0 \/ var e "i_rst" = 1) ->
  map (evalp e) (outputs RtlV.design) = map (evalp e) (outputs RtlSv.design) /\
  map (evalp e) (next RtlV.design) = map (evalp e) (next RtlSv.design) /\
  map (evalp e) (wires RtlV.design) = map (evalp e) (wires RtlSv.design) /\
  map (evalw e) (mem_writes RtlV.design) = map (evalw e) (mem_writes RtlSv.design).
Proof. exact (conj v_clocking_sv v_equiv_sv). Qed.
Print Assumptions C16_equiv.

(* synth/processor.v and verilog/processor.v are the same design: same sensitivity lists, all outputs and next-state
   functions agree for every input and state (on the pinned tree the two even elaborate to the same value; the check
   reports that separately) *)
Theorem C16_copies_identical :
  clocking RtlVSynth.design = clocking RtlV.design /\
  forall e : env, 0 <= var e "i_f_data" < 256 -> (var e "i_rst" = 0 \/ var e "i_rst" = 1) ->
  map (evalp e) (outputs RtlVSynth.design) = map (evalp e) (outputs RtlV.design) /\
  map (evalp e) (next RtlVSynth.design) = map (evalp e) (next RtlV.design) /\
  map (evalp e) (wires RtlVSynth.design) = map (evalp e) (wires RtlV.design) /\
  map (evalw e) (mem_writes RtlVSynth.design) = map (evalw e) (mem_writes RtlV.design).
Proof. exact (conj vsynth_clocking_v vsynth_equiv_v). Qed.
Print Assumptions C16_copies_identical.

(* non-vacuity *)
Example C16_interface :
  map fst (outputs RtlSv.design) = ["o_d_addr"; "o_d_data"; "o_d_valid"; "o_d_we"; "o_f_addr"; "o_f_valid"; "o_syscall"; "o_syscall_valid"] /\
  map fst (next RtlSv.design) = ["areg_q"; "breg_q"; "oreg_q"; "pc_q"].
Proof. exact interface_sv. Qed.
Example C16_designs_compute :
  map (evalp (demo_env 145)) (next RtlV.design) = [("areg_q", 7); ("breg_q", 5); ("oreg_q", 0); ("pc_q", 102)] /\
  map (evalp (demo_env 209)) (next RtlV.design) = [("areg_q", 12); ("breg_q", 5); ("oreg_q", 0); ("pc_q", 101)] /\
  map (evalp (demo_env 35)) (outputs RtlV.design) =
    [("o_d_addr", 3); ("o_d_data", 7); ("o_d_valid", 1); ("o_d_we", 1); ("o_f_addr", 100); ("o_f_valid", 1); ("o_syscall", 3); ("o_syscall_valid", 0)].
Proof. exact demo_values. Qed.
Example C16_checker_rejects_a_broken_design :
  proc_equiv_check (broken RtlSv.design) RtlSv.design = false /\
  map fst (proc_equiv_failures (broken RtlSv.design) RtlSv.design) = [209].
Proof. exact checker_discriminates. Qed.
Example C16_clocking : clocking RtlSv.design =
  [("areg_q", ["posedge i_clk"; "posedge i_rst"]); ("breg_q", ["posedge i_clk"; "posedge i_rst"]);
   ("oreg_q", ["posedge i_clk"; "posedge i_rst"]); ("pc_q", ["posedge i_clk"; "posedge i_rst"])].
Proof. reflexivity. Qed.
