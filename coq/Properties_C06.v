(* Properties_C06.v -- C06: a binary behaves identically on the RTL testbench (hextb) and on the simulator (hexsim).
   TbModel.run = hextb.cpp over the generated RTL (any power-on state); SimModel.run = hexsim.hpp (C02's model) from
   cpp_init.  Both loaders read the words the header announces (hextb.cpp since its repair; the debug tables behind the
   image are not program memory) and reject a file without header or with more than 200000 words announced: [file_ok],
   [loaded_words]; everything else is zero in hexsim, and in the RTL memory too since load() clears it before copying the
   image (C13_load_clears_memory; known_findings.json: fixed, kind power-on / how memory). *)
From Coq Require Import ZArith List String.
From HexVerif Require Import WMap Isa Vexp RtlSem TbModel TbProofs.
From HexVerif Require SimModel.
From HexVerif.gen Require RtlHex.
Import ListNotations.
Local Open Scope Z_scope.

(* for every power-on state, every file and input that are well-behaved (ISA trace from the loaded words on zeroed memory
   defined, in range, read-safe) and whose ISA run exits within n instructions: hextb
   (9 + 2n loop iterations suffice) and hexsim produce the ISA's events, leave the same input unread and return the same
   exit code.
   step_safe's read clause (a READ does not overwrite the word of its own SVC) excludes a shape that lies inside the
   property's literal quantifier: KNOWN FINDING, see known_findings.json (kind read-overwrites-own-svc: hextb retires the
   overwritten byte, hexsim the SVC), exhibited by tools/c06.py on every run with a hand-assembled binary.
   The former hypothesis "nothing outside the image is read before it is written" is gone with the repair of load(): programs
   such as tests/asm/hello_procedure.S, which exits with a word it never wrote, are covered (C06_unwritten_read below).
   The former hypothesis "the first instruction is not a system call" is gone: since the repair of hextb.cpp the request of
   the instruction at address 0 is sampled at the last reset edge (known_findings.json: fixed, kind first-instruction-svc). *)
Theorem C06_tb_equals_sim_partial : forall (i : init) (file : list Z) (inp : inputs) (n : nat)
    (tr : list event) (inp' : inputs) (a' : arch) (c : Z),
  let ws := loaded_words file in
  file_ok file ->
  well_behaved ws inp ->
  Isa.run n (boot ws) inp [] = (tr, inp', a', Exited c) ->
  (exists st, run Current RtlHex.design (9 + 2 * n) 0 (power_on Current i file) inp [] = (tr, inp', st, TReturned (SimModel.to_int c))) /\
  (exists s, SimModel.run n 0 (SimModel.cpp_init ws) inp [] = (tr, inp', s, SimModel.Returned (SimModel.to_int c))).
Proof. exact tb_equals_sim. Qed.
Print Assumptions C06_tb_equals_sim_partial.
(* _partial: what is missing is exactly the READ clause of step_safe inside well_behaved.  The full statement (monitor
   without that clause: well_behaved0) is false -- known finding read-overwrites-own-svc: *)
Definition C06_tb_equals_sim_full : Prop :=
  forall (i : init) (file : list Z) (inp : inputs) (n : nat) (tr : list event) (inp' : inputs) (a' : arch) (c : Z),
  let ws := loaded_words file in
  file_ok file -> well_behaved0 ws inp ->
  Isa.run n (boot ws) inp [] = (tr, inp', a', Exited c) ->
  (exists st, run Current RtlHex.design (9 + 2 * n) 0 (power_on Current i file) inp [] = (tr, inp', st, TReturned (SimModel.to_int c))) /\
  (exists s, SimModel.run n 0 (SimModel.cpp_init ws) inp [] = (tr, inp', s, SimModel.Returned (SimModel.to_int c))).
Theorem C06_tb_equals_sim_full_refuted : ~ C06_tb_equals_sim_full.
Proof. exact tb_equals_sim_full_refuted. Qed.
Print Assumptions C06_tb_equals_sim_full_refuted.

(* the well-behavedness hypothesis is decided by a finite computation for a run that exits *)
Theorem C06_well_behaved_decidable : forall (N : nat) (a : arch) (inp : inputs) (evs tr : list event)
    (inp' : inputs) (a' : arch) (c : Z),
  Isa.run N a inp evs = (tr, inp', a', Exited c) -> safe_mon N a inp = true -> forall n, safe_mon n a inp = true.
Proof. exact safe_exited. Qed.
Print Assumptions C06_well_behaved_decidable.

(* ------------------------------------------------------------------ non-vacuity: `proc main() is exit(7)` as compiled by xcmp *)
Example C06_hypotheses_satisfiable :
  file_ok exit7_file /\
  well_behaved (loaded_words exit7_file) no_input /\
  exists a', Isa.run 20 (boot (loaded_words exit7_file)) no_input [] = ([Exit 7], no_input, a', Exited 7).
Proof. split; [exact exit7_file_ok|]. split; [exact exit7_well_behaved_loaded | exact exit7_isa_run]. Qed.
(* files the loader rejects (no header; 200001 words announced) never reach run(): main returns 1, as hexsim's does *)
Example C06_loader_rejects :
  tb_main Current RtlHex.design 100 0 (planted 0 0 false) [1; 0] no_input = None /\
  tb_main Current RtlHex.design 100 0 (planted 0 0 false) [] no_input = None /\
  tb_main Current RtlHex.design 100 0 (planted 0 0 false) [65; 13; 3; 0; 211; 0; 0; 0] no_input = None /\
  (exists r, tb_main Current RtlHex.design 100 0 (planted 0 0 false) exit7_file no_input = Some r /\ outcome r = ([Exit 7], TReturned 7)).
Proof. exact loader_rejects. Qed.
(* a binary whose first instruction is OPR SVC (EXIT 42) satisfies the hypotheses; the testbench now exits with 42 *)
Example C06_first_instruction_svc :
  outcome (run Previous RtlHex.design 60 0 (power_on Previous (planted 0 0 false) first_svc_file) no_input []) = ([Exit 9], TReturned 9) /\
  outcome (run Current RtlHex.design 60 0 (power_on Current (planted 0 0 false) first_svc_file) no_input []) = ([Exit 42], TReturned 42) /\
  outcome (run Current RtlHex.design 60 0 (power_on Current (planted 13 1 true) first_svc_file) no_input []) = ([Exit 42], TReturned 42) /\
  (exists a', Isa.run 5 (boot (loaded_words first_svc_file)) no_input [] = ([Exit 42], no_input, a', Exited 42)) /\
  well_behaved (loaded_words first_svc_file) no_input.
Proof. exact first_svc_witness. Qed.
(* a binary that reads words outside its image (exit word never written) satisfies the hypotheses: hextb exits with 0 from
   every power-on contents, as the ISA and hexsim do; before load() cleared the memory it returned the power-on word *)
Example C06_unwritten_read :
  outcome (run Previous RtlHex.design 60 0 (power_on Previous (filled 0) unwritten_read_file) no_input []) = ([Exit 0], TReturned 0) /\
  outcome (run Previous RtlHex.design 60 0 (power_on Previous (filled 5) unwritten_read_file) no_input []) = ([Exit 5], TReturned 5) /\
  outcome (run Current RtlHex.design 60 0 (power_on Current (filled 0) unwritten_read_file) no_input []) = ([Exit 0], TReturned 0) /\
  outcome (run Current RtlHex.design 60 0 (power_on Current (filled 5) unwritten_read_file) no_input []) = ([Exit 0], TReturned 0) /\
  (exists a', Isa.run 5 (boot (loaded_words unwritten_read_file)) no_input [] = ([Exit 0], no_input, a', Exited 0)) /\
  file_ok unwritten_read_file /\ well_behaved (loaded_words unwritten_read_file) no_input.
Proof. exact clearing_witness. Qed.
