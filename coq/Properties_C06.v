(* Properties_C06.v -- C06: a binary behaves identically on the RTL testbench (hextb) and on the simulator (hexsim).
   TbModel.run = hextb.cpp over the generated RTL (any power-on state); SimModel.run = hexsim.hpp (C02's model) from
   cpp_init.  hextb's loader copies the whole rest of the file (image + symbol tables), hexsim's the hw image words of
   the header: ws = the first hw loaded words is what both initialise identically. *)
From Coq Require Import ZArith List String.
From HexVerif Require Import WMap Isa Vexp RtlSem TbModel TbProofs.
From HexVerif Require SimModel.
From HexVerif.gen Require RtlHex.
Import ListNotations.
Local Open Scope Z_scope.

(* for every power-on state, every file and input that are well-behaved on the image (ISA trace defined, in range,
   read-safe, nothing read outside the image before it is written) and whose ISA run exits within n instructions: hextb
   (9 + 2n loop iterations suffice) and hexsim produce the ISA's events, leave the same input unread and return the same
   exit code.
   step_safe's read clause (a READ does not overwrite the word of its own SVC) excludes a shape that lies inside the
   property's literal quantifier: KNOWN FINDING, see known_findings.json (kind read-overwrites-own-svc: hextb retires the
   overwritten byte, hexsim the SVC), exhibited by tools/c06.py on every run with a hand-assembled binary.
   The former hypothesis "the first instruction is not a system call" is gone: since the repair of hextb.cpp the request of
   the instruction at address 0 is sampled at the last reset edge (known_findings.json: fixed, kind first-instruction-svc). *)
Theorem C06_tb_equals_sim : forall (i : init) (file : list Z) (hw : nat) (inp : inputs) (n : nat)
    (tr : list event) (inp' : inputs) (a' : arch) (c : Z),
  let ws := firstn hw (loaded_words file) in
  bytes_ok file -> (hw <= List.length (loaded_words file))%nat ->
  well_behaved (Z.of_nat hw) ws inp ->
  Isa.run n (boot ws) inp [] = (tr, inp', a', Exited c) ->
  (exists st, run Current RtlHex.design (9 + 2 * n) 0 (power_on i file) inp [] = (tr, inp', st, TReturned (SimModel.to_int c))) /\
  (exists s, SimModel.run n 0 (SimModel.cpp_init ws) inp [] = (tr, inp', s, SimModel.Returned (SimModel.to_int c))).
Proof. exact tb_equals_sim. Qed.
Print Assumptions C06_tb_equals_sim.

(* the well-behavedness hypothesis is decided by a finite computation for a run that exits *)
Theorem C06_well_behaved_decidable : forall (N : nat) (D : Z -> bool) (a : arch) (inp : inputs) (evs tr : list event)
    (inp' : inputs) (a' : arch) (c : Z),
  Isa.run N a inp evs = (tr, inp', a', Exited c) -> wb_mon D N a inp = true -> forall n, wb_mon D n a inp = true.
Proof. exact wb_exited. Qed.
Print Assumptions C06_well_behaved_decidable.

(* ------------------------------------------------------------------ non-vacuity: `proc main() is exit(7)` as compiled by xcmp *)
Example C06_hypotheses_satisfiable :
  bytes_ok exit7_file /\ (9 <= List.length (loaded_words exit7_file))%nat /\
  well_behaved 9 (firstn 9 (loaded_words exit7_file)) no_input /\
  exists a', Isa.run 20 (boot (firstn 9 (loaded_words exit7_file))) no_input [] = ([Exit 7], no_input, a', Exited 7).
Proof. split; [exact exit7_bytes_ok|]. split; [vm_compute; repeat constructor|]. split; [exact exit7_well_behaved_image | exact exit7_isa_run]. Qed.
(* a binary whose first instruction is OPR SVC (EXIT 42) satisfies the hypotheses; the testbench now exits with 42 *)
Example C06_first_instruction_svc :
  outcome (run Previous RtlHex.design 60 0 (power_on (planted 0 0 false) first_svc_file) no_input []) = ([Exit 9], TReturned 9) /\
  outcome (run Current RtlHex.design 60 0 (power_on (planted 0 0 false) first_svc_file) no_input []) = ([Exit 42], TReturned 42) /\
  outcome (run Current RtlHex.design 60 0 (power_on (planted 13 1 true) first_svc_file) no_input []) = ([Exit 42], TReturned 42) /\
  (exists a', Isa.run 5 (boot (loaded_words first_svc_file)) no_input [] = ([Exit 42], no_input, a', Exited 42)) /\
  well_behaved 5 (loaded_words first_svc_file) no_input.
Proof. exact first_svc_witness. Qed.
