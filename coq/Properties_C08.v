(* Properties_C08.v -- generated code stays inside its memory regions and balances the stack.
   ONLY statements, each closed by `exact <lemma>`, with Print Assumptions, plus non-vacuity examples.
   Specs: Isa.v (the machine), XSem.v (which programs are well-defined).  IsaMon.v / IsaMonProofs.v: the access lists of
   Isa.step and the executable monitor.

   What is proved for ALL states/runs: the access list is complete (a step depends on memory only through
   the listed words, and changes memory only at a listed Store), and the executable monitor is sound (if it
   accepts a run, the five clauses of C08 hold of that run as propositions).
   What is NOT proved: that the monitor accepts the run of every well-defined program the real xcmp compiles
   (that needs the full code-generator model, DESIGN.md C01 Layer C).  That part is decided per explored
   program by running the extracted monitor on the real compiler's binary (tools/c08.py): translation
   validation, with the validator's soundness proved here. *)
From Coq Require Import ZArith List String Lia.
From HexVerif Require Import WMap Isa IsaMon IsaMonProofs XAst XSem XCodegenIsa XCodegenInv XCodegenExpr XCodegenStmt XCodegenCall XCodegenImage XCodegenDemo.
Import ListNotations.
Local Open Scope Z_scope.

Definition console_input (inp : list Z) : inputs := {| console := inp; files := fun _ => [] |}.

(* The full property, for a compile function and a function giving the regions of an image (data words,
   end of image, return address of main, load-time stack pointer): every run of the image of a well-defined
   program satisfies the five clauses, for every run length. *)
Definition C08_full (compile : program -> option (list Z)) (layout_of : list Z -> layout) : Prop :=
  forall p inp b img n,
    XSem.run p inp = Behaviour b -> compile p = Some img ->
    C08_clauses (layout_of img) n (boot img) (console_input inp).

(* (1) the monitor sees every access: two memories that agree on the words `accesses` lists give the same
   step -- same registers, input, event, same (at most one) memory write at a listed Store address *)
Theorem C08_step_accesses_complete : forall s1 s2 inp,
  same_regs s1 s2 -> agree_on s1 s2 -> step_sim s1 s2 (step s1 inp) (step s2 inp).
Proof. exact step_accesses_complete. Qed.
Print Assumptions C08_step_accesses_complete.

Theorem C08_step_writes_only_stores : forall s inp s' inp' ev,
  step s inp = Ok (s', inp', ev) ->
  mem s' = mem s \/ exists a v, mem s' = wr (mem s) a v /\ In (Store, a) (accesses s).
Proof. exact step_writes_only_stores. Qed.
Print Assumptions C08_step_writes_only_stores.

(* (2) the executable monitor is sound for the five clauses *)
Theorem C08_monitor_sound : forall L n s inp, mon_ok L n s inp = true -> C08_clauses L n s inp.
Proof. exact monitor_sound. Qed.
Print Assumptions C08_monitor_sound.

(* (3) a step whose accesses the monitor accepts is never undefined because of an address *)
Theorem C08_accepted_step_not_badaddress : forall L s inp a,
  forallb (acc_ok L) (accesses s) = true -> step s inp <> Undefined (BadAddress a).
Proof. exact accepted_step_not_badaddress. Qed.
Print Assumptions C08_accepted_step_not_badaddress.

(* (4) PARTIAL: the property for one validated run.  Missing for C08_full: a proof that
   `mon_ok (layout_of img) n (boot img) (console_input inp) = true` holds for EVERY well-defined p with
   compile p = Some img; tools/c08.py establishes the hypothesis by computation for each explored program. *)
Theorem C08_validated_run_partial : forall (compile : program -> option (list Z)) (layout_of : list Z -> layout) p inp img n,
  compile p = Some img ->
  mon_ok (layout_of img) n (boot img) (console_input inp) = true ->
  C08_clauses (layout_of img) n (boot img) (console_input inp).
Proof. intros compile layout_of p inp img n _. exact (monitor_sound (layout_of img) n (boot img) (console_input inp)). Qed.
Print Assumptions C08_validated_run_partial.

(* (5) PARTIAL: the frame discipline of the generated code, proved for the statement fragment of
   Properties_C01.C01_stmt_fragment_partial (skip, return, if, while, sequences, assignment, put, get -- no calls), at
   statement granularity: when the code xcmp's model generates for a statement has run to its end (XSem executes
   the statement normally from a related state), the stack-pointer word mem[1] holds what it held, no protected
   word (code, constant pool) has changed, and every other change lies in the procedure's temporaries, its
   outgoing area [sp, sp+og), or the word of a variable in scope (a global's DATA word, a local or formal frame
   word).  `stmt_ok .. f` is the conclusion of C01_stmt_fragment_partial (no calls: pinfo empty, Fr empty; proved for
   every f) and of C01_stmt_calls_partial (procedure-call statements, relative to the callees' specification; then
   the free stack Fr below the frame counts as scratch: that is where callees put their frames).
   Missing for C08_full: the clauses for every intermediate access (this is the net effect between statement
   boundaries; the per-access clauses are decided per program by the monitor, C08_monitor_sound), calls inside
   operands (procedure calls and function calls as right-hand sides: (6)), and the entry/exit stub. *)
Theorem C08_frame_discipline_partial :
  forall pinfo Fr Dq venv aenv garr abase alen_of pool size nslots off0 og exitl ge P m0 lab sp f,
    stmt_ok pinfo Fr Dq venv aenv garr abase alen_of pool size nslots off0 og exitl ge P m0 lab sp f ->
    forall s n code n' st st', cs pinfo venv pool size nslots aenv off0 og exitl s n = Some (code, n') ->
    exec f ge s st = Ret Normal st' ->
    forall m pos nxt a b inp, Rel pinfo Dq venv aenv garr abase alen_of ge P m0 sp st m -> console inp = input st ->
    code_at (C P m0) lab pos code nxt ->
    0 <= pos -> nxt < W -> 0 <= lab exitl < W ->
    exists evs a' b' m',
      runs inp (mk pos a b 0 m) evs (adv inp st') (mk nxt a' b' 0 m') /\
      rd m' 1 = rd m 1 /\
      (forall x, 0 <= x -> P x -> rd m' x = rd m x) /\
      (forall x, 0 <= x -> ~ scratch Fr size nslots off0 og sp x -> ~ var_word venv garr abase alen_of sp x -> rd m' x = rd m x).
Proof. exact frame_discipline. Qed.
Print Assumptions C08_frame_discipline_partial.

(* (6) PARTIAL: prologue/epilogue balance and the frame discipline ACROSS a procedure or function call, in the setting
   of Properties_C01.C01_calls_partial (simple procedures and functions: value and array formals, var locals, no shadowing of globals; code =
   prologue ++ body ++ exit label ++ epilogue before the peepholes; globals below stack_lo; stack budget
   stack_lo + (maxdepth - depth) * maxframe <= sp in Rel).  When control is at the entry label of a procedure of the
   table with the link address in areg and the actuals in the caller's outgoing words, and XSem's `invoke` returns
   (any fuel, any nesting and recursion below it), then the machine comes back to the link address, and at that
   point the stack-pointer word mem[1] holds what it held before the call (the callee's prologue and epilogue
   balance, and so do those of everything it called), no protected word (code, constant pool) has changed, and every
   other changed word lies in the caller's temporaries, its outgoing area [sp, sp+og), the free stack
   [stack_lo, sp) below its frame (where the callee's frames were), or is the word of a variable in the caller's
   scope.  In particular the callee did not write the caller's locals, formals, or anything above the caller's
   frame, and never went below stack_lo.
   (koff pi = 1 for a procedure, 2 for a function: where the actuals start; a function also writes its result to
   the caller's outgoing word sp+1, which is part of [sp, sp+og).)  Global arrays: the word of the name lies with the
   globals, the cells in [stack_hi, 200000) above the stack; the cells of the arrays count as words of variables
   in scope (var_word), so a callee may assign elements (of a global array under its name, or through an array formal:
   an array actual is the address of the cells, arg_ok); everything else above the caller's frame is untouched.
   Missing for C08_full: calls inside operands, the per-access form of the clauses inside the callee (net effect at the
   return only; per access: the monitor), proc/func formals, the entry/exit stub. *)
Theorem C08_call_discipline_partial :
  forall (ge : genv) (gaddr aaddr : string -> option Z) (abase alen_of : string -> Z) (pool : Z -> option Z) (P : Z -> Prop)
         (m0 : WMap.t) (lab : label -> Z) (pinfo : string -> option pframe) (stack_lo stack_hi maxframe : Z),
    (forall p pi, pinfo p = Some pi ->
       0 <= lab (pf_entry pi) /\
       exists pr fn ln L bc n' endp,
         find_proc p (g_procs ge) = Some pr /\ pf_isfunc pi = is_func pr /\ simple_proc gaddr aaddr pr fn ln /\
         numbers_ok maxframe pr L /\
         cs pinfo (frame_venv gaddr pr (pl_size L)) pool (pl_size L) (pl_nslots L) (frame_aenv aaddr pr (pl_size L)) (first_temp pr) (pl_og L)
            (pl_exit L) (body pr) (pl_n0 L) = Some (bc, n') /\
         code_at (C P m0) lab (lab (pf_entry pi)) (pro (pl_size L) ++ bc ++ epi_of (is_func pr) (pl_exit L) (pl_size L)) endp /\ endp < W) ->
    (forall x a, gaddr x = Some a -> in_mem a = true /\ ~ P a /\ a <> 1 /\ a < stack_lo /\ assoc x (g_vals ge) = None) ->
    (forall x y a b, gaddr x = Some a -> gaddr y = Some b -> x <> y -> a <> b) ->
    1 < stack_lo /\ (forall a, stack_lo <= a < MEMW -> ~ P a) ->
    ~ P 1 ->
    (forall v a, pool v = Some a -> P a /\ in_mem a = true /\ rd m0 a = v mod W) ->
    (forall p pi, pinfo p = Some pi -> assoc p (g_vals ge) = None) ->
    0 <= maxframe ->
    stack_hi <= MEMW ->
    (forall a w, aaddr a = Some w ->
       in_mem w = true /\ ~ P w /\ w <> 1 /\ w < stack_lo /\ (forall x g, gaddr x = Some g -> g <> w) /\
       forall i, 0 <= i < alen_of a -> stack_hi <= abase a + i < MEMW /\ ~ P (abase a + i)) ->
    (forall a w a' w' i i', aaddr a = Some w -> aaddr a' = Some w' -> 0 <= i < alen_of a -> 0 <= i' < alen_of a' ->
       abase a + i = abase a' + i' -> a = a' /\ i = i') ->
    forall f pr fn ln L sp, frame_ok gaddr aaddr stack_lo stack_hi maxframe pr fn ln L sp ->
    forall p pi vs st v st' m link b inp, pinfo p = Some pi ->
      Rel pinfo (Dq_of ge stack_lo maxframe sp) (frame_venv gaddr pr (pl_size L)) (frame_aenv aaddr pr (pl_size L)) (garr_of aaddr) abase alen_of ge P m0 sp st m ->
      console inp = input st ->
      args_stored (garr_of aaddr) abase sp vs (koff pi) m -> Z.of_nat (List.length vs) + koff pi <= pl_og L -> 0 <= link < W ->
      invoke (exec f ge) ge (pf_isfunc pi) p vs st = Ret v st' ->
      exists evs a' b' m', runs inp (mk (lab (pf_entry pi)) link b 0 m) evs (adv inp st') (mk link a' b' 0 m') /\
        rd m' 1 = rd m 1 /\ (forall x, 0 <= x -> P x -> rd m' x = rd m x) /\
        (forall x, 0 <= x ->
           ~ scratch (Fr_of stack_lo sp) (pl_size L) (pl_nslots L) (first_temp pr) (pl_og L) sp x ->
           ~ var_word (frame_venv gaddr pr (pl_size L)) (garr_of aaddr) abase alen_of sp x -> rd m' x = rd m x).
Proof. exact call_discipline. Qed.
Print Assumptions C08_call_discipline_partial.

(* Non-vacuity of (6): its hypotheses are those of Properties_C01.C01_calls_partial (prog_hyps), and they hold for
   the demo program of coq/XCodegenDemo.v (a recursive procedure cd with a value formal, an array formal and a local and a recursive
   function fd, called from main), whose image is laid out as xcmp does from the model's lowered code.  Applied to
   main's body `g := 0; cd(fd(0) - 4, a); g := fd(g) + g; g := g + a[2]; ch := get(0) + 1; put((fd(0) + ch) - 7, 0)` run from main's frame: after four
   nested activations of cd (each assigning an element of the global array a through its array formal), seven of fd
   and the two system calls the stack-pointer word holds 199988 as before. *)
Example C08_call_discipline_nonvacuous_hyps :
  prog_hyps demo_ge demo_gaddr demo_aaddr demo_abase demo_alen demo_pool demo_P demo_m0 demo_lab demo_pinfo demo_stack_lo demo_stack_hi demo_maxframe.
Proof. exact demo_hyps. Qed.
Example C08_call_discipline_nonvacuous_run : forall a b inp, console inp = [66; 67] -> exists evs a' b' m',
  runs inp (mk 140 a b 0 (wr demo_m0 1 199988)) evs {| console := [67]; files := files inp |} (mk 219 a' b' 0 m') /\
  writes evs = [(0, 51); (0, 50); (0, 49); (0, 48); (0, 67)] /\
  rd m' 1 = 199988 /\ rd m' 2 = 63 /\ rd m' 4 = 67 /\ rd m' 199998 = 50.
Proof. exact demo_main_body_runs. Qed.

(* Non-vacuity.  The image the repaired xcmp emits for `proc main() is skip` (5 words; data word 1 = stack
   pointer 199997; _exit at byte 10) is accepted by the monitor for its whole run (11 instructions), so the
   five clauses hold of it; the image the pinned xcmp emitted (stack pointer 199999: the exit stub stores
   at word 200001) is rejected. *)
Definition img_skip : list Z := [151; 199997; 806458449; 2148651906; 13660177].
Definition lay_skip : layout := {| data_lo := 1; data_hi := 2; image_end := 5; exit_pc := 10; sp0 := 199997 |}.

Example C08_nonvacuous_accept : mon_ok lay_skip 100 (boot img_skip) (console_input []) = true.
Proof. vm_compute. reflexivity. Qed.

Example C08_nonvacuous_clauses : C08_clauses lay_skip 100 (boot img_skip) (console_input []).
Proof. apply monitor_sound. vm_compute. reflexivity. Qed.

Example C08_nonvacuous_reject :
  mon_ok {| data_lo := 1; data_hi := 2; image_end := 5; exit_pc := 10; sp0 := 199999 |} 100
         (boot [151; 199999; 806458449; 2148651906; 13660177]) (console_input []) = false.
Proof. vm_compute. reflexivity. Qed.
