(* AsmLayout.v -- model of hexasm.hpp's back end: numNibbles, instrLen, CodeGen::createLabelMap/resolveLabels,
   emitProgramBin, emitDebugInfo, emitBin and emitProgramText (the --instrs / -S listing).  No proofs here. *)
From Coq Require Import ZArith List String Ascii Bool.
From HexVerif Require Import WMap AsmModel.
Import ListNotations.
Local Open Scope Z_scope.

(* ------------------------------------------------------------------ encoding sizes *)
(* numNibbles(int value): the magnitude is computed in `unsigned`, so INT_MIN has magnitude 2^31 *)
Fixpoint nn_loop (fuel : nat) (m n : Z) : Z :=
  match fuel with O => n | S f => if 16 <=? m then nn_loop f (m / 16) (n + 1) else n end.
Definition num_nibbles (v : Z) : Z :=
  if v =? 0 then 1
  else if (v <? 0) && (Z.abs v <? 16) then 2
  else nn_loop 8 (Z.abs v) 1.
(* InstrImm::getSize / InstrLabel::getSize without a planned length *)
Definition enc_size (v : Z) : Z := if (v <? 0) && (num_nibbles v =? 1) then 2 else num_nibbles v.

(* instrLen(labelOffset, byteOffset) *)
Fixpoint instr_len_go (fuel : nat) (d len : Z) : Z :=
  match fuel with O => len | S f => if len <? num_nibbles (d - len) then instr_len_go f d (len + 1) else len end.
Definition instr_len (label_value byte_offset : Z) : Z := instr_len_go 8 (label_value - byte_offset) 1.

(* ------------------------------------------------------------------ per-directive assembler state *)
Record dst := { d_off : Z;      (* Directive::byteOffset *)
                d_val : Z;      (* Label::labelValue / InstrLabel::labelValue *)
                d_len : Z }.    (* InstrLabel::length (planned encoding length; 0 = derive from the operand) *)
Definition dst0 : dst := {| d_off := 0; d_val := 0; d_len := 0 |}.
Definition dst_eqb (a b : dst) : bool := (d_off a =? d_off b) && (d_val a =? d_val b) && (d_len a =? d_len b).

(* a directive, the index of the label directive its operand names (labelMap, built once by createLabelMap:
   the LAST definition of a name wins; None = no such label), and its mutable assembler state *)
Record item := { it_d : directive; it_tgt : option Z; it_st : dst }.

Definition dsize (d : directive) (st : dst) : Z :=
  match d with
  | DData _ => 4
  | DLabel _ _ => 0
  | DImm _ v => enc_size v
  | DRef _ _ _ => if 0 <? d_len st then d_len st else enc_size (d_val st)
  | DOpr _ => 1
  | DPadding n => n
  end.

Definition dvalue (d : directive) (st : dst) : Z :=
  match d with
  | DData v => v
  | DLabel _ _ => d_val st
  | DImm _ v => v
  | DRef _ _ _ => d_val st
  | DOpr t => match opr_opc t with Some c => c | None => 0 end
  | DPadding _ => 0
  end.

Definition is_label (d : directive) : bool := match d with DLabel _ _ => true | _ => false end.
Definition is_data (d : directive) : bool := match d with DData _ => true | _ => false end.

(* labelBeforeData(index): program[index] is a label and the run of labels it starts is followed by DATA *)
Fixpoint labels_then_data (l : list item) : bool :=
  match l with
  | it :: r => match it_d it with DLabel _ _ => labels_then_data r | DData _ => true | _ => false end
  | [] => false
  end.
Definition label_before_data (l : list item) : bool :=
  match l with it :: _ => is_label (it_d it) && labels_then_data l | [] => false end.

Definition align4 (bo : Z) : Z := if bo mod 4 =? 0 then bo else bo + (4 - bo mod 4).

(* createLabelMap: index of the last label directive named `name` *)
Fixpoint last_label (name : string) (l : list directive) (idx : Z) (acc : option Z) : option Z :=
  match l with
  | [] => acc
  | DLabel _ n :: r => last_label name r (idx + 1) (if String.eqb n name then Some idx else acc)
  | _ :: r => last_label name r (idx + 1) acc
  end.
Definition mk_item (prog : list directive) (d : directive) : item :=
  {| it_d := d; it_tgt := match d with DRef _ name _ => last_label name prog 0 None | _ => None end; it_st := dst0 |}.

Inductive pass_result :=
| PassOk (items : list item) (lv : WMap.t) (size : Z) (changed : bool)
| PassErr (d : diag).

(* one iteration of the while loop of resolveLabels.  `lv` holds Label::labelValue of every label directive,
   keyed by directive index, and is updated in place as the C++ objects are: a reference to a label that comes
   later in the program reads the value left by the previous pass. *)
Fixpoint pass_go (done todo : list item) (lv : WMap.t) (bo : Z) (changed : bool) (idx : Z) : pass_result :=
  match todo with
  | [] => PassOk (rev_append done []) lv bo changed
  | it :: rest =>
      let d := it_d it in let st := it_st it in
      let bo1 := if is_data d || label_before_data todo then align4 bo else bo in
      let continue st' lv' :=
        pass_go ({| it_d := d; it_tgt := it_tgt it; it_st := st' |} :: done) rest lv' (bo1 + dsize d st')
                (changed || negb (dst_eqb st st')) (idx + 1) in
      match d with
      | DLabel _ _ => continue {| d_off := bo1; d_val := bo1; d_len := d_len st |} (WMap.wr lv idx bo1)
      | DRef _ name rel =>
          match it_tgt it with
          | None => PassErr (EUnknownLabel (Z.to_nat idx) name)
          | Some k =>
              let v := WMap.rd lv k in
              if rel then
                let len := instr_len v bo1 in
                continue {| d_off := bo1; d_val := v - bo1 - len; d_len := len |} lv
              else if negb (v mod 4 =? 0) then PassErr (EUnaligned (Z.to_nat idx))
              else continue {| d_off := bo1; d_val := v / 4; d_len := 0 |} lv
          end
      | _ => continue {| d_off := bo1; d_val := d_val st; d_len := d_len st |} lv
      end
  end.
Definition pass (items : list item) (lv : WMap.t) : pass_result := pass_go [] items lv 0 false 0.

(* while (changed) { if (passes++ > maxPasses) throw; changed = false; ...pass... } *)
Fixpoint resolve_loop (fuel : nat) (passes maxp : Z) (items : list item) (lv : WMap.t) : outcome (list item) :=
  match fuel with
  | O => OutOfFuel
  | S f =>
      if maxp <? passes then Reject ENotConverged else
      match pass items lv with
      | PassErr e => Reject e
      | PassOk items' lv' _ changed => if changed then resolve_loop f (passes + 1) maxp items' lv' else Ok items'
      end
  end.

Definition max_passes (n : Z) : Z := 8 * n + 8.
Definition resolve (prog : list directive) : outcome (list item) :=
  let n := Z.of_nat (List.length prog) in
  resolve_loop (Z.to_nat (max_passes n + 3)) 0 (max_passes n) (map (mk_item prog) prog) WMap.zero.

(* getProgramSize(): last directive's offset + size (0 for an empty program) *)
Fixpoint program_size_go (items : list item) (acc : Z) : Z :=
  match items with [] => acc | it :: r => program_size_go r (d_off (it_st it) + dsize (it_d it) (it_st it)) end.
Definition program_size (items : list item) : Z := program_size_go items 0.

(* CodeGen constructor: resolve, then append the trailing padding directive *)
Record layout := { l_items : list item; l_size : Z (* programSizeBytes *) }.
Definition codegen (prog : list directive) : outcome layout :=
  match resolve prog with
  | Ok items =>
      let sz := program_size items in
      let pad := (- sz) mod 4 in
      Ok {| l_items := items ++ [{| it_d := DPadding pad; it_tgt := None; it_st := dst0 |}]; l_size := sz + pad |}
  | Reject d => Reject d | UB w => UB w | OutOfFuel => OutOfFuel
  end.

(* ------------------------------------------------------------------ emission *)
Definition byte (x : Z) : Z := x mod 256.
Definition nib (v i : Z) : Z := (v / 16 ^ i) mod 16.           (* (value >> (i*4)) & 0xF, arithmetic shift *)
Definition PFIX : Z := 14. Definition NFIX : Z := 15.
Fixpoint mid_prefixes (v : Z) (i : nat) : list Z :=
  match i with O => [] | S j => (PFIX * 16 + nib v (Z.of_nat i)) :: mid_prefixes v j end.
(* the three-part emission of one instruction of `size` bytes *)
Definition emit_instr (opc v size : Z) : list Z :=
  (if 1 <? size then [(if v <? 0 then NFIX else PFIX) * 16 + nib v (size - 1)] else [])
  ++ mid_prefixes v (Z.to_nat (size - 2)) ++ [byte (opc mod 16 * 16 + nib v 0)].

Definition le32 (v : Z) : list Z :=
  let u := v mod W32 in [u mod 256; (u / 256) mod 256; (u / 65536) mod 256; (u / 16777216) mod 256].
Definition zeros (n : Z) : list Z := repeat 0 (Z.to_nat n).
Definition pad_to4 (bo : Z) : Z := if bo mod 4 =? 0 then 0 else 4 - bo mod 4.

Definition dir_opc (d : directive) : Z :=
  match d with
  | DImm t _ | DRef t _ _ => match token_opc t with Some c => c | None => 0 end
  | DOpr _ => 13
  | _ => 0
  end.

(* emitProgramBin: returns image bytes and debugInfo (name, emission-time byte offset) *)
Fixpoint emit_go (l : list item) (bo : Z) : list Z * list (string * Z) :=
  match l with
  | [] => ([], [])
  | it :: rest =>
      let d := it_d it in let st := it_st it in
      let pre := if label_before_data l then pad_to4 bo else 0 in
      let bo0 := bo + pre in
      let size := dsize d st in
      match d with
      | DLabel LFunc name | DLabel LProc name =>
          let '(bs, syms) := emit_go rest bo0 in (zeros pre ++ bs, (name, bo0) :: syms)
      | DLabel LId _ => let '(bs, syms) := emit_go rest bo0 in (zeros pre ++ bs, syms)
      | DPadding n => let '(bs, syms) := emit_go rest bo0 in (zeros n ++ bs, syms)
      | DData v =>
          let p := pad_to4 bo0 in
          let '(bs, syms) := emit_go rest (bo0 + p + 4) in (zeros p ++ le32 v ++ bs, syms)
      | _ =>
          if 0 <? size then
            let '(bs, syms) := emit_go rest (bo0 + size) in (emit_instr (dir_opc d) (dvalue d st) size ++ bs, syms)
          else emit_go rest bo0
      end
  end.

Fixpoint bytes_of_string (s : string) : list Z :=
  match s with EmptyString => [] | String c r => Z.of_nat (nat_of_ascii c) :: bytes_of_string r end.

Fixpoint sym_entries (syms : list (string * Z)) (i : Z) : list Z :=
  match syms with [] => [] | (_, off) :: r => le32 i ++ le32 off ++ sym_entries r (i + 1) end.

(* emitBin: header word, image, string table, symbol table *)
Definition emit_bin (L : layout) : list Z * list Z * list (string * Z) (* file bytes, image, symbols *) :=
  let '(img, syms) := emit_go (l_items L) 0 in
  let n := Z.of_nat (List.length syms) in
  let strs := flat_map (fun p => bytes_of_string (fst p) ++ [0]) syms in
  (le32 (l_size L / 4) ++ img ++ le32 n ++ strs ++ le32 n ++ sym_entries syms 0, img, syms).

(* ------------------------------------------------------------------ listing (emitProgramText) *)
Fixpoint dec_go (fuel : nat) (n : Z) (acc : string) : string :=
  match fuel with
  | O => acc
  | S f => let acc' := String (ascii_of_nat (Z.to_nat (48 + n mod 10))) acc in
           if n <? 10 then acc' else dec_go f (n / 10) acc'
  end.
Definition dec (n : Z) : string :=
  if n <? 0 then String "-"%char (dec_go 25 (- n) EmptyString) else dec_go 25 n EmptyString.

Definition dir_text (d : directive) (st : dst) (assembled : bool) : string :=
  (match d with
   | DData v => "DATA " ++ dec v
   | DLabel LId n => n
   | DLabel LFunc n => "FUNC " ++ n
   | DLabel LProc n => "PROC " ++ n
   | DImm t v => token_str t ++ " " ++ dec v
   | DRef t n _ => token_str t ++ " " ++ n ++ (if assembled then " (" ++ dec (d_val st) ++ ")" else "")
   | DOpr t => "OPR " ++ token_str t
   | DPadding n => "PADDING " ++ dec n
   end)%string.

(* one listing line per directive: (byte offset shown, text, size shown); the trailing padding directive
   never had setByteOffset called, so it shows offset 0 and is "not assembled" *)
Definition listing (L : layout) : list (Z * string * Z) :=
  map (fun it : item => let d := it_d it in let st := it_st it in
                        (d_off st, dir_text d st (negb (match d with DPadding _ => true | _ => false end)), dsize d st))
      (l_items L).
Definition listing_total (L : layout) : Z := fold_left (fun a (it : item) => a + dsize (it_d it) (it_st it)) (l_items L) 0.

(* ------------------------------------------------------------------ the whole assembler on source bytes *)
Record asm_out := { ao_file : list Z; ao_image : list Z; ao_syms : list (string * Z);
                    ao_listing : list (Z * string * Z); ao_total : Z; ao_layout : layout;
                    ao_locs : list (Z * Z) }.

Definition assemble_directives (prog : list directive) (locs : list (Z * Z)) : outcome asm_out :=
  match codegen prog with
  | Ok L => let '(file, img, syms) := emit_bin L in
            Ok {| ao_file := file; ao_image := img; ao_syms := syms; ao_listing := listing L; ao_total := listing_total L;
                  ao_layout := L; ao_locs := locs |}
  | Reject d => Reject d | UB w => UB w | OutOfFuel => OutOfFuel
  end.

Definition assemble (src : list Z) : outcome asm_out :=
  match parse (lex src) with
  | Ok ldirs => assemble_directives (map (fun x => snd x) ldirs) (map (fun x => fst x) ldirs)
  | Reject d => Reject d | UB w => UB w | OutOfFuel => OutOfFuel
  end.

(* location of a located diagnostic (UnknownLabelError / unaligned use directive->getLocation()) *)
Definition diag_location (d : diag) (locs : list (Z * Z)) : option (Z * Z) :=
  match d with
  | EUnexpected l c _ | EUnrecognised l c _ | EInvalidOpr l c _ => Some (l, c)
  | EUnknownLabel i _ | EUnaligned i => nth_error locs i
  | ENotConverged => None
  end.
