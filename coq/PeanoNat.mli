open Datatypes

module Nat :
 sig
  val leb : nat -> nat -> bool
 end
