(* RtlC03.v -- the generated `hex` design (gen/RtlHex.v: processor.sv + memory.sv wired as in hex.sv, flattened by
   Verilator, translated by tools/vl2coq.py) IS the reference datapath RefRtl: a closed boolean computation over the
   256 instruction bytes, lifted to "one clock edge of the generated design = RefRtl.ref_cycle" for every well-formed
   state.  Re-checked against the regenerated design on every run. *)
From Coq Require Import ZArith Lia Bool List String.
From HexVerif Require Import WMap Vexp RtlEquiv RtlSem RefRtl.
From HexVerif.gen Require RtlHex.
Import ListNotations.
Local Open Scope Z_scope.

Definition nosub : string -> option Z := fun _ => None.
Lemma nosub_agrees e : agrees e nosub.
Proof. intros v n H. discriminate. Qed.

Definition not_wire (d : design) (n : string) : bool := negb (existsb (fun w => String.eqb (fst w) n) (wires d)).
Definition first_wire_is_fetch (d : design) : bool :=
  match wires d with w :: _ => String.eqb (fst w) n_fdata && exp_ok nosub (snd w) x_fetch | [] => false end.
Definition bytes_ok (d : design) : bool :=
  forallb (fun k => design_eqb (sub2 n_fdata "i_rst" k 0) d (spec k)) bytes256.
Definition hex_check (d : design) : bool :=
  wires_ordered (wires d) && not_wire d n_pc && not_wire d n_areg && not_wire d n_breg && not_wire d n_oreg &&
  not_wire d "i_rst" && first_wire_is_fetch d && bytes_ok d.

(* diagnosis for the check: bytes whose normal form differs from the reference *)
Definition hex_failures (d : design) : list Z :=
  filter (fun k => negb (design_eqb (sub2 n_fdata "i_rst" k 0) d (spec k))) bytes256.

Lemma state_of_spec s va vb vo vp we ad da :
  state_of s [(n_areg, va); (n_breg, vb); (n_oreg, vo); (n_pc, vp)] [(n_mem, (we, (ad, da)))] =
  {| r_pc := vp; r_areg := va; r_breg := vb; r_oreg := vo; r_mem := if we =? 0 then r_mem s else wr (r_mem s) ad da |}.
Proof. reflexivity. Qed.

Section Generic.
  Variable d : design.
  Hypothesis CHK : hex_check d = true.
  Variable s : rstate.
  Hypothesis W : wf s.

  Let e := cycle_env d 0 (fun _ => 0) s.

  Lemma chk_parts : wires_ordered (wires d) = true /\ not_wire d n_pc = true /\ not_wire d n_areg = true /\
    not_wire d n_breg = true /\ not_wire d n_oreg = true /\ not_wire d "i_rst" = true /\ first_wire_is_fetch d = true /\ bytes_ok d = true.
  Proof. pose proof CHK as K. unfold hex_check in K. repeat (apply andb_prop in K; let H := fresh "H" in destruct K as [K H]). repeat split; assumption. Qed.

  Lemma e_var n : not_wire d n = true -> var e n = var (base_env 0 (fun _ => 0) s) n.
  Proof. intros H. unfold e, cycle_env. apply env_wires_var_other. apply negb_true_iff. exact H. Qed.

  Lemma e_ok : env_ok e s (var e n_ddata).
  Proof.
    destruct chk_parts as [_ [P1 [P2 [P3 [P4 _]]]]].
    constructor; try (rewrite e_var by assumption; reflexivity); [reflexivity|].
    intros a. unfold e, cycle_env. rewrite env_wires_arr. reflexivity.
  Qed.

  Lemma e_rst : var e "i_rst" = 0.
  Proof. destruct chk_parts as [_ [_ [_ [_ [_ [P _]]]]]]. rewrite e_var by assumption. reflexivity. Qed.

  Lemma e_values : map (fun w => (fst w, var e (fst w))) (wires d) = map (evalp e) (wires d).
  Proof. destruct chk_parts as [P _]. apply cycle_env_wire_values. exact P. Qed.

  Lemma e_fetch : var e n_fdata = r_fetch s.
  Proof.
    destruct chk_parts as [_ [_ [_ [_ [_ [_ [P _]]]]]]]. unfold first_wire_is_fetch in P. pose proof e_values as V.
    destruct (wires d) as [|w r]; [discriminate|]. apply andb_prop in P. destruct P as [P1 P2].
    apply String.eqb_eq in P1. cbn [map] in V. injection V as V _. unfold evalp in V. cbn [fst snd] in V.
    rewrite <- P1. rewrite V. rewrite (exp_ok_sound e nosub _ _ (nosub_agrees e) P2).
    apply (ev_fetch e s (var e n_ddata) W e_ok).
  Qed.

  Lemma fetch_range : 0 <= r_fetch s < 256.
  Proof. unfold r_fetch. apply Z.mod_pos_bound. lia. Qed.

  Lemma e_same : same_at e d (spec (r_fetch s)).
  Proof.
    destruct chk_parts as [_ [_ [_ [_ [_ [_ [_ P]]]]]]]. unfold bytes_ok in P. rewrite forallb_forall in P.
    specialize (P _ (in_bytes256 _ fetch_range)). eapply design_eqb_sound; [|exact P].
    apply sub2_agrees; [apply e_fetch | apply e_rst].
  Qed.

  Lemma e_ddata : var e n_ddata = rd (r_mem s) (r_daddr s (r_fetch s / 16) (r_fetch s mod 16)).
  Proof.
    destruct e_same as [_ [_ [Hw _]]]. pose proof e_values as V. rewrite Hw in V.
    rewrite (wire_value_lookup e _ _ V n_ddata (eval e (ArrSel n_mem 32 (spec_daddr (r_fetch s / 16) (r_fetch s mod 16))))).
    - cbn [eval]. rewrite (ev_spec_daddr e s (var e n_ddata) W e_ok). rewrite (ok_mem _ _ _ e_ok).
      change (2 ^ 32) with M32. apply Z.mod_small. destruct W as [_ [_ [_ [_ Hm]]]]. apply Hm. apply r_daddr_nonneg.
    - unfold spec. cbn [wires map]. unfold evalp. cbn [fst snd]. right. left. reflexivity.
  Qed.

  Lemma dd_range : 0 <= var e n_ddata < M32.
  Proof. rewrite e_ddata. destruct W as [_ [_ [_ [_ Hm]]]]. apply Hm. apply r_daddr_nonneg. Qed.

  Theorem cycle_is_ref : cycle d s = ref_cycle s.
  Proof.
    unfold cycle, cycle_gen. fold e. destruct e_same as [_ [Hn [_ Hm]]]. rewrite Hn, Hm.
    unfold spec. cbn [next mem_writes map]. unfold evalp, evalw. cbn [fst snd]. rewrite state_of_spec.
    rewrite (ev_spec_pc e s _ W e_ok), (ev_spec_oreg e s _ W e_ok), (ev_spec_areg e s _ W e_ok _ _ dd_range),
      (ev_spec_breg e s _ W e_ok _ _ dd_range), (ev_spec_daddr e s _ W e_ok), (ev_A e s _ W e_ok).
    cbn [eval]. rewrite e_ddata. reflexivity.
  Qed.

  Theorem outs_are_ref : outs d s = [("o_syscall"%string, ref_syscall s); ("o_syscall_valid"%string, ref_syscall_valid s)].
  Proof.
    unfold outs. fold e. destruct e_same as [Ho _]. rewrite Ho. unfold spec. cbn [outputs map]. unfold evalp. cbn [fst snd].
    cbn [eval]. fold xA. rewrite (ev_A e s _ W e_ok). change (2 ^ 0) with 1. change (2 ^ 2) with 4. rewrite Z.div_1_r. reflexivity.
  Qed.

  Theorem fetch_is_ref : wire d s n_fdata = r_fetch s.
  Proof. exact e_fetch. Qed.
End Generic.

(* ------------------------------------------------------------------ the outputs at any reset level: the request lines do not
   depend on i_rst (the testbench samples the request of the instruction at address 0 while reset is still asserted) *)
Definition outs_check (rst : Z) (d : design) : bool :=
  forallb (fun k => pairs_ok (sub2 n_fdata "i_rst" k rst) (outputs d) (outputs (spec k))) bytes256.

Section OutsAt.
  Variable d : design.
  Hypothesis CHK : hex_check d = true.
  Variable rst : Z.
  Hypothesis OC : outs_check rst d = true.
  Variable s : rstate.
  Hypothesis W : wf s.
  Let e := cycle_env d rst (fun _ => 0) s.

  Lemma r_var n : not_wire d n = true -> var e n = var (base_env rst (fun _ => 0) s) n.
  Proof. intros H. unfold e, cycle_env. apply env_wires_var_other. apply negb_true_iff. exact H. Qed.

  Lemma r_ok : env_ok e s (var e n_ddata).
  Proof.
    destruct (chk_parts d CHK) as [_ [P1 [P2 [P3 [P4 _]]]]].
    constructor; try (rewrite r_var by assumption; reflexivity); [reflexivity|].
    intros a. unfold e, cycle_env. rewrite env_wires_arr. reflexivity.
  Qed.

  Lemma r_rst : var e "i_rst" = rst.
  Proof. destruct (chk_parts d CHK) as [_ [_ [_ [_ [_ [P _]]]]]]. rewrite r_var by assumption. reflexivity. Qed.

  Lemma r_fetch_val : var e n_fdata = r_fetch s.
  Proof.
    destruct (chk_parts d CHK) as [P0 [_ [_ [_ [_ [_ [P _]]]]]]]. unfold first_wire_is_fetch in P.
    pose proof (cycle_env_wire_values d rst (fun _ => 0) s P0) as V. fold e in V. cbv zeta in V.
    destruct (wires d) as [|w r]; [discriminate|]. apply andb_prop in P. destruct P as [P1 P2].
    apply String.eqb_eq in P1. cbn [map] in V. injection V as V _. unfold evalp in V. cbn [fst snd] in V.
    rewrite <- P1. rewrite V. rewrite (exp_ok_sound e nosub _ _ (nosub_agrees e) P2).
    apply (ev_fetch e s (var e n_ddata) W r_ok).
  Qed.

  Theorem outs_at_are_ref :
    map (evalp e) (outputs d) = [("o_syscall"%string, ref_syscall s); ("o_syscall_valid"%string, ref_syscall_valid s)].
  Proof.
    pose proof OC as K. unfold outs_check in K. rewrite forallb_forall in K.
    specialize (K _ (in_bytes256 _ (fetch_range s))).
    rewrite (pairs_ok_sound e _ (sub2_agrees e n_fdata "i_rst" _ _ r_fetch_val r_rst) _ _ K).
    unfold spec. cbn [outputs map]. unfold evalp. cbn [fst snd].
    cbn [eval]. fold xA. rewrite (ev_A e s _ W r_ok). change (2 ^ 0) with 1. change (2 ^ 2) with 4. rewrite Z.div_1_r. reflexivity.
  Qed.
End OutsAt.

(* ------------------------------------------------------------------ reset: a clock edge with i_rst = 1 clears the registers,
   whatever the state, the fetched byte and the x constants *)
Definition reset_check (d : design) : bool :=
  wires_ordered (wires d) && not_wire d "i_rst" && first_wire_is_fetch d &&
  forallb (fun k => pairs_ok (sub2 n_fdata "i_rst" k 1) (next d) [(n_areg, C 0); (n_breg, C 0); (n_oreg, C 0); (n_pc, C 0)]) bytes256.

Section Reset.
  Variable d : design.
  Hypothesis CHK : reset_check d = true.
  Variables (s : rstate) (xv : nat -> Z).
  Let e := cycle_env d 1 xv s.

  Theorem reset_clears : let s' := cycle_gen d 1 xv s in r_pc s' = 0 /\ r_areg s' = 0 /\ r_breg s' = 0 /\ r_oreg s' = 0.
  Proof.
    pose proof CHK as K. unfold reset_check in K. repeat (apply andb_prop in K; let H := fresh "H" in destruct K as [K H]).
    assert (Hr : var e "i_rst" = 1).
    { unfold e, cycle_env. rewrite env_wires_var_other by (apply negb_true_iff; exact H1). reflexivity. }
    assert (Hf : 0 <= var e n_fdata < 256).
    { pose proof (cycle_env_wire_values d 1 xv s K) as V. fold e in V. cbv zeta in V.
      unfold first_wire_is_fetch in H0. destruct (wires d) as [|w r]; [discriminate|]. apply andb_prop in H0. destruct H0 as [P1 P2].
      apply String.eqb_eq in P1. cbn [map] in V. injection V as V _. unfold evalp in V. cbn [fst snd] in V.
      rewrite <- P1, V, (exp_ok_sound e nosub _ _ (nosub_agrees e) P2). unfold x_fetch. cbn [eval]. change (2 ^ 8) with 256.
      apply Z.mod_pos_bound. lia. }
    rewrite forallb_forall in H. specialize (H _ (in_bytes256 _ Hf)).
    pose proof (pairs_ok_sound e _ (sub2_agrees e n_fdata "i_rst" _ _ eq_refl Hr) _ _ H) as E.
    cbv zeta. unfold cycle_gen. fold e. rewrite E. repeat split; reflexivity.
  Qed.
End Reset.

(* ------------------------------------------------------------------ reset: the memory's clocked write is disabled while
   i_rst = 1 (memory.sv qualifies it with !i_rst), whatever the state and the fetched byte *)
Definition memrst_check (d : design) : bool :=
  wires_ordered (wires d) && not_wire d "i_rst" && first_wire_is_fetch d &&
  forallb (fun k => forallb (fun w => veqb (norm (sub2 n_fdata "i_rst" k 1) (fst (snd w))) (C 0)) (mem_writes d)) bytes256.

Lemma fold_no_write (l : list (string * (Z * (Z * Z)))) : Forall (fun w => fst (snd w) = 0) l ->
  forall m, fold_left apply_write l m = m.
Proof.
  induction 1 as [|w r Hw F IH]; intros m; [reflexivity|]. cbn [fold_left]. rewrite <- (IH m) at 2. f_equal.
  unfold apply_write. rewrite Hw. destruct (String.eqb (fst w) n_mem); reflexivity.
Qed.

Section MemReset.
  Variable d : design.
  Hypothesis CHK : memrst_check d = true.
  Variables (s : rstate) (xv : nat -> Z).
  Let e := cycle_env d 1 xv s.

  Theorem no_write_in_reset : fold_left apply_write (map (evalw e) (mem_writes d)) (r_mem s) = r_mem s.
  Proof.
    pose proof CHK as K. unfold memrst_check in K. repeat (apply andb_prop in K; let H := fresh "H" in destruct K as [K H]).
    assert (Hr : var e "i_rst" = 1).
    { unfold e, cycle_env. rewrite env_wires_var_other by (apply negb_true_iff; exact H1). reflexivity. }
    assert (Hf : 0 <= var e n_fdata < 256).
    { pose proof (cycle_env_wire_values d 1 xv s K) as V. fold e in V. cbv zeta in V.
      unfold first_wire_is_fetch in H0. destruct (wires d) as [|w r]; [discriminate|]. apply andb_prop in H0. destruct H0 as [P1 P2].
      apply String.eqb_eq in P1. cbn [map] in V. injection V as V _. unfold evalp in V. cbn [fst snd] in V.
      rewrite <- P1, V, (exp_ok_sound e nosub _ _ (nosub_agrees e) P2). unfold x_fetch. cbn [eval]. change (2 ^ 8) with 256.
      apply Z.mod_pos_bound. lia. }
    rewrite forallb_forall in H. specialize (H _ (in_bytes256 _ Hf)). rewrite forallb_forall in H.
    apply fold_no_write. apply Forall_forall. intros w Hw. apply in_map_iff in Hw. destruct Hw as [w0 [<- Hin]].
    unfold evalw. cbn [fst snd]. specialize (H _ Hin). apply veqb_sound in H.
    rewrite <- (norm_sound e _ (fst (snd w0)) (sub2_agrees e n_fdata "i_rst" _ _ eq_refl Hr)). rewrite H. reflexivity.
  Qed.
End MemReset.

(* ------------------------------------------------------------------ the generated design of this run *)
Lemma memrst_check_true : memrst_check RtlHex.design = true.
Proof. vm_compute. reflexivity. Qed.
Theorem rtl_no_write_in_reset : forall s xv,
  fold_left apply_write (map (evalw (cycle_env RtlHex.design 1 xv s)) (mem_writes RtlHex.design)) (r_mem s) = r_mem s.
Proof. intros s xv. exact (no_write_in_reset _ memrst_check_true s xv). Qed.

Lemma reset_check_true : reset_check RtlHex.design = true.
Proof. vm_compute. reflexivity. Qed.
Theorem rtl_reset_clears : forall s xv, let s' := cycle_gen RtlHex.design 1 xv s in r_pc s' = 0 /\ r_areg s' = 0 /\ r_breg s' = 0 /\ r_oreg s' = 0.
Proof. intros s xv. exact (reset_clears _ reset_check_true s xv). Qed.

Lemma hex_check_true : hex_check RtlHex.design = true.
Proof. vm_compute. reflexivity. Qed.

Theorem rtl_cycle_is_ref : forall s, wf s -> cycle RtlHex.design s = ref_cycle s.
Proof. intros s W. exact (cycle_is_ref _ hex_check_true s W). Qed.
Theorem rtl_outs_are_ref : forall s, wf s ->
  outs RtlHex.design s = [("o_syscall"%string, ref_syscall s); ("o_syscall_valid"%string, ref_syscall_valid s)].
Proof. intros s W. exact (outs_are_ref _ hex_check_true s W). Qed.
Theorem rtl_fetch_is_ref : forall s, wf s -> wire RtlHex.design s n_fdata = r_fetch s.
Proof. intros s W. exact (fetch_is_ref _ hex_check_true s W). Qed.

Lemma outs_check_reset_true : outs_check 1 RtlHex.design = true.
Proof. vm_compute. reflexivity. Qed.
Theorem rtl_outs_in_reset : forall s, wf s ->
  map (evalp (cycle_env RtlHex.design 1 (fun _ => 0) s)) (outputs RtlHex.design) =
  [("o_syscall"%string, ref_syscall s); ("o_syscall_valid"%string, ref_syscall_valid s)].
Proof. intros s W. exact (outs_at_are_ref _ hex_check_true 1 outs_check_reset_true s W). Qed.

