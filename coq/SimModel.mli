open Ascii
open BinInt
open BinNums
open Datatypes
open Isa
open List
open String
open WMap

type sim = { s_pc : coq_Z; s_areg : coq_Z; s_breg : coq_Z; s_oreg : coq_Z;
             s_mem : t; s_running : bool; s_exit : coq_Z; s_cycles : 
             coq_Z }

type 'a sim_result =
| SOk of 'a
| SThrow of string
| SUB of string

val u32 : coq_Z -> coq_Z

val to_int : coq_Z -> coq_Z

val coq_MEMORY_SIZE_WORDS : coq_Z

val idx_ok : coq_Z -> bool

val sim_fetch : sim -> coq_Z

val io_is_console : coq_Z -> bool

val io_index : coq_Z -> coq_Z

val io_input : inputs -> coq_Z -> coq_Z * inputs

val with_regs : sim -> coq_Z -> coq_Z -> coq_Z -> coq_Z -> sim

val with_mem : sim -> t -> sim

val stopped : sim -> coq_Z -> sim

val step : sim -> inputs -> ((sim * inputs) * event) sim_result

val guard : coq_Z -> sim -> bool

type run_end =
| Returned of coq_Z
| Threw of string
| Ub of string
| NoFuel

val run :
  nat -> coq_Z -> sim -> inputs -> event list -> ((event
  list * inputs) * sim) * run_end

val init : (coq_Z -> coq_Z) -> coq_Z -> coq_Z list -> sim

val arch_of : sim -> arch

type symtab = (string * coq_Z) list

val lookup_scan : symtab -> coq_Z -> string option

val lookup_symbol : symtab -> coq_Z -> string option

val map_offset : symtab -> string -> coq_Z -> coq_Z

val trace_symbol : symtab -> coq_Z -> (string * coq_Z) option

val trace_prefix :
  symtab -> sim -> (((coq_Z * coq_Z) * (string * coq_Z)
  option) * coq_Z) * coq_Z
