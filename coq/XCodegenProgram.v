(* XCodegenProgram.v -- whole programs of the fragment, end to end: XSem.run p inp = Behaviour b  ->  the image the
   model lays out for p shows b on Isa.run.

   model_compile prm opt p: p is the program as the code generator reads it (the output of XConstProp.front);
   prm gives each procedure's frame numbers (size, usable slots, outgoing words) and the order of the constant pool
   -- xcmp computes them itself, tools/c01.py reads them off its listing.  The image is laid out as xcmp does:
       BR _start; DATA <initial stack pointer>; per global variable a DATA 0, per global array a DATA <address of
       its cells> (the cells end at the top of memory, 200000; the first declared array highest; the stack pointer
       starts 3 words below the lowest cell); per procedure the pool constants first used in it and one DATA 0 per
       local variable (xcmp allocates these, unused); _start: LDAP _exit; BR main; _exit: LDBM 1; LDAC 0; STAI 2; SVC;
       then each procedure's code at its entry label: prologue ++ cs body ++ exit label ++ epilogue
   (opt = true: after the model's peephole pass, which is what xcmp emits; opt = false: the lowered code the proofs
   speak of), by the assembler model AsmLayout.assemble_directives.  The result is VALIDATED by computation before
   it is returned (None otherwise): the ISA's own decoder reads the stub and every procedure's code at the label
   positions of the layout (XCodegenImage.code_chk), the loaded words hold those bytes, the stack pointer word, the
   data words and the pool are where the code expects them, XSem's initial state (init_globals) has the variables
   unassigned and the arrays empty with the lengths of the layout, the procedures are simple and their frame
   numbers consistent, and the stack has room for XSem's depth bound.
   program_correct: for opt = false, if model_compile returns an image and XSem.run gives a Behaviour, the ISA
   started on that image shows it. *)
From Coq Require Import ZArith List String Bool Lia FMapPositive.
From HexVerif Require Import WMap Isa XAst XSem XSemProps AsmModel AsmLayout AsmSpec AsmSpecProofs
     XCodegenIsa XCodegenInv XCodegenExpr XCodegenStmt XCodegenCall XCodegenImage.
Import ListNotations.
Local Open Scope string_scope.
Local Open Scope Z_scope.
Local Open Scope list_scope.

Definition MAXW : Z := 200000.           (* hex::MAX_MEMORY_SIZE_WORDS *)
Definition entry_label (i : nat) : label := 1000000 + Z.of_nat i.
Definition L_start : label := 2000000.
Definition L_exit : label := 2000001.
(* what the caller of the model supplies: each procedure's frame numbers (size, usable slots, outgoing words) and
   the values of the constant pool in the order xcmp allocates them (tools read both off xcmp's listing) *)
Record params := { p_frames : string -> option (Z * Z * Z); p_pool : list Z }.
Definition frames := string -> option (Z * Z * Z).

(* the literals of a body (any order): a pool constant belongs to the first procedure that mentions it *)
Fixpoint lits_expr (e : expr) : list Z :=
  match e with
  | ENum n => [signed32 n]
  | ESub _ i => lits_expr i
  | ECall _ args => flat_map lits_expr args
  | ESys _ args => flat_map lits_expr args
  | EUn _ a => lits_expr a
  | EBin _ l r => lits_expr l ++ lits_expr r
  | _ => []
  end.
Fixpoint lits_stmt (s : stmt) : list Z :=
  match s with
  | SReturn e => lits_expr e
  | SIf c t e => if is_skip t && is_skip e then []          (* no code is generated for it (cs, and xcmp): its literals are not 'used' *)
                 else lits_expr c ++ lits_stmt t ++ lits_stmt e
  | SWhile c b => lits_expr c ++ lits_stmt b
  | SSeq ss => flat_map lits_stmt ss
  | SAssign _ e => lits_expr e
  | SAssignSub _ i e => lits_expr i ++ lits_expr e
  | SCall _ args => flat_map lits_expr args
  | SSys _ args => flat_map lits_expr args
  | _ => []
  end.
Definition zmem (v : Z) (l : list Z) : bool := existsb (Z.eqb v) l.
Definition nlocals (p : proc) : nat := List.length (filter is_var_decl (locals p)).
Fixpoint addrs_from (a : Z) (l : list Z) : list (Z * Z) :=
  match l with [] => [] | v :: r => (v, a) :: addrs_from (a + 1) r end.
(* xcmp's data section after the global variables: per procedure, the pool constants first used in it, then one
   (unused) word per local variable *)
Fixpoint pool_go (order : list Z) (ps : list proc) (seen : list Z) (addr : Z) : list (Z * Z) * list Z :=
  match ps with
  | [] => ([], [])
  | p :: r =>
      let mine := filter (fun v => zmem v (lits_stmt (body p)) && negb (zmem v seen)) order in
      let '(tbl, words) := pool_go order r (mine ++ seen) (addr + Z.of_nat (List.length mine) + Z.of_nat (nlocals p)) in
      (addrs_from addr mine ++ tbl, mine ++ repeat 0 (nlocals p) ++ words)
  end.
Fixpoint zassoc (v : Z) (t : list (Z * Z)) : option Z :=
  match t with [] => None | (k, a) :: r => if k =? v then Some a else zassoc v r end.

(* the global declarations that get a data word, in order: a variable (None) or an array with its length *)
Fixpoint gdecls (ds : list decl) : option (list (string * option Z)) :=
  match ds with
  | [] => Some []
  | DVal _ _ :: r => gdecls r
  | DVar x :: r => match gdecls r with Some l => Some ((x, None) :: l) | None => None end
  | DArray x (ENum n) :: r =>
      if 0 <=? signed32 n then match gdecls r with Some l => Some ((x, Some (signed32 n)) :: l) | None => None end else None
  | DArray _ _ :: _ => None
  end.
(* xcmp's allocation: declaration k gets data word 2 + k; the cells of an array lie just below those of the arrays
   declared before it, the first ones ending at the top of memory.  Returns the variables (name, word), the arrays
   (name, (word, address of the cells, length)), the data words, and the lowest cell address *)
Fixpoint gtab (gd : list (string * option Z)) (w : Z) (top : Z)
  : list (string * Z) * list (string * (Z * Z * Z)) * list Z * Z :=
  match gd with
  | [] => ([], [], [], top)
  | (x, None) :: r => let '(vs, ars, dw, t) := gtab r (w + 1) top in ((x, w) :: vs, ars, 0 :: dw, t)
  | (x, Some n) :: r => let '(vs, ars, dw, t) := gtab r (w + 1) (top - n) in (vs, (x, (w, top - n, n)) :: ars, (top - n) :: dw, t)
  end.
Definition a_word (t : Z * Z * Z) : Z := fst (fst t).
Definition a_base (t : Z * Z * Z) : Z := snd (fst t).
Definition a_len (t : Z * Z * Z) : Z := snd t.
Definition aaddr_of (ars : list (string * (Z * Z * Z))) (x : string) : option Z := option_map a_word (assoc x ars).
Definition abase_of (ars : list (string * (Z * Z * Z))) (x : string) : Z := match assoc x ars with Some t => a_base t | None => 0 end.
Definition alen_of_tab (ars : list (string * (Z * Z * Z))) (x : string) : Z := match assoc x ars with Some t => a_len t | None => 0 end.
Fixpoint zdup (l : list Z) : bool := match l with [] => false | x :: r => zmem x r || zdup r end.

Fixpoint pinfo_go (ps : list proc) (i : nat) (x : string) : option pframe :=
  match ps with
  | [] => None
  | p :: r => if String.eqb x (pname p) then Some {| pf_entry := entry_label i; pf_isfunc := is_func p |}
              else pinfo_go r (S i) x
  end.

(* one procedure of the image: its frame numbers and labels, and the code of its body *)
Record pent := { pe_proc : proc; pe_lay : playout; pe_body : list instr }.

Fixpoint ents_go (fr : frames) (pinfo : string -> option pframe) (gaddr aaddr : string -> option Z) (pool : Z -> option Z)
                 (ps : list proc) (next : label) : option (list pent) :=
  match ps with
  | [] => Some []
  | p :: r =>
      match fr (pname p) with
      | Some (size, nslots, og) =>
          match cs pinfo (frame_venv gaddr p size) pool size nslots (frame_aenv aaddr p size) (first_temp p) og next (body p) (next + 1) with
          | Some (bc, n') =>
              match ents_go fr pinfo gaddr aaddr pool r n' with
              | Some rest => Some ({| pe_proc := p; pe_body := bc;
                                      pe_lay := {| pl_size := size; pl_nslots := nslots; pl_og := og; pl_exit := next; pl_n0 := next + 1 |} |} :: rest)
              | None => None
              end
          | None => None
          end
      | None => None
      end
  end.

Definition pe_code (opt : bool) (e : pent) : list instr :=
  let c := pro (pl_size (pe_lay e)) ++ pe_body e ++ epi_of (is_func (pe_proc e)) (pl_exit (pe_lay e)) (pl_size (pe_lay e)) in
  if opt then peephole (List.length c) c else c.

Definition stub1 (main_entry : label) : list instr := [LDAP L_exit; BR main_entry].
Definition stub2 : list instr := [LABEL L_exit; LDBM 1; LDAC 0; STAI 2; SVC].

Fixpoint proc_dirs (opt : bool) (es : list pent) (i : nat) : list directive :=
  match es with
  | [] => []
  | e :: r => DLabel LId (lname (entry_label i)) :: map dir_of (pe_code opt e) ++ proc_dirs opt r (S i)
  end.

Definition prog_dirs (opt : bool) (sp0 : Z) (gwords dwords : list Z) (es : list pent) (main_entry : label) : list directive :=
  [DRef TBR (lname L_start) true; DData sp0] ++ map DData gwords ++ map DData dwords ++
  [DLabel LId (lname L_start)] ++ map dir_of (stub1 main_entry ++ stub2) ++ proc_dirs opt es 0.

(* ---- the validation *)
Definition simple_procb (gaddr aaddr : string -> option Z) (p : proc) : bool :=
  forallb (fun f => is_val_formal f || is_arr_formal f) (formals p) && forallb is_var_decl (locals p) &&
  negb (has_dup (map formal_nm (formals p) ++ map local_decl_name (locals p))) &&
  forallb (fun x => match gaddr x with None => true | Some _ => false end) (map formal_nm (formals p) ++ map local_decl_name (locals p)) &&
  forallb (fun x => match aaddr x with None => true | Some _ => false end) (map formal_nm (formals p) ++ map local_decl_name (locals p)).

Definition numbers_okb (maxframe : Z) (p : proc) (L : playout) : bool :=
  (0 <=? pl_size L) && (pl_size L <=? maxframe) && (first_temp p <=? pl_nslots L) && (0 <=? pl_og L) &&
  (pl_nslots L + pl_og L <=? pl_size L).

Definition maxframe_of (es : list pent) : Z := fold_right (fun e m => Z.max (pl_size (pe_lay e)) m) 2 es.

Fixpoint ents_chk (lab : label -> Z) (img : WMap.t) (gaddr aaddr : string -> option Z) (vals : list string) (maxframe lo hi : Z)
                  (es : list pent) (i : nat) : bool :=
  match es with
  | [] => true
  | e :: r =>
      simple_procb gaddr aaddr (pe_proc e) && numbers_okb maxframe (pe_proc e) (pe_lay e) &&
      negb (mem_str (pname (pe_proc e)) vals) &&
      (lo <=? lab (entry_label i)) &&
      match code_chk lab img (lab (entry_label i)) (pe_code false e) with Some endp => endp <=? hi | None => false end &&
      ents_chk lab img gaddr aaddr vals maxframe lo hi r (S i)
  end.

Fixpoint find_index (x : string) (ps : list proc) (i : nat) : option (nat * proc) :=
  match ps with [] => None | p :: r => if String.eqb x (pname p) then Some (i, p) else find_index x r (S i) end.

Record compiled := { c_bytes : list Z; c_words : list Z }.

Definition is_undef (v : value) : bool := match v with Vundef => true | _ => false end.
Definition model_compile (prm : params) (opt : bool) (p : program) : option (list Z) :=
  match gdecls (globals p), init_globals (globals p) [] [] [] with
  | Some gd, inr (gv, vars, arrs) =>
  let '(vs, ars, gwords, atop) := gtab gd 2 MAXW in
  let sp0 := atop - 3 in
  let gaddr := fun x => assoc x vs in
  let aaddr := aaddr_of ars in
  let pinfo := pinfo_go (procs p) 0 in
  let ngd := Z.of_nat (List.length gd) in
  let '(tbl, dwords) := pool_go (p_pool prm) (procs p) [] (2 + ngd) in
  let pool := fun v => zassoc v tbl in
  match find_index "main" (procs p) 0%nat, ents_go (p_frames prm) pinfo gaddr aaddr pool (procs p) 0 with
  | Some (mi, pm), Some es =>
      let dirs := prog_dirs opt sp0 gwords dwords es (entry_label mi) in
      match assemble_directives dirs [] with
      | Ok out =>
          let bytes := ao_image out in
          let words := words_of_bytes bytes in
          let nwords := Z.of_nat (List.length words) in
          let img := bytes_map bytes in
          let m0 := mem_of bytes in
          let lab := lab_of (ao_layout out) in
          let clo := lab L_start in
          let vals := map fst gv in
          let maxframe := maxframe_of es in
          let cw := 2 + ngd + Z.of_nat (List.length dwords) in
          if opt then Some words else
          if negb (is_func pm) && (match formals pm with [] => true | _ => false end) &&
             (rd m0 1 =? sp0) &&
             (clo =? 4 * cw) &&
             forallb (fun va => (2 + ngd <=? snd va) && (snd va <? cw) && (rd m0 (snd va) =? fst va mod W)) tbl &&
             (* the global variables: their words, and what XSem makes of them *)
             forallb (fun xw => (2 <=? snd xw) && (snd xw <? 2 + ngd) && negb (mem_str (fst xw) vals) &&
                                match assoc (fst xw) vars with Some v => is_undef v | None => false end) vs &&
             (* the arrays: the word holds the address of the cells, which lie between the root frame and the top *)
             forallb (fun xt => let t := snd xt in
                        (2 <=? a_word t) && (a_word t <? 2 + ngd) && (rd m0 (a_word t) =? a_base t) &&
                        (sp0 + 3 <=? a_base t) && (0 <=? a_len t) && (a_base t + a_len t <=? MAXW) &&
                        match assoc (fst xt) arrs with
                        | Some ar => (alen ar =? a_len t) && PositiveMap.is_empty (acells ar)
                        | None => false end &&
                        negb (mem_str (fst xt) vals) && (match assoc (fst xt) vars with None => true | Some _ => false end) &&
                        forallb (fun xt' => String.eqb (fst xt) (fst xt') || (a_base t + a_len t <=? a_base (snd xt')) ||
                                            (a_base (snd xt') + a_len (snd xt') <=? a_base t)) ars) ars &&
             negb (zdup (map snd vs ++ map (fun xt => a_word (snd xt)) ars)) &&
             match code_chk lab img 0 [BR L_start] with Some e => e <=? 4 | None => false end &&
             match code_chk lab img clo (stub1 (entry_label mi) ++ stub2) with Some e => e <=? 4 * nwords | None => false end &&
             bytes_ok m0 img 0 4%nat &&
             bytes_ok m0 img clo (Z.to_nat (4 * nwords - clo)) &&
             ents_chk lab img gaddr aaddr vals maxframe clo (4 * nwords) es 0 &&
             (nwords + 2000 * maxframe <=? sp0) && (sp0 + 3 <=? MAXW)
          then Some words else None
      | _ => None
      end
  | _, _ => None
  end
  | _, _ => None
  end.

(* ---------------------------------------------------------------- what the validation means *)
Lemma mem_str_in x l : mem_str x l = true <-> In x l.
Proof.
  induction l as [|y r IH]; cbn [mem_str In]; [split; [discriminate | intros []]|].
  rewrite Bool.orb_true_iff, IH, String.eqb_eq. split; intros [H|H]; auto.
Qed.
Lemma mem_str_notin x l : mem_str x l = false -> ~ In x l.
Proof. intros H Hin. apply mem_str_in in Hin. congruence. Qed.
Lemma has_dup_nodup l : has_dup l = false -> NoDup l.
Proof.
  induction l as [|x r IH]; cbn [has_dup]; intros H; [constructor|].
  apply Bool.orb_false_iff in H. destruct H as [H1 H2]. constructor; [exact (mem_str_notin _ _ H1) | exact (IH H2)].
Qed.
Lemma val_formals fs : forallb (fun f => is_val_formal f || is_arr_formal f) fs = true ->
  forall f, In f fs -> is_val_formal f = true \/ is_arr_formal f = true.
Proof.
  intros H f Hin. rewrite forallb_forall in H. specialize (H f Hin). apply Bool.orb_true_iff in H. exact H.
Qed.
Lemma var_decls ds : forallb is_var_decl ds = true -> ds = map DVar (map local_decl_name ds).
Proof.
  induction ds as [|d r IH]; cbn [forallb map]; intros H; [reflexivity|]. apply andb_prop in H. destruct H as [H1 H2].
  destruct d; try discriminate H1. cbn [local_decl_name]. f_equal. exact (IH H2).
Qed.

Lemma simple_procb_sound gaddr aaddr p : simple_procb gaddr aaddr p = true ->
  simple_proc gaddr aaddr p (map formal_nm (formals p)) (map local_decl_name (locals p)).
Proof.
  unfold simple_procb. intros H. apply andb_prop in H. destruct H as [H H5]. apply andb_prop in H. destruct H as [H H4].
  apply andb_prop in H. destruct H as [H H3]. apply andb_prop in H. destruct H as [H1 H2].
  split; [split; [reflexivity | exact (val_formals _ H1)]|]. split; [exact (var_decls _ H2)|]. split; [|split].
  - apply has_dup_nodup. apply Bool.negb_true_iff in H3. exact H3.
  - intros x Hx. rewrite forallb_forall in H4. specialize (H4 x Hx). destruct (gaddr x); [discriminate | reflexivity].
  - intros x Hx. rewrite forallb_forall in H5. specialize (H5 x Hx). destruct (aaddr x); [discriminate | reflexivity].
Qed.

Lemma numbers_okb_sound maxframe p L : numbers_okb maxframe p L = true -> numbers_ok maxframe p L.
Proof.
  unfold numbers_okb, numbers_ok. intros H. apply andb_prop in H. destruct H as [H H5]. apply andb_prop in H. destruct H as [H H4].
  apply andb_prop in H. destruct H as [H H3]. apply andb_prop in H. destruct H as [H1 H2].
  apply Z.leb_le in H1. apply Z.leb_le in H2. apply Z.leb_le in H3. apply Z.leb_le in H4. apply Z.leb_le in H5. lia.
Qed.

Lemma find_proc_name x : forall ps pr, find_proc x ps = Some pr -> pname pr = x.
Proof.
  induction ps as [|p r IH]; intros pr H; cbn [find_proc] in H; [discriminate|].
  destruct (String.eqb x (pname p)) eqn:E; [inversion H; subst pr; apply String.eqb_eq in E; auto | exact (IH _ H)].
Qed.

Lemma pinfo_go_spec : forall ps i x pi, pinfo_go ps i x = Some pi ->
  exists k pr, nth_error ps k = Some pr /\ find_proc x ps = Some pr /\
               pf_entry pi = entry_label (i + k) /\ pf_isfunc pi = is_func pr.
Proof.
  induction ps as [|p r IH]; intros i x pi H; cbn [pinfo_go] in H; [discriminate|]. cbn [find_proc].
  destruct (String.eqb x (pname p)) eqn:E.
  - inversion H; subst pi. exists 0%nat, p. cbn [nth_error pf_entry pf_isfunc]. rewrite Nat.add_0_r. repeat split.
  - destruct (IH _ _ _ H) as (k & pr & H1 & H2 & H3 & H4). exists (S k), pr. cbn [nth_error].
    replace (i + S k)%nat with (S i + k)%nat by lia. repeat split; assumption.
Qed.

Lemma find_index_spec : forall ps i x k pr, find_index x ps i = Some (k, pr) ->
  find_proc x ps = Some pr /\ pinfo_go ps i x = Some {| pf_entry := entry_label k; pf_isfunc := is_func pr |}.
Proof.
  induction ps as [|p r IH]; intros i x k pr H; cbn [find_index] in H; [discriminate|]. cbn [find_proc pinfo_go].
  destruct (String.eqb x (pname p)); [inversion H; subst; split; reflexivity | exact (IH _ _ _ _ H)].
Qed.

Lemma ents_go_spec fr pinfo gaddr aaddr pool : forall ps next es, ents_go fr pinfo gaddr aaddr pool ps next = Some es ->
  forall k pr, nth_error ps k = Some pr -> exists e n', nth_error es k = Some e /\ pe_proc e = pr /\
    cs pinfo (frame_venv gaddr pr (pl_size (pe_lay e))) pool (pl_size (pe_lay e)) (pl_nslots (pe_lay e)) (frame_aenv aaddr pr (pl_size (pe_lay e))) (first_temp pr)
       (pl_og (pe_lay e)) (pl_exit (pe_lay e)) (body pr) (pl_n0 (pe_lay e)) = Some (pe_body e, n').
Proof.
  induction ps as [|p r IH]; intros next es H k pr Hk; [destruct k; discriminate|]. cbn [ents_go] in H.
  destruct (fr (pname p)) as [[[size nslots] og]|]; [|discriminate].
  destruct (cs pinfo (frame_venv gaddr p size) pool size nslots (frame_aenv aaddr p size) (first_temp p) og next (body p) (next + 1)) as [[bc n']|] eqn:Ec; [|discriminate].
  destruct (ents_go fr pinfo gaddr aaddr pool r n') as [rest|] eqn:Er; [|discriminate]. inversion H; subst es.
  destruct k as [|k].
  - cbn [nth_error] in Hk. inversion Hk; subst pr. eexists. exists n'. cbn [nth_error]. split; [reflexivity|].
    cbn [pe_proc pe_lay pe_body pl_size pl_nslots pl_og pl_exit pl_n0]. split; [reflexivity | exact Ec].
  - cbn [nth_error] in *. exact (IH _ _ Er k pr Hk).
Qed.

Lemma ents_chk_spec lab img gaddr aaddr vals maxframe lo hi : forall es i, ents_chk lab img gaddr aaddr vals maxframe lo hi es i = true ->
  forall k e, nth_error es k = Some e ->
    simple_procb gaddr aaddr (pe_proc e) = true /\ numbers_okb maxframe (pe_proc e) (pe_lay e) = true /\
    mem_str (pname (pe_proc e)) vals = false /\ lo <= lab (entry_label (i + k)) /\
    exists endp, code_chk lab img (lab (entry_label (i + k))) (pe_code false e) = Some endp /\ endp <= hi.
Proof.
  induction es as [|e0 r IH]; intros i H k e Hk; [destruct k; discriminate|]. cbn [ents_chk] in H.
  apply andb_prop in H. destruct H as [H H6]. apply andb_prop in H. destruct H as [H H5]. apply andb_prop in H. destruct H as [H H4].
  apply andb_prop in H. destruct H as [H H3]. apply andb_prop in H. destruct H as [H1 H2].
  destruct k as [|k].
  - cbn [nth_error] in Hk. inversion Hk; subst e0. rewrite Nat.add_0_r. split; [exact H1|]. split; [exact H2|].
    split; [apply Bool.negb_true_iff in H3; exact H3|]. split; [apply Z.leb_le; exact H4|].
    destruct (code_chk lab img (lab (entry_label i)) (pe_code false e)) as [endp|]; [|discriminate].
    exists endp. split; [reflexivity | apply Z.leb_le; exact H5].
  - cbn [nth_error] in Hk. replace (i + S k)%nat with (S i + k)%nat by lia. exact (IH _ H6 k e Hk).
Qed.

(* ---- tables *)
Lemma assoc_in {A} x : forall (l : list (string * A)) v, assoc x l = Some v -> In (x, v) l.
Proof.
  induction l as [|[y w] r IH]; intros v H; cbn [assoc] in H; [discriminate|].
  destruct (String.eqb x y) eqn:E; [apply String.eqb_eq in E; inversion H; subst; left; reflexivity | right; exact (IH _ H)].
Qed.
Lemma assoc_notin {A} x : forall (l : list (string * A)), ~ In x (map fst l) -> assoc x l = None.
Proof.
  induction l as [|[y w] r IH]; intros H; cbn [assoc]; [reflexivity|]. cbn [map fst In] in H.
  destruct (String.eqb x y) eqn:E; [apply String.eqb_eq in E; subst; exfalso; apply H; left; reflexivity|].
  apply IH. intros Hin. apply H. right. exact Hin.
Qed.
Lemma zmem_in v l : zmem v l = true <-> In v l.
Proof.
  unfold zmem. rewrite existsb_exists. split.
  - intros (x & Hx & He). apply Z.eqb_eq in He. subst. exact Hx.
  - intros H. exists v. split; [exact H | apply Z.eqb_refl].
Qed.
Lemma zdup_nodup l : zdup l = false -> NoDup l.
Proof.
  induction l as [|x r IH]; cbn [zdup]; intros H; [constructor|]. apply Bool.orb_false_iff in H. destruct H as [H1 H2].
  constructor; [|exact (IH H2)]. intros Hin. apply zmem_in in Hin. congruence.
Qed.
Lemma nodup_app_disj {A} (l1 l2 : list A) x : NoDup (l1 ++ l2) -> In x l1 -> In x l2 -> False.
Proof.
  induction l1 as [|y r IH]; intros Hnd H1 H2; [destruct H1|]. cbn [app] in Hnd. inversion Hnd as [|? ? Hn Hnd']; subst.
  destruct H1 as [->|H1]; [apply Hn; apply in_or_app; right; exact H2 | exact (IH Hnd' H1 H2)].
Qed.
Lemma nodup_map_inj {A B} (f : A -> B) : forall l a b, NoDup (map f l) -> In a l -> In b l -> f a = f b -> a = b.
Proof.
  induction l as [|x r IH]; intros a b Hnd Ha Hb Hf; [destruct Ha|]. cbn [map] in Hnd. inversion Hnd as [|? ? Hn Hnd']; subst.
  destruct Ha as [->|Ha]; destruct Hb as [->|Hb]; [reflexivity | | |exact (IH a b Hnd' Ha Hb Hf)].
  - exfalso. apply Hn. rewrite Hf. apply in_map. exact Hb.
  - exfalso. apply Hn. rewrite <- Hf. apply in_map. exact Ha.
Qed.
Lemma nodup_app_l {A} (l1 l2 : list A) : NoDup (l1 ++ l2) -> NoDup l1.
Proof.
  induction l1 as [|y r IH]; intros H; [constructor|]. cbn [app] in H. inversion H as [|? ? Hn Hnd]; subst.
  constructor; [intros Hin; apply Hn; apply in_or_app; left; exact Hin | exact (IH Hnd)].
Qed.
Lemma nodup_app_r {A} (l1 l2 : list A) : NoDup (l1 ++ l2) -> NoDup l2.
Proof. induction l1 as [|y r IH]; intros H; [exact H|]. cbn [app] in H. inversion H; subst. auto. Qed.

(* ---------------------------------------------------------------- what an image shows (as in Properties_C01.v) *)
Definition console_input (inp : list Z) : inputs := {| console := inp; files := fun _ => [] |}.
Definition isa_shows (img : list Z) (inp : list Z) (n : nat) (b : behaviour) : Prop :=
  match Isa.run n (boot img) (console_input inp) [] with
  | (evs, inp', _, Exited c) =>
      writes evs = outputs b /\
      (List.length inp - List.length (console inp'))%nat = consumed b /\
      c = exit_value b mod 4294967296
  | _ => False
  end.

Lemma writes_exit outs c : writes (outs ++ [Exit c]) = writes outs.
Proof. rewrite writes_app. cbn [writes]. apply app_nil_r. Qed.

Lemma wrap_id a : 0 <= a < MEMW -> wrap a = a.
Proof. intros H. unfold wrap. apply Z.mod_small. unfold MEMW, W in *. lia. Qed.
Lemma in_mem_of a : 0 <= a < MEMW -> in_mem a = true.
Proof. intros H. unfold in_mem. apply andb_true_intro. split; [apply Z.leb_le | apply Z.ltb_lt]; lia. Qed.
Lemma maxframe_ge2 es : 2 <= maxframe_of es.
Proof. induction es as [|e r IH]; cbn [maxframe_of fold_right]; [lia|]. unfold maxframe_of in IH. lia. Qed.

(* the frame the entry stub calls main from: two words at the initial stack pointer *)
Definition pr_root : proc := {| is_func := false; pname := "_root"; formals := []; locals := []; body := SSkip |}.
Definition L_root : playout := {| pl_size := 2; pl_nslots := 0; pl_og := 2; pl_exit := 0; pl_n0 := 0 |}.

Section Run.
  Variable fr : frames.
  Variable p : program.
  Variables (vs : list (string * Z)) (ars : list (string * (Z * Z * Z))) (ngd : Z) (sp0 : Z).
  Variables (mi : nat) (pm : proc) (es : list pent) (out : asm_out) (tbl : list (Z * Z)) (ndw : nat).
  Variables (gv : list (string * Z)) (vars : list (string * value)) (arrs : list (string * arr)).
  Notation ps := (procs p).
  Notation gaddr := (fun x => assoc x vs).
  Notation aaddr := (aaddr_of ars).
  Notation abase := (abase_of ars).
  Notation alen_of := (alen_of_tab ars).
  Notation pool := (fun v => zassoc v tbl).
  Notation pinfo := (pinfo_go (procs p) 0).
  Notation bytes := (ao_image out).
  Notation words := (words_of_bytes (ao_image out)).
  Notation nwords := (Z.of_nat (List.length (words_of_bytes (ao_image out)))).
  Notation img := (bytes_map (ao_image out)).
  Notation m0 := (mem_of (ao_image out)).
  Notation lab := (lab_of (ao_layout out)).
  Notation vals := (map fst gv).
  Notation maxframe := (maxframe_of es).
  Notation cw := (2 + ngd + Z.of_nat ndw).
  Notation clo := (lab_of (ao_layout out) L_start).
  Notation stack_hi := (sp0 + 3).
  Definition Pw (a : Z) : Prop := a = 0 \/ In a (map snd tbl) \/ cw <= a < nwords.
  Notation Cw := (C Pw m0).

  Hypothesis Hngd : 0 <= ngd.
  Hypothesis Hmain : find_index "main" ps 0 = Some (mi, pm).
  Hypothesis Hents : ents_go fr pinfo gaddr aaddr pool ps 0 = Some es.
  Hypothesis Htbl : forall v a, In (v, a) tbl -> 2 + ngd <= a < cw /\ rd m0 a = v mod W.
  Hypothesis Hpm : is_func pm = false /\ formals pm = [].
  Hypothesis Hsp : rd m0 1 = sp0.
  Hypothesis Hclo : clo = 4 * cw.
  Hypothesis Hvs : forall x w, In (x, w) vs -> 2 <= w < 2 + ngd /\ ~ In x vals /\ assoc x vars = Some Vundef.
  Hypothesis Hars : forall x t, In (x, t) ars ->
    2 <= a_word t < 2 + ngd /\ rd m0 (a_word t) = a_base t /\ sp0 + 3 <= a_base t /\ 0 <= a_len t /\ a_base t + a_len t <= MAXW /\
    (exists ar, assoc x arrs = Some ar /\ alen ar = a_len t /\ PositiveMap.is_empty (acells ar) = true) /\
    (~ In x vals /\ assoc x vars = None) /\
    forall x' t', In (x', t') ars -> x = x' \/ a_base t + a_len t <= a_base t' \/ a_base t' + a_len t' <= a_base t.
  Hypothesis Hwords : NoDup (map snd vs ++ map (fun xt => a_word (snd xt)) ars).
  Hypothesis Hbr : exists e, code_chk lab img 0 [BR L_start] = Some e /\ e <= 4.
  Hypothesis Hstub : exists e, code_chk lab img clo (stub1 (entry_label mi) ++ stub2) = Some e /\ e <= 4 * nwords.
  Hypothesis Hb0 : bytes_ok m0 img 0 4 = true.
  Hypothesis Hb1 : bytes_ok m0 img clo (Z.to_nat (4 * nwords - clo)) = true.
  Hypothesis Hchk : ents_chk lab img gaddr aaddr vals maxframe clo (4 * nwords) es 0 = true.
  Hypothesis Hroom : nwords + 2000 * maxframe <= sp0.
  Hypothesis Hsp0 : sp0 + 3 <= MAXW.

  Lemma geometry : 2 <= cw /\ cw <= nwords /\ 0 <= clo <= 4 * nwords /\ nwords + 4000 <= sp0 /\ 4 * nwords < W /\ sp0 + 3 <= MEMW.
  Proof.
    destruct Hstub as (e & He & Hle). pose proof (code_chk_le _ _ _ _ _ He) as H1. pose proof (maxframe_ge2 es) as H2.
    unfold MAXW, MEMW, W in *. lia.
  Qed.

  Lemma holds0 m : Cw m -> holds m img 0 4.
  Proof.
    change 4 with (0 + Z.of_nat 4). apply bytes_ok_holds; [exact Hb0 | lia|].
    intros q Hq. left. apply Z.div_small. cbn in Hq. lia.
  Qed.
  Lemma holds1 m : Cw m -> holds m img clo (4 * nwords).
  Proof.
    destruct geometry as (G1 & G2 & G3 & G4 & G5 & G6).
    replace (4 * nwords) with (clo + Z.of_nat (Z.to_nat (4 * nwords - clo))) by (rewrite Z2Nat.id; lia).
    apply bytes_ok_holds; [exact Hb1 | lia|].
    intros q Hq. rewrite Z2Nat.id in Hq by lia. right. right. rewrite Hclo in Hq.
    split; [apply Z.div_le_lower_bound; lia | apply Z.div_lt_upper_bound; lia].
  Qed.
  Lemma code_in lo c e : code_chk lab img lo c = Some e -> clo <= lo -> e <= 4 * nwords -> code_at Cw lab lo c e.
  Proof.
    intros Hc Hlo He. destruct geometry as (G1 & G2 & G3 & G4 & G5 & G6). pose proof (code_chk_le _ _ _ _ _ Hc) as Hle.
    apply (code_chk_sound Cw c lab img lo e Hc); [lia | lia|].
    intros m Hm. exact (holds_sub m img clo (4 * nwords) lo e (holds1 m Hm) Hlo He).
  Qed.

  Notation ge := {| g_vals := gv; g_procs := procs p; g_maxdepth := default_depth |}.

  Lemma not_val_none x : ~ In x vals -> assoc x gv = None.
  Proof. apply assoc_notin. Qed.
  Lemma tbl_addr a : In a (map snd tbl) -> 2 + ngd <= a < cw.
  Proof. intros H. apply in_map_iff in H. destruct H as ([v a'] & <- & Hin). exact (proj1 (Htbl v a' Hin)). Qed.
  Lemma zassoc_in v : forall t a, zassoc v t = Some a -> In (v, a) t.
  Proof.
    induction t as [|[k a0] r IH]; intros a H; cbn [zassoc] in H; [discriminate|].
    destruct (k =? v) eqn:E; [apply Z.eqb_eq in E; inversion H; subst; left; reflexivity | right; exact (IH _ H)].
  Qed.
  (* an array of the table *)
  Lemma aaddr_spec a w : aaddr a = Some w -> exists t, In (a, t) ars /\ assoc a ars = Some t /\ a_word t = w /\ abase a = a_base t /\ alen_of a = a_len t.
  Proof.
    unfold aaddr_of, abase_of, alen_of_tab. destruct (assoc a ars) as [t|] eqn:E; [|discriminate]. cbn [option_map]. intros H. inversion H; subst w.
    exists t. split; [exact (assoc_in _ _ _ E)|]. repeat split.
  Qed.

  Lemma the_hyps : prog_hyps ge gaddr aaddr abase alen_of pool Pw m0 lab pinfo nwords stack_hi maxframe.
  Proof.
    destruct geometry as (G1 & G2 & G3 & G4 & G5 & G6). pose proof (maxframe_ge2 es) as Gm.
    unfold prog_hyps. split; [|split; [|split; [|split; [|split; [|split; [|split; [|split; [|split; [|split]]]]]]]]].
    - intros x pi Hx. destruct (pinfo_go_spec _ _ _ _ Hx) as (k & pr & Hk & Hf & Hen & Hif). cbn [Nat.add] in Hen.
      destruct (ents_go_spec _ _ _ _ _ _ _ _ Hents k pr Hk) as (e & n' & Hek & Hpe & Hcs).
      destruct (ents_chk_spec _ _ _ _ _ _ _ _ _ _ Hchk k e Hek) as (Hsb & Hnb & _ & Hlo & endp & Hcc & Hend). cbn [Nat.add] in Hlo, Hcc.
      rewrite Hen. split; [lia|].
      exists pr, (map formal_nm (formals pr)), (map local_decl_name (locals pr)), (pe_lay e), (pe_body e), n', endp.
      cbn [g_procs]. split; [exact Hf|]. split; [exact Hif|]. rewrite Hpe in Hsb, Hnb.
      split; [exact (simple_procb_sound _ _ _ Hsb)|]. split; [exact (numbers_okb_sound _ _ _ Hnb)|]. split; [exact Hcs|].
      split; [|lia]. unfold pe_code in Hcc. rewrite Hpe in Hcc. exact (code_in _ _ _ Hcc Hlo Hend).
    - intros x a Hx. apply assoc_in in Hx. destruct (Hvs x a Hx) as (Hr & Hnv & _). cbn [g_vals].
      split; [apply in_mem_of; unfold MEMW in *; lia|]. split; [intros [Hq|[Hq|Hq]]; [lia | apply tbl_addr in Hq; lia | lia]|].
      split; [lia|]. split; [lia|]. exact (not_val_none x Hnv).
    - intros x y a b Hx Hy Hne Heq. subst b. apply assoc_in in Hx. apply assoc_in in Hy.
      pose proof (nodup_map_inj snd vs (x, a) (y, a) (nodup_app_l _ _ Hwords) Hx Hy eq_refl) as He. inversion He. contradiction.
    - split; [lia|]. intros a Ha [Hq|[Hq|Hq]]; [lia | apply tbl_addr in Hq; lia | lia].
    - intros [Hq|[Hq|Hq]]; [lia | apply tbl_addr in Hq; lia | lia].
    - intros v a H. apply zassoc_in in H. destruct (Htbl v a H) as [Hr Hv].
      split; [right; left; apply in_map_iff; exists (v, a); split; [reflexivity | exact H]|].
      split; [apply in_mem_of; unfold MEMW in *; lia | exact Hv].
    - intros x pi Hx. destruct (pinfo_go_spec _ _ _ _ Hx) as (k & pr & Hk & Hf & _ & _).
      destruct (ents_go_spec _ _ _ _ _ _ _ _ Hents k pr Hk) as (e & n' & Hek & Hpe & _).
      destruct (ents_chk_spec _ _ _ _ _ _ _ _ _ _ Hchk k e Hek) as (_ & _ & Hm & _).
      cbn [g_vals]. apply not_val_none. rewrite Hpe, (find_proc_name _ _ _ Hf) in Hm. exact (mem_str_notin _ _ Hm).
    - lia.
    - exact G6.
    - (* the arrays *)
      intros a w Hw. destruct (aaddr_spec a w Hw) as (t & Hin & _ & <- & Hb & Hl).
      destruct (Hars a t Hin) as (A1 & A2 & A3 & A4 & A5 & _).
      split; [apply in_mem_of; unfold MEMW in *; lia|]. split; [intros [Hq|[Hq|Hq]]; [lia | apply tbl_addr in Hq; lia | lia]|].
      split; [lia|]. split; [lia|]. split.
      + intros x g Hg Heq. apply assoc_in in Hg.
        refine (nodup_app_disj _ _ g Hwords _ _).
        * apply in_map_iff. exists (x, g). split; [reflexivity | exact Hg].
        * rewrite Heq. apply in_map_iff. exists (a, t). split; [reflexivity | exact Hin].
      + intros i Hi. rewrite Hb. rewrite Hl in Hi. split; [unfold MAXW, MEMW in *; lia|].
        intros [Hq|[Hq|Hq]]; [lia | apply tbl_addr in Hq; lia | lia].
    - (* different cells *)
      intros a w a' w' i i' Hw Hw' Hi Hi' Heq.
      destruct (aaddr_spec a w Hw) as (t & Hin & Has & _ & Hb & Hl). destruct (aaddr_spec a' w' Hw') as (t' & Hin' & Has' & _ & Hb' & Hl').
      rewrite Hb, Hb' in Heq. rewrite Hl in Hi. rewrite Hl' in Hi'.
      destruct (Hars a t Hin) as (_ & _ & _ & _ & _ & _ & _ & Hd). destruct (Hd a' t' Hin') as [<-|[Hlt|Hlt]]; [|lia|lia].
      rewrite Has in Has'. inversion Has'; subst t'. split; [reflexivity | lia].
  Qed.

  (* ---- the run: reset, the entry stub, main called from the root frame, the exit stub *)
  Variable inp : list Z.
  Notation cin := (console_input inp).

  Lemma root_simple : simple_proc gaddr aaddr pr_root [] [].
  Proof. split; [split; [reflexivity | intros f []]|]. split; [reflexivity|]. split; [constructor|]. split; intros x []. Qed.
  Lemma root_frame : frame_ok gaddr aaddr nwords stack_hi maxframe pr_root [] [] L_root sp0.
  Proof.
    destruct geometry as (G1 & G2 & G3 & G4 & G5 & G6). pose proof (maxframe_ge2 es) as Gm.
    split; [exact root_simple|]. split; [unfold numbers_ok, L_root, first_temp; cbn; lia|].
    unfold foff, MEMW in *. cbn. lia.
  Qed.

  Definition state0 (steps : Z) : state :=
    {| gvars := vars; garrs := arrs; out_rev := []; input := inp; ncons := 0%nat; budget := steps; cur := eff0;
       stk := [{| f_vars := []; f_vals := []; f_depth := 0%nat |}] |}.

  Lemma root_rel steps : Rel pinfo (Dq_of ge nwords maxframe sp0) (frame_venv gaddr pr_root (pl_size L_root)) (frame_aenv aaddr pr_root (pl_size L_root))
                             (garr_of aaddr) abase alen_of ge Pw m0 sp0 (state0 steps) m0.
  Proof.
    destruct geometry as (G1 & G2 & G3 & G4 & G5 & G6). destruct the_hyps as (_ & H2 & _).
    split; [|split; [|split; [|split]]].
    - intros a _ _. reflexivity.
    - exact Hsp.
    - split; [split | split].
      + intros x a Hx.
        destruct (frame_venv_spec gaddr aaddr pr_root [] [] _ x _ root_simple Hx) as [(j & Hj & _)|[(i & Hi & _)|(_ & a0 & Ha0 & Hq)]];
          [destruct j; discriminate Hj | destruct i; discriminate Hi|].
        inversion Hq; subst a0. destruct (H2 x a Ha0) as (_ & _ & _ & _ & G). cbn [g_vals] in G.
        split; [reflexivity|]. split; [reflexivity|]. split; [exact G|].
        exists Vundef. split; [|left; reflexivity]. cbn [gvars state0]. apply assoc_in in Ha0. exact (proj2 (proj2 (Hvs x a Ha0))).
      + intros x k Hx.
        destruct (frame_venv_spec gaddr aaddr pr_root [] [] _ x _ root_simple Hx) as [(j & Hj & _)|[(i & Hi & _)|(_ & a0 & Ha0 & Hq)]];
          [destruct j; discriminate Hj | destruct i; discriminate Hi | discriminate Hq].
      + (* the names of the arrays: the root frame sees the global arrays only *)
        intros a l Hal.
        destruct (frame_aenv_spec gaddr aaddr pr_root [] [] _ a l root_simple Hal) as [(i & Hi & _)|(_ & w & Hw & ->)]; [destruct i; discriminate Hi|].
        destruct (aaddr_spec a w Hw) as (t & Hin & _ & <- & Hb & Hl).
        destruct (Hars a t Hin) as (_ & A2 & _ & _ & _ & (ar & Har & Hlen & Hemp) & _).
        exists a. split; [|split; [unfold garr_of; rewrite Hw; reflexivity|]; split; [cbn [waddr]; rewrite Hb; exact A2 | intros; reflexivity]].
        right. cbn [top stk state0 f_vars f_vals garrs]. split; [reflexivity|]. split; [reflexivity|]. split; [rewrite Har; discriminate | reflexivity].
      + (* the cells: declared, with their lengths, nothing assigned yet *)
        intros g Hg. unfold garr_of in Hg. destruct (aaddr_of ars g) as [w|] eqn:Hw; [|discriminate].
        destruct (aaddr_spec g w Hw) as (t & Hin & _ & _ & Hb & Hl).
        destruct (Hars g t Hin) as (_ & _ & _ & _ & _ & (ar & Har & Hlen & Hemp) & (Hnv & Hnvar) & _).
        cbn [g_vals gvars garrs state0]. split; [exact (not_val_none g Hnv)|]. split; [exact Hnvar|].
        exists ar. split; [exact Har|]. split; [rewrite Hl; exact Hlen|].
        intros i n _ Hf. exfalso. apply PositiveMap.is_empty_2 in Hemp. apply PositiveMap.find_2 in Hf. exact (Hemp _ _ Hf).
    - split; [discriminate|]. intros q qi _. reflexivity.
    - unfold Dq_of. cbn [top stk state0 f_depth g_maxdepth]. rewrite Nat.sub_0_r. unfold default_depth. rewrite Z2Nat.id by lia. lia.
  Qed.

  Lemma boot_state : boot words = mk 0 0 0 0 m0.
  Proof. reflexivity. Qed.

  Lemma invoke_shows fuel steps b :
    match invoke (exec fuel ge) ge false "main" [] (state0 steps) with
    | Ret _ s => finish s 0 | Halt c s => finish s c | Fail u => Undef u end = Behaviour b ->
    exists n, isa_shows words inp n b.
  Proof.
    intros Hb. destruct geometry as (G1 & G2 & G3 & G4 & G5 & G6).
    destruct the_hyps as (H1 & H2 & H3 & H4 & H5 & H6 & H7 & H8 & H9 & H10 & H11).
    destruct (find_index_spec _ _ _ _ _ Hmain) as [Hfm Hpi]. destruct Hpm as [Hpm1 Hpm2].
    set (pi_main := {| pf_entry := entry_label mi; pf_isfunc := is_func pm |}) in *.
    assert (Crefl : Cw m0) by (intros a _ _; reflexivity).
    (* the code of the stub *)
    destruct Hbr as (e0 & Hc0 & He0). destruct Hstub as (e1 & Hc1 & He1).
    assert (CA0 : code_at Cw lab 0 [BR L_start] e0).
    { apply (code_chk_sound Cw _ lab img 0 e0 Hc0); [lia | unfold W; lia|].
      intros m Hm. exact (holds_sub m img 0 4 0 e0 (holds0 m Hm) ltac:(lia) He0). }
    pose proof (code_in _ _ _ Hc1 ltac:(lia) He1) as CA1.
    apply code_at_app in CA1. destruct CA1 as (q & CAa & CAb).
    cbn [stub1 code_at] in CAa. destruct CAa as (q1 & Hi1 & q2 & Hi2 & Eq2). subst q2.
    unfold stub2 in CAb. cbn [code_at] in CAb. destruct CAb as (q0 & Hi0 & r1 & Hj1 & r2 & Hj2 & r3 & Hj3 & r4 & Hj4 & Er4). subst r4.
    cbn [instr_at] in Hi0. destruct Hi0 as [<- Hlx].
    cbn [code_at] in CA0. destruct CA0 as (e0' & Hb0' & Ee0). subst e0'.
    pose proof (instr_at_le _ _ _ _ _ Hi1) as L1. pose proof (instr_at_le _ _ _ _ _ Hi2) as L2.
    pose proof (instr_at_le _ _ _ _ _ Hj1) as M1. pose proof (instr_at_le _ _ _ _ _ Hj2) as M2.
    pose proof (instr_at_le _ _ _ _ _ Hj3) as M3. pose proof (instr_at_le _ _ _ _ _ Hj4) as M4.
    (* where main is *)
    destruct (H1 "main" pi_main Hpi) as (Hm0 & prm & fnm & lnm & Lm & bcm & nm & endm & _ & _ & _ & _ & _ & Hcam & Hendm).
    cbn [pf_entry pi_main] in Hm0, Hcam. pose proof (code_at_le _ _ _ _ _ Hcam) as Lm1.
    (* reset; BR _start; LDAP _exit; BR main *)
    pose proof (exec_br Cw lab m0 0 e0 L_start 0 0 cin Hb0' Crefl ltac:(unfold W; lia) ltac:(lia)) as T0.
    pose proof (exec_ldap Cw lab m0 clo q1 L_exit 0 0 cin Hi1 Crefl ltac:(lia) ltac:(lia)) as T1. rewrite Hlx in T1.
    pose proof (exec_br Cw lab m0 q1 q (entry_label mi) q 0 cin Hi2 Crefl ltac:(lia) ltac:(lia)) as T2.
    pose proof (taus_trans cin _ _ _ T0 (taus_trans cin _ _ _ T1 T2)) as Tstart.
    (* main, called from the root frame *)
    assert (Hko : koff pi_main = 1) by (unfold koff, pi_main; cbn [pf_isfunc]; rewrite Hpm1; reflexivity).
    pose proof (call_ok ge gaddr aaddr abase alen_of pool Pw m0 lab pinfo nwords stack_hi maxframe H1 H2 H3 H4 H5 H6 H7 H8 H9 H10 H11 fuel pr_root [] [] L_root sp0 root_frame
                  "main" pi_main [] (state0 steps) m0 q 0 cin Hpi (root_rel steps) eq_refl) as R.
    specialize (R ltac:(intros i v Hi; destruct i; discriminate Hi) ltac:(rewrite Hko; cbn; lia) ltac:(lia)).
    cbn [pf_isfunc pf_entry pi_main] in R. rewrite Hpm1 in R.
    destruct (invoke (exec fuel ge) ge false "main" [] (state0 steps)) as [v s|c s|u]; cbn [ret_ok] in R; [| |discriminate Hb].
    - (* main returns: the exit stub *)
      destruct R as (outs & a1 & b1 & m1 & R1 & HR1 & P1 & _).
      destruct HR1 as (HC1 & HS1 & _). destruct P1 as (Po & Pn & _). cbn [out_rev ncons input state0] in Po, Pn.
      assert (Sin : in_mem (sp0 + 2) = true) by (apply in_mem_of; unfold MEMW in *; lia).
      assert (Sw : wrap (sp0 + 2) = sp0 + 2) by (apply wrap_id; unfold MEMW in *; lia).
      pose proof (exec_instr Cw lab m1 q r1 (LDBM 1) a1 b1 (adv cin s) eq_refl Hj1 HC1 eq_refl ltac:(lia)) as U1. cbn [sem fst snd] in U1. rewrite HS1 in U1.
      pose proof (exec_instr Cw lab m1 r1 r2 (LDAC 0) a1 sp0 (adv cin s) eq_refl Hj2 HC1 I ltac:(lia)) as U2. cbn [sem fst snd] in U2. change (0 mod W) with 0 in U2.
      assert (R3 : readable (STAI 2) 0 sp0) by (cbn [readable]; rewrite Sw; exact Sin).
      pose proof (exec_instr Cw lab m1 r2 r3 (STAI 2) 0 sp0 (adv cin s) eq_refl Hj3 HC1 R3 ltac:(lia)) as U3. cbn [sem fst snd] in U3. rewrite Sw in U3.
      set (m2 := wr m1 (sp0 + 2) 0) in *.
      assert (HC2 : Cw m2) by (apply Cm_wr; [exact HC1 | lia | intros [Hq|[Hq|Hq]]; [lia | apply tbl_addr in Hq; lia | lia]]).
      assert (H12 : rd m2 1 = sp0) by (unfold m2; rewrite rd_wr_other; [exact HS1 | lia | lia | lia]).
      assert (Hin2 : in_mem (wrap (rd m2 1 + 2)) = true) by (rewrite H12, Sw; exact Sin).
      pose proof (exec_svc_exit Cw lab m2 r3 e1 sp0 (adv cin s) Hj4 HC2 Hin2) as U4.
      rewrite H12, Sw in U4. unfold m2 in U4 at 2. rewrite rd_wr_same in U4.
      assert (Hex : exits cin (mk 0 0 0 0 m0) (outs ++ []) (adv cin s) 0).
      { eapply taus_exits; [exact Tstart|]. eapply runs_exits; [exact R1|].
        eapply taus_exits; [exact U1|]. eapply taus_exits; [exact U2|]. eapply taus_exits; [exact U3|]. exact U4. }
      rewrite app_nil_r in Hex. destruct Hex as (k & s' & Hrun). exists k. unfold isa_shows. rewrite boot_state, Hrun.
      unfold finish in Hb. inversion Hb; subst b. cbn [outputs consumed exit_value console console_input].
      split; [rewrite writes_exit, Po, app_nil_r, rev_involutive; reflexivity|]. split; [cbn [adv console]; lia | reflexivity].
    - (* the program exits by itself *)
      destruct R as (outs & Ex & (Po & Pn)). cbn [out_rev ncons input state0] in Po, Pn.
      pose proof (taus_exits cin _ _ _ _ _ Tstart Ex) as Hex. destruct Hex as (k & s' & Hrun).
      exists k. unfold isa_shows. rewrite boot_state, Hrun.
      unfold finish in Hb. inversion Hb; subst b. cbn [outputs consumed exit_value console console_input].
      split; [rewrite writes_exit, Po, app_nil_r, rev_involutive; reflexivity|]. split; [cbn [adv console]; lia | reflexivity].
  Qed.
End Run.

(* ---------------------------------------------------------------- the theorem *)
Theorem program_correct : forall (prm : params) (p : program) (inp : list Z) (b : behaviour) (img : list Z),
  XSem.run p inp = Behaviour b -> model_compile prm false p = Some img -> exists n, isa_shows img inp n b.
Proof.
  intros prm p inp b img Hrun Hmc. unfold model_compile in Hmc.
  destruct (gdecls (globals p)) as [gd|] eqn:Hgd; [|discriminate].
  destruct (init_globals (globals p) [] [] []) as [u|[[gv vars] arrs]] eqn:Hinit; [discriminate|].
  destruct (gtab gd 2 MAXW) as [[[vs ars] gwords] atop] eqn:Hgt.
  destruct (pool_go (p_pool prm) (procs p) [] (2 + Z.of_nat (List.length gd))) as [tbl dwords] eqn:Hpool.
  destruct (find_index "main" (procs p) 0) as [[mi pm]|] eqn:Hmain; [|discriminate].
  destruct (ents_go (p_frames prm) (pinfo_go (procs p) 0) (fun x => assoc x vs) (aaddr_of ars) (fun v => zassoc v tbl) (procs p) 0) as [es|] eqn:Hents; [|discriminate].
  destruct (assemble_directives _ []) as [out| | |] eqn:Hasm; try discriminate.
  cbv beta iota zeta in Hmc.
  match type of Hmc with (if ?c then _ else _) = _ => destruct c eqn:E; [|discriminate] end.
  inversion Hmc; subst img. clear Hmc.
  apply andb_prop in E. destruct E as [E A16]. apply andb_prop in E. destruct E as [E A15]. apply andb_prop in E. destruct E as [E A14].
  apply andb_prop in E. destruct E as [E A13].
  apply andb_prop in E. destruct E as [E A12]. apply andb_prop in E. destruct E as [E A11]. apply andb_prop in E. destruct E as [E A10].
  apply andb_prop in E. destruct E as [E A9]. apply andb_prop in E. destruct E as [E A8]. apply andb_prop in E. destruct E as [E A7].
  apply andb_prop in E. destruct E as [E A5]. apply andb_prop in E. destruct E as [E A4].
  apply andb_prop in E. destruct E as [E A3]. apply andb_prop in E. destruct E as [A1 A2].
  apply Bool.negb_true_iff in A1. apply Z.eqb_eq in A3. apply Z.eqb_eq in A4. apply Z.leb_le in A15.
  assert (Hfm : formals pm = []) by (destruct (formals pm); [reflexivity | discriminate A2]).
  set (ngd := Z.of_nat (List.length gd)) in *. set (sp0 := atop - 3) in *.
  assert (Htbl : forall v a, In (v, a) tbl -> 2 + ngd <= a < 2 + ngd + Z.of_nat (List.length dwords) /\ rd (mem_of (ao_image out)) a = v mod W).
  { intros v a Hin. rewrite forallb_forall in A5. specialize (A5 (v, a) Hin). cbn [fst snd] in A5.
    apply andb_prop in A5. destruct A5 as [A5 C3]. apply andb_prop in A5. destruct A5 as [C1 C2].
    apply Z.leb_le in C1. apply Z.ltb_lt in C2. apply Z.eqb_eq in C3. split; [lia | exact C3]. }
  assert (Hvs : forall x w, In (x, w) vs -> 2 <= w < 2 + ngd /\ ~ In x (map fst gv) /\ assoc x vars = Some Vundef).
  { intros x w Hin. rewrite forallb_forall in A7. specialize (A7 (x, w) Hin). cbn [fst snd] in A7.
    apply andb_prop in A7. destruct A7 as [A7 C4]. apply andb_prop in A7. destruct A7 as [A7 C3]. apply andb_prop in A7. destruct A7 as [C1 C2].
    apply Z.leb_le in C1. apply Z.ltb_lt in C2. apply Bool.negb_true_iff in C3.
    split; [lia|]. split; [exact (mem_str_notin _ _ C3)|].
    destruct (assoc x vars) as [[| | |]|]; try discriminate C4. reflexivity. }
  assert (Hars : forall x t, In (x, t) ars ->
    2 <= a_word t < 2 + ngd /\ rd (mem_of (ao_image out)) (a_word t) = a_base t /\ sp0 + 3 <= a_base t /\ 0 <= a_len t /\ a_base t + a_len t <= MAXW /\
    (exists ar, assoc x arrs = Some ar /\ alen ar = a_len t /\ PositiveMap.is_empty (acells ar) = true) /\
    (~ In x (map fst gv) /\ assoc x vars = None) /\
    forall x' t', In (x', t') ars -> x = x' \/ a_base t + a_len t <= a_base t' \/ a_base t' + a_len t' <= a_base t).
  { intros x t Hin. rewrite forallb_forall in A8. specialize (A8 (x, t) Hin). cbn [fst snd] in A8.
    apply andb_prop in A8. destruct A8 as [A8 C8]. apply andb_prop in A8. destruct A8 as [A8 C10]. apply andb_prop in A8. destruct A8 as [A8 C9].
    apply andb_prop in A8. destruct A8 as [A8 C7]. apply andb_prop in A8. destruct A8 as [A8 C6].
    apply andb_prop in A8. destruct A8 as [A8 C5]. apply andb_prop in A8. destruct A8 as [A8 C4]. apply andb_prop in A8. destruct A8 as [A8 C3].
    apply andb_prop in A8. destruct A8 as [C1 C2].
    apply Z.leb_le in C1. apply Z.ltb_lt in C2. apply Z.eqb_eq in C3. apply Z.leb_le in C4. apply Z.leb_le in C5. apply Z.leb_le in C6.
    split; [lia|]. split; [exact C3|]. split; [exact C4|]. split; [exact C5|]. split; [exact C6|]. split; [|split].
    - destruct (assoc x arrs) as [ar|]; [|discriminate C7]. apply andb_prop in C7. destruct C7 as [D1 D2]. apply Z.eqb_eq in D1.
      exists ar. split; [reflexivity|]. split; assumption.
    - apply Bool.negb_true_iff in C9. split; [exact (mem_str_notin _ _ C9)|]. destruct (assoc x vars); [discriminate C10 | reflexivity].
    - intros x' t' Hin'. rewrite forallb_forall in C8. specialize (C8 (x', t') Hin'). cbn [fst snd] in C8.
      apply Bool.orb_true_iff in C8. destruct C8 as [C8|C8]; [apply Bool.orb_true_iff in C8; destruct C8 as [C8|C8]|].
      + left. apply String.eqb_eq. exact C8.
      + right. left. apply Z.leb_le. exact C8.
      + right. right. apply Z.leb_le. exact C8. }
  assert (Hwords : NoDup (map snd vs ++ map (fun xt => a_word (snd xt)) ars)).
  { apply zdup_nodup. apply Bool.negb_true_iff in A9. exact A9. }
  assert (Hbr : exists e, code_chk (lab_of (ao_layout out)) (bytes_map (ao_image out)) 0 [BR L_start] = Some e /\ e <= 4).
  { destruct (code_chk _ _ 0 [BR L_start]) as [e|]; [|discriminate A10]. exists e. split; [reflexivity | apply Z.leb_le; exact A10]. }
  assert (Hstub : exists e, code_chk (lab_of (ao_layout out)) (bytes_map (ao_image out)) (lab_of (ao_layout out) L_start)
                              (stub1 (entry_label mi) ++ stub2) = Some e /\
                            e <= 4 * Z.of_nat (List.length (words_of_bytes (ao_image out)))).
  { destruct (code_chk _ _ (lab_of (ao_layout out) L_start) (stub1 (entry_label mi) ++ stub2)) as [e|]; [|discriminate A11].
    exists e. split; [reflexivity | apply Z.leb_le; exact A11]. }
  assert (Hsp0 : sp0 + 3 <= MAXW) by (apply Z.leb_le; exact A16).
  (* the spec run *)
  unfold XSem.run, run_fuel in Hrun.
  destruct (wf_program p); [discriminate|]. rewrite Hinit in Hrun.
  destruct (find_index_spec _ _ _ _ _ Hmain) as [Hfp _]. rewrite Hfp in Hrun. rewrite A1, Hfm in Hrun. cbn [orb negb] in Hrun.
  exact (invoke_shows (p_frames prm) p vs ars ngd sp0 mi pm es out tbl (List.length dwords) gv vars arrs ltac:(unfold ngd; lia) Hmain Hents Htbl
                      (conj A1 Hfm) A3 A4 Hvs Hars Hwords Hbr Hstub A12 A13 A14 A15 Hsp0 inp default_fuel default_steps b Hrun).
Qed.
