(* XCodegenProgram.v -- whole programs of the fragment, end to end: XSem.run p inp = Behaviour b  ->  the image the
   model lays out for p shows b on Isa.run.

   model_compile frames opt p: p is the program as the code generator reads it (the output of XConstProp.front);
   frames gives each procedure's frame numbers (size, usable slots, outgoing words) -- xcmp computes them itself,
   tools/c01.py reads them off its listing.  The image is laid out as xcmp does:
       BR _start; DATA 199997; one DATA 0 per global variable, then per procedure one per local variable (xcmp
       allocates these, unused); _start: LDAP _exit; BR main; _exit: LDBM 1; LDAC 0; STAI 2; SVC;
       then each procedure's code at its entry label: prologue ++ cs body ++ exit label ++ epilogue
   (opt = true: after the model's peephole pass, which is what xcmp emits; opt = false: the lowered code the proofs
   speak of), by the assembler model AsmLayout.assemble_directives.  The result is VALIDATED by computation before
   it is returned (None otherwise): the ISA's own decoder reads the stub and every procedure's code at the label
   positions of the layout (XCodegenImage.code_chk), the loaded words hold those bytes, the stack pointer word and
   the data words are where the code expects them, the procedures are simple and their frame numbers consistent,
   and the stack has room for XSem's depth bound.
   program_correct: for opt = false, if model_compile returns an image and XSem.run gives a Behaviour, the ISA
   started on that image shows it. *)
From Coq Require Import ZArith List String Bool Lia.
From HexVerif Require Import WMap Isa XAst XSem XSemProps AsmModel AsmLayout AsmSpec AsmSpecProofs
     XCodegenIsa XCodegenInv XCodegenExpr XCodegenStmt XCodegenCall XCodegenImage.
Import ListNotations.
Local Open Scope string_scope.
Local Open Scope Z_scope.
Local Open Scope list_scope.

Definition sp0 : Z := 199997.
Definition entry_label (i : nat) : label := 1000000 + Z.of_nat i.
Definition L_start : label := 2000000.
Definition L_exit : label := 2000001.
Definition pool0 : Z -> option Z := fun _ => None.
Definition frames := string -> option (Z * Z * Z).

(* global variables in declaration order; arrays are outside the fragment *)
Fixpoint gvar_names (ds : list decl) : option (list string) :=
  match ds with
  | [] => Some []
  | DVal _ _ :: r => gvar_names r
  | DVar x :: r => match gvar_names r with Some l => Some (x :: l) | None => None end
  | DArray _ _ :: _ => None
  end.
Fixpoint gval_names (ds : list decl) : list string :=
  match ds with [] => [] | DVal x _ :: r => x :: gval_names r | _ :: r => gval_names r end.
Definition gaddr_of (names : list string) (x : string) : option Z := index_of x names 2.

Fixpoint pinfo_go (ps : list proc) (i : nat) (x : string) : option pframe :=
  match ps with
  | [] => None
  | p :: r => if String.eqb x (pname p) then Some {| pf_entry := entry_label i; pf_isfunc := is_func p |}
              else pinfo_go r (S i) x
  end.

(* one procedure of the image: its frame numbers and labels, and the code of its body *)
Record pent := { pe_proc : proc; pe_lay : playout; pe_body : list instr }.

Fixpoint ents_go (fr : frames) (pinfo : string -> option pframe) (gaddr : string -> option Z)
                 (ps : list proc) (next : label) : option (list pent) :=
  match ps with
  | [] => Some []
  | p :: r =>
      match fr (pname p) with
      | Some (size, nslots, og) =>
          match cs pinfo (frame_venv gaddr p size) pool0 size nslots (first_temp p) og next (body p) (next + 1) with
          | Some (bc, n') =>
              match ents_go fr pinfo gaddr r n' with
              | Some rest => Some ({| pe_proc := p; pe_body := bc;
                                      pe_lay := {| pl_size := size; pl_nslots := nslots; pl_og := og; pl_exit := next; pl_n0 := next + 1 |} |} :: rest)
              | None => None
              end
          | None => None
          end
      | None => None
      end
  end.

Definition pe_code (opt : bool) (e : pent) : list instr :=
  let c := pro (pl_size (pe_lay e)) ++ pe_body e ++ epi_of (is_func (pe_proc e)) (pl_exit (pe_lay e)) (pl_size (pe_lay e)) in
  if opt then peephole (List.length c) c else c.

Definition stub1 (main_entry : label) : list instr := [LDAP L_exit; BR main_entry].
Definition stub2 : list instr := [LABEL L_exit; LDBM 1; LDAC 0; STAI 2; SVC].

Fixpoint proc_dirs (opt : bool) (es : list pent) (i : nat) : list directive :=
  match es with
  | [] => []
  | e :: r => DLabel LId (lname (entry_label i)) :: map dir_of (pe_code opt e) ++ proc_dirs opt r (S i)
  end.

Definition local_words (ps : list proc) : nat :=
  fold_right (fun p n => (List.length (filter is_var_decl (locals p)) + n)%nat) 0%nat ps.

Definition prog_dirs (opt : bool) (nglob : nat) (ps : list proc) (es : list pent) (main_entry : label) : list directive :=
  [DRef TBR (lname L_start) true; DData sp0] ++ repeat (DData 0) (nglob + local_words ps) ++
  [DLabel LId (lname L_start)] ++ map dir_of (stub1 main_entry ++ stub2) ++ proc_dirs opt es 0.

(* ---- the validation *)
Definition simple_procb (gaddr : string -> option Z) (p : proc) : bool :=
  forallb is_val_formal (formals p) && forallb is_var_decl (locals p) &&
  negb (has_dup (map formal_nm (formals p) ++ map local_decl_name (locals p))) &&
  forallb (fun x => match gaddr x with None => true | Some _ => false end) (map formal_nm (formals p) ++ map local_decl_name (locals p)).

Definition numbers_okb (maxframe : Z) (p : proc) (L : playout) : bool :=
  (0 <=? pl_size L) && (pl_size L <=? maxframe) && (first_temp p <=? pl_nslots L) && (0 <=? pl_og L) &&
  (pl_nslots L + pl_og L <=? pl_size L).

Definition maxframe_of (es : list pent) : Z := fold_right (fun e m => Z.max (pl_size (pe_lay e)) m) 2 es.

Fixpoint ents_chk (lab : label -> Z) (img : WMap.t) (gaddr : string -> option Z) (vals : list string) (maxframe lo hi : Z)
                  (es : list pent) (i : nat) : bool :=
  match es with
  | [] => true
  | e :: r =>
      simple_procb gaddr (pe_proc e) && numbers_okb maxframe (pe_proc e) (pe_lay e) &&
      negb (mem_str (pname (pe_proc e)) vals) &&
      (lo <=? lab (entry_label i)) &&
      match code_chk lab img (lab (entry_label i)) (pe_code false e) with Some endp => endp <=? hi | None => false end &&
      ents_chk lab img gaddr vals maxframe lo hi r (S i)
  end.

Fixpoint find_index (x : string) (ps : list proc) (i : nat) : option (nat * proc) :=
  match ps with [] => None | p :: r => if String.eqb x (pname p) then Some (i, p) else find_index x r (S i) end.

Record compiled := { c_bytes : list Z; c_words : list Z }.

Definition model_compile (fr : frames) (opt : bool) (p : program) : option (list Z) :=
  match gvar_names (globals p) with
  | None => None
  | Some gnames =>
  let gaddr := gaddr_of gnames in
  let pinfo := pinfo_go (procs p) 0 in
  match find_index "main" (procs p) 0%nat, ents_go fr pinfo gaddr (procs p) 0 with
  | Some (mi, pm), Some es =>
      let nglob := List.length gnames in
      let dirs := prog_dirs opt nglob (procs p) es (entry_label mi) in
      match assemble_directives dirs [] with
      | Ok out =>
          let bytes := ao_image out in
          let words := words_of_bytes bytes in
          let nwords := Z.of_nat (List.length words) in
          let img := bytes_map bytes in
          let m0 := mem_of bytes in
          let lab := lab_of (ao_layout out) in
          let clo := lab L_start in
          let vals := gval_names (globals p) in
          let maxframe := maxframe_of es in
          if opt then Some words else
          if negb (is_func pm) && (match formals pm with [] => true | _ => false end) &&
             (rd m0 1 =? sp0) &&
             (clo =? 4 * (2 + Z.of_nat nglob + Z.of_nat (local_words (procs p)))) &&
             (Z.of_nat (List.length bytes) =? 4 * nwords) &&
             forallb (fun x => negb (mem_str x vals)) gnames &&
             match code_chk lab img 0 [BR L_start] with Some e => e <=? 4 | None => false end &&
             match code_chk lab img clo (stub1 (entry_label mi) ++ stub2) with Some e => e <=? 4 * nwords | None => false end &&
             bytes_ok m0 img 0 4%nat &&
             bytes_ok m0 img clo (Z.to_nat (4 * nwords - clo)) &&
             ents_chk lab img gaddr vals maxframe clo (4 * nwords) es 0 &&
             (nwords + 2000 * maxframe <=? sp0)
          then Some words else None
      | _ => None
      end
  | _, _ => None
  end
  end.

(* ---------------------------------------------------------------- what the validation means *)
Lemma mem_str_in x l : mem_str x l = true <-> In x l.
Proof.
  induction l as [|y r IH]; cbn [mem_str In]; [split; [discriminate | intros []]|].
  rewrite Bool.orb_true_iff, IH, String.eqb_eq. split; intros [H|H]; auto.
Qed.
Lemma mem_str_notin x l : mem_str x l = false -> ~ In x l.
Proof. intros H Hin. apply mem_str_in in Hin. congruence. Qed.
Lemma has_dup_nodup l : has_dup l = false -> NoDup l.
Proof.
  induction l as [|x r IH]; cbn [has_dup]; intros H; [constructor|].
  apply Bool.orb_false_iff in H. destruct H as [H1 H2]. constructor; [exact (mem_str_notin _ _ H1) | exact (IH H2)].
Qed.
Lemma val_formals fs : forallb is_val_formal fs = true -> fs = map FVal (map formal_nm fs).
Proof.
  induction fs as [|f r IH]; cbn [forallb map]; intros H; [reflexivity|]. apply andb_prop in H. destruct H as [H1 H2].
  destruct f; try discriminate H1. cbn [formal_nm]. f_equal. exact (IH H2).
Qed.
Lemma var_decls ds : forallb is_var_decl ds = true -> ds = map DVar (map local_decl_name ds).
Proof.
  induction ds as [|d r IH]; cbn [forallb map]; intros H; [reflexivity|]. apply andb_prop in H. destruct H as [H1 H2].
  destruct d; try discriminate H1. cbn [local_decl_name]. f_equal. exact (IH H2).
Qed.

Lemma simple_procb_sound gaddr p : simple_procb gaddr p = true ->
  simple_proc gaddr p (map formal_nm (formals p)) (map local_decl_name (locals p)).
Proof.
  unfold simple_procb. intros H. apply andb_prop in H. destruct H as [H H4]. apply andb_prop in H. destruct H as [H H3].
  apply andb_prop in H. destruct H as [H1 H2].
  split; [exact (val_formals _ H1)|]. split; [exact (var_decls _ H2)|]. split.
  - apply has_dup_nodup. apply Bool.negb_true_iff in H3. exact H3.
  - intros x Hx. rewrite forallb_forall in H4. specialize (H4 x Hx). destruct (gaddr x); [discriminate | reflexivity].
Qed.

Lemma numbers_okb_sound maxframe p L : numbers_okb maxframe p L = true -> numbers_ok maxframe p L.
Proof.
  unfold numbers_okb, numbers_ok. intros H. apply andb_prop in H. destruct H as [H H5]. apply andb_prop in H. destruct H as [H H4].
  apply andb_prop in H. destruct H as [H H3]. apply andb_prop in H. destruct H as [H1 H2].
  apply Z.leb_le in H1. apply Z.leb_le in H2. apply Z.leb_le in H3. apply Z.leb_le in H4. apply Z.leb_le in H5. lia.
Qed.

Lemma find_proc_name x : forall ps pr, find_proc x ps = Some pr -> pname pr = x.
Proof.
  induction ps as [|p r IH]; intros pr H; cbn [find_proc] in H; [discriminate|].
  destruct (String.eqb x (pname p)) eqn:E; [inversion H; subst pr; apply String.eqb_eq in E; auto | exact (IH _ H)].
Qed.

Lemma pinfo_go_spec : forall ps i x pi, pinfo_go ps i x = Some pi ->
  exists k pr, nth_error ps k = Some pr /\ find_proc x ps = Some pr /\
               pf_entry pi = entry_label (i + k) /\ pf_isfunc pi = is_func pr.
Proof.
  induction ps as [|p r IH]; intros i x pi H; cbn [pinfo_go] in H; [discriminate|]. cbn [find_proc].
  destruct (String.eqb x (pname p)) eqn:E.
  - inversion H; subst pi. exists 0%nat, p. cbn [nth_error pf_entry pf_isfunc]. rewrite Nat.add_0_r. repeat split.
  - destruct (IH _ _ _ H) as (k & pr & H1 & H2 & H3 & H4). exists (S k), pr. cbn [nth_error].
    replace (i + S k)%nat with (S i + k)%nat by lia. repeat split; assumption.
Qed.

Lemma find_index_spec : forall ps i x k pr, find_index x ps i = Some (k, pr) ->
  find_proc x ps = Some pr /\ pinfo_go ps i x = Some {| pf_entry := entry_label k; pf_isfunc := is_func pr |}.
Proof.
  induction ps as [|p r IH]; intros i x k pr H; cbn [find_index] in H; [discriminate|]. cbn [find_proc pinfo_go].
  destruct (String.eqb x (pname p)); [inversion H; subst; split; reflexivity | exact (IH _ _ _ _ H)].
Qed.

Lemma ents_go_spec fr pinfo gaddr : forall ps next es, ents_go fr pinfo gaddr ps next = Some es ->
  forall k pr, nth_error ps k = Some pr -> exists e n', nth_error es k = Some e /\ pe_proc e = pr /\
    cs pinfo (frame_venv gaddr pr (pl_size (pe_lay e))) pool0 (pl_size (pe_lay e)) (pl_nslots (pe_lay e)) (first_temp pr)
       (pl_og (pe_lay e)) (pl_exit (pe_lay e)) (body pr) (pl_n0 (pe_lay e)) = Some (pe_body e, n').
Proof.
  induction ps as [|p r IH]; intros next es H k pr Hk; [destruct k; discriminate|]. cbn [ents_go] in H.
  destruct (fr (pname p)) as [[[size nslots] og]|]; [|discriminate].
  destruct (cs pinfo (frame_venv gaddr p size) pool0 size nslots (first_temp p) og next (body p) (next + 1)) as [[bc n']|] eqn:Ec; [|discriminate].
  destruct (ents_go fr pinfo gaddr r n') as [rest|] eqn:Er; [|discriminate]. inversion H; subst es.
  destruct k as [|k].
  - cbn [nth_error] in Hk. inversion Hk; subst pr. eexists. exists n'. cbn [nth_error]. split; [reflexivity|].
    cbn [pe_proc pe_lay pe_body pl_size pl_nslots pl_og pl_exit pl_n0]. split; [reflexivity | exact Ec].
  - cbn [nth_error] in *. exact (IH _ _ Er k pr Hk).
Qed.

Lemma ents_chk_spec lab img gaddr vals maxframe lo hi : forall es i, ents_chk lab img gaddr vals maxframe lo hi es i = true ->
  forall k e, nth_error es k = Some e ->
    simple_procb gaddr (pe_proc e) = true /\ numbers_okb maxframe (pe_proc e) (pe_lay e) = true /\
    mem_str (pname (pe_proc e)) vals = false /\ lo <= lab (entry_label (i + k)) /\
    exists endp, code_chk lab img (lab (entry_label (i + k))) (pe_code false e) = Some endp /\ endp <= hi.
Proof.
  induction es as [|e0 r IH]; intros i H k e Hk; [destruct k; discriminate|]. cbn [ents_chk] in H.
  apply andb_prop in H. destruct H as [H H6]. apply andb_prop in H. destruct H as [H H5]. apply andb_prop in H. destruct H as [H H4].
  apply andb_prop in H. destruct H as [H H3]. apply andb_prop in H. destruct H as [H1 H2].
  destruct k as [|k].
  - cbn [nth_error] in Hk. inversion Hk; subst e0. rewrite Nat.add_0_r. split; [exact H1|]. split; [exact H2|].
    split; [apply Bool.negb_true_iff in H3; exact H3|]. split; [apply Z.leb_le; exact H4|].
    destruct (code_chk lab img (lab (entry_label i)) (pe_code false e)) as [endp|]; [|discriminate].
    exists endp. split; [reflexivity | apply Z.leb_le; exact H5].
  - cbn [nth_error] in Hk. replace (i + S k)%nat with (S i + k)%nat by lia. exact (IH _ H6 k e Hk).
Qed.

(* the global declarations of the fragment as XSem initialises them *)
Lemma init_globals_spec : forall ds gn vals vars arrs vals' vars' arrs',
  gvar_names ds = Some gn -> init_globals ds vals vars arrs = inr (vals', vars', arrs') ->
  arrs' = arrs /\
  (forall x, assoc x vals' <> None -> In x (gval_names ds) \/ assoc x vals <> None) /\
  (forall x v, assoc x vars' = Some v -> v = Vundef \/ assoc x vars = Some v) /\
  (forall x, In x gn \/ assoc x vars <> None -> assoc x vars' <> None).
Proof.
  induction ds as [|d r IH]; intros gn vals vars arrs vals' vars' arrs' Hg Hi; cbn [gvar_names init_globals gval_names] in *.
  - inversion Hg; subst gn. inversion Hi; subst. split; [reflexivity|]. split; [intros x H; right; exact H|].
    split; [intros x v H; right; exact H|]. intros x [[]|H]; exact H.
  - destruct d as [x e|x|x e]; [| |discriminate].
    + destruct (eval_const (fun y => assoc y vals) e) as [u|z]; [discriminate|].
      destruct (IH _ _ _ _ _ _ _ Hg Hi) as (A & B & D & E). split; [exact A|]. split; [|exact (conj D E)].
      intros y Hy. destruct (B y Hy) as [Hin|Hn]; [left; right; exact Hin|].
      cbn [assoc] in Hn. destruct (String.eqb y x) eqn:Ey; [left; left; apply String.eqb_eq in Ey; auto | right; exact Hn].
    + destruct (gvar_names r) as [gr|] eqn:Eg; [|discriminate]. inversion Hg; subst gn.
      destruct (IH _ _ _ _ _ _ _ eq_refl Hi) as (A & B & D & E). split; [exact A|]. split; [exact B|]. split.
      * intros y v Hy. destruct (D y v Hy) as [Hu|Hs]; [left; exact Hu|].
        cbn [assoc] in Hs. destruct (String.eqb y x); [left; inversion Hs; reflexivity | right; exact Hs].
      * intros y Hy. apply E. destruct Hy as [[<-|Hin]|Hn].
        -- right. cbn [assoc]. rewrite String.eqb_refl. discriminate.
        -- left. exact Hin.
        -- right. cbn [assoc]. destruct (String.eqb y x); [discriminate | exact Hn].
Qed.

(* ---------------------------------------------------------------- what an image shows (as in Properties_C01.v) *)
Definition console_input (inp : list Z) : inputs := {| console := inp; files := fun _ => [] |}.
Fixpoint writes (evs : list event) : list (Z * Z) :=
  match evs with
  | [] => []
  | Write b st :: r => (st, b) :: writes r
  | _ :: r => writes r
  end.
Definition isa_shows (img : list Z) (inp : list Z) (n : nat) (b : behaviour) : Prop :=
  match Isa.run n (boot img) (console_input inp) [] with
  | (evs, inp', _, Exited c) =>
      writes evs = outputs b /\
      (List.length inp - List.length (console inp'))%nat = consumed b /\
      c = exit_value b mod 4294967296
  | _ => False
  end.

Lemma writes_wr_ev outs c : writes (map wr_ev outs ++ [Exit c]) = outs.
Proof. induction outs as [|[st b] r IH]; cbn [map app writes wr_ev fst snd]; [reflexivity | rewrite IH; reflexivity]. Qed.

Lemma wrap_id a : 0 <= a < MEMW -> wrap a = a.
Proof. intros H. unfold wrap. apply Z.mod_small. unfold MEMW, W in *. lia. Qed.
Lemma in_mem_of a : 0 <= a < MEMW -> in_mem a = true.
Proof. intros H. unfold in_mem. apply andb_true_intro. split; [apply Z.leb_le | apply Z.ltb_lt]; lia. Qed.
Lemma maxframe_ge2 es : 2 <= maxframe_of es.
Proof. induction es as [|e r IH]; cbn [maxframe_of fold_right]; [lia|]. unfold maxframe_of in IH. lia. Qed.

(* the frame the entry stub calls main from: two words at the initial stack pointer *)
Definition pr_root : proc := {| is_func := false; pname := "_root"; formals := []; locals := []; body := SSkip |}.
Definition L_root : playout := {| pl_size := 2; pl_nslots := 0; pl_og := 2; pl_exit := 0; pl_n0 := 0 |}.

Section Run.
  Variable fr : frames.
  Variable p : program.
  Variables (gnames : list string) (mi : nat) (pm : proc) (es : list pent) (out : asm_out).
  Notation ps := (procs p).
  Notation gaddr := (gaddr_of gnames).
  Notation pinfo := (pinfo_go (procs p) 0).
  Notation bytes := (ao_image out).
  Notation words := (words_of_bytes (ao_image out)).
  Notation nwords := (Z.of_nat (List.length (words_of_bytes (ao_image out)))).
  Notation img := (bytes_map (ao_image out)).
  Notation m0 := (mem_of (ao_image out)).
  Notation lab := (lab_of (ao_layout out)).
  Notation vals := (gval_names (globals p)).
  Notation maxframe := (maxframe_of es).
  Notation cw := (2 + Z.of_nat (List.length gnames) + Z.of_nat (local_words (procs p))).
  Notation clo := (lab_of (ao_layout out) L_start).
  Definition Pw (a : Z) : Prop := a = 0 \/ cw <= a < nwords.
  Notation Cw := (C Pw m0).

  Hypothesis Hg : gvar_names (globals p) = Some gnames.
  Hypothesis Hmain : find_index "main" ps 0 = Some (mi, pm).
  Hypothesis Hents : ents_go fr pinfo gaddr ps 0 = Some es.
  Hypothesis Hpm : is_func pm = false /\ formals pm = [].
  Hypothesis Hsp : rd m0 1 = sp0.
  Hypothesis Hclo : clo = 4 * cw.
  Hypothesis Hgv : forall x, In x gnames -> ~ In x vals.
  Hypothesis Hbr : exists e, code_chk lab img 0 [BR L_start] = Some e /\ e <= 4.
  Hypothesis Hstub : exists e, code_chk lab img clo (stub1 (entry_label mi) ++ stub2) = Some e /\ e <= 4 * nwords.
  Hypothesis Hb0 : bytes_ok m0 img 0 4 = true.
  Hypothesis Hb1 : bytes_ok m0 img clo (Z.to_nat (4 * nwords - clo)) = true.
  Hypothesis Hchk : ents_chk lab img gaddr vals maxframe clo (4 * nwords) es 0 = true.
  Hypothesis Hroom : nwords + 2000 * maxframe <= sp0.

  Lemma geometry : 2 <= cw /\ cw <= nwords /\ 0 <= clo <= 4 * nwords /\ nwords + 4000 <= sp0 /\ 4 * nwords < W.
  Proof.
    destruct Hstub as (e & He & Hle). pose proof (code_chk_le _ _ _ _ _ He) as H1. pose proof (maxframe_ge2 es) as H2.
    unfold sp0, W in *. lia.
  Qed.

  Lemma holds0 m : Cw m -> holds m img 0 4.
  Proof.
    change 4 with (0 + Z.of_nat 4). apply bytes_ok_holds; [exact Hb0 | lia|].
    intros q Hq. left. apply Z.div_small. cbn in Hq. lia.
  Qed.
  Lemma holds1 m : Cw m -> holds m img clo (4 * nwords).
  Proof.
    destruct geometry as (G1 & G2 & G3 & G4 & G5).
    replace (4 * nwords) with (clo + Z.of_nat (Z.to_nat (4 * nwords - clo))) by (rewrite Z2Nat.id; lia).
    apply bytes_ok_holds; [exact Hb1 | lia|].
    intros q Hq. rewrite Z2Nat.id in Hq by lia. right. rewrite Hclo in Hq.
    split; [apply Z.div_le_lower_bound; lia | apply Z.div_lt_upper_bound; lia].
  Qed.
  Lemma code_in lo c e : code_chk lab img lo c = Some e -> clo <= lo -> e <= 4 * nwords -> code_at Cw lab lo c e.
  Proof.
    intros Hc Hlo He. destruct geometry as (G1 & G2 & G3 & G4 & G5). pose proof (code_chk_le _ _ _ _ _ Hc) as Hle.
    apply (code_chk_sound Cw c lab img lo e Hc); [lia | lia|].
    intros m Hm. exact (holds_sub m img clo (4 * nwords) lo e (holds1 m Hm) Hlo He).
  Qed.

  Variables (gv : list (string * Z)) (vars : list (string * value)) (arrs : list (string * arr)).
  Hypothesis Hinit : init_globals (globals p) [] [] [] = inr (gv, vars, arrs).
  Notation ge := {| g_vals := gv; g_procs := procs p; g_maxdepth := default_depth |}.

  Lemma gv_names x : assoc x gv <> None -> In x vals.
  Proof.
    intros H. destruct (init_globals_spec _ _ _ _ _ _ _ _ Hg Hinit) as (_ & B & _).
    destruct (B x H) as [Hin|Hn]; [exact Hin | exfalso; apply Hn; reflexivity].
  Qed.
  Lemma gvars_init x : In x gnames -> assoc x vars = Some Vundef.
  Proof.
    intros H. destruct (init_globals_spec _ _ _ _ _ _ _ _ Hg Hinit) as (_ & _ & D & E).
    destruct (assoc x vars) as [v|] eqn:Ev; [|exfalso; exact (E x (or_introl H) Ev)].
    destruct (D x v Ev) as [->|Hs]; [reflexivity | discriminate Hs].
  Qed.
  Lemma gaddr_spec x a : gaddr x = Some a -> exists k, nth_error gnames k = Some x /\ a = 2 + Z.of_nat k /\ (k < List.length gnames)%nat.
  Proof.
    unfold gaddr_of. intros H. destruct (index_of_spec _ _ _ _ H) as (k & Hk & ->). exists k. split; [exact Hk|]. split; [reflexivity|].
    apply nth_error_Some. congruence.
  Qed.
  Lemma not_val_none x : ~ In x vals -> assoc x gv = None.
  Proof. intros H. destruct (assoc x gv) eqn:E; [|reflexivity]. exfalso. apply H. apply gv_names. congruence. Qed.

  Lemma the_hyps : prog_hyps ge gaddr pool0 Pw m0 lab pinfo nwords maxframe.
  Proof.
    destruct geometry as (G1 & G2 & G3 & G4 & G5). pose proof (maxframe_ge2 es) as Gm.
    unfold prog_hyps. split; [|split; [|split; [|split; [|split; [|split; [|split]]]]]].
    - intros x pi Hx. destruct (pinfo_go_spec _ _ _ _ Hx) as (k & pr & Hk & Hf & Hen & Hif). cbn [Nat.add] in Hen.
      destruct (ents_go_spec _ _ _ _ _ _ Hents k pr Hk) as (e & n' & Hek & Hpe & Hcs).
      destruct (ents_chk_spec _ _ _ _ _ _ _ _ _ Hchk k e Hek) as (Hsb & Hnb & _ & Hlo & endp & Hcc & Hend). cbn [Nat.add] in Hlo, Hcc.
      rewrite Hen. split; [lia|].
      exists pr, (map formal_nm (formals pr)), (map local_decl_name (locals pr)), (pe_lay e), (pe_body e), n', endp.
      cbn [g_procs]. split; [exact Hf|]. split; [exact Hif|]. rewrite Hpe in Hsb, Hnb.
      split; [exact (simple_procb_sound _ _ Hsb)|]. split; [exact (numbers_okb_sound _ _ _ Hnb)|]. split; [exact Hcs|].
      split; [|lia]. unfold pe_code in Hcc. rewrite Hpe in Hcc. exact (code_in _ _ _ Hcc Hlo Hend).
    - intros x a Hx. destruct (gaddr_spec x a Hx) as (k & Hk & -> & Hkl). cbn [g_vals].
      split; [apply in_mem_of; unfold MEMW, sp0 in *; lia|]. split; [unfold Pw; lia|]. split; [lia|]. split; [lia|].
      apply not_val_none. apply Hgv. eapply nth_error_In. exact Hk.
    - intros x y a b Hx Hy Hne Heq. destruct (gaddr_spec x a Hx) as (k & Hk & -> & _). destruct (gaddr_spec y b Hy) as (k' & Hk' & -> & _).
      assert (k = k') by lia. subst k'. rewrite Hk in Hk'. inversion Hk'. contradiction.
    - split; [lia|]. intros a Ha. unfold Pw. lia.
    - unfold Pw. lia.
    - intros v a H. discriminate H.
    - intros x pi Hx. destruct (pinfo_go_spec _ _ _ _ Hx) as (k & pr & Hk & Hf & _ & _).
      destruct (ents_go_spec _ _ _ _ _ _ Hents k pr Hk) as (e & n' & Hek & Hpe & _).
      destruct (ents_chk_spec _ _ _ _ _ _ _ _ _ Hchk k e Hek) as (_ & _ & Hm & _).
      cbn [g_vals]. apply not_val_none. rewrite Hpe, (find_proc_name _ _ _ Hf) in Hm. exact (mem_str_notin _ _ Hm).
    - lia.
  Qed.

  (* ---- the run: reset, the entry stub, main called from the root frame, the exit stub *)
  Variable inp : list Z.
  Notation cin := (console_input inp).

  Lemma root_simple : simple_proc gaddr pr_root [] [].
  Proof. split; [reflexivity|]. split; [reflexivity|]. split; [constructor|]. intros x []. Qed.
  Lemma root_frame : frame_ok gaddr nwords maxframe pr_root [] [] L_root sp0.
  Proof.
    destruct geometry as (G1 & G2 & G3 & G4 & G5). pose proof (maxframe_ge2 es) as Gm.
    split; [exact root_simple|]. split; [unfold numbers_ok, L_root, first_temp; cbn; lia|].
    unfold foff, sp0, MEMW in *. cbn. lia.
  Qed.

  Definition state0 (steps : Z) : state :=
    {| gvars := vars; garrs := arrs; out_rev := []; input := inp; ncons := 0%nat; budget := steps; cur := eff0;
       stk := [{| f_vars := []; f_vals := []; f_depth := 0%nat |}] |}.

  Lemma root_rel steps : Rel pinfo (Dq_of ge nwords maxframe sp0) (frame_venv gaddr pr_root (pl_size L_root)) ge Pw m0 sp0 (state0 steps) m0.
  Proof.
    destruct geometry as (G1 & G2 & G3 & G4 & G5). destruct the_hyps as (_ & H2 & _).
    split; [|split; [|split; [|split]]].
    - intros a _ _. reflexivity.
    - exact Hsp.
    - split.
      + intros x a Hx.
        destruct (frame_venv_spec gaddr pr_root [] [] _ x _ root_simple Hx) as [(j & Hj & _)|[(i & Hi & _)|(_ & a0 & Ha0 & Hq)]];
          [destruct j; discriminate Hj | destruct i; discriminate Hi|].
        inversion Hq; subst a0. destruct (H2 x a Ha0) as (_ & _ & _ & _ & G). cbn [g_vals] in G.
        split; [reflexivity|]. split; [reflexivity|]. split; [exact G|].
        exists Vundef. split; [|left; reflexivity]. cbn [gvars state0]. apply gvars_init.
        destruct (gaddr_spec x a Ha0) as (k & Hk & _). eapply nth_error_In. exact Hk.
      + intros x k Hx.
        destruct (frame_venv_spec gaddr pr_root [] [] _ x _ root_simple Hx) as [(j & Hj & _)|[(i & Hi & _)|(_ & a0 & Ha0 & Hq)]];
          [destruct j; discriminate Hj | destruct i; discriminate Hi | discriminate Hq].
    - split; [discriminate|]. intros q qi _. reflexivity.
    - unfold Dq_of. cbn [top stk state0 f_depth g_maxdepth]. rewrite Nat.sub_0_r. unfold default_depth. rewrite Z2Nat.id by lia. lia.
  Qed.

  Lemma boot_state : boot words = mk 0 0 0 0 m0.
  Proof. reflexivity. Qed.

  Lemma invoke_shows fuel steps b :
    match invoke (exec fuel ge) ge false "main" [] (state0 steps) with
    | Ret _ s => finish s 0 | Halt c s => finish s c | Fail u => Undef u end = Behaviour b ->
    exists n, isa_shows words inp n b.
  Proof.
    intros Hb. destruct geometry as (G1 & G2 & G3 & G4 & G5).
    destruct the_hyps as (H1 & H2 & H3 & H4 & H5 & H6 & H7 & H8).
    destruct (find_index_spec _ _ _ _ _ Hmain) as [Hfm Hpi]. destruct Hpm as [Hpm1 Hpm2].
    set (pi_main := {| pf_entry := entry_label mi; pf_isfunc := is_func pm |}) in *.
    assert (Crefl : Cw m0) by (intros a _ _; reflexivity).
    (* the code of the stub *)
    destruct Hbr as (e0 & Hc0 & He0). destruct Hstub as (e1 & Hc1 & He1).
    assert (CA0 : code_at Cw lab 0 [BR L_start] e0).
    { apply (code_chk_sound Cw _ lab img 0 e0 Hc0); [lia | unfold W; lia|].
      intros m Hm. exact (holds_sub m img 0 4 0 e0 (holds0 m Hm) ltac:(lia) He0). }
    pose proof (code_in _ _ _ Hc1 ltac:(lia) He1) as CA1.
    apply code_at_app in CA1. destruct CA1 as (q & CAa & CAb).
    cbn [stub1 code_at] in CAa. destruct CAa as (q1 & Hi1 & q2 & Hi2 & Eq2). subst q2.
    unfold stub2 in CAb. cbn [code_at] in CAb. destruct CAb as (q0 & Hi0 & r1 & Hj1 & r2 & Hj2 & r3 & Hj3 & r4 & Hj4 & Er4). subst r4.
    cbn [instr_at] in Hi0. destruct Hi0 as [<- Hlx].
    cbn [code_at] in CA0. destruct CA0 as (e0' & Hb0' & Ee0). subst e0'.
    pose proof (instr_at_le _ _ _ _ _ Hi1) as L1. pose proof (instr_at_le _ _ _ _ _ Hi2) as L2.
    pose proof (instr_at_le _ _ _ _ _ Hj1) as M1. pose proof (instr_at_le _ _ _ _ _ Hj2) as M2.
    pose proof (instr_at_le _ _ _ _ _ Hj3) as M3. pose proof (instr_at_le _ _ _ _ _ Hj4) as M4.
    (* where main is *)
    destruct (H1 "main" pi_main Hpi) as (Hm0 & prm & fnm & lnm & Lm & bcm & nm & endm & _ & _ & _ & _ & _ & Hcam & Hendm).
    cbn [pf_entry pi_main] in Hm0, Hcam. pose proof (code_at_le _ _ _ _ _ Hcam) as Lm1.
    (* reset; BR _start; LDAP _exit; BR main *)
    pose proof (exec_br Cw lab m0 0 e0 L_start 0 0 cin Hb0' Crefl ltac:(unfold W; lia) ltac:(lia)) as T0.
    pose proof (exec_ldap Cw lab m0 clo q1 L_exit 0 0 cin Hi1 Crefl ltac:(lia) ltac:(lia)) as T1. rewrite Hlx in T1.
    pose proof (exec_br Cw lab m0 q1 q (entry_label mi) q 0 cin Hi2 Crefl ltac:(lia) ltac:(lia)) as T2.
    pose proof (taus_trans cin _ _ _ T0 (taus_trans cin _ _ _ T1 T2)) as Tstart.
    (* main, called from the root frame *)
    assert (Hko : koff pi_main = 1) by (unfold koff, pi_main; cbn [pf_isfunc]; rewrite Hpm1; reflexivity).
    pose proof (call_ok ge gaddr pool0 Pw m0 lab pinfo nwords maxframe H1 H2 H3 H4 H5 H6 H7 H8 fuel pr_root [] [] L_root sp0 root_frame
                  "main" pi_main [] (state0 steps) m0 q 0 cin Hpi (root_rel steps)) as R.
    specialize (R ltac:(intros i v Hi; destruct i; discriminate Hi) ltac:(rewrite Hko; cbn; lia) ltac:(lia)).
    cbn [pf_isfunc pf_entry pi_main] in R. rewrite Hpm1 in R.
    destruct (invoke (exec fuel ge) ge false "main" [] (state0 steps)) as [v s|c s|u]; cbn [ret_ok] in R; [| |discriminate Hb].
    - (* main returns: the exit stub *)
      destruct R as (outs & a1 & b1 & m1 & R1 & HR1 & P1 & _).
      destruct HR1 as (HC1 & HS1 & _). destruct P1 as (Po & _ & Pn & _). cbn [out_rev ncons state0] in Po, Pn.
      assert (Sin : in_mem (sp0 + 2) = true) by (apply in_mem_of; unfold sp0, MEMW; lia).
      assert (Sw : wrap (sp0 + 2) = sp0 + 2) by (apply wrap_id; unfold sp0, MEMW; lia).
      pose proof (exec_instr Cw lab m1 q r1 (LDBM 1) a1 b1 cin eq_refl Hj1 HC1 eq_refl ltac:(lia)) as U1. cbn [sem fst snd] in U1. rewrite HS1 in U1.
      pose proof (exec_instr Cw lab m1 r1 r2 (LDAC 0) a1 sp0 cin eq_refl Hj2 HC1 I ltac:(lia)) as U2. cbn [sem fst snd] in U2. change (0 mod W) with 0 in U2.
      assert (R3 : readable (STAI 2) 0 sp0) by (cbn [readable]; rewrite Sw; exact Sin).
      pose proof (exec_instr Cw lab m1 r2 r3 (STAI 2) 0 sp0 cin eq_refl Hj3 HC1 R3 ltac:(lia)) as U3. cbn [sem fst snd] in U3. rewrite Sw in U3.
      set (m2 := wr m1 (sp0 + 2) 0) in *.
      assert (HC2 : Cw m2) by (apply Cm_wr; [exact HC1 | unfold sp0; lia | unfold Pw, sp0 in *; lia]).
      assert (H12 : rd m2 1 = sp0) by (unfold m2; rewrite rd_wr_other; [exact HS1 | unfold sp0; lia | lia | unfold sp0; lia]).
      assert (Hin2 : in_mem (wrap (rd m2 1 + 2)) = true) by (rewrite H12, Sw; exact Sin).
      pose proof (exec_svc_exit Cw lab m2 r3 e1 sp0 cin Hj4 HC2 Hin2) as U4.
      rewrite H12, Sw in U4. unfold m2 in U4 at 2. rewrite rd_wr_same in U4.
      assert (Hex : exits cin (mk 0 0 0 0 m0) (map wr_ev outs ++ []) cin 0).
      { eapply taus_exits; [exact Tstart|]. eapply runs_exits; [exact R1|].
        eapply taus_exits; [exact U1|]. eapply taus_exits; [exact U2|]. eapply taus_exits; [exact U3|]. exact U4. }
      rewrite app_nil_r in Hex. destruct Hex as (k & s' & Hrun). exists k. unfold isa_shows. rewrite boot_state, Hrun.
      unfold finish in Hb. inversion Hb; subst b. cbn [outputs consumed exit_value console console_input].
      split; [rewrite writes_wr_ev, Po, app_nil_r, rev_involutive; reflexivity|]. split; [rewrite Pn; lia | reflexivity].
    - (* the program exits by itself *)
      destruct R as (outs & Ex & (Po & _ & Pn & _)). cbn [out_rev ncons state0] in Po, Pn.
      pose proof (taus_exits cin _ _ _ _ _ Tstart Ex) as Hex. destruct Hex as (k & s' & Hrun).
      exists k. unfold isa_shows. rewrite boot_state, Hrun.
      unfold finish in Hb. inversion Hb; subst b. cbn [outputs consumed exit_value console console_input].
      split; [rewrite writes_wr_ev, Po, app_nil_r, rev_involutive; reflexivity|]. split; [rewrite Pn; lia | reflexivity].
  Qed.
End Run.

(* ---------------------------------------------------------------- the theorem *)
Theorem program_correct : forall (fr : frames) (p : program) (inp : list Z) (b : behaviour) (img : list Z),
  XSem.run p inp = Behaviour b -> model_compile fr false p = Some img -> exists n, isa_shows img inp n b.
Proof.
  intros fr p inp b img Hrun Hmc. unfold model_compile in Hmc.
  destruct (gvar_names (globals p)) as [gnames|] eqn:Hg; [|discriminate].
  destruct (find_index "main" (procs p) 0) as [[mi pm]|] eqn:Hmain; [|discriminate].
  destruct (ents_go fr (pinfo_go (procs p) 0) (gaddr_of gnames) (procs p) 0) as [es|] eqn:Hents; [|discriminate].
  destruct (assemble_directives _ []) as [out| | |] eqn:Hasm; try discriminate.
  cbv beta iota zeta in Hmc.
  match type of Hmc with (if ?c then _ else _) = _ => destruct c eqn:E; [|discriminate] end.
  inversion Hmc; subst img. clear Hmc.
  apply andb_prop in E. destruct E as [E A12]. apply andb_prop in E. destruct E as [E A11]. apply andb_prop in E. destruct E as [E A10].
  apply andb_prop in E. destruct E as [E A9]. apply andb_prop in E. destruct E as [E A8]. apply andb_prop in E. destruct E as [E A7].
  apply andb_prop in E. destruct E as [E A6]. apply andb_prop in E. destruct E as [E A5]. apply andb_prop in E. destruct E as [E A4].
  apply andb_prop in E. destruct E as [E A3]. apply andb_prop in E. destruct E as [A1 A2].
  apply Bool.negb_true_iff in A1. apply Z.eqb_eq in A3. apply Z.eqb_eq in A4. apply Z.leb_le in A12.
  assert (Hfm : formals pm = []) by (destruct (formals pm); [reflexivity | discriminate A2]).
  assert (Hgv : forall x, In x gnames -> ~ In x (gval_names (globals p))).
  { intros x Hx. rewrite forallb_forall in A6. specialize (A6 x Hx). apply Bool.negb_true_iff in A6. exact (mem_str_notin _ _ A6). }
  assert (Hbr : exists e, code_chk (lab_of (ao_layout out)) (bytes_map (ao_image out)) 0 [BR L_start] = Some e /\ e <= 4).
  { destruct (code_chk _ _ 0 [BR L_start]) as [e|]; [|discriminate A7]. exists e. split; [reflexivity | apply Z.leb_le; exact A7]. }
  assert (Hstub : exists e, code_chk (lab_of (ao_layout out)) (bytes_map (ao_image out)) (lab_of (ao_layout out) L_start)
                              (stub1 (entry_label mi) ++ stub2) = Some e /\
                            e <= 4 * Z.of_nat (List.length (words_of_bytes (ao_image out)))).
  { destruct (code_chk _ _ (lab_of (ao_layout out) L_start) (stub1 (entry_label mi) ++ stub2)) as [e|]; [|discriminate A8].
    exists e. split; [reflexivity | apply Z.leb_le; exact A8]. }
  (* the spec run *)
  unfold XSem.run, run_fuel in Hrun.
  destruct (wf_program p); [discriminate|].
  destruct (init_globals (globals p) [] [] []) as [u|[[gv vars] arrs]] eqn:Hinit; [discriminate|].
  destruct (find_index_spec _ _ _ _ _ Hmain) as [Hfp _]. rewrite Hfp in Hrun. rewrite A1, Hfm in Hrun. cbn [orb negb] in Hrun.
  exact (invoke_shows fr p gnames mi pm es out Hg Hmain Hents (conj A1 Hfm) A3 A4 Hgv Hbr Hstub A9 A10 A11 A12
                      gv vars arrs Hinit inp default_fuel default_steps b Hrun).
Qed.
