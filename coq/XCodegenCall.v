(* XCodegenCall.v -- procedures and functions meet the call specification of XCodegenStmt.v: the program-level
   induction.

   Setting: a table pinfo of callable procedures and functions; each has value formals and var locals only, whose
   names are pairwise distinct and hide no global variable ("simple"); its lowered code
   prologue ++ cs body ++ [exit label] ++ epilogue (a function's epilogue first stores the result to the caller's
   outgoing word 1) sits at its entry label; its frame numbers are consistent (0 < size <= maxframe,
   locals <= nslots, nslots + og <= size).  Globals live below the stack; the stack region [stack_lo, MEMW) is
   unprotected.

   call_ok: for every fuel, every simple frame meets call_spec as a CALLER context -- i.e. a call made from it to
   anything in pinfo (prologue: link word, stack pointer down; body by the statement theorem at the callee's frame;
   epilogue: [result word,] stack pointer up, return through the link word) comes back to the link address with the
   caller's relation restored for the state XSem's invoke yields.  The stack budget is the invariant
   stack_lo + (maxdepth - depth) * maxframe <= sp, kept because XSem bounds the call depth.
   Hence (stmt_calls_closed) the statement theorem holds unconditionally for bodies with procedure-call
   statements and function calls as whole right-hand sides, including recursion. *)
From Coq Require Import ZArith List String Bool Lia Wf_nat.
From HexVerif Require Import WMap Isa XAst XSem XCodegenIsa XCodegenInv XCodegenExpr XCodegenStmt.
Import ListNotations.
Local Open Scope Z_scope.

Ltac Zify.zify_post_hook ::= Z.div_mod_to_equations.

Record playout := { pl_size : Z; pl_nslots : Z; pl_og : Z; pl_exit : label; pl_n0 : label }.

(* xcmp's prologue and epilogues; a frame of size 0 (a leaf procedure without locals) leaves the stack pointer alone *)
Definition pro5 (size : Z) : list instr := [LDBM 1; STAI 0; LDAC (- size); ADD; STAM 1].
Definition epi7 (exitl : label) (size : Z) : list instr := [LABEL exitl; LDBM 1; LDAC size; ADD; STAM 1; LDBI size; BRB].
Definition epif8 (exitl : label) (size : Z) : list instr :=
  [LABEL exitl; LDBM 1; STAI (size + 1); LDAC size; ADD; STAM 1; LDBI size; BRB].
Definition pro (size : Z) : list instr := if 0 <? size then pro5 size else [LDBM 1; STAI 0].
Definition epi (exitl : label) (size : Z) : list instr :=
  if 0 <? size then epi7 exitl size else [LABEL exitl; LDBM 1; LDBI size; BRB].
(* a function's epilogue first stores the result (areg) to the caller's outgoing word 1 *)
Definition epif (exitl : label) (size : Z) : list instr :=
  if 0 <? size then epif8 exitl size else [LABEL exitl; LDBM 1; STAI (size + 1); LDBI size; BRB].
Definition epi_of (isf : bool) (exitl : label) (size : Z) : list instr := if isf then epif exitl size else epi exitl size.
(* frame offset of the first formal above the frame: after the link word, and for a function the result word *)
Definition foff (pr : proc) : Z := if is_func pr then 2 else 1.
Lemma foff_range pr : 1 <= foff pr <= 2. Proof. unfold foff. destruct (is_func pr); lia. Qed.

(* ---------------------------------------------------------------- frames of simple procedures *)
(* value formals and array formals (passed by the address of the cells) with the names fn, var locals with the names
   ln, all names distinct, none of them the name of a global variable or array *)
Definition formals_ok (pr : proc) (fn : list string) : Prop :=
  map formal_nm (formals pr) = fn /\ forall f, In f (formals pr) -> is_val_formal f = true \/ is_arr_formal f = true.
Definition simple_proc (gaddr aaddr : string -> option Z) (pr : proc) (fn ln : list string) : Prop :=
  formals_ok pr fn /\ locals pr = map DVar ln /\ NoDup (fn ++ ln) /\
  (forall x, In x (fn ++ ln) -> gaddr x = None) /\ (forall x, In x (fn ++ ln) -> aaddr x = None).

Lemma index_of_spec : forall l x i j, index_of x l i = Some j -> exists k, nth_error l k = Some x /\ j = i + Z.of_nat k.
Proof.
  induction l as [|y r IH]; intros x i j H; cbn [index_of] in H; [discriminate|].
  destruct (String.eqb x y) eqn:E.
  - apply String.eqb_eq in E. subst y. inversion H; subst j. exists 0%nat. split; [reflexivity | lia].
  - destruct (IH x (i + 1) j H) as (k & Hk & ->). exists (S k). split; [exact Hk | lia].
Qed.
Lemma index_of_none : forall l x i, index_of x l i = None -> ~ In x l.
Proof.
  induction l as [|y r IH]; intros x i H; cbn [index_of] in H; [intros []|].
  destruct (String.eqb x y) eqn:E; [discriminate|]. apply String.eqb_neq in E.
  intros [Hy|Hin]; [exact (E (eq_sym Hy)) | exact (IH x (i + 1) H Hin)].
Qed.

(* the formal of a name: with distinct names, the one at the position index_of finds *)
Lemma index_of_nth (fs : list formal) x : forall i j, index_of x (map formal_nm fs) i = Some j ->
  exists k f, nth_error fs k = Some f /\ formal_nm f = x /\ j = i + Z.of_nat k.
Proof.
  induction fs as [|g r IH]; intros i j H; cbn [map index_of] in H; [discriminate|].
  destruct (String.eqb x (formal_nm g)) eqn:E.
  - apply String.eqb_eq in E. inversion H; subst j. exists 0%nat, g. split; [reflexivity|]. split; [symmetry; exact E | lia].
  - destruct (IH (i + 1) j H) as (k & f & Hk & Hf & ->). exists (S k), f. split; [exact Hk|]. split; [exact Hf | lia].
Qed.
Lemma nodup_names_inj (fs : list formal) : NoDup (map formal_nm fs) ->
  forall f f', In f fs -> In f' fs -> formal_nm f = formal_nm f' -> f = f'.
Proof.
  induction fs as [|g r IH]; intros Hnd f f' Hf Hf' He; [destruct Hf|]. cbn [map] in Hnd. inversion Hnd as [|? ? Hn Hnd']; subst.
  destruct Hf as [<-|Hf]; destruct Hf' as [<-|Hf']; [reflexivity | | |exact (IH Hnd' f f' Hf Hf' He)].
  - exfalso. apply Hn. rewrite He. apply in_map. exact Hf'.
  - exfalso. apply Hn. rewrite <- He. apply in_map. exact Hf.
Qed.
Lemma nodup_app_left {A} (l1 l2 : list A) : NoDup (l1 ++ l2) -> NoDup l1.
Proof.
  induction l1 as [|y r IH]; intros H; [constructor|]. cbn [app] in H. inversion H as [|? ? Hn Hnd]; subst.
  constructor; [intros Hin; apply Hn; apply in_or_app; left; exact Hin | exact (IH Hnd)].
Qed.
(* the formal named x, when the kind test of frame_venv / frame_aenv succeeds *)
Lemma formal_of_kind (fs : list formal) (kind : formal -> bool) x i j :
  NoDup (map formal_nm fs) -> index_of x (map formal_nm fs) i = Some j ->
  existsb (fun f => String.eqb x (formal_nm f) && kind f) fs = true ->
  exists k f, nth_error fs k = Some f /\ formal_nm f = x /\ kind f = true /\ j = i + Z.of_nat k.
Proof.
  intros Hnd Hi He. destruct (index_of_nth fs x i j Hi) as (k & f & Hk & Hf & ->).
  apply existsb_exists in He. destruct He as (f' & Hin' & Hb). apply andb_prop in Hb. destruct Hb as [Hb1 Hb2]. apply String.eqb_eq in Hb1.
  assert (f' = f) by (apply (nodup_names_inj fs Hnd); [exact Hin' | eapply nth_error_In; exact Hk | congruence]). subst f'.
  exists k, f. repeat split; assumption.
Qed.

Lemma frame_venv_spec gaddr aaddr pr fn ln size x l :
  simple_proc gaddr aaddr pr fn ln -> frame_venv gaddr pr size x = Some l ->
  (exists j, nth_error ln j = Some x /\ l = LFrame (size - 1 - Z.of_nat j)) \/
  (exists i, nth_error fn i = Some x /\ nth_error (formals pr) i = Some (FVal x) /\ l = LFrame (size + foff pr + Z.of_nat i)) \/
  (~ In x (fn ++ ln) /\ exists a, gaddr x = Some a /\ l = LGlobal a).
Proof.
  intros ([Hf Hk] & Hl & Hnd & Hng & _) H. unfold frame_venv in H. rewrite Hl, Hf in H.
  assert (Ml : map local_decl_name (map DVar ln) = ln) by (rewrite map_map; cbn; apply map_id).
  rewrite Ml in H.
  destruct (index_of x ln 0) as [j|] eqn:El.
  - destruct (existsb _ _); [|discriminate]. inversion H; subst l.
    destruct (index_of_spec _ _ _ _ El) as (k & Hk0 & ->). left. exists k. split; [exact Hk0 | f_equal; lia].
  - destruct (index_of x fn 0) as [i|] eqn:Ef.
    + destruct (existsb (fun f => String.eqb x (formal_nm f) && is_val_formal f) (formals pr)) eqn:Ex; [|discriminate]. inversion H; subst l.
      rewrite <- Hf in Ef. assert (Hndf : NoDup (map formal_nm (formals pr))) by (rewrite Hf; exact (nodup_app_left _ _ Hnd)).
      destruct (formal_of_kind _ is_val_formal x 0 i Hndf Ef Ex) as (k & f & Hk0 & Hn & Hv & ->).
      right. left. exists k. destruct f; try discriminate Hv. cbn [formal_nm] in Hn. subst x0.
      split; [rewrite <- Hf; rewrite nth_error_map, Hk0; reflexivity|]. split; [exact Hk0|].
      first [reflexivity | (f_equal; unfold foff; destruct (is_func pr); lia)].
    + destruct (gaddr x) as [a|] eqn:Eg; [|discriminate]. inversion H; subst l.
      right. right. split; [|exists a; split; reflexivity].
      intros Hin. apply in_app_or in Hin. destruct Hin as [Hin|Hin];
        [exact (index_of_none _ _ _ Ef Hin) | exact (index_of_none _ _ _ El Hin)].
Qed.

(* the frame XSem builds on entry *)
Lemma bind_formals_ok : forall fs vs fv,
  (forall f, In f fs -> is_val_formal f = true \/ is_arr_formal f = true) -> bind_formals fs vs = inr fv ->
  List.length vs = List.length fs /\ map fst fv = map formal_nm fs /\
  forall i f, nth_error fs i = Some f -> exists v, nth_error vs i = Some v /\ nth_error fv i = Some (formal_nm f, v) /\
    (is_val_formal f = true -> exists z, v = Vint z) /\
    (is_arr_formal f = true -> (exists g, v = Varr g) \/ (exists ws, v = Vstr ws)).
Proof.
  induction fs as [|f0 r IH]; intros vs fv Hk H; cbn [bind_formals] in H.
  - destruct vs; [|discriminate]. inversion H; subst fv. split; [reflexivity|]. split; [reflexivity|]. intros i y Hi. destruct i; discriminate.
  - assert (Hkr : forall f, In f r -> is_val_formal f = true \/ is_arr_formal f = true) by (intros f Hin; apply Hk; right; exact Hin).
    destruct f0 as [x|x|x|x]; try (destruct vs; discriminate H).
    + destruct vs as [|v vr]; [discriminate|]. destruct v as [|z|?|?]; try discriminate.
      destruct (bind_formals r vr) as [u|l] eqn:E; [discriminate|]. inversion H; subst fv.
      destruct (IH vr l Hkr E) as (Hlen & Hmap & Hn). split; [cbn [List.length]; congruence|]. split; [cbn [map fst formal_nm]; congruence|].
      intros i f Hi. destruct i as [|i]; cbn [nth_error] in *.
      * inversion Hi; subst f. exists (Vint z). cbn [formal_nm is_val_formal is_arr_formal]. split; [reflexivity|]. split; [reflexivity|].
        split; [intros _; exists z; reflexivity | intros Hd; discriminate Hd].
      * exact (Hn i f Hi).
    + destruct vs as [|v vr]; [discriminate|]. destruct v as [|z|g|ws]; try discriminate.
      * destruct (bind_formals r vr) as [u|l] eqn:E; [discriminate|]. inversion H; subst fv.
        destruct (IH vr l Hkr E) as (Hlen & Hmap & Hn). split; [cbn [List.length]; congruence|]. split; [cbn [map fst formal_nm]; congruence|].
        intros i f Hi. destruct i as [|i]; cbn [nth_error] in *.
        -- inversion Hi; subst f. exists (Varr g). cbn [formal_nm is_val_formal is_arr_formal]. split; [reflexivity|]. split; [reflexivity|].
           split; [intros Hd; discriminate Hd | intros _; left; exists g; reflexivity].
        -- exact (Hn i f Hi).
      * destruct (bind_formals r vr) as [u|l] eqn:E; [discriminate|]. inversion H; subst fv.
        destruct (IH vr l Hkr E) as (Hlen & Hmap & Hn). split; [cbn [List.length]; congruence|]. split; [cbn [map fst formal_nm]; congruence|].
        intros i f Hi. destruct i as [|i]; cbn [nth_error] in *.
        -- inversion Hi; subst f. exists (Vstr ws). cbn [formal_nm is_val_formal is_arr_formal]. split; [reflexivity|]. split; [reflexivity|].
           split; [intros Hd; discriminate Hd | intros _; right; exists ws; reflexivity].
        -- exact (Hn i f Hi).
Qed.

Lemma local_decls_simple : forall ln names gv vars vals r,
  local_decls (map DVar ln) names gv vars vals = inr r ->
  r = (rev (map (fun x => (x, Vundef)) ln) ++ vars, vals).
Proof.
  induction ln as [|x l IH]; intros names gv vars vals r H; cbn [map local_decls] in H.
  - inversion H. reflexivity.
  - rewrite (IH names gv ((x, Vundef) :: vars) vals r H). cbn [map rev]. rewrite <- app_assoc. reflexivity.
Qed.

Lemma assoc_app_none {A} x (l1 l2 : list (string * A)) : assoc x l1 = None -> assoc x (l1 ++ l2) = assoc x l2.
Proof. induction l1 as [|[y v] r IH]; cbn [assoc app]; [trivial|]. destruct (String.eqb x y); [discriminate | exact IH]. Qed.
Lemma assoc_app_some {A} x (l1 l2 : list (string * A)) v : assoc x l1 = Some v -> assoc x (l1 ++ l2) = Some v.
Proof. induction l1 as [|[y w] r IH]; cbn [assoc app]; [discriminate|]. destruct (String.eqb x y); [trivial | exact IH]. Qed.
Lemma assoc_not_in {A} x (l : list (string * A)) : ~ In x (map fst l) -> assoc x l = None.
Proof.
  induction l as [|[y v] r IH]; cbn [assoc map fst In]; [trivial|]. intros H.
  destruct (String.eqb x y) eqn:E; [apply String.eqb_eq in E; exfalso; apply H; left; symmetry; exact E|].
  apply IH. intros Hin. apply H. right. exact Hin.
Qed.
Lemma assoc_nodup {A} (l : list (string * A)) : NoDup (map fst l) -> forall i x v, nth_error l i = Some (x, v) -> assoc x l = Some v.
Proof.
  induction l as [|[y w] r IH]; intros Hnd i x v Hi; [destruct i; discriminate|].
  inversion Hnd as [|? ? Hn Hnd']; subst. cbn [assoc]. destruct i as [|i]; cbn [nth_error] in Hi.
  - inversion Hi; subst. rewrite String.eqb_refl. reflexivity.
  - destruct (String.eqb x y) eqn:E.
    + apply String.eqb_eq in E. subst y. exfalso. apply Hn. apply (in_map fst) in Hi || idtac.
      apply nth_error_In in Hi. apply (in_map fst) in Hi. exact Hi.
    + exact (IH Hnd' i x v Hi).
Qed.

Lemma assoc_const {A} x (l : list (string * A)) v : In x (map fst l) -> (forall p, In p l -> snd p = v) -> assoc x l = Some v.
Proof.
  induction l as [|[y w] r IH]; cbn [map fst In assoc]; [intros []|]. intros Hin Hall.
  destruct (String.eqb x y) eqn:E.
  - f_equal. exact (Hall (y, w) (or_introl eq_refl)).
  - apply String.eqb_neq in E. destruct Hin as [Hy|Hin]; [exfalso; exact (E (eq_sym Hy))|].
    apply IH; [exact Hin|]. intros p Hp. apply Hall. right. exact Hp.
Qed.

Lemma enter_frame ge gaddr aaddr pr fn ln vs st fr :
  simple_proc gaddr aaddr pr fn ln -> enter ge pr vs st = inr fr ->
  (f_depth (top st) < g_maxdepth ge)%nat /\ f_depth fr = S (f_depth (top st)) /\ f_vals fr = [] /\
  List.length vs = List.length fn /\
  (forall x, In x ln -> assoc x (f_vars fr) = Some Vundef) /\
  (forall i f, nth_error (formals pr) i = Some f -> exists v, nth_error vs i = Some v /\ assoc (formal_nm f) (f_vars fr) = Some v /\
     (is_val_formal f = true -> exists z, v = Vint z) /\
     (is_arr_formal f = true -> (exists g, v = Varr g) \/ (exists ws, v = Vstr ws))) /\
  (forall x, ~ In x (fn ++ ln) -> assoc x (f_vars fr) = None).
Proof.
  intros ([Hf Hk] & Hl & Hnd & Hng & _) He. unfold enter in He.
  destruct (Nat.leb (g_maxdepth ge) (f_depth (top st))) eqn:Ed; [discriminate|]. apply Nat.leb_gt in Ed.
  destruct (bind_formals (formals pr) vs) as [u|fv] eqn:Eb; [discriminate|].
  destruct (bind_formals_ok (formals pr) vs fv Hk Eb) as (Hlen & Hmap & Hn). rewrite Hf in Hmap.
  rewrite Hl in He.
  destruct (local_decls (map DVar ln) _ (g_vals ge) fv []) as [u|[vars vals]] eqn:El; [discriminate|].
  apply local_decls_simple in El. inversion El; subst vars vals. inversion He; subst fr. cbn [f_depth f_vals f_vars].
  set (lv := rev (map (fun x : string => (x, Vundef)) ln)).
  assert (Hlv : map fst lv = rev ln).
  { unfold lv. rewrite map_rev, map_map. cbn. rewrite map_id. reflexivity. }
  assert (Hdisj : forall x, In x fn -> ~ In x ln).
  { intros x Hxf Hxl. clear - Hnd Hxf Hxl. induction fn as [|y r IH]; [destruct Hxf|].
    cbn [app] in Hnd. inversion Hnd as [|? ? Hn Hnd']; subst. destruct Hxf as [<-|Hxf].
    - apply Hn. apply in_or_app. right. exact Hxl.
    - exact (IH Hnd' Hxf). }
  split; [exact Ed|]. split; [reflexivity|]. split; [reflexivity|].
  split; [rewrite Hlen, <- Hf, map_length; reflexivity|]. split; [|split].
  - intros x Hx. apply assoc_app_some. apply assoc_const.
    + rewrite Hlv. apply in_rev. rewrite rev_involutive. exact Hx.
    + intros p Hp. unfold lv in Hp. apply in_rev in Hp. apply in_map_iff in Hp. destruct Hp as (y & <- & _). reflexivity.
  - intros i f Hi. destruct (Hn i f Hi) as (v & Hv & Hfv & Hkv & Hka). exists v. split; [exact Hv|]. split; [|exact (conj Hkv Hka)].
    assert (Hin : In (formal_nm f) fn) by (rewrite <- Hf; apply in_map; eapply nth_error_In; exact Hi).
    rewrite assoc_app_none.
    + apply (assoc_nodup fv) with (i := i); [|exact Hfv]. rewrite Hmap. exact (nodup_app_left _ _ Hnd).
    + apply assoc_not_in. rewrite Hlv. intros Hin2. apply in_rev in Hin2. exact (Hdisj _ Hin Hin2).
  - intros x Hx. rewrite assoc_app_none.
    + apply assoc_not_in. rewrite Hmap. intros Hin. apply Hx. apply in_or_app. left. exact Hin.
    + apply assoc_not_in. rewrite Hlv. intros Hin. apply in_rev in Hin. apply Hx. apply in_or_app. right. exact Hin.
Qed.

(* the arrays a simple frame sees: its array formals, and the global arrays under their own names *)
Lemma frame_aenv_spec gaddr aaddr pr fn ln size x l :
  simple_proc gaddr aaddr pr fn ln -> frame_aenv aaddr pr size x = Some l ->
  (exists i, nth_error fn i = Some x /\ nth_error (formals pr) i = Some (FArray x) /\ l = LFrame (size + foff pr + Z.of_nat i)) \/
  (~ In x (fn ++ ln) /\ exists w, aaddr x = Some w /\ l = LGlobal w).
Proof.
  intros ([Hf Hk] & Hl & Hnd & _ & _) H. unfold frame_aenv in H. rewrite Hl, Hf in H.
  assert (Ml : map local_decl_name (map DVar ln) = ln) by (rewrite map_map; cbn; apply map_id).
  rewrite Ml in H.
  destruct (index_of x ln 0) eqn:El; [discriminate|].
  destruct (index_of x fn 0) as [i|] eqn:Ef.
  - destruct (existsb (fun f => String.eqb x (formal_nm f) && is_arr_formal f) (formals pr)) eqn:Ex; [|discriminate]. inversion H; subst l.
    rewrite <- Hf in Ef. assert (Hndf : NoDup (map formal_nm (formals pr))) by (rewrite Hf; exact (nodup_app_left _ _ Hnd)).
    destruct (formal_of_kind _ is_arr_formal x 0 i Hndf Ef Ex) as (k & f & Hk0 & Hn & Hv & ->).
    left. exists k. destruct f; try discriminate Hv. cbn [formal_nm] in Hn. subst x0.
    split; [rewrite <- Hf; rewrite nth_error_map, Hk0; reflexivity|]. split; [exact Hk0|].
    first [reflexivity | (f_equal; unfold foff; destruct (is_func pr); lia)].
  - destruct (aaddr x) as [w|]; [|discriminate]. inversion H; subst l. right. split; [|exists w; split; reflexivity].
    intros Hin. apply in_app_or in Hin. destruct Hin as [Hin|Hin]; [exact (index_of_none _ _ _ Ef Hin) | exact (index_of_none _ _ _ El Hin)].
Qed.
Lemma index_of_notin0 : forall l x i, ~ In x l -> index_of x l i = None.
Proof.
  induction l as [|y r IH]; intros x i Hn; cbn [index_of]; [reflexivity|].
  destruct (String.eqb x y) eqn:E.
  - apply String.eqb_eq in E. subst y. exfalso. apply Hn. left. reflexivity.
  - apply IH. intros Hin. apply Hn. right. exact Hin.
Qed.
Lemma array_in_frame gaddr aaddr pr fn ln size x w :
  simple_proc gaddr aaddr pr fn ln -> aaddr x = Some w -> frame_aenv aaddr pr size x = Some (LGlobal w).
Proof.
  intros ([Hf _] & Hl & _ & _ & Hna) Hx.
  assert (Hn : ~ In x (fn ++ ln)) by (intros Hin; rewrite (Hna x Hin) in Hx; discriminate).
  unfold frame_aenv. rewrite Hl, Hf.
  assert (Ml : map local_decl_name (map DVar ln) = ln) by (rewrite map_map; cbn; apply map_id).
  rewrite Ml.
  rewrite (index_of_notin0 ln x 0) by (intros Hin; apply Hn; apply in_or_app; right; exact Hin).
  rewrite (index_of_notin0 fn x 0) by (intros Hin; apply Hn; apply in_or_app; left; exact Hin).
  rewrite Hx. reflexivity.
Qed.

(* ---------------------------------------------------------------- the program *)
Section Prog.
  Variable ge : genv.
  Variable gaddr : string -> option Z.
  Variable aaddr : string -> option Z.          (* the word that holds the address of a global array's cells *)
  Variables abase alen_of : string -> Z.        (* that address, and the number of cells *)
  Variable pool : Z -> option Z.
  Variable P : Z -> Prop.
  Variable m0 : WMap.t.
  Variable lab : label -> Z.
  Variable pinfo : string -> option pframe.
  Variables stack_lo stack_hi maxframe : Z.     (* the stack lives in [stack_lo, stack_hi); the arrays above it *)

  Notation Cm := (C P m0).

  Definition numbers_ok (pr : proc) (L : playout) : Prop :=
    0 <= pl_size L <= maxframe /\ first_temp pr <= pl_nslots L /\ 0 <= pl_og L /\ pl_nslots L + pl_og L <= pl_size L.

  (* a frame of the simple procedure pr at stack pointer sp *)
  Definition frame_ok (pr : proc) (fn ln : list string) (L : playout) (sp : Z) : Prop :=
    simple_proc gaddr aaddr pr fn ln /\ numbers_ok pr L /\ stack_lo <= sp /\
    sp + pl_size L + foff pr + Z.of_nat (List.length fn) <= stack_hi /\ sp + 2 < MEMW.

  Hypothesis Hprocs : forall p pi, pinfo p = Some pi ->
    0 <= lab (pf_entry pi) /\
    exists pr fn ln L bc n' endp,
      find_proc p (g_procs ge) = Some pr /\ pf_isfunc pi = is_func pr /\ simple_proc gaddr aaddr pr fn ln /\ numbers_ok pr L /\
      cs pinfo (frame_venv gaddr pr (pl_size L)) pool (pl_size L) (pl_nslots L) (frame_aenv aaddr pr (pl_size L)) (first_temp pr) (pl_og L) (pl_exit L)
         (body pr) (pl_n0 L) = Some (bc, n') /\
      code_at Cm lab (lab (pf_entry pi)) (pro (pl_size L) ++ bc ++ epi_of (is_func pr) (pl_exit L) (pl_size L)) endp /\ endp < W.
  Hypothesis Hgaddr : forall x a, gaddr x = Some a ->
    in_mem a = true /\ ~ P a /\ a <> 1 /\ a < stack_lo /\ assoc x (g_vals ge) = None.
  Hypothesis Hginj : forall x y a b, gaddr x = Some a -> gaddr y = Some b -> x <> y -> a <> b.
  Hypothesis Hstack : 1 < stack_lo /\ forall a, stack_lo <= a < MEMW -> ~ P a.
  Hypothesis HP1 : ~ P 1.
  Hypothesis Hpool : forall v a, pool v = Some a -> P a /\ in_mem a = true /\ rd m0 a = v mod W.
  Hypothesis Hcallt : forall p pi, pinfo p = Some pi -> assoc p (g_vals ge) = None.
  Hypothesis Hmaxframe : 0 <= maxframe.
  (* the arrays: the word of the name lies with the globals, the cells above the stack *)
  Hypothesis Hhi : stack_hi <= MEMW.
  Hypothesis Harr : forall a w, aaddr a = Some w ->
    in_mem w = true /\ ~ P w /\ w <> 1 /\ w < stack_lo /\ (forall x g, gaddr x = Some g -> g <> w) /\
    forall i, 0 <= i < alen_of a -> stack_hi <= abase a + i < MEMW /\ ~ P (abase a + i).
  Hypothesis Hainj : forall a w a' w' i i', aaddr a = Some w -> aaddr a' = Some w' -> 0 <= i < alen_of a -> 0 <= i' < alen_of a' ->
    abase a + i = abase a' + i' -> a = a' /\ i = i'.

  Definition garr_of (g : string) : bool := match aaddr g with Some _ => true | None => false end.
  Definition Fr_of (sp : Z) (a : Z) : Prop := stack_lo <= a < sp.
  Definition Dq_of (sp : Z) (d : nat) : Prop := stack_lo + Z.of_nat (g_maxdepth ge - d) * maxframe <= sp.

  Lemma in_mem_iff a : in_mem a = true <-> 0 <= a < MEMW.
  Proof.
    unfold in_mem. split.
    - intros H. apply andb_prop in H. destruct H as [H1 H2]. apply Z.leb_le in H1. apply Z.ltb_lt in H2. lia.
    - intros H. apply andb_true_intro. split; [apply Z.leb_le | apply Z.ltb_lt]; lia.
  Qed.

  Lemma first_temp_len pr fn ln : simple_proc gaddr aaddr pr fn ln -> first_temp pr = Z.of_nat (List.length ln).
  Proof. intros (_ & Hl & _). unfold first_temp. rewrite Hl, map_length. reflexivity. Qed.

  (* where the variables of a simple frame live *)
  Lemma var_addr pr fn ln L sp x l :
    frame_ok pr fn ln L sp -> frame_venv gaddr pr (pl_size L) x = Some l ->
    (exists j, nth_error ln j = Some x /\ addr_of sp l = sp + pl_size L - 1 - Z.of_nat j /\ (j < List.length ln)%nat) \/
    (exists i, nth_error fn i = Some x /\ addr_of sp l = sp + pl_size L + foff pr + Z.of_nat i /\ (i < List.length fn)%nat) \/
    (~ In x (fn ++ ln) /\ exists a, gaddr x = Some a /\ l = LGlobal a /\ addr_of sp l = a).
  Proof.
    intros (Hs & _) Hv. destruct (frame_venv_spec gaddr aaddr pr fn ln _ x l Hs Hv) as [(j & Hj & ->)|[(i & Hi & _ & ->)|(Hn & a & Ha & ->)]].
    - left. exists j. split; [exact Hj|]. split; [cbn [addr_of]; lia | apply nth_error_Some; congruence].
    - right. left. exists i. split; [exact Hi|]. split; [cbn [addr_of]; lia | apply nth_error_Some; congruence].
    - right. right. split; [exact Hn|]. exists a. repeat split. exact Ha.
  Qed.

  Definition Stmt_ok (f : nat) : Prop :=
    forall pr fn ln L sp, frame_ok pr fn ln L sp ->
      stmt_ok pinfo (Fr_of sp) (Dq_of sp) (frame_venv gaddr pr (pl_size L)) (frame_aenv aaddr pr (pl_size L)) garr_of abase alen_of pool
              (pl_size L) (pl_nslots L) (first_temp pr) (pl_og L) (pl_exit L) ge P m0 lab sp f.
  Definition Call_ok (f : nat) : Prop :=
    forall pr fn ln L sp, frame_ok pr fn ln L sp ->
      call_spec pinfo (Fr_of sp) (Dq_of sp) (frame_venv gaddr pr (pl_size L)) (frame_aenv aaddr pr (pl_size L)) garr_of abase alen_of
                (pl_size L) (pl_nslots L) (first_temp pr) (pl_og L) ge P m0 lab sp f.

  Lemma stmt_from_calls f : (forall f', (f' < f)%nat -> Call_ok f') -> Stmt_ok f.
  Proof.
    intros Hc pr fn ln L sp Hfr. pose proof Hfr as (Hs & (Hsz & Hft & Hog & Hns) & Hlo & Htop & Htop2).
    pose proof (first_temp_len pr fn ln Hs) as Hft'. pose proof (foff_range pr) as Hfo.
    destruct Hstack as [Hs1 HsP].
    apply stmt_correct_calls.
    - unfold tlo, fb. lia.
    - intros a Ha. apply HsP. unfold T, tlo, fb in Ha. lia.
    - unfold T, tlo, fb. lia.
    - intros a Ha. unfold O in Ha. split; [apply in_mem_iff; lia|]. split; [apply HsP; lia|]. split; [lia|]. unfold T, tlo, fb. lia.
    - intros a Ha. unfold Fr_of in Ha. split; [apply HsP; unfold MEMW in *; lia | lia].
    - split; [apply in_mem_iff; lia|]. split; [apply HsP; lia | lia].
    - exact Hpool.
    - intros x l Hv.
      destruct (var_addr pr fn ln L sp x l Hfr Hv) as [(j & Hj & -> & Hjl)|[(i & Hi & -> & Hil)|(Hn & a & Ha & -> & _)]].
      + split; [apply in_mem_iff; lia|]. split; [|split; [apply HsP; lia | lia]].
        unfold scratch, T, O, Fr_of, tlo, fb. lia.
      + split; [apply in_mem_iff; lia|]. split; [|split; [apply HsP; lia | lia]].
        unfold scratch, T, O, Fr_of, tlo, fb. lia.
      + destruct (Hgaddr x a Ha) as (G1 & G2 & G3 & G4 & _). cbn [addr_of].
        split; [exact G1|]. split; [|split; assumption].
        unfold scratch, T, O, Fr_of, tlo, fb. lia.
    - intros x y lx ly Hx Hy Hne.
      destruct Hs as (_ & _ & Hnd & _).
      assert (Hndl : NoDup ln) by (clear - Hnd; induction fn as [|z r IH]; [exact Hnd | inversion Hnd; auto]).
      assert (Hndf : NoDup fn).
      { clear - Hnd. induction fn as [|z r IH]; [constructor|]. cbn [app] in Hnd. inversion Hnd as [|? ? Hn Hnd']; subst.
        constructor; [intros Hin; apply Hn; apply in_or_app; left; exact Hin | exact (IH Hnd')]. }
      destruct (var_addr pr fn ln L sp x lx Hfr Hx) as [(j & Hj & -> & Hjl)|[(i & Hi & -> & Hil)|(Hn & a & Ha & -> & _)]];
      destruct (var_addr pr fn ln L sp y ly Hfr Hy) as [(j' & Hj' & -> & Hjl')|[(i' & Hi' & -> & Hil')|(Hn' & a' & Ha' & -> & _)]];
        cbn [addr_of];
        try (pose proof (Hgaddr _ _ Ha) as (_ & _ & _ & G4 & _)); try (pose proof (Hgaddr _ _ Ha') as (_ & _ & _ & G4' & _));
        try lia.
      + intros Heq. assert (j = j') by lia. subst j'. rewrite Hj in Hj'. inversion Hj'. contradiction.
      + intros Heq. assert (i = i') by lia. subst i'. rewrite Hi in Hi'. inversion Hi'. contradiction.
      + exact (Hginj x y a a' Ha Ha' Hne).
    - (* the words of the array names: a frame word above the frame (an array formal) or a data word (a global array) *)
      intros a l Hal.
      assert (Hcl : forall c, cell_of garr_of abase alen_of c -> stack_hi <= c).
      { intros c (g & i & Hg & Hi & ->). unfold garr_of in Hg. destruct (aaddr g) as [w|] eqn:Ew; [|discriminate].
        destruct (Harr g w Ew) as (_ & _ & _ & _ & _ & B6). destruct (B6 i Hi) as [B7 _]. lia. }
      destruct (frame_aenv_spec gaddr aaddr pr fn ln _ a l Hs Hal) as [(i & Hi & Hfa & ->)|(_ & w & Hw & ->)]; cbn [waddr].
      + assert (Hil : (i < List.length fn)%nat) by (apply nth_error_Some; congruence).
        split; [apply in_mem_iff; lia|]. split; [unfold scratch, T, O, Fr_of, tlo, fb; lia|]. split; [apply HsP; lia|]. split; [lia|]. split.
        * intros Hcc. apply Hcl in Hcc. lia.
        * intros x lx Hx.
          destruct (frame_venv_spec gaddr aaddr pr fn ln _ x lx Hs Hx) as [(j & Hj & ->)|[(i' & Hi' & Hfv & ->)|(Hn & g & Hg & ->)]]; cbn [addr_of].
          -- assert (Hjl : (j < List.length ln)%nat) by (apply nth_error_Some; congruence). lia.
          -- intros Heq. assert (i' = i) by lia. subst i'. rewrite Hfa in Hfv. discriminate Hfv.
          -- destruct (Hgaddr x g Hg) as (_ & _ & _ & G4 & _). lia.
      + destruct (Harr a w Hw) as (A1 & A2 & A3 & A4 & A5 & A6).
        split; [exact A1|]. split; [unfold scratch, T, O, Fr_of, tlo, fb; lia|]. split; [exact A2|]. split; [exact A3|]. split.
        * intros Hcc. apply Hcl in Hcc. lia.
        * intros x lx Hx.
          destruct (var_addr pr fn ln L sp x lx Hfr Hx) as [(j & Hj & -> & Hjl)|[(i & Hi & -> & Hil)|(Hn & g & Hg & -> & _)]]; cbn [addr_of]; try lia; try exact (A5 x g Hg).
    - (* the cells *)
      intros c (g & i & Hg & Hi & ->). unfold garr_of in Hg. destruct (aaddr g) as [w|] eqn:Hw; [|discriminate].
      destruct (Harr g w Hw) as (_ & _ & _ & _ & _ & A6). destruct (A6 i Hi) as [A7 A8].
      split; [apply in_mem_iff; lia|]. split; [unfold scratch, T, O, Fr_of, tlo, fb; lia|]. split; [exact A8|]. split; [lia|].
      intros x lx Hx.
      destruct (var_addr pr fn ln L sp x lx Hfr Hx) as [(j & Hj & -> & Hjl)|[(i0 & Hi0 & -> & Hil)|(Hn & g0 & Hg0 & -> & _)]]; cbn [addr_of]; try lia;
        try (destruct (Hgaddr x g0 Hg0) as (_ & _ & _ & G4 & _); lia).
    - (* different cells *)
      intros g g' i i' Hg Hg' Hi Hi' Heq. unfold garr_of in Hg, Hg'.
      destruct (aaddr g) as [w|] eqn:Hw; [|discriminate]. destruct (aaddr g') as [w'|] eqn:Hw'; [|discriminate].
      exact (Hainj g w g' w' i i' Hw Hw' Hi Hi' Heq).
    - intros p pi Hp. destruct (Hprocs p pi Hp) as (H0 & pr' & fn' & ln' & L' & bc & n' & endp & _ & _ & _ & _ & _ & Hca & He).
      split; [exact H0|]. apply code_at_le in Hca. lia.
    - exact Hcallt.
    - intros f' Hf'. exact (Hc f' Hf' pr fn ln L sp Hfr).
  Qed.

  (* ---- the frame code *)
  Ltac one_instr Hc mid Hi := cbn [code_at] in Hc; destruct Hc as (mid & Hi & Hc).

  Lemma wrap_small a : 0 <= a < MEMW -> wrap a = a.
  Proof. intros H. unfold wrap. apply Z.mod_small. unfold MEMW, W in *. lia. Qed.

  (* prologue: the link word goes to the caller's frame word 0, the stack pointer comes down by size *)
  Lemma run_pro5 size m pos nxt link b inp sp :
    code_at Cm lab pos (pro5 size) nxt -> Cm m -> rd m 1 = sp -> 0 <= sp < MEMW -> ~ P sp -> 0 <= sp - size < MEMW -> nxt < W ->
    0 <= link < W ->
    taus inp (mk pos link b 0 m) (mk nxt (sp - size) sp 0 (wr (wr m sp link) 1 (sp - size))).
  Proof.
    intros Hc HC H1 Hsp HnP Hsz Hn Hl. unfold pro5 in Hc.
    one_instr Hc p1 Hi1. one_instr Hc p2 Hi2. one_instr Hc p3 Hi3. one_instr Hc p4 Hi4. one_instr Hc p5 Hi5. subst p5.
    pose proof (instr_at_le _ _ _ _ _ Hi1) as L1. pose proof (instr_at_le _ _ _ _ _ Hi2) as L2. pose proof (instr_at_le _ _ _ _ _ Hi3) as L3.
    pose proof (instr_at_le _ _ _ _ _ Hi4) as L4. pose proof (instr_at_le _ _ _ _ _ Hi5) as L5.
    pose proof (exec_instr Cm lab m pos p1 (LDBM 1) link b inp eq_refl Hi1 HC eq_refl ltac:(lia)) as T1.
    cbn [sem fst snd] in T1. rewrite H1 in T1.
    assert (Hw : wrap (sp + 0) = sp) by (rewrite Z.add_0_r; apply wrap_small; exact Hsp).
    assert (R2 : readable (STAI 0) link sp) by (cbn [readable]; rewrite Hw; apply in_mem_iff; exact Hsp).
    pose proof (exec_instr Cm lab m p1 p2 (STAI 0) link sp inp eq_refl Hi2 HC R2 ltac:(lia)) as T2.
    cbn [sem fst snd] in T2. rewrite Hw in T2.
    set (m1 := wr m sp link) in *.
    assert (HC1 : Cm m1) by (apply Cm_wr; [exact HC | lia | exact HnP]).
    pose proof (exec_instr Cm lab m1 p2 p3 (LDAC (- size)) link sp inp eq_refl Hi3 HC1 I ltac:(lia)) as T3.
    cbn [sem fst snd] in T3.
    pose proof (exec_instr Cm lab m1 p3 p4 ADD ((- size) mod W) sp inp eq_refl Hi4 HC1 I ltac:(lia)) as T4.
    cbn [sem fst snd] in T4.
    assert (Ha : wrap ((- size) mod W + sp) = sp - size).
    { unfold wrap. rewrite Zplus_mod_idemp_l. replace (- size + sp) with (sp - size) by lia.
      apply Z.mod_small. unfold MEMW, W in *. lia. }
    rewrite Ha in T4.
    pose proof (exec_instr Cm lab m1 p4 nxt (STAM 1) (sp - size) sp inp eq_refl Hi5 HC1 eq_refl Hn) as T5.
    cbn [sem fst snd] in T5.
    eapply taus_trans; [exact T1|]. eapply taus_trans; [exact T2|]. eapply taus_trans; [exact T3|].
    eapply taus_trans; [exact T4 | exact T5].
  Qed.

  (* epilogue: the stack pointer goes up by size, control returns through the link word *)
  Lemma run_epi7 exitl size m pos nxt a b inp sp' :
    code_at Cm lab pos (epi7 exitl size) nxt -> Cm m -> rd m 1 = sp' -> 0 < sp' -> 0 < size -> sp' + size < MEMW -> nxt < W ->
    exists a' b', lab exitl = pos /\
      taus inp (mk pos a b 0 m) (mk (rd m (sp' + size)) a' b' 0 (wr m 1 (sp' + size))).
  Proof.
    intros Hc HC H1 Hsp Hsz Htop Hn. unfold epi7 in Hc.
    one_instr Hc p0 Hi0. cbn [instr_at] in Hi0. destruct Hi0 as [<- Hlab].
    one_instr Hc p1 Hi1. one_instr Hc p2 Hi2. one_instr Hc p3 Hi3. one_instr Hc p4 Hi4. one_instr Hc p5 Hi5. one_instr Hc p6 Hi6. subst p6.
    pose proof (instr_at_le _ _ _ _ _ Hi1) as L1. pose proof (instr_at_le _ _ _ _ _ Hi2) as L2. pose proof (instr_at_le _ _ _ _ _ Hi3) as L3.
    pose proof (instr_at_le _ _ _ _ _ Hi4) as L4. pose proof (instr_at_le _ _ _ _ _ Hi5) as L5. pose proof (instr_at_le _ _ _ _ _ Hi6) as L6.
    pose proof (exec_instr Cm lab m pos p1 (LDBM 1) a b inp eq_refl Hi1 HC eq_refl ltac:(lia)) as T1.
    cbn [sem fst snd] in T1. rewrite H1 in T1.
    pose proof (exec_instr Cm lab m p1 p2 (LDAC size) a sp' inp eq_refl Hi2 HC I ltac:(lia)) as T2.
    cbn [sem fst snd] in T2.
    pose proof (exec_instr Cm lab m p2 p3 ADD (size mod W) sp' inp eq_refl Hi3 HC I ltac:(lia)) as T3.
    cbn [sem fst snd] in T3.
    assert (Ha : wrap (size mod W + sp') = sp' + size).
    { unfold wrap. rewrite Zplus_mod_idemp_l. replace (size + sp') with (sp' + size) by lia.
      apply Z.mod_small. unfold MEMW, W in *. lia. }
    rewrite Ha in T3.
    pose proof (exec_instr Cm lab m p3 p4 (STAM 1) (sp' + size) sp' inp eq_refl Hi4 HC eq_refl ltac:(lia)) as T4.
    cbn [sem fst snd] in T4.
    set (m1 := wr m 1 (sp' + size)) in *.
    assert (HC1 : Cm m1) by (apply Cm_wr; [exact HC | lia | exact HP1]).
    assert (Hw : wrap (sp' + size) = sp' + size) by (apply wrap_small; lia).
    assert (R5 : readable (LDBI size) (sp' + size) sp') by (cbn [readable]; rewrite Hw; apply in_mem_iff; lia).
    pose proof (exec_instr Cm lab m1 p4 p5 (LDBI size) (sp' + size) sp' inp eq_refl Hi5 HC1 R5 ltac:(lia)) as T5.
    cbn [sem fst snd] in T5. rewrite Hw in T5.
    assert (Hr : rd m1 (sp' + size) = rd m (sp' + size)) by (unfold m1; apply rd_wr_other; lia).
    rewrite Hr in T5.
    pose proof (exec_brb Cm lab m1 p5 nxt (sp' + size) (rd m (sp' + size)) inp Hi6 HC1) as T6.
    exists (sp' + size), (rd m (sp' + size)). split; [exact Hlab|].
    eapply taus_trans; [exact T1|]. eapply taus_trans; [exact T2|]. eapply taus_trans; [exact T3|].
    eapply taus_trans; [exact T4|]. eapply taus_trans; [exact T5 | exact T6].
  Qed.

  (* a function's epilogue: the result (areg) goes to the word above the link word first *)
  Lemma run_epif8 exitl size m pos nxt a b inp sp' :
    code_at Cm lab pos (epif8 exitl size) nxt -> Cm m -> rd m 1 = sp' -> 0 < sp' -> 0 < size -> sp' + size + 1 < MEMW ->
    ~ P (sp' + size + 1) -> nxt < W ->
    exists a' b', lab exitl = pos /\
      taus inp (mk pos a b 0 m) (mk (rd m (sp' + size)) a' b' 0 (wr (wr m (sp' + size + 1) a) 1 (sp' + size))).
  Proof.
    intros Hc HC H1 Hsp Hsz Htop HnP Hn. unfold epif8 in Hc.
    one_instr Hc p0 Hi0. cbn [instr_at] in Hi0. destruct Hi0 as [<- Hlab].
    one_instr Hc p1 Hi1. one_instr Hc p1' Hi1'. one_instr Hc p2 Hi2. one_instr Hc p3 Hi3. one_instr Hc p4 Hi4. one_instr Hc p5 Hi5. one_instr Hc p6 Hi6. subst p6.
    pose proof (instr_at_le _ _ _ _ _ Hi1) as L1. pose proof (instr_at_le _ _ _ _ _ Hi1') as L1'. pose proof (instr_at_le _ _ _ _ _ Hi2) as L2.
    pose proof (instr_at_le _ _ _ _ _ Hi3) as L3. pose proof (instr_at_le _ _ _ _ _ Hi4) as L4. pose proof (instr_at_le _ _ _ _ _ Hi5) as L5.
    pose proof (instr_at_le _ _ _ _ _ Hi6) as L6.
    pose proof (exec_instr Cm lab m pos p1 (LDBM 1) a b inp eq_refl Hi1 HC eq_refl ltac:(lia)) as T1.
    cbn [sem fst snd] in T1. rewrite H1 in T1.
    assert (Hw1 : wrap (sp' + (size + 1)) = sp' + size + 1) by (replace (sp' + (size + 1)) with (sp' + size + 1) by lia; apply wrap_small; lia).
    assert (R1 : readable (STAI (size + 1)) a sp') by (cbn [readable]; rewrite Hw1; apply in_mem_iff; lia).
    pose proof (exec_instr Cm lab m p1 p1' (STAI (size + 1)) a sp' inp eq_refl Hi1' HC R1 ltac:(lia)) as T1'.
    cbn [sem fst snd] in T1'. rewrite Hw1 in T1'.
    set (mr := wr m (sp' + size + 1) a) in *.
    assert (HCr : Cm mr) by (apply Cm_wr; [exact HC | lia | exact HnP]).
    pose proof (exec_instr Cm lab mr p1' p2 (LDAC size) a sp' inp eq_refl Hi2 HCr I ltac:(lia)) as T2.
    cbn [sem fst snd] in T2.
    pose proof (exec_instr Cm lab mr p2 p3 ADD (size mod W) sp' inp eq_refl Hi3 HCr I ltac:(lia)) as T3.
    cbn [sem fst snd] in T3.
    assert (Ha : wrap (size mod W + sp') = sp' + size).
    { unfold wrap. rewrite Zplus_mod_idemp_l. replace (size + sp') with (sp' + size) by lia.
      apply Z.mod_small. unfold MEMW, W in *. lia. }
    rewrite Ha in T3.
    pose proof (exec_instr Cm lab mr p3 p4 (STAM 1) (sp' + size) sp' inp eq_refl Hi4 HCr eq_refl ltac:(lia)) as T4.
    cbn [sem fst snd] in T4.
    set (m1 := wr mr 1 (sp' + size)) in *.
    assert (HC1 : Cm m1) by (apply Cm_wr; [exact HCr | lia | exact HP1]).
    assert (Hw : wrap (sp' + size) = sp' + size) by (apply wrap_small; lia).
    assert (R5 : readable (LDBI size) (sp' + size) sp') by (cbn [readable]; rewrite Hw; apply in_mem_iff; lia).
    pose proof (exec_instr Cm lab m1 p4 p5 (LDBI size) (sp' + size) sp' inp eq_refl Hi5 HC1 R5 ltac:(lia)) as T5.
    cbn [sem fst snd] in T5. rewrite Hw in T5.
    assert (Hr : rd m1 (sp' + size) = rd m (sp' + size)).
    { unfold m1, mr. rewrite rd_wr_other by lia. apply rd_wr_other; lia. }
    rewrite Hr in T5.
    pose proof (exec_brb Cm lab m1 p5 nxt (sp' + size) (rd m (sp' + size)) inp Hi6 HC1) as T6.
    exists (sp' + size), (rd m (sp' + size)). split; [exact Hlab|].
    eapply taus_trans; [exact T1|]. eapply taus_trans; [exact T1'|]. eapply taus_trans; [exact T2|]. eapply taus_trans; [exact T3|].
    eapply taus_trans; [exact T4|]. eapply taus_trans; [exact T5 | exact T6].
  Qed.

  (* ---- the frame code for any size *)
  Lemma run_pro size m pos nxt link b inp sp :
    code_at Cm lab pos (pro size) nxt -> Cm m -> rd m 1 = sp -> 1 < sp < MEMW -> ~ P sp -> 0 <= size -> 0 <= sp - size < MEMW ->
    nxt < W -> 0 <= link < W ->
    exists a' b' m2, taus inp (mk pos link b 0 m) (mk nxt a' b' 0 m2) /\
                     forall x, 0 <= x -> rd m2 x = rd (wr (wr m sp link) 1 (sp - size)) x.
  Proof.
    intros Hc HC H1 Hsp HnP Hs0 Hsz Hn Hl. unfold pro in Hc. destruct (0 <? size) eqn:Es.
    - exists (sp - size), sp, (wr (wr m sp link) 1 (sp - size)). split; [|intros x _; reflexivity].
      exact (run_pro5 size m pos nxt link b inp sp Hc HC H1 ltac:(lia) HnP Hsz Hn Hl).
    - apply Z.ltb_ge in Es. assert (size = 0) by lia. subst size.
      one_instr Hc p1 Hi1. one_instr Hc p2 Hi2. subst p2. pose proof (instr_at_le _ _ _ _ _ Hi2) as L2.
      pose proof (exec_instr Cm lab m pos p1 (LDBM 1) link b inp eq_refl Hi1 HC eq_refl ltac:(lia)) as T1.
      cbn [sem fst snd] in T1. rewrite H1 in T1.
      assert (Hw : wrap (sp + 0) = sp) by (rewrite Z.add_0_r; apply wrap_small; lia).
      assert (R2 : readable (STAI 0) link sp) by (cbn [readable]; rewrite Hw; apply in_mem_iff; lia).
      pose proof (exec_instr Cm lab m p1 nxt (STAI 0) link sp inp eq_refl Hi2 HC R2 Hn) as T2.
      cbn [sem fst snd] in T2. rewrite Hw in T2.
      exists link, sp, (wr m sp link). split; [eapply taus_trans; eassumption|].
      intros x Hx. rewrite Z.sub_0_r. destruct (Z.eq_dec x 1) as [->|Hx1].
      + rewrite rd_wr_same. rewrite rd_wr_other; [exact H1 | lia | lia | lia].
      + symmetry. apply rd_wr_other; [lia | exact Hx | congruence].
  Qed.

  (* epilogue of a procedure: stack pointer up (if the frame has words), return through the link word *)
  Lemma run_epi exitl size m pos nxt a b inp sp' :
    code_at Cm lab pos (epi exitl size) nxt -> Cm m -> rd m 1 = sp' -> 0 < sp' -> 0 <= size -> sp' + size < MEMW -> nxt < W ->
    exists a' b' mf, lab exitl = pos /\ taus inp (mk pos a b 0 m) (mk (rd m (sp' + size)) a' b' 0 mf) /\
      Cm mf /\ rd mf 1 = sp' + size /\ forall x, 0 <= x -> x <> 1 -> rd mf x = rd m x.
  Proof.
    intros Hc HC H1 Hsp Hs0 Htop Hn. unfold epi in Hc. destruct (0 <? size) eqn:Es.
    - apply Z.ltb_lt in Es.
      destruct (run_epi7 exitl size m pos nxt a b inp sp' Hc HC H1 Hsp Es Htop Hn) as (a' & b' & Hl & T).
      exists a', b', (wr m 1 (sp' + size)). split; [exact Hl|]. split; [exact T|].
      split; [apply Cm_wr; [exact HC | lia | exact HP1]|]. split; [apply rd_wr_same|].
      intros x Hx Hx1. apply rd_wr_other; [lia | exact Hx | congruence].
    - apply Z.ltb_ge in Es. assert (size = 0) by lia. subst size.
      one_instr Hc p0 Hi0. cbn [instr_at] in Hi0. destruct Hi0 as [<- Hlab].
      one_instr Hc p1 Hi1. one_instr Hc p2 Hi2. one_instr Hc p3 Hi3. subst p3.
      pose proof (instr_at_le _ _ _ _ _ Hi1) as L1. pose proof (instr_at_le _ _ _ _ _ Hi2) as L2. pose proof (instr_at_le _ _ _ _ _ Hi3) as L3.
      pose proof (exec_instr Cm lab m pos p1 (LDBM 1) a b inp eq_refl Hi1 HC eq_refl ltac:(lia)) as T1.
      cbn [sem fst snd] in T1. rewrite H1 in T1.
      assert (Hw : wrap (sp' + 0) = sp' + 0) by (apply wrap_small; lia).
      assert (R2 : readable (LDBI 0) a sp') by (cbn [readable]; rewrite Hw; apply in_mem_iff; lia).
      pose proof (exec_instr Cm lab m p1 p2 (LDBI 0) a sp' inp eq_refl Hi2 HC R2 ltac:(lia)) as T2.
      cbn [sem fst snd] in T2. rewrite Hw in T2.
      pose proof (exec_brb Cm lab m p2 nxt a (rd m (sp' + 0)) inp Hi3 HC) as T3.
      exists a, (rd m (sp' + 0)), m. split; [exact Hlab|]. split; [eapply taus_trans; [exact T1|]; eapply taus_trans; [exact T2 | exact T3]|].
      split; [exact HC|]. split; [lia|]. intros x _ _. reflexivity.
  Qed.

  (* epilogue of a function: the result (areg) goes to the word above the link word first *)
  Lemma run_epif exitl size m pos nxt a b inp sp' :
    code_at Cm lab pos (epif exitl size) nxt -> Cm m -> rd m 1 = sp' -> 0 < sp' -> 0 <= size -> sp' + size + 1 < MEMW ->
    ~ P (sp' + size + 1) -> nxt < W ->
    exists a' b' mf, lab exitl = pos /\ taus inp (mk pos a b 0 m) (mk (rd m (sp' + size)) a' b' 0 mf) /\
      Cm mf /\ rd mf 1 = sp' + size /\ rd mf (sp' + size + 1) = a /\
      forall x, 0 <= x -> x <> 1 -> x <> sp' + size + 1 -> rd mf x = rd m x.
  Proof.
    intros Hc HC H1 Hsp Hs0 Htop HnP Hn. unfold epif in Hc. destruct (0 <? size) eqn:Es.
    - apply Z.ltb_lt in Es.
      destruct (run_epif8 exitl size m pos nxt a b inp sp' Hc HC H1 Hsp Es Htop HnP Hn) as (a' & b' & Hl & T).
      exists a', b', (wr (wr m (sp' + size + 1) a) 1 (sp' + size)). split; [exact Hl|]. split; [exact T|].
      split; [apply Cm_wr; [apply Cm_wr; [exact HC | lia | exact HnP] | lia | exact HP1]|]. split; [apply rd_wr_same|].
      split; [rewrite rd_wr_other; [apply rd_wr_same | lia | lia | lia]|].
      intros x Hx Hx1 Hx2. rewrite rd_wr_other; [|lia | exact Hx | congruence]. apply rd_wr_other; [lia | exact Hx | congruence].
    - apply Z.ltb_ge in Es. assert (size = 0) by lia. subst size.
      one_instr Hc p0 Hi0. cbn [instr_at] in Hi0. destruct Hi0 as [<- Hlab].
      one_instr Hc p1 Hi1. one_instr Hc p1' Hi1'. one_instr Hc p2 Hi2. one_instr Hc p3 Hi3. subst p3.
      pose proof (instr_at_le _ _ _ _ _ Hi1) as L1. pose proof (instr_at_le _ _ _ _ _ Hi1') as L1'.
      pose proof (instr_at_le _ _ _ _ _ Hi2) as L2. pose proof (instr_at_le _ _ _ _ _ Hi3) as L3.
      pose proof (exec_instr Cm lab m pos p1 (LDBM 1) a b inp eq_refl Hi1 HC eq_refl ltac:(lia)) as T1.
      cbn [sem fst snd] in T1. rewrite H1 in T1.
      assert (Hw1 : wrap (sp' + (0 + 1)) = sp' + 0 + 1) by (replace (sp' + (0 + 1)) with (sp' + 0 + 1) by lia; apply wrap_small; lia).
      assert (R1 : readable (STAI (0 + 1)) a sp') by (cbn [readable]; rewrite Hw1; apply in_mem_iff; lia).
      pose proof (exec_instr Cm lab m p1 p1' (STAI (0 + 1)) a sp' inp eq_refl Hi1' HC R1 ltac:(lia)) as T1'.
      cbn [sem fst snd] in T1'. rewrite Hw1 in T1'.
      set (mr := wr m (sp' + 0 + 1) a) in *.
      assert (HCr : Cm mr) by (apply Cm_wr; [exact HC | lia | exact HnP]).
      assert (Hw : wrap (sp' + 0) = sp' + 0) by (apply wrap_small; lia).
      assert (R2 : readable (LDBI 0) a sp') by (cbn [readable]; rewrite Hw; apply in_mem_iff; lia).
      pose proof (exec_instr Cm lab mr p1' p2 (LDBI 0) a sp' inp eq_refl Hi2 HCr R2 ltac:(lia)) as T2.
      cbn [sem fst snd] in T2. rewrite Hw in T2.
      assert (Hr : rd mr (sp' + 0) = rd m (sp' + 0)) by (unfold mr; apply rd_wr_other; lia).
      rewrite Hr in T2.
      pose proof (exec_brb Cm lab mr p2 nxt a (rd m (sp' + 0)) inp Hi3 HCr) as T3.
      exists a, (rd m (sp' + 0)), mr. split; [exact Hlab|].
      split; [eapply taus_trans; [exact T1|]; eapply taus_trans; [exact T1'|]; eapply taus_trans; [exact T2 | exact T3]|].
      split; [exact HCr|]. split; [unfold mr; rewrite rd_wr_other; [lia | lia | lia | lia]|].
      split; [unfold mr; apply rd_wr_same|]. intros x Hx _ Hx2. unfold mr. apply rd_wr_other; [lia | exact Hx | congruence].
  Qed.

  (* ---- frames of caller and callee *)

  Notation RelF pr L sp := (Rel pinfo (Dq_of sp) (frame_venv gaddr pr (pl_size L)) (frame_aenv aaddr pr (pl_size L)) garr_of abase alen_of ge P m0 sp).
  Notation scratchF pr L sp := (scratch (Fr_of sp) (pl_size L) (pl_nslots L) (first_temp pr) (pl_og L) sp).
  Notation var_wordF pr L sp := (var_word (frame_venv gaddr pr (pl_size L)) garr_of abase alen_of sp).
  Notation frame_onlyF pr L sp :=
    (frame_only (Fr_of sp) (frame_venv gaddr pr (pl_size L)) garr_of abase alen_of (pl_size L) (pl_nslots L) (first_temp pr) (pl_og L) sp).

  Lemma index_of_notin : forall l x i, ~ In x l -> index_of x l i = None.
  Proof.
    induction l as [|y r IH]; intros x i Hn; cbn [index_of]; [reflexivity|].
    destruct (String.eqb x y) eqn:E.
    - apply String.eqb_eq in E. subst y. exfalso. apply Hn. left. reflexivity.
    - apply IH. intros Hin. apply Hn. right. exact Hin.
  Qed.

  (* a global variable is in scope in every simple frame: nothing hides it *)
  Lemma global_in_frame pr fn ln size x a :
    simple_proc gaddr aaddr pr fn ln -> gaddr x = Some a -> frame_venv gaddr pr size x = Some (LGlobal a).
  Proof.
    intros ([Hf _] & Hl & _ & Hng & _) Hx.
    assert (Hn : ~ In x (fn ++ ln)) by (intros Hin; rewrite (Hng x Hin) in Hx; discriminate).
    unfold frame_venv. rewrite Hl, Hf.
    assert (Ml : map local_decl_name (map DVar ln) = ln) by (rewrite map_map; cbn; apply map_id).
    rewrite Ml.
    rewrite (index_of_notin ln x 0) by (intros Hin; apply Hn; apply in_or_app; right; exact Hin).
    rewrite (index_of_notin fn x 0) by (intros Hin; apply Hn; apply in_or_app; left; exact Hin).
    rewrite Hx. reflexivity.
  Qed.

  (* the words a frame at sp' = sp - size' may touch, seen from the frame above it at sp *)
  Lemma callee_scratch pr' fn' ln' L' sp' a :
    frame_ok pr' fn' ln' L' sp' -> scratchF pr' L' sp' a -> stack_lo <= a < sp' + pl_size L'.
  Proof.
    intros (Hs & (Hsz & Hft & Hog & Hns) & Hlo & _) Hsc. pose proof (first_temp_len pr' fn' ln' Hs) as Hft'.
    unfold scratch, T, O, Fr_of, tlo, fb in Hsc. lia.
  Qed.
  Lemma callee_var_word pr' fn' ln' L' sp' a :
    frame_ok pr' fn' ln' L' sp' -> var_wordF pr' L' sp' a ->
    stack_lo <= a < sp' + pl_size L' \/
    sp' + pl_size L' + foff pr' <= a < sp' + pl_size L' + foff pr' + Z.of_nat (List.length fn') \/
    (exists x, gaddr x = Some a) \/
    (exists a' w i, aaddr a' = Some w /\ 0 <= i < alen_of a' /\ a = abase a' + i).
  Proof.
    intros Hfr [(x & l & Hx & ->)|(a' & i & Hg & Hi & ->)]; pose proof Hfr as (Hs & (Hsz & Hft & Hog & Hns) & Hlo & _).
    - pose proof (first_temp_len pr' fn' ln' Hs) as Hft'.
      destruct (var_addr pr' fn' ln' L' sp' x l Hfr Hx) as [(j & Hj & -> & Hjl)|[(i & Hi & -> & Hil)|(Hn & a & Ha & -> & _)]].
      + left. lia.
      + right. left. lia.
      + right. right. left. exists x. exact Ha.
    - unfold garr_of in Hg. destruct (aaddr a') as [w|] eqn:Hw; [|discriminate].
      right. right. right. exists a', w, i. split; [exact Hw|]. split; [exact Hi | reflexivity].
  Qed.

  Lemma callee_frame pr fn ln L sp pr' fn' ln' L' st m vs fr link m2 :
    (forall x, 0 <= x -> rd m2 x = rd (wr (wr m sp link) 1 (sp - pl_size L')) x) ->
    frame_ok pr fn ln L sp -> simple_proc gaddr aaddr pr' fn' ln' -> numbers_ok pr' L' ->
    RelF pr L sp st m -> args_stored garr_of abase sp vs (foff pr') m -> Z.of_nat (List.length vs) + foff pr' <= pl_og L ->
    enter ge pr' vs st = inr fr ->
    frame_ok pr' fn' ln' L' (sp - pl_size L') /\
    RelF pr' L' (sp - pl_size L') (set_stk (set_budget st (budget st - 1)) (fr :: stk st)) m2.
  Proof.
    intros Hext Hfr Hs' Hnum' HR Hargs Hlen Hent.
    pose proof Hfr as (Hs & (Hsz & Hft & Hog & Hns) & Hlo & Htop & Htop2).
    pose proof Hnum' as (Hsz' & Hft1 & Hog' & Hns').
    pose proof (foff_range pr) as Hfo. pose proof (foff_range pr') as Hfo'.
    destruct Hstack as [Hs1 HsP].
    destruct HR as (HC & H1 & ((HVg & HVf) & (HAn & HAc)) & Hne & HD).
    destruct (enter_frame ge gaddr aaddr pr' fn' ln' vs st fr Hs' Hent) as (Hd & Hfd & Hfv & Hlv & Hloc & Hfor & Hoth).
    assert (Hsp' : stack_lo <= sp - pl_size L').
    { unfold Dq_of in HD. assert (1 <= Z.of_nat (g_maxdepth ge - f_depth (top st))) by lia. nia. }
    assert (Hfr' : frame_ok pr' fn' ln' L' (sp - pl_size L')).
    { split; [exact Hs'|]. split; [exact Hnum'|]. split; [exact Hsp'|]. rewrite <- Hlv.
      pose proof (first_temp_len pr fn ln Hs). lia. }
    split; [exact Hfr'|].
    assert (Hm2 : forall a, 0 <= a -> a <> sp -> a <> 1 -> rd m2 a = rd m a).
    { intros a Ha Ha1 Ha2. rewrite Hext by exact Ha. rewrite rd_wr_other; [|lia | exact Ha | congruence]. apply rd_wr_other; [lia | exact Ha | congruence]. }
    split; [|split; [|split; [|split]]].
    - intros a Ha HPa. rewrite Hext by exact Ha. revert a Ha HPa.
      apply Cm_wr; [|lia | exact HP1]. apply Cm_wr; [exact HC | lia | apply HsP; lia].
    - rewrite Hext by lia. apply rd_wr_same.
    - split; [split | split].
      + intros x a Hx.
        destruct (frame_venv_spec gaddr aaddr pr' fn' ln' _ x _ Hs' Hx) as [(j & _ & Hq)|[(i & _ & _ & Hq)|(Hn & a0 & Ha0 & Hq)]]; try discriminate Hq.
        inversion Hq; subst a0. cbn [top set_stk stk f_vars f_vals].
        destruct (Hgaddr x a Ha0) as (G1 & G2 & G3 & G4 & G5).
        split; [exact (Hoth x Hn)|]. split; [rewrite Hfv; reflexivity|]. split; [exact G5|].
        destruct (HVg x a (global_in_frame pr fn ln (pl_size L) x a Hs Ha0)) as (_ & _ & _ & v & Hv & Hval).
        exists v. split; [exact Hv|]. rewrite Hm2; [exact Hval | apply in_mem_iff in G1; lia | lia | exact G3].
      + intros x k Hx. cbn [top set_stk stk].
        destruct (frame_venv_spec gaddr aaddr pr' fn' ln' _ x _ Hs' Hx) as [(j & Hj & Hq)|[(i & Hi & Hfx & Hq)|(Hn & a0 & Ha0 & Hq)]]; try discriminate Hq.
        * exists Vundef. split; [apply Hloc; eapply nth_error_In; exact Hj | left; reflexivity].
        * inversion Hq; subst k. destruct (Hfor i (FVal x) Hfx) as (v & Hv & Hass & Hkv & _). cbn [formal_nm] in Hass.
          destruct (Hkv eq_refl) as (z & ->).
          destruct (Hargs i (Vint z) Hv) as [(z' & Hz' & Hin & Hrd)|(g & Hq' & _)]; [|discriminate Hq']. inversion Hz'; subst z'.
          exists (Vint z). split; [exact Hass|]. right. exists z. split; [reflexivity|]. split; [exact Hin|].
          assert (Hil : (i < List.length vs)%nat) by (apply nth_error_Some; congruence).
          replace (sp - pl_size L' + (pl_size L' + foff pr' + Z.of_nat i)) with (sp + foff pr' + Z.of_nat i) by lia.
          rewrite Hm2; [exact Hrd | lia | lia | lia].
      + (* the names of arrays: an array formal holds the address the caller stored; a global array's word is untouched *)
        intros a l Hal. cbn [top set_stk stk].
        destruct (frame_aenv_spec gaddr aaddr pr' fn' ln' _ a l Hs' Hal) as [(i & Hi & Hfa & ->)|(Hn & w & Hw & ->)].
        * destruct (Hfor i (FArray a) Hfa) as (v & Hv & Hass & _ & Hka). cbn [formal_nm] in Hass.
          assert (Hil : (i < List.length vs)%nat) by (apply nth_error_Some; congruence).
          destruct (Hargs i v Hv) as [(z & -> & _)|(g & -> & Hg & Hrd)].
          -- destruct (Hka eq_refl) as [(g & Hq)|(ws & Hq)]; discriminate Hq.
          -- exists g. split; [left; cbn [top set_stk stk]; exact Hass|]. split; [exact Hg|]. split; [|intros w Hq; discriminate Hq].
             cbn [waddr]. replace (sp - pl_size L' + (pl_size L' + foff pr' + Z.of_nat i)) with (sp + foff pr' + Z.of_nat i) by lia.
             rewrite Hm2; [exact Hrd | lia | lia | lia].
        * destruct (HAn a (LGlobal w) (array_in_frame gaddr aaddr pr fn ln (pl_size L) a w Hs Hw)) as (g & _ & Hg & Hrd & Hga).
          specialize (Hga w eq_refl). subst g.
          destruct (HAc a Hg) as (_ & _ & ar & Har & _).
          destruct (Harr a w Hw) as (W1 & _ & W3 & W4 & _). cbn [waddr] in *.
          exists a. split; [|split; [exact Hg|]; split; [|intros; reflexivity]].
          -- right. cbn [top set_stk stk]. split; [exact (Hoth a Hn)|]. split; [rewrite Hfv; reflexivity|]. split; [|reflexivity].
             cbn [garrs set_stk set_budget]. rewrite Har. discriminate.
          -- rewrite Hm2; [exact Hrd | apply in_mem_iff in W1; lia | lia | exact W3].
      + (* the cells: untouched by the prologue *)
        intros g Hg. destruct (HAc g Hg) as (C1 & C2 & ar & C3 & C4 & C5). cbn [gvars garrs set_stk set_budget].
        split; [exact C1|]. split; [exact C2|]. exists ar. split; [exact C3|]. split; [exact C4|].
        intros i n Hi Hf. destruct (C5 i n Hi Hf) as [G1 G2]. split; [exact G1|].
        unfold garr_of in Hg. destruct (aaddr g) as [w|] eqn:Hw; [|discriminate].
        destruct (Harr g w Hw) as (_ & _ & _ & _ & _ & W6). destruct (W6 i ltac:(rewrite <- C4; exact Hi)) as [W7 _].
        rewrite Hm2; [exact G2 | lia | lia | lia].
    - split; [cbn [set_stk stk]; discriminate|]. intros q qi _. cbn [top set_stk stk]. rewrite Hfv. reflexivity.
    - cbn [top set_stk stk]. rewrite Hfd. unfold Dq_of in *.
      replace (g_maxdepth ge - f_depth (top st))%nat with (S (g_maxdepth ge - S (f_depth (top st)))) in HD by lia.
      rewrite Nat2Z.inj_succ in HD. nia.
  Qed.

  Lemma stk_pop s : stk (pop s) = tl (stk s).
  Proof. unfold pop. cbn [stk set_stk]. destruct (stk s); reflexivity. Qed.

  (* back in the caller: what the callee's frame left is what the caller's relation needs.  mf is the memory after
     the epilogue: mb with the stack pointer restored and, after a function, the result word sp+1 written *)
  Lemma caller_back pr fn ln L sp pr' fn' ln' L' st m (vs : list value) fr link s2 mb mf outs :
    frame_ok pr fn ln L sp -> frame_ok pr' fn' ln' L' (sp - pl_size L') ->
    RelF pr L sp st m -> List.length vs = List.length fn' -> Z.of_nat (List.length vs) + foff pr' <= pl_og L ->
    RelF pr' L' (sp - pl_size L') s2 mb ->
    post (set_stk (set_budget st (budget st - 1)) (fr :: stk st)) s2 outs ->
    frame_onlyF pr' L' (sp - pl_size L') (wr (wr m sp link) 1 (sp - pl_size L')) mb ->
    Cm mf -> rd mf 1 = sp ->
    (forall a, 0 <= a -> a <> 1 -> (is_func pr' = true -> a <> sp + 1) -> rd mf a = rd mb a) ->
    rd mb sp = link /\ RelF pr L sp (pop s2) mf /\ post st (pop s2) outs /\ frame_onlyF pr L sp m mf.
  Proof.
    intros Hfr Hfr' HR Hlv Hlen HR' Hpost Hfo HCf Hf1 Hm'.
    pose proof Hfr as (Hs & (Hsz & Hft & Hog & Hns) & Hlo & Htop & Htop2).
    pose proof Hfr' as (Hs' & (Hsz' & Hft1 & Hog' & Hns') & Hlo' & Htop' & Htop2').
    pose proof (first_temp_len pr fn ln Hs) as Hftl.
    pose proof (foff_range pr) as Hfr1. pose proof (foff_range pr') as Hfr2.
    assert (Hf2 : is_func pr' = true -> foff pr' = 2) by (intros H; unfold foff; rewrite H; reflexivity).
    destruct Hstack as [Hs1 HsP].
    destruct HR as (HC & H1 & ((HVg & HVf) & (HAn & HAc)) & Hne & HD).
    destruct HR' as (HC' & H1' & ((HVg' & HVf') & (HAn' & HAc')) & Hne' & HD').
    destruct Hpost as (P1 & P2 & P5 & P6). cbn [out_rev input ncons garrs set_stk set_budget stk tl] in P1, P2, P5.
    assert (Hstk : stk (pop s2) = stk st) by (rewrite stk_pop; exact P5).
    assert (Htopeq : top (pop s2) = top st) by (unfold top; rewrite Hstk; reflexivity).
    (* what the callee may have changed *)
    assert (Hout : forall a, 0 <= a -> ~ (stack_lo <= a < sp) -> ~ (sp + foff pr' <= a < sp + foff pr' + Z.of_nat (List.length vs)) ->
                   (forall x, gaddr x <> Some a) -> a < stack_hi -> a <> 1 -> a <> sp -> rd mb a = rd m a).
    { intros a Ha Hn1 Hn2 Hn3 Hhi4 Hn4 Hn5. rewrite (Hfo a Ha).
      - rewrite rd_wr_other; [|lia | exact Ha | congruence]. apply rd_wr_other; [lia | exact Ha | congruence].
      - intros Hsc. apply (callee_scratch pr' fn' ln' L' _ a Hfr') in Hsc. lia.
      - intros Hvw. destruct (callee_var_word pr' fn' ln' L' _ a Hfr' Hvw) as [Hq|[Hq|[(x & Hx)|(a' & w & i & Hw & Hi & ->)]]];
          [lia | rewrite <- Hlv in Hq; lia | exact (Hn3 x Hx)|].
        destruct (Harr a' w Hw) as (_ & _ & _ & _ & _ & W6). destruct (W6 i Hi) as [W7 _]. lia. }
    split; [|split; [|split]].
    - (* the link word *)
      rewrite (Hfo sp ltac:(lia)).
      + rewrite rd_wr_other; [apply rd_wr_same | lia | lia | lia].
      + intros Hsc. apply (callee_scratch pr' fn' ln' L' _ sp Hfr') in Hsc. lia.
      + intros Hvw. destruct (callee_var_word pr' fn' ln' L' _ sp Hfr' Hvw) as [Hq|[Hq|[(x & Hx)|(a' & w & i & Hw & Hi & Heq)]]]; [lia | lia | |].
        * destruct (Hgaddr x sp Hx) as (_ & _ & _ & G4 & _). lia.
        * destruct (Harr a' w Hw) as (_ & _ & _ & _ & _ & W6). destruct (W6 i Hi) as [W7 _]. lia.
    - split; [|split; [|split; [|split]]].
      + exact HCf.
      + exact Hf1.
      + split; [split | split].
        * intros x a Hx. rewrite Htopeq. destruct (HVg x a Hx) as (A1 & A2 & A3 & _).
          split; [exact A1|]. split; [exact A2|]. split; [exact A3|].
          assert (Hga : gaddr x = Some a).
          { destruct (frame_venv_spec gaddr aaddr pr fn ln _ x _ Hs Hx) as [(j & _ & Hq)|[(i & _ & _ & Hq)|(Hn & a0 & Ha0 & Hq)]]; try discriminate Hq.
            inversion Hq; subst a0. exact Ha0. }
          destruct (Hgaddr x a Hga) as (G1 & G2 & G3 & G4 & G5).
          destruct (HVg' x a (global_in_frame pr' fn' ln' (pl_size L') x a Hs' Hga)) as (_ & _ & _ & v & Hv & Hval).
          exists v. split; [exact Hv|]. rewrite Hm'; [exact Hval | apply in_mem_iff in G1; lia | exact G3 | lia].
        * intros x k Hx. rewrite Htopeq. destruct (HVf x k Hx) as (v & Hv & Hval). exists v. split; [exact Hv|].
          destruct (var_addr pr fn ln L sp x (LFrame k) Hfr Hx) as [(j & Hj & Hq & Hjl)|[(i & Hi & Hq & Hil)|(Hn & a & Ha & Hq & _)]];
            try discriminate Hq; cbn [addr_of] in Hq; rewrite Hq in *.
          -- rewrite Hm'; [|lia | lia | intros Hff; specialize (Hf2 Hff); lia]. rewrite Hout; [exact Hval | lia | lia | lia | | lia | lia | lia].
             intros y Hy. destruct (Hgaddr y _ Hy) as (_ & _ & _ & G4 & _). lia.
          -- rewrite Hm'; [|lia | lia | intros Hff; specialize (Hf2 Hff); lia]. rewrite Hout; [exact Hval | lia | lia | lia | | lia | lia | lia].
             intros y Hy. destruct (Hgaddr y _ Hy) as (_ & _ & _ & G4 & _). lia.
        * (* the names of arrays: the caller's words are as they were *)
          intros a l Hal. destruct (HAn a l Hal) as (g & Hres & Hg & Hrd & Hga).
          destruct (HAc' g Hg) as (_ & _ & ar & Har & _).
          exists g. split; [|split; [exact Hg|]; split; [|exact Hga]].
          -- unfold resolves in *. rewrite Htopeq. destruct Hres as [Hl|(R1 & R2 & R3 & ->)]; [left; exact Hl | right].
             split; [exact R1|]. split; [exact R2|]. split; [|reflexivity]. cbn [pop garrs set_stk]. rewrite Har. discriminate.
          -- destruct (frame_aenv_spec gaddr aaddr pr fn ln _ a l Hs Hal) as [(i & Hi & Hfa & ->)|(_ & w & Hw & ->)]; cbn [waddr] in *.
             ++ assert (Hil : (i < List.length fn)%nat) by (apply nth_error_Some; congruence).
                rewrite Hm'; [|lia | lia | intros Hff; specialize (Hf2 Hff); lia]. rewrite Hout; [exact Hrd | lia | lia | lia | | lia | lia | lia].
                intros y Hy. destruct (Hgaddr y _ Hy) as (_ & _ & _ & G4 & _). lia.
             ++ destruct (Harr a w Hw) as (W1 & _ & W3 & W4 & W5 & _). apply in_mem_iff in W1.
                rewrite Hm'; [|lia | exact W3 | lia]. rewrite Hout; [exact Hrd | lia | lia | lia | | lia | exact W3 | lia].
                intros y Hy. exact (W5 y w Hy eq_refl).
        * (* the cells, as the callee left them *)
          intros g Hg. destruct (HAc' g Hg) as (C1 & C2 & ar & C3 & C4 & C5). cbn [pop gvars garrs set_stk].
          split; [exact C1|]. split; [exact C2|]. exists ar. split; [exact C3|]. split; [exact C4|].
          intros i n Hi Hf. destruct (C5 i n Hi Hf) as [G1 G2]. split; [exact G1|].
          unfold garr_of in Hg. destruct (aaddr g) as [w|] eqn:Hw; [|discriminate].
          destruct (Harr g w Hw) as (_ & _ & _ & _ & _ & W6). destruct (W6 i ltac:(rewrite <- C4; exact Hi)) as [W7 _].
          rewrite Hm'; [exact G2 | lia | lia | intros Hff; specialize (Hf2 Hff); lia].
      + unfold novals. rewrite Hstk, Htopeq. exact Hne.
      + rewrite Htopeq. exact HD.
    - unfold post. rewrite Htopeq, Hstk. cbn [pop out_rev input ncons garrs set_stk].
      split; [exact P1|]. split; [exact P2|]. split; reflexivity.
    - intros a Ha Hns0 Hnv. destruct (Z.eq_dec a 1) as [->|Hne1]; [rewrite Hf1; symmetry; exact H1|].
      rewrite Hm'; [|exact Ha | exact Hne1|].
      2:{ intros Hff Heq. specialize (Hf2 Hff). apply Hns0. right. left. unfold O. lia. }
      destruct (Z_lt_dec a stack_hi) as [Hlt|Hge].
      * apply Hout; try assumption.
        -- intros Hq. apply Hns0. right. right. exact Hq.
        -- intros Hq. apply Hns0. right. left. unfold O. lia.
        -- intros x Hx. apply Hnv. left. exists x, (LGlobal a). split; [exact (global_in_frame pr fn ln (pl_size L) x a Hs Hx) | reflexivity].
        -- intros ->. apply Hns0. right. left. unfold O. lia.
      * (* above the stack: only cells of arrays can have changed, and those are variable words of the caller too *)
        rewrite (Hfo a Ha).
        -- rewrite rd_wr_other; [|lia | exact Ha | congruence]. apply rd_wr_other; [lia | exact Ha | lia].
        -- intros Hsc. apply (callee_scratch pr' fn' ln' L' _ a Hfr') in Hsc. lia.
        -- intros Hvw. destruct (callee_var_word pr' fn' ln' L' _ a Hfr' Hvw) as [Hq|[Hq|[(x & Hx)|(a' & w & i & Hw & Hi & Heq)]]];
             [lia | rewrite <- Hlv in Hq; lia | destruct (Hgaddr x a Hx) as (_ & _ & _ & G4 & _); lia|].
           apply Hnv. right. exists a', i. split; [unfold garr_of; rewrite Hw; reflexivity|]. split; [exact Hi | exact Heq].
  Qed.

  (* ---- a procedure of the table, run from its entry label, meets the call specification of any caller frame *)
  Lemma epi_label isf exitl size pos nxt : code_at Cm lab pos (epi_of isf exitl size) nxt -> lab exitl = pos.
  Proof.
    unfold epi_of, epif, epi, epif8, epi7. intros H. destruct isf; destruct (0 <? size); cbn [code_at] in H;
      destruct H as (q & Hq & _); cbn [instr_at] in Hq; exact (proj2 Hq).
  Qed.

  Lemma call_from_stmt f : Stmt_ok f -> Call_ok f.
  Proof.
    intros Hst pr fn ln L sp Hfr p pi vs st m link b inp Hp HR Hcon Hargs Hlen Hlink.
    destruct (Hprocs p pi Hp) as (He0 & pr' & fn' & ln' & L' & bc & n' & endp & Hfind & Hpf & Hs' & Hnum' & Hcs & Hca & Hend).
    assert (Hko : koff pi = foff pr') by (unfold koff, foff; rewrite Hpf; reflexivity).
    rewrite Hko in Hargs, Hlen.
    unfold invoke. rewrite Hfind, Hpf, Bool.eqb_reflx. cbn [negb].
    destruct (enter ge pr' vs st) as [u|fr] eqn:Hent; [exact I|].
    unfold tick. destruct (budget st <=? 0); [exact I|]. cbn [stk set_budget].
    destruct (callee_frame pr fn ln L sp pr' fn' ln' L' st m vs fr link _ (fun x _ => eq_refl) Hfr Hs' Hnum' HR Hargs Hlen Hent) as [Hfr' _].
    destruct (enter_frame ge gaddr aaddr pr' fn' ln' vs st fr Hs' Hent) as (_ & _ & _ & Hlv & _).
    pose proof Hfr as (Hs & (Hsz & Hft & Hog & Hns) & Hlo & Htop & Htop2).
    pose proof Hfr' as (_ & (Hsz' & Hft1 & Hog' & Hns') & Hlo' & Htop' & Htop2').
    pose proof (foff_range pr) as Hfo1. pose proof (foff_range pr') as Hfo2.
    destruct Hstack as [Hs1 HsP].
    (* the code *)
    apply code_at_app in Hca. destruct Hca as (p1 & Hpro & Hca). apply code_at_app in Hca. destruct Hca as (p2 & Hbody & Hepi).
    pose proof (code_at_le _ _ _ _ _ Hpro) as L1. pose proof (code_at_le _ _ _ _ _ Hbody) as L2. pose proof (code_at_le _ _ _ _ _ Hepi) as L3.
    pose proof (epi_label _ _ _ _ _ Hepi) as Hlab.
    (* prologue *)
    pose proof HR as (HC & H1 & _).
    destruct (run_pro (pl_size L') m (lab (pf_entry pi)) p1 link b inp sp Hpro HC H1 ltac:(lia) ltac:(apply HsP; lia) ltac:(lia) ltac:(lia) ltac:(lia) Hlink)
      as (ap & bp & m2 & Tpro & Hm2).
    set (sp' := sp - pl_size L') in *.
    set (mc := wr (wr m sp link) 1 sp') in *.
    set (st1 := set_stk (set_budget st (budget st - 1)) (fr :: stk st)) in *.
    destruct (callee_frame pr fn ln L sp pr' fn' ln' L' st m vs fr link m2 Hm2 Hfr Hs' Hnum' HR Hargs Hlen Hent) as [_ HR2].
    fold sp' st1 in HR2.
    (* body *)
    pose proof (Hst pr' fn' ln' L' sp' Hfr' (body pr') (pl_n0 L') bc n' st1 Hcs m2 p1 p2 ap bp inp HR2 Hcon Hbody ltac:(lia) ltac:(lia) ltac:(lia)) as Hres.
    assert (Hfoc : forall mb, frame_onlyF pr' L' sp' m2 mb -> frame_onlyF pr' L' sp' mc mb).
    { intros mb Fb a Ha Hsc Hvw. rewrite (Fb a Ha Hsc Hvw). apply Hm2. exact Ha. }
    destruct (is_func pr') eqn:Eif; cbn [epi_of] in Hepi.
    - (* a function: the body must return a value; the epilogue stores it to the caller's word sp + 1 *)
      assert (Hf2 : foff pr' = 2) by (unfold foff; rewrite Eif; reflexivity).
      destruct (exec f ge (body pr') st1) as [[|v] s2|c s2|u]; cbn [bind rcase result_ok ret_ok] in *; [exact I | | | exact I].
      + destruct Hres as (outs & z & b1 & mb & -> & Hz & Rb & HRb & Pb & Fb). rewrite Hlab in Rb. cbn [ret_ok].
        pose proof HRb as (HCb & H1b & _).
        destruct (run_epif (pl_exit L') (pl_size L') mb p2 endp (z mod W) b1 (adv inp s2) sp' Hepi HCb H1b ltac:(lia) ltac:(lia)
                    ltac:(unfold sp'; lia) ltac:(apply HsP; unfold sp'; lia) Hend) as (a2 & b2 & mf & _ & Tepi & HCf & Hf1 & Hfr1 & Hfo).
        replace (sp' + pl_size L' + 1) with (sp + 1) in * by (unfold sp'; lia).
        replace (sp' + pl_size L') with sp in * by (unfold sp'; lia).
        destruct (caller_back pr fn ln L sp pr' fn' ln' L' st m vs fr link s2 mb mf outs Hfr Hfr' HR Hlv Hlen HRb Pb (Hfoc mb Fb) HCf Hf1)
          as (Hlk & HRc & Pc & Fc).
        { intros a Ha Ha1 Ha2. apply Hfo; [exact Ha | exact Ha1 | exact (Ha2 Eif)]. }
        rewrite Hlk in Tepi.
        exists outs, a2, b2, mf. split; [|split; [exact HRc|split; [exact Pc|split; [exact Fc|]]]].
        * eapply taus_runs; [exact Tpro|]. eapply runs_taus; [exact Rb | exact Tepi].
        * intros _. exists z. split; [reflexivity|]. split; [exact Hz | exact Hfr1].
      + destruct Hres as (outs & Ex & (Q1 & Q2)). exists outs. split; [eapply taus_exits; [exact Tpro | exact Ex]|].
        exact (conj Q1 Q2).
    - (* a procedure *)
      assert (Hback : forall outs s2 mb a1 b1, runs inp (mk p1 ap bp 0 m2) outs (adv inp s2) (mk p2 a1 b1 0 mb) ->
                RelF pr' L' sp' s2 mb -> post st1 s2 outs -> frame_onlyF pr' L' sp' m2 mb ->
                exists outs0 a' b' m', runs inp (mk (lab (pf_entry pi)) link b 0 m) outs0 (adv inp (pop s2)) (mk link a' b' 0 m') /\
                  RelF pr L sp (pop s2) m' /\ post st (pop s2) outs0 /\ frame_onlyF pr L sp m m' /\
                  (false = true -> exists z, Vundef = Vint z /\ in_int z = true /\ rd m' (sp + 1) = z mod W)).
      { intros outs s2 mb a1 b1 Rb HRb Pb Fb. pose proof HRb as (HCb & H1b & _).
        destruct (run_epi (pl_exit L') (pl_size L') mb p2 endp a1 b1 (adv inp s2) sp' Hepi HCb H1b ltac:(lia) ltac:(lia) ltac:(unfold sp'; lia) Hend)
          as (a2 & b2 & mf & _ & Tepi & HCf & Hf1 & Hfo).
        replace (sp' + pl_size L') with sp in * by (unfold sp'; lia).
        destruct (caller_back pr fn ln L sp pr' fn' ln' L' st m vs fr link s2 mb mf outs Hfr Hfr' HR Hlv Hlen HRb Pb (Hfoc mb Fb) HCf Hf1)
          as (Hlk & HRc & Pc & Fc).
        { intros a Ha Ha1 _. exact (Hfo a Ha Ha1). }
        rewrite Hlk in Tepi.
        exists outs, a2, b2, mf. split; [|split; [exact HRc|split; [exact Pc|split; [exact Fc|intros H; discriminate H]]]].
        eapply taus_runs; [exact Tpro|]. eapply runs_taus; [exact Rb | exact Tepi]. }
      destruct (exec f ge (body pr') st1) as [[|v] s2|c s2|u]; cbn [bind rcase result_ok ret_ok] in *; [| | |exact I].
      + destruct Hres as (outs & a1 & b1 & mb & Rb & HRb & Pb & Fb). exact (Hback outs s2 mb a1 b1 Rb HRb Pb Fb).
      + destruct Hres as (outs & z & b1 & mb & _ & _ & Rb & HRb & Pb & Fb). rewrite Hlab in Rb.
        exact (Hback outs s2 mb (z mod W) b1 Rb HRb Pb Fb).
      + destruct Hres as (outs & Ex & (Q1 & Q2)). exists outs. split; [eapply taus_exits; [exact Tpro | exact Ex]|].
        exact (conj Q1 Q2).
  Qed.

  Theorem call_ok : forall f, Call_ok f.
  Proof.
    induction f as [f IH] using lt_wf_ind. apply call_from_stmt. apply stmt_from_calls. exact IH.
  Qed.

  (* the statement theorem, for the body of any simple frame, with procedure-call statements (recursion included) *)
  Theorem stmt_calls_closed : forall f, Stmt_ok f.
  Proof. intros f. apply stmt_from_calls. intros f' _. apply call_ok. Qed.

  (* what call_ok says about the machine, spelled out for a call that returns: control comes back to the link
     address, the stack-pointer word holds what it held (prologue and epilogue balance), no protected word has
     changed, and every other change lies in the caller's temporaries, its outgoing area, the free stack below its
     frame, or the word of a variable in scope *)
  Corollary call_discipline : forall f pr fn ln L sp, frame_ok pr fn ln L sp ->
    forall p pi vs st v st' m link b inp, pinfo p = Some pi ->
      RelF pr L sp st m -> console inp = input st -> args_stored garr_of abase sp vs (koff pi) m -> Z.of_nat (List.length vs) + koff pi <= pl_og L -> 0 <= link < W ->
      invoke (exec f ge) ge (pf_isfunc pi) p vs st = Ret v st' ->
      exists evs a' b' m', runs inp (mk (lab (pf_entry pi)) link b 0 m) evs (adv inp st') (mk link a' b' 0 m') /\
        rd m' 1 = rd m 1 /\ (forall x, 0 <= x -> P x -> rd m' x = rd m x) /\
        (forall x, 0 <= x -> ~ scratchF pr L sp x -> ~ var_wordF pr L sp x -> rd m' x = rd m x).
  Proof.
    intros f pr fn ln L sp Hfr p pi vs st v st' m link b inp Hp HR Hcon Hargs Hlen Hlink Hinv.
    pose proof (call_ok f pr fn ln L sp Hfr p pi vs st m link b inp Hp HR Hcon Hargs Hlen Hlink) as H.
    rewrite Hinv in H. destruct H as (o & a' & b' & m' & R & HR' & _ & F & _).
    exists o, a', b', m'. split; [exact R|].
    destruct HR as (C0 & S0 & _). destruct HR' as (C1 & S1 & _).
    split; [congruence|]. split.
    - intros x Hx0 HP. rewrite (C1 x Hx0 HP), (C0 x Hx0 HP). reflexivity.
    - exact F.
  Qed.
End Prog.

(* the code of the hypothesis Hprocs is the lowered procedure of the model cproc_lowered (which tools/c01.py, after
   the executable peephole pass, compares with xcmp -S): exit label 0, body labels from 1, nslots = size *)
Lemma cproc_lowered_simple pinfo gaddr aaddr pool p size og code :
  cproc_lowered pinfo gaddr aaddr pool p size og = Some code ->
  exists bc n', cs pinfo (frame_venv gaddr p size) pool size size (frame_aenv aaddr p size) (first_temp p) og 0 (body p) 1 = Some (bc, n') /\
                code = pro size ++ bc ++ epi_of (is_func p) 0 size.
Proof.
  intros H. unfold cproc_lowered in H.
  destruct (cs pinfo (frame_venv gaddr p size) pool size size (frame_aenv aaddr p size) (first_temp p) og 0 (body p) 1) as [[bc n']|]; [|discriminate].
  cbn [obind] in H. inversion H; subst code. exists bc, n'. split; [reflexivity|].
  unfold prologue, epilogue, pro, pro5, epi_of, epi, epif, epi7, epif8. destruct (0 <? size); destruct (is_func p); reflexivity.
Qed.

(* the hypotheses of Section Prog, as one proposition *)
Definition prog_hyps (ge : genv) (gaddr aaddr : string -> option Z) (abase alen_of : string -> Z) (pool : Z -> option Z)
    (P : Z -> Prop) (m0 : WMap.t) (lab : label -> Z) (pinfo : string -> option pframe) (stack_lo stack_hi maxframe : Z) : Prop :=
  (forall p pi, pinfo p = Some pi ->
     0 <= lab (pf_entry pi) /\
     exists pr fn ln L bc n' endp,
       find_proc p (g_procs ge) = Some pr /\ pf_isfunc pi = is_func pr /\ simple_proc gaddr aaddr pr fn ln /\ numbers_ok maxframe pr L /\
       cs pinfo (frame_venv gaddr pr (pl_size L)) pool (pl_size L) (pl_nslots L) (frame_aenv aaddr pr (pl_size L)) (first_temp pr) (pl_og L) (pl_exit L)
          (body pr) (pl_n0 L) = Some (bc, n') /\
       code_at (C P m0) lab (lab (pf_entry pi)) (pro (pl_size L) ++ bc ++ epi_of (is_func pr) (pl_exit L) (pl_size L)) endp /\ endp < W) /\
  (forall x a, gaddr x = Some a -> in_mem a = true /\ ~ P a /\ a <> 1 /\ a < stack_lo /\ assoc x (g_vals ge) = None) /\
  (forall x y a b, gaddr x = Some a -> gaddr y = Some b -> x <> y -> a <> b) /\
  (1 < stack_lo /\ (forall a, stack_lo <= a < MEMW -> ~ P a)) /\
  ~ P 1 /\
  (forall v a, pool v = Some a -> P a /\ in_mem a = true /\ rd m0 a = v mod W) /\
  (forall p pi, pinfo p = Some pi -> assoc p (g_vals ge) = None) /\
  0 <= maxframe /\
  stack_hi <= MEMW /\
  (forall a w, aaddr a = Some w ->
     in_mem w = true /\ ~ P w /\ w <> 1 /\ w < stack_lo /\ (forall x g, gaddr x = Some g -> g <> w) /\
     forall i, 0 <= i < alen_of a -> stack_hi <= abase a + i < MEMW /\ ~ P (abase a + i)) /\
  (forall a w a' w' i i', aaddr a = Some w -> aaddr a' = Some w' -> 0 <= i < alen_of a -> 0 <= i' < alen_of a' ->
     abase a + i = abase a' + i' -> a = a' /\ i = i').

Lemma stmt_calls_of_hyps ge gaddr aaddr abase alen_of pool P m0 lab pinfo stack_lo stack_hi maxframe :
  prog_hyps ge gaddr aaddr abase alen_of pool P m0 lab pinfo stack_lo stack_hi maxframe ->
  forall f, Stmt_ok ge gaddr aaddr abase alen_of pool P m0 lab pinfo stack_lo stack_hi maxframe f.
Proof.
  intros (H1 & H2 & H3 & H4 & H5 & H6 & H7 & H8 & H9 & H10 & H11).
  exact (stmt_calls_closed ge gaddr aaddr abase alen_of pool P m0 lab pinfo stack_lo stack_hi maxframe H1 H2 H3 H4 H5 H6 H7 H8 H9 H10 H11).
Qed.
