(* Properties_C11.v -- compilation and assembly are deterministic functions of the source.
   What a theorem can say: the models are Gallina functions of the source bytes (so equal sources give equal
   results: trivial, stated for completeness), and their outcome types have no constructor for an indeterminate
   value while the models are total -- i.e. on no path does the model read a member before it is set, which is the
   only way a C++ program without threads, clocks or address-keyed containers becomes non-deterministic.
   For the assembler this covers lexer, parser, label resolution, emission and the listing (AsmModel.v, AsmLayout.v);
   for the compiler only lexer and parser (XFront.v).  Independence from heap contents, environment and address-space
   layout of the REAL tools is correspondence only (tools/c11.py), not a theorem. *)
From Coq Require Import ZArith List String Bool.
From HexVerif Require AsmModel AsmLayout AsmFrontProofs XFront XFrontProofs XFrontDetProofs.
Import ListNotations.
Local Open Scope Z_scope.

Theorem C11_asm_function :
  forall s1 s2 : list Z, s1 = s2 -> AsmLayout.assemble s1 = AsmLayout.assemble s2.
Proof. exact XFrontDetProofs.asm_function. Qed.
Print Assumptions C11_asm_function.

Theorem C11_asm_no_indeterminate :
  forall src : list Z,
    match AsmLayout.assemble src with
    | AsmModel.Ok _ | AsmModel.Reject _ => True
    | AsmModel.UB _ | AsmModel.OutOfFuel => False
    end.
Proof. exact XFrontDetProofs.asm_no_indeterminate. Qed.
Print Assumptions C11_asm_no_indeterminate.

Theorem C11_front_function_partial :
  forall s1 s2 : list Z, s1 = s2 -> XFront.front s1 = XFront.front s2.
Proof. exact XFrontDetProofs.front_function. Qed.
Print Assumptions C11_front_function_partial.

(* What this theorem is: a TOTALITY / FUEL theorem.  XFront.v never produces its `UB` constructor (the UB verdict is
   unreachable in the model by construction), so the `UB _ => False` arm holds trivially; the content is `OutOfFuel`
   never happens, hence the outcome is a function of the source bytes alone.
   TRUSTED BASE, not proved: the real lexer calls std::isspace / isalpha / isdigit / isalnum on a plain `char`
   (xcmp.hpp ~269, 322, 342, 346); for bytes 0x80..0xFE that is undefined in ISO C and is modelled with glibc's
   behaviour (C locale tables indexed from -128: neither space, alpha nor digit).  A C library that indexes out of
   bounds there could make the real lexer's result depend on memory contents; that possibility is outside the model. *)
Theorem C11_front_no_indeterminate_partial :
  forall src : list Z,
    match XFront.front src with
    | XFront.Ok _ | XFront.Reject _ => True
    | XFront.UB _ | XFront.OutOfFuel => False
    end.
Proof. exact XFrontDetProofs.front_no_indeterminate. Qed.
Print Assumptions C11_front_no_indeterminate_partial.

(* the full statement for the compiler, for a model of the whole of Driver::run (not written yet) *)
Definition C11_full (compile : list Z -> XFront.outcome (list Z)) : Prop :=
  forall src, match compile src with XFront.Ok _ | XFront.Reject _ => True | XFront.UB _ | XFront.OutOfFuel => False end.
