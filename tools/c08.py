#!/usr/bin/env python3
"""C08 -- generated code stays inside its memory regions and balances the stack.

oracle: the binary the REAL xcmp emits runs on the extracted Isa.step under the extracted monitor
IsaMon.state_ok / IsaMon.acc_ok (proved sound in coq/IsaMon.v: monitor_sound, and complete w.r.t. what a
step touches: step_accesses_complete): every fetch/load/store word address < 200000; fetches only from code
words, stores only into the image's DATA words or into free memory above the image (hence no store ever
hits a fetched word); mem[1] never above its load-time value and equal to it whenever control reaches the
return address of main.  System-call argument accesses count as accesses of the SVC instruction.
Regions: DATA words and the address of _exit are read off the assembly listing `xcmp -S` of the same source.
Programs: those of C01 (shared generator, decided well-defined by the extracted XSem) plus recursion up to
the stack budget and arrays filling the top of memory (MEMW - image - stack - {0,1,2,3} words), and recursion to the
stack budget through a body that is a sequence of array-element assignments, sized from the frame accounting."""
import os, sys, json, multiprocessing
sys.path.insert(0, os.path.dirname(os.path.abspath(__file__)))
import vlib, xcommon, xgen, xparse, c01
from vlib import Check

PID = 'C08'
MEMW = 200000
HDR = 'val exit = 0; val put = 1; val get = 2;\n'


def measure(src, steps=400000, depth=1990, maxisa=30000000):
    """compile and run one source under the monitor; -> (result dict of evaluate, image words, sp0)"""
    prog = xparse.parse(src.encode('latin-1'))
    import tempfile, shutil
    d = tempfile.mkdtemp(dir=c01._SCR)
    try:
        r = xcommon.evaluate(c01._T, d, prog, [[]], steps=steps, depth=depth, maxisa=maxisa, want_monitor=True, want_hexsim=False,
                             xtext=src.encode('latin-1'))
        nwords = sp0 = None
        binf = os.path.join(d, 'a.out')
        if os.path.exists(binf):
            b = open(binf, 'rb').read()
            nwords = int.from_bytes(b[0:4], 'little')
            sp0 = int.from_bytes(b[8:12], 'little')
        return r, nwords, sp0
    finally:
        shutil.rmtree(d, ignore_errors=True)


def array_fill_source(n, variant):
    """a program whose arrays total n words (two arrays in variant 1), touching first and last elements,
    with calls two levels deep"""
    if variant == 0:
        decl = 'array big[%d];\n' % n
        body = 'big[0] := 65; big[%d] := 1; put(big[0] + big[%d], 0); leaf(big, %d)' % (n - 1, n - 1, n - 1)
    else:
        m = 7
        decl = 'array small[%d];\narray big[%d];\n' % (m, n - m)
        body = 'small[0] := 2; small[%d] := 64; big[0] := small[0]; big[%d] := 1; put(small[%d] + big[0], 0); leaf(big, %d)' % (m - 1, n - m - 1, m - 1, n - m - 1)
    return (HDR + decl +
            'func inc(val x) is return x + 1\n'
            'proc leaf(array a, val i) is var t; { t := inc(a[i]); a[i] := inc(t) + (t - (t - 1)); put(a[i] + 60, 0) }\n'
            'proc main() is { %s }\n' % body)


def deep_source(depth, nlocals):
    locs = ''.join('var l%d; ' % i for i in range(nlocals))
    use = 'l0 := n; ' + ('l%d := l0 + 1; ' % (nlocals - 1) if nlocals > 1 else '')
    ret = 'l0 + (l%d - l0)' % (nlocals - 1) if nlocals > 1 else 'l0'
    return (HDR + 'var g;\n'
            'func deep(val n) is %s{ %sif n = 0 then return 0 else skip; g := g + 1; return deep(n - 1) + ((%s) - n) }\n' % (locs, use, ret) +
            'proc main() is { g := 0; put(65 + deep(%d), 0); exit(g - %d) }\n' % (depth, depth))


def walk_source(depth, k, pad):
    """a recursive procedure whose body is a sequence of k array-element assignments and the recursive call, below arrays
    that fill the top of memory.  Its frame: no locals, one temporary (the element address of an assignment, free again
    after each), two outgoing words (link, one actual) = 3 words per activation"""
    body = '; '.join('mark[%d] := n + %d' % (i, i) for i in range(k))
    return (HDR + 'array pad[%d];\narray mark[%d];\n' % (pad, k) +
            'proc walk(val n) is if n = 0 then skip else { %s; walk(n - 1) }\n' % body +
            'proc main() is { pad[0] := 0; pad[%d] := 1; walk(%d); put(mark[%d] + 48, 0); exit(pad[%d]) }\n' % (pad - 1, depth, k - 1, pad - 1))


WALK_FRAME = 3        # words per activation of walk by the frame accounting locals + temporaries + outgoing words


def special_jobs(ck):
    """(name, source) of boundary programs, computed from measured stack use of the real binary"""
    out = []
    notes = {}
    # arrays filling the top of memory
    for variant in (0, 1):
        r, nwords, sp0 = measure(array_fill_source(1000, variant))
        if not r['isa'] or r['isa'][0]['end'] != 'exit':
            notes['array-fill-%d' % variant] = 'reference run did not exit: %s' % (r['findings'][:1],)
            # still submit the small program so that the failure is judged
            out.append(('special/array-fill-v%d-ref' % variant, array_fill_source(1000, variant)))
            continue
        used = sp0 - r['isa'][0]['minsp']            # stack words the program needs below the initial sp
        reserve = MEMW - 1000 - sp0                  # words the compiler keeps between sp0 and the arrays
        for k in (0, 1, 2, 3):
            n = 1000
            for _ in range(6):                       # the image length depends (weakly) on the constants
                n2 = MEMW - reserve - used - nwords - k
                if n2 == n:
                    break
                n = n2
                r2, nwords, sp0b = measure(array_fill_source(n, variant), maxisa=10000)
                if nwords is None:
                    break
            out.append(('special/array-fill-v%d-slack%d' % (variant, k), array_fill_source(n, variant)))
        notes['array-fill-%d' % variant] = {'stack_words': used, 'reserve': reserve, 'image_words': nwords, 'largest_total': n + 3}
    # arrays that do NOT fit: the image, the cells and the reserved words exceed the memory.  The X definition knows no
    # memory size, so these are well-defined programs; a compiler for this machine must reject them (a binary whose arrays
    # overlap its own code violates C08 and C01).  Sizes just above the largest fitting size and far above it.
    for variant in (0, 1):
        fit = notes.get('array-fill-%d' % variant)
        if isinstance(fit, dict) and fit.get('largest_total'):
            n0 = fit['largest_total'] - 3
            for over in (fit['stack_words'] + 1 + 3, 2000, MEMW - n0 - 12):
                out.append(('special/array-too-large-v%d-over%d' % (variant, over), array_fill_source(n0 + over, variant)))
    out.append(('special/array-larger-than-memory', 'val exit = 0; val put = 1;\narray a[199990];\nproc main() is { a[0] := 65; a[1] := 66; put(a[0], 0); put(a[1], 0); exit(a[1] - a[0]) }\n'))
    out.append(('special/two-arrays-larger-than-memory', 'val exit = 0;\narray a[120000]; array b[80010];\nproc main() is { a[0] := 1; b[0] := 2; exit(a[0] + b[0]) }\n'))
    # recursion up to the stack budget (frames made large by locals so that the depth stays below XSem's bound)
    for nlocals in (150, 1):
        ra, nw, sp0 = measure(deep_source(10, nlocals))
        rb, nw, sp0 = measure(deep_source(11, nlocals))
        if not (ra['isa'] and rb['isa'] and ra['isa'][0]['end'] == 'exit' and rb['isa'][0]['end'] == 'exit'):
            out.append(('special/deep-l%d-ref' % nlocals, deep_source(10, nlocals)))
            continue
        per = ra['isa'][0]['minsp'] - rb['isa'][0]['minsp']
        base = sp0 - ra['isa'][0]['minsp'] - 10 * per
        budget = sp0 - nw - base
        dmax = budget // per
        if dmax > 1900:
            dmax = 1900                               # XSem.run's depth bound; smaller frames cannot reach the budget within it
        for dd in (dmax, dmax - 1):
            out.append(('special/deep-l%d-depth%d' % (nlocals, dd), deep_source(dd, nlocals)))
        notes['deep-%d' % nlocals] = {'words_per_level': per, 'base': base, 'depth': dmax, 'free_words': budget}
    # recursion to the stack budget with a sequence of array-element assignments in the body, the arrays filling the top of
    # memory; the depth is chosen from the frame size the frame accounting warrants (WALK_FRAME), NOT from the frame the
    # compiler under test happens to allocate: activations that are larger than that run the stack into the image
    for k, depth in ((4, 1900), (7, 1500), (10, 1200)):
        r0, nw, sp0 = measure(walk_source(10, k, 1000))
        if not (r0['isa'] and r0['isa'][0]['end'] == 'exit'):
            out.append(('special/walk-k%d-ref' % k, walk_source(10, k, 1000)))
            continue
        base = sp0 - r0['isa'][0]['minsp'] - 10 * WALK_FRAME          # main's frame and the last activation
        if base < 0 or base > 64:
            base = 8
        need = WALK_FRAME * depth + base
        for slack in (0, 2):
            pad = 1000
            for _ in range(4):                                        # the image length depends (weakly) on the constants
                pad2 = MEMW - 3 - k - nw - need - slack
                if pad2 == pad:
                    break
                pad = pad2
                r1, nw1, sp1 = measure(walk_source(depth, k, pad), maxisa=2000)
                if nw1 is None:
                    break
                nw = nw1
            out.append(('special/walk-k%d-depth%d-slack%d' % (k, depth, slack), walk_source(depth, k, pad)))
        notes['walk-%d' % k] = {'words_per_level_by_frame_accounting': WALK_FRAME, 'base': base, 'depth': depth, 'pad_words': pad, 'image_words': nw}
    ck.cov['boundary_programs'] = notes
    return [('src', n, s.encode('latin-1'), [[]], 400000, 1990) for n, s in out]


def main():
    ck = Check(PID, level='translation_validation')
    ck.cov['trusted_base'] = ['Coq 8.16.1 kernel', 'Isa.v (spec) and IsaMon.v (access lists + monitor, proved complete and sound against Isa.step)',
                              'XSem.v (spec) only to decide which programs are well-defined', 'ExtrOcamlBasic extraction + ocaml/xdrv.ml (run loop calling IsaMon.state_ok / acc_ok each step)',
                              'region boundaries taken from the listing `xcmp -S` (DATA directives, label _exit) of the same source']
    ck.assumptions = ['machine capacity: the X definition (XSem) knows no memory size; a program whose image, global arrays and reserved words exceed the 200000-word memory is rejected by the (repaired, 2d62c7c) compiler and counted, after an independent check that it really does not fit (coverage.rejected_because_program_and_arrays_exceed_the_memory); a run whose STACK outgrows the free memory is outside the quantifier (C01: bounded stack depth; C08: recursion up to the stack budget) -- the boundary programs choose their depth from the frame accounting, and C01_program_partial carries the static bound nwords + 2000*maxframe <= sp0 in model_compile\'s validation; C01_full / C08_full as Definitions do not state a capacity hypothesis and are false of any compiler for a finite machine without it',
                     'well-defined = extracted XSem says Behaviour; others are counted and dropped',
                      'code words = image words that are not DATA directives; free memory = words from the end of the image to 199999',
                      'boundary programs are sized from the measured stack use of the real binary (lowest mem[1] reached on the ISA)',
                      'proved part (Properties_C08.v): the monitor is complete and sound for ALL runs; and, for the statement fragment (get included: the byte read goes to the outgoing word sp+1) '
                      '(C08_frame_discipline_partial), the code of the model leaves mem[1] and all protected words unchanged and changes memory only in the '
                      "procedure's temporaries, its outgoing area, the free stack below its frame and the words of variables in scope, between statement boundaries; "
                      'and across a call of a procedure or function with value and array formals and var locals that hide no global (C08_call_discipline_partial) control returns to the '
                      'link address with mem[1] restored (prologue/epilogue balance, nested and recursive calls included), protected words unchanged, the '
                      "caller's locals, formals and everything above its frame untouched, the stack never below the budget XSem's depth bound implies; "
                      'global arrays are covered: their cells (above the stack) count as words of variables in scope, everything else above the caller\'s frame stays untouched; '
                      'array formals are covered (the actual is the address of the cells; elements assigned through an array formal are cells of a global array); '
                      'NOT proved: the per-access clauses for every program (decided here per run by the proved monitor), calls inside operands, proc/func formals and local arrays']
    if os.path.exists(os.path.join(vlib.COQ, 'Properties_%s.v' % PID)):
        ok = ck.proofs()
        ck.log('proofs', 'ok' if ok else 'BROKEN')
    else:
        ck.broken.append('Properties_%s.v is missing' % PID)
    tools = xcommon.Tools()
    if tools.err:
        ck.broken.append(tools.err)
        ck.finish()
    scr = vlib.scratch()
    opts = {'monitor': True, 'hexsim': False}
    c01._init(tools, scr, opts)
    c01.MAXISA = 30000000
    if ck.replay_arg:
        results = c01.replay(ck, tools, scr, ck.replay_arg, True)
        pool = multiprocessing.Pool(2, c01._init, (tools, scr, opts))
    else:
        pool = multiprocessing.Pool(min(16, vlib.NCPU), c01._init, (tools, scr, opts))
        n = 1500 if not ck.thorough() else 40000
        base = ck.rng.randrange(1 << 30)
        jobs = c01.corpus_jobs(PID) + c01.directed_jobs() + special_jobs(ck) + c01.shipped_jobs() + [('gen', base + i) for i in range(n)]
        results = pool.map(c01.job, jobs, chunksize=4)
    # the C08 oracle is the monitor; a run that leaves the ISA's defined behaviour on a bad address is a C08 failure as well
    c01.summarise(ck, results, pool, kinds=('monitor', 'isa-stuck-badaddr', 'no-listing'))
    nmon = sum(1 for r in results for x in (r['isa'] or []) if x.get('mon') == 'ok')
    ck.cov['runs_accepted_by_monitor_sampled'] = nmon
    pool.close()
    ck.finish()


if __name__ == '__main__':
    main()
