#!/usr/bin/env python3
"""C09 -- xcmp accepts or cleanly rejects every input.
proof:  Properties_C09.v: the model of xcmp's Lexer and Parser (XFront.v) is total: for every byte string it returns a
        syntax tree or a located diagnostic, never UB / OutOfFuel (C09_total_partial).  The passes after the parser
        (CreateSymbols, ConstProp, OptimiseExpr, CodeGen, LowerDirectives, OptimiseDirectives) are NOT modelled; the
        assembly pass is covered by C10_total.  C09_full is stated, not proved.
tie:    the extracted front-end model vs the real Lexer/Parser compiled from the working tree with ASan+UBSan: the
        printed tree (AstPrinter format, every node with its location) on accepted inputs, diagnostic text + location
        on rejected ones, on every input of the run.
oracle: the real compiler (sanitizer harness doing exactly what xcmp.cpp/runCatchExceptions do, AND the built xcmp
        executable, AND the executable under valgrind memcheck on a sample) terminates within the time limit through
        accept (binary written, exit 0, nothing on stderr) or diagnostic (text on stderr, exit status != 0, no output
        file), with the sanitizers and memcheck silent."""
import os, sys, glob, json, time
sys.path.insert(0, os.path.dirname(os.path.abspath(__file__)))
import vlib, xfrontcommon as X
from vlib import Check

QUICK = {'random': 4000, 'mutation': 6000, 'odd': 6000, 'exe': 3400, 'valgrind': 48, 'chunk': 9000}
THOROUGH = {'random': 60000, 'mutation': 90000, 'odd': 90000, 'exe': 24000, 'valgrind': 2000, 'chunk': 24000}


def fixed_cases():
    cases = []
    for f in sorted(glob.glob(os.path.join(vlib.ROOT, 'corpus', 'C09', '*'))):
        if os.path.isfile(f):
            cases.append({'src': open(f, 'rb').read(), 'tag': 'corpus', 'name': os.path.basename(f)})
    for t, s in X.directed_odd():
        cases.append({'src': s, 'tag': 'directed', 'name': t})
    for t, s in X.misuse_matrix():
        cases.append({'src': s, 'tag': 'misuse', 'name': t})
    for u in X.UNTERMINATED:
        cases.append({'src': u, 'tag': 'unterminated', 'name': 'unterminated'})
    for k in X.NEST_KINDS:
        for n in (1, 40, 500, 2000):
            cases.append({'src': X.nested(k, n), 'tag': 'nested', 'name': '%s-%d' % (k, n)})
    for n, s in X.shipped_x():
        cases.append({'src': s, 'tag': 'shipped', 'name': n})
    return cases


def generated_cases(rng, n_random, n_mut, n_odd, bases):
    out = []
    for _ in range(n_random):
        out.append({'src': X.random_bytes(rng), 'tag': 'random', 'name': ''})
    for _ in range(n_mut):
        nm, s = rng.choice(bases)
        out.append({'src': X.mutate(rng, X.trim_program(rng, s)).encode('latin1'), 'tag': 'mutation', 'name': nm})
    for _ in range(n_odd):
        g = X.Odd(rng)
        out.append({'src': g.program().encode('latin1'), 'tag': 'odd', 'name': ''})
    return out


class Judge:
    """applies the oracle to harness results, groups failures by (kind, where)"""

    def __init__(self, ck):
        self.ck = ck
        self.groups = {}        # (kind, where) -> dict(count, src (shortest), detail)
        self.dist = {}
        self.outcomes = {'accept': 0, 'reject-located': 0, 'reject-noloc': 0, 'reject-std': 0, 'crash': 0, 'hang': 0}
        self.distinct = set()
        self.tie_diffs = 0
        self.tie_compared = 0
        self.tie_example = None
        self.model_bad = 0
        self.parser_driver_diffs = 0
        self.msgs = {}

    def fail(self, kind, where, src, detail, via):
        g = self.groups.setdefault((kind, where), {'count': 0, 'src': src, 'detail': detail, 'via': via})
        g['count'] += 1
        if len(src) < len(g['src']):
            g['src'], g['detail'], g['via'] = src, detail, via

    def harness_case(self, c, r, m):
        ck = self.ck
        ck.cov['evaluations'] += 1
        self.distinct.add(hash(c['src']))
        p = X.parse_real(r['lines'])
        if r['status'] != 'ok':
            cls = r['status']
            self.outcomes[cls] += 1
            self.fail(r.get('kind', cls), r.get('where', cls), c['src'], r.get('detail', ''), 'sanitizer harness')
        else:
            cls = p['cls']
            if cls == 'accept':
                self.outcomes['accept'] += 1
                if p['rc'] != 0 or p['file'] is None or p['diag']:
                    self.fail('exit-path', 'accept without binary / with diagnostic', c['src'], '\n'.join(r['lines'][:6]), 'sanitizer harness')
            elif cls in ('reject', 'reject-std'):
                located = p['head'].startswith('line ')
                self.outcomes['reject-std' if cls == 'reject-std' else ('reject-located' if located else 'reject-noloc')] += 1
                msg = X.re.sub(r'\d+', 'N', p['head'].split(': ', 1)[-1])[:40]
                self.msgs[msg] = self.msgs.get(msg, 0) + 1
                if p['file'] is not None:
                    self.fail('file-after-diagnostic', 'output file exists after a diagnostic', c['src'], p['head'], 'sanitizer harness')
                if p['rc'] == 0 or not p['diag']:
                    self.fail('exit-path', 'diagnostic with status 0 / empty text', c['src'], p['head'], 'sanitizer harness')
            else:
                self.fail('exit-path', 'no verdict line', c['src'], '\n'.join(r['lines'][:6]), 'sanitizer harness')
            # the parser alone and the driver must agree on a syntax error
            if p['tree_cls'] == 'reject' and not (cls == 'reject' and p['head'] == p['tree_head']):
                self.parser_driver_diffs += 1
        key = c['tag'] + '/' + (cls or '?')
        self.dist[key] = self.dist.get(key, 0) + 1
        c['cls'] = cls
        c['real'] = p
        # ---- tie: the front-end model against the real parser
        if m is None:
            self.model_bad += 1
        elif m and (m[0].startswith('UB') or m[0].startswith('OUTOFFUEL')):
            ck.violation('the front-end model reaches %s on this source although C09_total_partial is proved (model/extraction fault)' % m[0],
                         {'source_hex': c['src'].hex()}, tags={'kind': 'model-ub'})
        elif p['tree_cls'] in ('ok', 'reject'):
            real = ['TREE-OK'] + ['T ' + x for x in p['tree']] if p['tree_cls'] == 'ok' else ['TREE-REJECT ' + p['tree_head']]
            self.tie_compared += 1
            if m != real:
                self.tie_diffs += 1
                if self.tie_example is None or len(c['src']) < len(self.tie_example[0]):
                    first = next(((a, b) for a, b in zip(m, real) if a != b), (m[-1:], real[-1:]))
                    self.tie_example = (c['src'], first)
        elif p['tree_cls'] == 'reject-std':
            self.tie_diffs += 1
            self.tie_example = self.tie_example or (c['src'], ('(model)', 'TREE-REJECT-STD ' + p['tree_head']))
        return cls


def pick_sample(cases, n, rng, prefer=()):
    """a sample of n cases: all of the preferred tags first, then evenly over (tag, class)"""
    pref = [c for c in cases if c['tag'] in prefer]
    rest = [c for c in cases if c['tag'] not in prefer]
    by = {}
    for c in rest:
        by.setdefault((c['tag'], c.get('cls')), []).append(c)
    out = pref[:n]
    keys = sorted(by, key=str)
    i = 0
    while len(out) < n and any(by[k] for k in keys):
        k = keys[i % len(keys)]
        if by[k]:
            out.append(by[k].pop(rng.randrange(len(by[k]))))
        i += 1
    return out[:n]


def main():
    ck = Check('C09', level='exploration')   # proof covers the front-end model only (see level_claimed in MANIFEST.json)
    P = THOROUGH if ck.thorough() else QUICK
    ck.cov['trusted_base'] = ['Coq 8.16.1 kernel + VM', 'XFront.v: hand model of xcmp.hpp Lexer/Parser, tied by correspondence (tree with locations, diagnostics)',
                              'glibc ctype semantics for bytes >= 0x80 as modelled (C locale: not space/alpha/digit); isalpha on a negative char is UB in ISO C',
                              'extraction + ocaml/xfrontdrv.ml', 'harness/xcmp_harness.cpp under ASan+UBSan (g++ 12, -O1); the built xcmp executable; valgrind memcheck']
    ck.assumptions = ['TRUSTED, NOT PROVED: the real lexer calls std::isspace/isalpha/isdigit/isalnum on a plain (signed) char (xcmp.hpp ~269, 322, 342, 346); for source bytes '
                      '0x80..0xFE that is undefined behaviour in ISO C; the model XFront.v gives these calls glibc\'s behaviour (C-locale tables indexed from -128: neither space, '
                      'alpha nor digit).  The model has no branch that produces its UB verdict (UB is unreachable in XFront.v by construction), so C09_total_partial is a '
                      'totality/fuel theorem: every source ends in a tree or a diagnostic without running out of fuel',
                      'PROVED: front end only (lexer + parser total, no UB, no fuel exhaustion).  NOT MODELLED: CreateSymbols, ConstProp, OptimiseExpr, CodeGen, '
                      'LowerDirectives, OptimiseDirectives -- for these passes this check is exploration with the real code under ASan/UBSan/valgrind; '
                      'assembly pass: C10_total',
                      'inputs up to a few kilobytes (plus the shipped 100 KB xhexb.x); nesting depth <= 2000; deeper nesting is probed and reported, not judged '
                      '(stack exhaustion cannot be exhibited by a Gallina model)',
                      'LeakSanitizer off: leaks are not in the property; a diagnostic without position (assembler stage: "unknown label") is counted, not judged',
                      'the sanitizer harness runs with an unlimited stack (its instrumented frames are several times the real ones: it overflows 8 MB at 4000 nested '
                      'parentheses where the real xcmp needs > 16000); stack exhaustion is judged on the real executable under the default 8 MB stack']
    ok = ck.proofs()
    ck.log('proofs', 'ok' if ok else 'BROKEN')
    rng = ck.rng
    har, log = X.build_harness(True)
    if har is None:
        ck.broken.append('xcmp_harness does not build against the working tree: ' + log[-800:])
        ck.finish()
    xcmp, log = vlib.repo_tool('xcmp')
    if xcmp is None:
        ck.broken.append('xcmp does not build: ' + log[-400:])
        ck.finish()
    hv, log = vlib.ocaml_build()
    if hv is None:
        ck.broken.append('extraction/OCaml build failed: ' + log[-400:])
    ck.log('built harness, xcmp, hvmain')
    d = vlib.scratch()
    J = Judge(ck)

    if ck.replay_arg:
        r = json.load(open(ck.replay_arg))
        fixed = [{'src': bytes.fromhex(r['source_hex']), 'tag': 'replay', 'name': 'replay'}]
        gens = []
    else:
        fixed = fixed_cases()
        shipped = [(n, s.decode('latin1')) for n, s in X.shipped_x()]
        gen = [(n, s.decode('latin1')) for n, s in X.generated_programs(rng, 200 if not ck.thorough() else 3000)]
        ck.cov['mutation_bases'] = {'shipped': len(shipped), 'generated_by_xgen': len(gen)}
        gens = [{'src': s.encode('latin1'), 'tag': 'xgen', 'name': n} for n, s in gen] + generated_cases(rng, P['random'], P['mutation'], P['odd'], shipped + gen)
    allcases = fixed + gens
    kept = []            # cases kept for the executable / valgrind samples (bounded)
    nchunk = 0
    for start in range(0, len(allcases), P['chunk']):
        chunk = allcases[start:start + P['chunk']]
        wd = os.path.join(d, 'c%d' % nchunk)
        os.makedirs(wd)
        nchunk += 1
        srcs = [c['src'] for c in chunk]
        real = X.run_real(har, srcs, wd, tree=True)
        if hv is not None:
            model, bad = X.run_model(hv, srcs, wd)
            if bad:
                ck.broken.append('extracted front-end model failed rc=%s %s' % bad)
        else:
            model = [None] * len(chunk)
        for c, r, m in zip(chunk, real, model):
            J.harness_case(c, r, m)
            c.pop('real', None)
        keep_n = max(2000, 3 * P['exe'] // max(1, (len(allcases) + P['chunk'] - 1) // P['chunk']))
        kept += [c for c in chunk if c['tag'] in ('corpus', 'directed', 'misuse', 'unterminated', 'replay', 'nested', 'shipped')]
        others = [c for c in chunk if c['tag'] in ('random', 'mutation', 'odd')]
        rng.shuffle(others)
        kept += others[:keep_n]
        import shutil
        shutil.rmtree(wd, ignore_errors=True)
        ck.log('chunk %d: %d cases, groups so far %d, tie differences %d' % (nchunk, len(chunk), len(J.groups), J.tie_diffs))

    # ---- executable level
    kept = [c for c in kept if c.get('cls') != 'hang']       # a hang is already reported; do not wait for it twice more
    exe_sample = pick_sample(kept, P['exe'], rng, prefer=('corpus', 'directed', 'misuse', 'unterminated', 'replay', 'nested'))
    wd = os.path.join(d, 'exe')
    os.makedirs(wd)
    er = X.run_exe(xcmp, [c['src'] for c in exe_sample], wd, timeout=60)
    exe_dist = {'accept': 0, 'reject': 0, 'crash': 0, 'hang': 0}
    verdict_differs = 0
    for c, r in zip(exe_sample, er):
        ck.cov['evaluations'] += 1
        rc = r['rc']
        if rc == 124:
            exe_dist['hang'] += 1
            J.fail('hang', 'executable: no result within 60 s', c['src'], '', 'xcmp executable')
        elif rc < 0 or rc >= 126:
            exe_dist['crash'] += 1
            J.fail('crash', 'executable: %s' % ('signal %d' % -rc if rc < 0 else 'exit status %d' % rc), c['src'], r['err'][-600:], 'xcmp executable')
        elif rc == 0:
            exe_dist['accept'] += 1
            if r['file'] is None or r['err'].strip():
                J.fail('exit-path', 'executable: exit 0 without binary / with text on stderr', c['src'], r['err'][-300:], 'xcmp executable')
            if r['stray']:
                J.fail('exit-path', 'executable: stray file ' + r['stray'][0], c['src'], '', 'xcmp executable')
        else:
            exe_dist['reject'] += 1
            if not r['err'].startswith('Error'):
                J.fail('exit-path', 'executable: exit status %d without diagnostic' % rc, c['src'], r['err'][-300:], 'xcmp executable')
            if r['file'] is not None or r['stray']:
                J.fail('file-after-diagnostic', 'executable: file written although a diagnostic was reported', c['src'], r['err'][-300:], 'xcmp executable')
        if c.get('cls') in ('accept', 'reject', 'reject-std') and rc in (0, 1) and (rc == 0) != (c['cls'] == 'accept'):
            verdict_differs += 1
    ck.log('executable runs %d: %s' % (len(exe_sample), exe_dist))

    # ---- valgrind memcheck (uninitialised-value use) on a sample of the non-sanitized executable
    vg_pool = [c for c in kept if c['tag'] not in ('nested', 'misuse') and len(c['src']) < 20000]
    vg_sample = pick_sample(vg_pool, P['valgrind'], rng, prefer=('corpus', 'replay'))
    if not ck.replay_arg:
        # the directed programs first: they are where reads of unset members are reachable
        dirs = [c for c in kept if c['tag'] == 'directed'][:max(10, P['valgrind'] // 2)]
        vg_sample = (dirs + [c for c in vg_sample if c['tag'] != 'directed'])[:P['valgrind']]
        # and the misuse matrix (every declaration kind in every role): all of it in thorough, its first frame shape in quick
        vg_sample += [c for c in kept if c['tag'] == 'misuse' and (ck.thorough() or c['name'].endswith('shape0'))]
    wd = os.path.join(d, 'vg')
    os.makedirs(wd)
    vr = X.run_exe(xcmp, [c['src'] for c in vg_sample], wd, valgrind=True, timeout=300)
    vg_dist = {'clean': 0, 'error': 0, 'other': 0}
    for c, r in zip(vg_sample, vr):
        ck.cov['evaluations'] += 1
        if r['rc'] == 9 or '== Conditional jump' in r['err'] or '== Use of uninit' in r['err'] or '== Invalid' in r['err']:
            vg_dist['error'] += 1
            J.fail('uninit' if 'ninitialised' in r['err'] else 'crash', X.valgrind_where(r['err']), c['src'], r['err'][:1500], 'valgrind memcheck')
        elif r['rc'] in (0, 1):
            vg_dist['clean'] += 1
        else:
            vg_dist['other'] += 1
            if r['rc'] == 124:
                J.fail('hang', 'valgrind: no result within 300 s', c['src'], '', 'valgrind memcheck')
    ck.log('valgrind runs %d: %s' % (len(vg_sample), vg_dist))

    # ---- depth probe: outside the property's quantifier; reported, never judged
    probe = {}
    if not ck.replay_arg:
        pk = [('paren', 20000), ('paren', 200000), ('begin', 20000), ('begin', 200000), ('plus', 20000), ('plus', 200000), ('comment', 200000)]
        wd = os.path.join(d, 'probe')
        os.makedirs(wd)
        pr = X.run_exe(xcmp, [X.nested(k, n) for k, n in pk], wd, timeout=120)
        for (k, n), r in zip(pk, pr):
            probe['%s-%d' % (k, n)] = 'accept' if r['rc'] == 0 else 'diagnostic' if r['rc'] == 1 else 'hang' if r['rc'] == 124 else 'signal %d' % -r['rc'] if r['rc'] < 0 else 'rc %d' % r['rc']
    ck.cov['depth_probe_not_judged'] = probe

    # ---- violations: one per (kind, where), minimised with the tool that exhibited it
    def still(kind, where, via):
        def f(src):
            wd2 = os.path.join(d, 'min')
            os.makedirs(wd2, exist_ok=True)
            if via == 'sanitizer harness':
                r = X.run_real(har, [src], wd2, nproc=1)[0]
                return r['status'] != 'ok' and (r.get('kind'), r.get('where')) == (kind, where)
            if via == 'valgrind memcheck':
                r = X.run_exe(xcmp, [src], wd2, valgrind=True, timeout=120, nproc=1)[0]
                return (r['rc'] == 9 or '== Conditional jump' in r['err']) and X.valgrind_where(r['err']) == where
            if via == 'xcmp executable':
                r = X.run_exe(xcmp, [src], wd2, timeout=60, nproc=1)[0]
                return (r['rc'] < 0 or r['rc'] >= 126) and r['rc'] != 124
            return False
        return f
    for (kind, where), g in sorted(J.groups.items()):
        src = g['src']
        if g['via'] in ('sanitizer harness', 'valgrind memcheck', 'xcmp executable') and kind in ('ub', 'crash', 'uninit', 'stack-overflow') and len(src) > 60:
            try:
                src = X.minimise(src, still(kind, where, g['via']), budget=50 if g['via'] == 'sanitizer harness' else (12 if not ck.thorough() else 40))
            except Exception:
                src = g['src']
        what = 'xcmp (%s): %s [%s] on %d input(s), e.g. %r' % (g['via'], where, kind, g['count'], src[:160].decode('latin1'))
        ck.violation(what, {'source_hex': src.hex(), 'source': src.decode('latin1')[:4000], 'kind': kind, 'where': where, 'via': g['via'],
                            'inputs_hit': g['count'], 'detail': g['detail'][-2500:], 'replay_cmd': './check C09 --replay <this file>'},
                     tags={'kind': kind, 'where': where})

    # ---- tie
    if J.tie_diffs:
        ex = J.tie_example
        ck.broken.append('correspondence front-end model vs real parser: %d of %d sources differ, e.g. model [%s] real [%s] on source (hex) %s'
                         % (J.tie_diffs, J.tie_compared, ex[1][0], ex[1][1], ex[0][:300].hex()))
    if J.parser_driver_diffs:
        ck.broken.append('%d sources: the parser alone reports a syntax error that Driver::run does not report identically' % J.parser_driver_diffs)
    if J.model_bad:
        ck.broken.append('the extracted model gave no answer on %d sources' % J.model_bad)

    ck.cov['distinct_nontrivial'] = len(J.distinct)
    ck.cov['rule'] = ('byte strings: corpus, directed odd programs (DESIGN C09 stream c), the misuse matrix (11 declaration kinds x 28 syntactic roles x 3 frame shapes), unterminated constructs, nesting depth 1..2000 of 14 constructs, shipped '
                      'tests/x, well-formed programs of tools/xgen.py, random bytes/token soup, token-level mutations of shipped and xgen-generated programs, grammar-valid programs with names of '
                      'the wrong kind; distinct by content; every input is non-trivial (must end in accept or diagnostic)')
    ck.cov['input_distribution'] = J.dist
    ck.cov['outcomes'] = J.outcomes
    ck.cov['diagnostics_seen'] = dict(sorted(J.msgs.items(), key=lambda kv: -kv[1])[:25])
    ck.cov['executable_runs'] = exe_dist
    ck.cov['executable_vs_harness_verdict_differs_not_judged'] = verdict_differs
    ck.cov['valgrind_runs'] = vg_dist
    ck.cov['tie'] = {'compared': J.tie_compared, 'differences': J.tie_diffs, 'what': 'AstPrinter text incl. every [loc=line l:c] on parsed inputs; diagnostic text + location on syntax errors'}
    ck.cov['failure_groups'] = [{'kind': k, 'where': w, 'inputs': g['count'], 'via': g['via']} for (k, w), g in sorted(J.groups.items())]
    ck.cov['proof_scope'] = 'C09_total_partial: lexer + parser only (front end); C09_full is stated, not proved'
    ck.cov['modelled_passes'] = ['Lexer', 'Parser']
    ck.cov['passes_covered_by_exploration_only'] = ['CreateSymbols', 'ConstProp', 'OptimiseExpr', 'CodeGen', 'LowerDirectives', 'OptimiseDirectives']
    import random as _r
    srng = _r.Random(ck.seed)
    for c in srng.sample(allcases, min(6, len(allcases))):
        ck.sample({'tag': c['tag'], 'source': c['src'][:120].decode('latin1'), 'outcome': c.get('cls')})
    ck.log('cases %d, failure groups %d, tie differences %d/%d' % (len(allcases), len(J.groups), J.tie_diffs, J.tie_compared))
    if ck.violations:
        for b in ck.broken:       # a broken proof/tie is never masked by violations found elsewhere
            ck.violation(b, {'broken': b}, no_input=True)
    ck.finish()


if __name__ == '__main__':
    main()
