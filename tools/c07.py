#!/usr/bin/env python3
"""C07 -- compile-time evaluation agrees with run-time evaluation.

Proved in Coq (coq/Properties_C07.v over the model coq/XConstProp.v, a function-for-function port of xcmp.hpp's
ConstProp / OptimiseExpr / genConst): folding and rewriting preserve the reference value of every expression
(C07_fold_agrees_partial, C07_fold_agrees_wrap_partial: the pure fragment of expressions only; the full statement
C07_fold_agrees_full is a Definition, not proved), every rewrite agrees for all 32-bit operands, the instruction genConst emits loads
v mod 2^32; and the refutation: an ordering operator folded at compile time follows the mathematical order while
the run-time code follows the sign of the wrapped difference.

On every run, against /repo's working tree:
  tie (a)   the extracted model prints the AST after ConstProp (`xcmp --tree`) and after OptimiseExpr
            (`xcmp --tree-opt`) in AstPrinter's shape; the REAL xcmp's dumps of the same generated programs must be
            equal line for line (the [loc=..] field removed);
  tie (a2)  genConst: immediate vs constant pool of the real `xcmp --insts` against XConstProp.gen_const;
  tie (a3)  the arithmetic the model assumes for folding + - unary minus (C `int`: overflow is undefined; or wrap
            through unsigned) against a -fsanitize=signed-integer-overflow build of the real xcmp: a report iff the
            model says UB;
  ORACLE    paired programs: the same expression tree once with literal / val leaves (every const/non-const leaf
            assignment) and once with every value in a variable assigned at run time, both compiled by the real xcmp,
            both run on the extracted Isa.step (all 32 bits of the exit value, outputs); they must behave identically.
            The extracted XSem says which of the two is right when the program is well defined.
A differing pair is a violation, minimised.  Class `cmp-diff-overflow` (an ordering operator whose operand difference
leaves the 32-bit range; the difference between the variants disappears when those nodes are cut out) is tagged so
that it can be listed as a known finding."""
import os, sys, json, glob, hashlib, shutil, tempfile, time, multiprocessing, itertools, re
sys.path.insert(0, os.path.dirname(os.path.abspath(__file__)))
import vlib, xcommon, xparse
import c07gen as G
from vlib import Check

PID = 'C07'
STEPS, DEPTH = 20000, 300
MAXISA = 200000
UBSAN_FLAGS = '-O1 -fsanitize=signed-integer-overflow'

_T = None
_SCR = None


def _init(tools, scr):
    global _T, _SCR
    _T, _SCR = tools, scr


def tup(x):
    if isinstance(x, list):
        return tuple(tup(y) for y in x)
    return x


def expected_diag(st):
    """the diagnostic text of xcmp.hpp's exception for a model error outcome 'err <Kind> <arg>'"""
    w = st.split(' ', 2)
    kind, arg = (w[1], w[2] if len(w) > 2 else '') if len(w) > 1 else ('', '')
    return {'UnknownSymbol': 'could not find symbol %s' % arg, 'InvalidSyscall': 'invalid syscall: %s' % arg,
            'NonConstVal': 'val %s is not constant' % arg, 'RedefinedProc': 'procedure %s is defined more than once' % arg}.get(kind)


def diag_mismatch(st, rc, err, flag):
    """model says an error: the real xcmp must fail with exactly that diagnostic"""
    text = err.decode('latin-1')
    exp = expected_diag(st)
    if rc == 0:
        return 'xcmp %s succeeds where the model says %s' % (flag, st)
    if rc < 0 or rc == 124:
        return 'xcmp %s dies (rc=%d) where the model says %s' % (flag, rc, st)
    if exp is None or exp not in text:
        return 'xcmp %s reports %r where the model says %s (expected %r)' % (flag, text.strip()[-160:], st, exp)
    return None


def strip_loc(text):
    return '\n'.join(re.sub(r' \[loc=[^\]]*\]', '', l).rstrip() for l in text.split('\n')).strip('\n')


# ---------------------------------------------------------------- one chunk of groups
def run_cmd(cmd, cwd, input=None, timeout=300):
    return xcommon._run(cmd, cwd, input, timeout)


def model_trees(hv, d, sxfiles):
    """-> {path: {'tree': (status, text), 'opt': (status, text)}}"""
    rc, out, err = run_cmd([hv, 'c07tree'], d, ('\n'.join(sxfiles) + '\n').encode())
    if rc != 0:
        return None, 'c07tree rc=%d %s' % (rc, err[-300:])
    res = {}
    cur = None
    sect = None
    for line in out.decode('latin-1').split('\n'):
        if line.startswith('BEGIN '):
            cur = {'tree': ['', []], 'opt': ['', []]}
            res[line[6:]] = cur
            sect = None
        elif line.startswith('TREE ') and sect is None and cur is not None:
            sect = 'tree'
            cur['tree'][0] = line[5:]
        elif line.startswith('OPT ') and sect == 'tree':
            sect = 'opt'
            cur['opt'][0] = line[4:]
        elif line == 'END' and sect == 'opt':
            sect = None
        elif sect is not None:
            cur[sect][1].append(line.rstrip())
    return {k: {s: (v[s][0], '\n'.join(v[s][1]).strip('\n')) for s in ('tree', 'opt')} for k, v in res.items()}, ''


def eval_programs(progs, want_tie=True, want_xsem=True, want_ubsan=True):
    """progs: list of program ASTs.  -> list of dicts per program:
       status (compile), isa (END line dict), spec, tie (None | what), ubsan (bool|None), model_ub (bool)"""
    d = tempfile.mkdtemp(dir=_SCR)
    try:
        res = []
        sx = []
        for i, p in enumerate(progs):
            xt = xcommon.to_x(p)
            try:
                rp = xparse.parse(xt)
                printer_ok = (xcommon.to_sx(rp) == xcommon.to_sx(p))
            except Exception as ex:
                printer_ok = False
            open(os.path.join(d, 'p%d.x' % i), 'wb').write(xt)
            open(os.path.join(d, 'p%d.sx' % i), 'w').write(xcommon.to_sx(p))
            sx.append(os.path.join(d, 'p%d.sx' % i))
            res.append({'x': xt.decode('latin-1'), 'printer_ok': printer_ok, 'status': None, 'isa': None, 'spec': None, 'tie': None,
                        'ubsan': None, 'model_ub': None, 'model_status': None})
        # real compiler
        for i, r in enumerate(res):
            binf = os.path.join(d, 'p%d.bin' % i)
            rc, out, err = run_cmd([_T.xcmp, 'p%d.x' % i, '-o', binf], d, timeout=60)
            if rc == 124:
                r['status'] = 'timeout'
            elif rc < 0:
                r['status'] = 'crash'
            elif rc != 0:
                r['status'] = 'diagnostic'
                r['detail'] = (out + err)[-200:].decode('latin-1')
            elif not os.path.exists(binf):
                r['status'] = 'nofile'
            else:
                r['status'] = 'ok'
        # spec machine on the real binaries
        runs = [i for i, r in enumerate(res) if r['status'] == 'ok']
        if runs:
            rc, out, err = run_cmd([_T.hv, 'c07run', str(MAXISA)], d, ('\n'.join('%s -' % os.path.join(d, 'p%d.bin' % i) for i in runs) + '\n').encode())
            lines = out.decode().strip().split('\n') if out.strip() else []
            if rc != 0 or len(lines) != len(runs):
                return None, 'c07run rc=%d %s' % (rc, err[-300:])
            for i, l in zip(runs, lines):
                w = l.split()
                f = dict(x.split('=', 1) for x in w[2:])
                res[i]['isa'] = {'end': w[1], 'code': int(f['code']), 'steps': int(f['steps']), 'out': f.get('out', '')}
        # tie (a): tree dumps
        if want_tie:
            mt, msg = model_trees(_T.hv, d, sx)
            if mt is None:
                return None, msg
            for i, r in enumerate(res):
                m = mt.get(sx[i])
                if m is None:
                    return None, 'c07tree printed nothing for program %d' % i
                r['model_status'] = m['tree'][0]
                r['model_ub'] = m['tree'][0].startswith('ub SignedOverflow')
                for flag, key in (('--tree', 'tree'), ('--tree-opt', 'opt')):
                    rc, out, err = run_cmd([_T.xcmp, 'p%d.x' % i, flag], d, timeout=60)
                    real_ok = (rc == 0)
                    st, text = m[key]
                    if st == 'ok':
                        if not real_ok:
                            r['tie'] = 'xcmp %s fails (rc=%d %s) where the model gives a tree' % (flag, rc, err[-120:].decode('latin-1'))
                        elif strip_loc(out.decode('latin-1')) != text:
                            a, b = strip_loc(out.decode('latin-1')).split('\n'), text.split('\n')
                            k = next((j for j in range(min(len(a), len(b))) if a[j] != b[j]), min(len(a), len(b)))
                            r['tie'] = 'xcmp %s differs from the model at line %d: real %r model %r' % (
                                flag, k + 1, a[k] if k < len(a) else '<end>', b[k] if k < len(b) else '<end>')
                    elif st.startswith('err'):
                        r['tie'] = diag_mismatch(st, rc, err, flag)
                        r['diag'] = st.split(' ')[1]
                    # st ub: the real run is not judged here (tie a3 looks at it with the sanitizer)
                    if r['tie']:
                        break
        if want_ubsan and _T.xcmp_ubsan:
            for i, r in enumerate(res):
                if r['status'] in ('ok', 'diagnostic'):
                    rc, out, err = run_cmd([_T.xcmp_ubsan, 'p%d.x' % i, '--tree'], d, timeout=60)
                    reports = [l for l in err.decode('latin-1').split('\n') if 'runtime error' in l and 'xcmp.hpp' in l]
                    r['ubsan'] = bool(reports)
                    r['ubsan_report'] = reports[:2]
        if want_xsem:
            rc, out, err = run_cmd([_T.hv, 'c07xsem', str(STEPS), str(DEPTH)], d, ('\n'.join('%s -' % s for s in sx) + '\n').encode())
            lines = out.decode().strip().split('\n') if out.strip() else []
            if rc != 0 or len(lines) != len(sx):
                return None, 'c07xsem rc=%d %s' % (rc, err[-300:])
            for r, l in zip(res, lines):
                if l.startswith('behaviour '):
                    f = dict(x.split('=', 1) for x in l.split()[1:])
                    r['spec'] = {'kind': 'behaviour', 'exit': int(f['exit']), 'out': f.get('out', '')}
                else:
                    w = l.split(' ', 2)
                    r['spec'] = {'kind': 'undef', 'reason': w[1]}
        return res, ''
    finally:
        shutil.rmtree(d, ignore_errors=True)


def behaviour_of(r):
    """what is compared between the two programs of a pair"""
    if r['status'] != 'ok':
        return ('compile-' + r['status'],)
    i = r['isa']
    return (i['end'], i['code'] if i['end'] == 'exit' else None, i['out'])


def group_programs(g):
    tree = g['tree']
    progs = [G.build(tree, G.ref_modes(tree), g['ctx'], g['var_scope'], g['var_init'], g['style'])]
    for m in g['variants']:
        progs.append(G.build(tree, m, g['ctx'], g['var_scope'], 'lit', g['style']))
    return progs


def chunk_job(groups):
    """-> list of per-group results"""
    try:
        progs = []
        index = []
        for gi, g in enumerate(groups):
            ps = group_programs(g)
            index.append((len(progs), len(ps)))
            progs += ps
        res, msg = eval_programs(progs)
        if res is None:
            return [{'broken': msg, 'group': g} for g in groups]
        out = []
        for g, (a, n) in zip(groups, index):
            rs = res[a:a + n]
            ref = rs[0]
            o = {'group': g, 'broken': None, 'pairs': [], 'ties': [], 'ub': [], 'ref_spec': ref['spec'], 'ref_beh': behaviour_of(ref),
                 'ref_x': ref['x']}
            for k, r in enumerate(rs):
                if not r['printer_ok']:
                    o['broken'] = 'the X text of a generated program does not re-parse to the same AST'
                if r['tie']:
                    o['ties'].append((k, r['tie'], r['x']))
                if r['ubsan'] is not None and r['model_status'] is not None and (r['ubsan'] or r['model_ub']):
                    o['ub'].append((k, bool(r['model_ub']), r.get('ubsan_report') or [], r['x']))
            for k, (m, r) in enumerate(zip(g['variants'], rs[1:])):
                same = behaviour_of(r) == behaviour_of(ref)
                o['pairs'].append({'modes': m, 'same': same, 'beh': behaviour_of(r), 'spec': r['spec'], 'x': r['x'] if not same else None,
                                   'model_status': r['model_status']})
            out.append(o)
        return out
    except Exception:
        import traceback
        return [{'broken': 'check fault: ' + traceback.format_exc()[-800:], 'group': g} for g in groups]


def prog_tie_job(items):
    """items: list of (name, program AST, inputs).  Tie (a) on whole programs of the full grammar (shadowing, local
    vals, calls, strings, arrays ...), and the model-level cross-check: the extracted XSem gives the program the code
    generator works from (XConstProp.front) the behaviour of the source program.
    -> list of dict(name, tie, front, x)"""
    d = tempfile.mkdtemp(dir=_SCR)
    out = []
    try:
        sx = []
        for i, (name, p, inputs) in enumerate(items):
            xt = xcommon.to_x(p)
            open(os.path.join(d, 'q%d.x' % i), 'wb').write(xt)
            open(os.path.join(d, 'q%d.sx' % i), 'w').write(xcommon.to_sx(p))
            sx.append(os.path.join(d, 'q%d.sx' % i))
        mt, msg = model_trees(_T.hv, d, sx)
        if mt is None:
            return [{'name': 'chunk', 'broken': msg}]
        rc, fo, fe = run_cmd([_T.hv, 'c07front'], d, ('\n'.join(sx) + '\n').encode())
        fstat = {}
        hyp = {}
        for l in fo.decode('latin-1').split('\n'):
            w = l.split(' ', 2)
            if len(w) == 3 and w[0] == 'FRONT':
                fstat[w[1]] = w[2]
            elif len(w) == 3 and w[0] == 'HYP':
                hyp[w[1]] = dict(kv.split('=') for kv in w[2].split())
        for i, (name, p, inputs) in enumerate(items):
            r = {'name': name, 'tie': None, 'front': None, 'broken': None, 'x': xcommon.to_x(p).decode('latin-1'), 'model': None, 'judged': False}
            # the hypotheses of C07_front_preserves_partial (extracted), for the programs the front-end model accepts
            if fstat.get(sx[i]) == 'ok' and sx[i] in hyp:
                r['hyp'] = {k: v == '1' for k, v in hyp[sx[i]].items()}
            m = mt.get(sx[i])
            if m is None:
                r['broken'] = 'c07tree printed nothing'
                out.append(r)
                continue
            r['model'] = m['tree'][0]
            for flag, key in (('--tree', 'tree'), ('--tree-opt', 'opt')):
                rc, o, e = run_cmd([_T.xcmp, 'q%d.x' % i, flag], d, timeout=60)
                st, text = m[key]
                if st == 'ok':
                    r['judged'] = True
                    if rc != 0:
                        r['tie'] = 'xcmp %s fails (rc=%d %s) where the model gives a tree' % (flag, rc, e[-120:].decode('latin-1'))
                    elif strip_loc(o.decode('latin-1')) != text:
                        a, b = strip_loc(o.decode('latin-1')).split('\n'), text.split('\n')
                        k = next((j for j in range(min(len(a), len(b))) if a[j] != b[j]), min(len(a), len(b)))
                        r['tie'] = 'xcmp %s differs from the model at line %d: real %r model %r' % (
                            flag, k + 1, a[k] if k < len(a) else '<end>', b[k] if k < len(b) else '<end>')
                elif st.startswith('err'):
                    r['judged'] = True
                    r['diag'] = st.split(' ')[1]
                    r['tie'] = diag_mismatch(st, rc, e, flag)
                if r['tie']:
                    break
            # model-level: XSem of the front-end's output against XSem of the source
            if fstat.get(sx[i]) == 'ok' and inputs:
                inp = inputs[0]
                line = lambda f: '%s %s\n' % (f, bytes(inp).hex() or '-')
                rc, o, e = run_cmd([_T.hv, 'c07xsem', str(STEPS), str(DEPTH)], d, (line(sx[i]) + line(sx[i] + '.front')).encode(), timeout=300)
                ls = o.decode().strip().split('\n')
                if rc == 0 and len(ls) == 2:
                    if ls[0].startswith('behaviour'):
                        r['front'] = 'same' if ls[0] == ls[1] else 'XSem of the source: %s; of the front-end output: %s' % (ls[0], ls[1])
                    else:
                        r['front'] = 'undef'
                else:
                    r['broken'] = 'c07xsem rc=%d %s' % (rc, e[-200:])
            out.append(r)
        return out
    except Exception:
        import traceback
        return [{'name': 'chunk', 'broken': 'check fault: ' + traceback.format_exc()[-800:]}]
    finally:
        shutil.rmtree(d, ignore_errors=True)


def whole_program_tie(ck, pool, n):
    import xgen
    items = []
    for name, src, inps in xgen.directed():
        try:
            items.append(('directed/' + name, xparse.parse(src.encode('latin-1')), inps))
        except Exception:
            pass
    # directed: errors of ConstProp (unknown symbol, invalid system call number), overwritten symbols, calls through vals
    for k, src in enumerate([
            'proc main() is 4294967295(1)\n', 'proc main() is 5(1)\n', 'proc main() is 3(1)\n', 'val e = 7;\nproc main() is e(1)\n',
            'proc main() is 0(nosuch + 1)\n', 'proc main() is nosuch(1)\n', 'val x = 1;\nvar x;\nproc main() is { x := 2; 0(x + 1) }\n',
            'var x;\nval x = 4;\nproc main() is 0(x + 1)\n', 'val x = 1;\nval x = 2;\nproc main() is 0(x + x)\n',
            'val put = 1;\nval exit = 0;\nproc main() is { put(65 + (1 + 1), 0); exit(put + exit) }\n',
            'val a = 3;\nproc f(val a) is 0(a + 1)\nproc main() is f(a + 1)\n', 'val a = 3;\nproc main() is var a; { a := 1; 0(a + 1) }\n',
            'val n = 2 + 3;\narray t[n + n];\nproc main() is { t[n - 1] := n; 0(t[(n - 3) + 2] + (n <= 5)) }\n',
            'proc f() is skip\nproc f() is stop\nproc main() is f()\n', 'var f;\nproc f() is skip\nproc main() is f()\n',
            'func g(val a) is return a\nproc g() is skip\nproc main() is skip\n', 'proc main() is skip\nproc main() is skip\n',
            'proc p(val p) is 0(p)\nproc main() is p(1)\n',
            'val a = 1;\nproc main() is a := 2\n', 'val a = b;\nval b = 1;\nproc main() is 0(a)\n', 'array t[b];\nval b = 3;\nproc main() is 0(0)\n',
            'var g;\nval v = g;\nproc main() is 0(0)\n', 'proc main() is val a = e; val e = 0; e(1)\n', 'val b = ~true;\nval c = -(b);\nval d = (c = b) and (c >= b) or (c > 1);\nproc main() is 0(d)\n'.replace(' and (c >= b) or (c > 1)', ' and ((c >= b) or (c > 1))')]):
        try:
            items.append(('directed/err%d' % k, xparse.parse(src.encode('latin-1')), [[]]))
        except Exception as ex:
            ck.log('directed tie source %d does not parse with xparse: %s' % (k, ex))
    for f in sorted(glob.glob(os.path.join(vlib.REPO, 'tests', 'x', '*.x'))):
        try:
            items.append(('tests/x/' + os.path.basename(f), xparse.parse(open(f, 'rb').read()), [[49, 50]]))
        except Exception:
            pass
    base = ck.rng.randrange(1 << 30)
    for i in range(n):
        prog, inputs = xgen.generate(base + i)
        items.append(('xgen-seed%d' % (base + i), prog, inputs))
    chunks = [items[i:i + 8] for i in range(0, len(items), 8)]
    res = [r for c in pool.imap(prog_tie_job, chunks, chunksize=2) for r in c]
    judged = sum(1 for r in res if r.get('judged'))
    model_stat = {}
    front = {'same': 0, 'undef': 0, 'differ': 0}
    nt = 0
    for r in res:
        if r.get('broken'):
            ck.broken.append('whole-program tie: %s: %s' % (r['name'], r['broken']))
            continue
        k = (r['model'] or '?').split(' ')[0] + (' ' + r['model'].split(' ')[1] if r['model'] and r['model'].startswith(('ub', 'err')) else '')
        model_stat[k] = model_stat.get(k, 0) + 1
        if r['tie']:
            nt += 1
            if nt <= 2:
                ck.broken.append('tie (a) on a whole program (%s): %s; program: %s' % (r['name'], r['tie'], r['x'][:500]))
        if r['front'] in ('same', 'undef'):
            front[r['front']] += 1
        elif r['front']:
            front['differ'] += 1
            if front['differ'] <= 2:
                ck.violation('the model of ConstProp/OptimiseExpr changes the meaning of a program (extracted XSem on XConstProp.front p vs p) although the tree dumps tie it to '
                             'the working tree: %s [%s]' % (r['front'], r['name']),
                             {'kind': 'front-changes-meaning', 'x_source': r['x'], 'name': r['name'], 'what': r['front']}, tags={'kind': 'front-changes-meaning'})
    diags = {}
    for r in res:
        if r.get('diag'):
            diags[r['diag']] = diags.get(r['diag'], 0) + 1
    ck.cov['diagnostics_compared_with_model_error'] = diags
    ck.cov['whole_programs_tied'] = judged
    ck.cov['whole_programs_model_status'] = model_stat
    ck.cov['whole_programs_tree_dump_mismatches'] = nt
    ck.cov['whole_programs_front_vs_source_under_xsem'] = front
    # how much of this population the proved whole-program theorem covers: a program outside the hypotheses is not a
    # violation, only a number (it rests on the oracle alone)
    hyps = {}
    for label, sel in (('shipped_tests_x', lambda n: n.startswith('tests/x/')), ('generated_xgen', lambda n: n.startswith('xgen-')),
                       ('directed', lambda n: n.startswith('directed/'))):
        rs = [r for r in res if sel(r['name']) and r.get('hyp') is not None]
        fail = sorted((r['name'], [k for k, v in sorted(r['hyp'].items()) if not v]) for r in rs if not all(r['hyp'].values()))
        hyps[label] = {'accepted_by_front_model': len(rs), 'names_ok': sum(1 for r in rs if r['hyp'].get('names_ok')),
                       'front_swap_safe': sum(1 for r in rs if r['hyp'].get('swap_safe')),
                       'both': len(rs) - len(fail), 'failing': [{'name': n, 'fails': f} for n, f in fail]}
    ck.cov['front_preserves_hypotheses'] = hyps
    ck.log('hypotheses of C07_front_preserves_partial (names_ok, front_swap_safe): ' + '; '.join(
        '%s %d/%d%s' % (k, v['both'], v['accepted_by_front_model'], (' (outside: %s)' % ', '.join(x['name'] for x in v['failing'][:6])) if v['failing'] else '')
        for k, v in hyps.items()))
    ck.log('whole-program tie: %d programs judged, %d mismatches, model status %s, XSem(front p) vs XSem(p): %s' % (judged, nt, model_stat, front))


# ---------------------------------------------------------------- judging one pair again (shrinking, classification)
def pair_differs(tree, modes, ctx, var_scope, var_init, style):
    if not G.ctx_ok(tree, ctx):
        return None
    g = {'tree': tree, 'ctx': ctx, 'var_scope': var_scope, 'var_init': var_init, 'style': style, 'variants': [modes]}
    res, msg = eval_programs(group_programs(g), want_tie=False, want_xsem=False, want_ubsan=False)
    if res is None:
        return None
    return behaviour_of(res[0]) != behaviour_of(res[1]), res


def classify_job(arg):
    """arg = (group, modes, do_shrink).  -> dict(kind, tree, modes, what, x_variant, x_reference, ...)"""
    g, modes, do_shrink = arg
    try:
        tree = g['tree']
        ctx, vs, vi, st = g['ctx'], g['var_scope'], g['var_init'], g['style']
        evals = [0]

        def differs(t, m):
            evals[0] += 1
            r = pair_differs(t, m, ctx, vs, vi, st)
            return bool(r and r[0])
        nov = G.cmp_overflow_nodes(tree)
        kind = 'pair-mismatch'
        witness = (tree, list(modes))
        if nov > 0:
            # cut the overflowing ordering nodes out (every choice of truth values in their place); if the two variants
            # then agree, the difference is attributed to those nodes
            still = None
            combos = list(itertools.product((0, 1), repeat=min(nov, 4)))
            for bits in combos[:16]:
                it = itertools.chain(bits, itertools.repeat(0))
                t2 = G.excise(tree, it)
                # the modes of the cut tree: a leaf that replaces a subtree is constant iff the subtree had a constant leaf
                m2 = remap_modes(tree, modes, t2)
                if G.cmp_overflow_nodes(t2) == 0 and any(x[0] == 'c' for x in m2) and differs(t2, m2):
                    still = (t2, m2)
                    break
            if still is None:
                kind = 'cmp-diff-overflow'
            else:
                witness = still

        def fails(t, m):
            if kind == 'pair-mismatch' and G.cmp_overflow_nodes(t) > 0:
                return False
            return differs(t, m)
        if not do_shrink:
            return {'kind': kind, 'tree': tree, 'modes': list(modes), 'witness': witness, 'evaluations': evals[0]}
        (t, m), used = G.shrink(witness[0], witness[1], fails, budget=80)
        r = pair_differs(t, m, ctx, vs, vi, st)
        res = r[1] if r else None
        info = {'kind': kind, 'tree': t, 'modes': m, 'ctx': ctx, 'var_scope': vs, 'var_init': vi, 'style': st, 'evaluations': evals[0],
                'expr': G.tree_str(t, m), 'original_expr': G.tree_str(tree, modes)}
        if res:
            info.update({'x_reference': res[0]['x'], 'x_variant': res[1]['x'], 'reference': behaviour_of(res[0]), 'variant': behaviour_of(res[1])})
            sp, msg = eval_programs(group_programs({'tree': t, 'ctx': ctx, 'var_scope': vs, 'var_init': vi, 'style': st, 'variants': [m]}),
                                    want_tie=False, want_xsem=True, want_ubsan=False)
            if sp:
                info['spec_reference'] = sp[0]['spec']
                info['spec_variant'] = sp[1]['spec']
        return info
    except Exception:
        import traceback
        return {'kind': 'check-fault', 'what': traceback.format_exc()[-600:], 'tree': g['tree'], 'modes': modes}


def remap_modes(tree, modes, cut):
    """modes for the tree `cut` obtained from `tree` by replacing subtrees with leaves"""
    out = []

    def rec(a, ms, b):
        if b[0] == 'leaf' and a[0] != 'leaf':
            out.append(('c', 'dec') if any(m[0] == 'c' for m in ms) else ('v',))
            return
        if a[0] == 'leaf':
            out.append(ms[0])
            return
        if a[0] in G.UNARY:
            rec(a[1], ms, b[1])
            return
        nl = G.nleaves(a[2])
        rec(a[2], ms[:nl], b[2])
        rec(a[3], ms[nl:], b[3])
    rec(tree, list(modes), cut)
    return out


# ---------------------------------------------------------------- other ties
def genconst_tie(ck, tools, scr):
    """tie (a2): immediate vs constant pool, both registers, of the real `xcmp --insts`"""
    vals = sorted(set(G.SPECIAL + [65534, -65534, 65538, -65538, 32767, -32768, 1 << 20, -(1 << 20), 65535 + 65536]
                      + [ck.rng.randrange(-(1 << 31), 1 << 31) for _ in range(12)] + [ck.rng.randrange(-70000, 70000) for _ in range(12)]))
    rc, out, err = xcommon._run([tools.hv, 'c07gc'], scr, ('\n'.join(str(v) for v in vals) + '\n').encode())
    lines = out.decode().strip().split('\n')
    if rc != 0 or len(lines) != len(vals):
        ck.broken.append('c07gc failed: rc=%d %s' % (rc, err[-200:]))
        return
    n = 0
    for v, ml in zip(vals, lines):
        d = tempfile.mkdtemp(dir=scr)
        src = 'var a;\nproc main() is\n{ a := %d;\n  a := a + %d\n}\n' % (G.u32(v), G.u32(v))
        open(os.path.join(d, 'g.x'), 'w').write(src)
        rc, out, err = xcommon._run([tools.xcmp, 'g.x', '--insts'], d)
        text = out.decode('latin-1')
        toks = [l.split() for l in text.split('\n') if l.strip()]
        pool = {}
        for i, w in enumerate(toks):
            if len(w) == 1 and w[0].startswith('_const') and i + 1 < len(toks) and toks[i + 1][0] == 'DATA':
                pool[w[0]] = int(toks[i + 1][1])
        try:
            k = next(i for i, w in enumerate(toks) if w[0] == 'PROLOGUE')
            body = toks[k + 1:]
            la = body[0]
            lb = body[3]
        except Exception:
            ck.broken.append('tie a2: cannot read xcmp --insts for %d: %r' % (v, text[-200:]))
            continue

        def shape(w, imm, mem):
            if w[0] == imm and re.match(r'^-?\d+$', w[1]):
                return 'imm %d' % int(w[1])
            if w[0] == mem and w[1] in pool:
                return 'pool %d' % pool[w[1]]
            return 'other ' + ' '.join(w)
        real = 'A %s B %s' % (shape(la, 'LDAC', 'LDAM'), shape(lb, 'LDBC', 'LDBM'))
        n += 1
        if real != ml:
            ck.broken.append('tie a2 (genConst): value %d: real xcmp emits [%s], model XConstProp.gen_const says [%s]' % (v, real, ml))
            ck.violation('genConst of the working tree differs from the model XConstProp.gen_const for value %d: real [%s] model [%s]' % (v, real, ml),
                         {'kind': 'tie-genconst', 'value': v, 'x_source': src, 'real': real, 'model': ml}, tags={'kind': 'tie-genconst'}, no_input=False)
        shutil.rmtree(d, ignore_errors=True)
    ck.cov['genconst_values_tied'] = n


def nonconst_val_probe(ck, tools, scr, mode):
    src = 'var g;\nval v = g;\nproc main() is 0(0)\n'
    d = tempfile.mkdtemp(dir=scr)
    open(os.path.join(d, 'n.x'), 'w').write(src)
    rc, out, err = xcommon._run([tools.xcmp, 'n.x', '--tree'], d)
    real = 'reject' if rc != 0 else 'accept'
    ck.cov['nonconst_val'] = {'model': mode, 'real': real}
    if real != mode:
        ck.broken.append('tie: a val with a non-constant expression is %sed by the working tree but the model (XConstProp.repo_rejects_nonconst_val) says %s'
                         % (real, mode))


# ---------------------------------------------------------------- main
def make_groups(ck, budget):
    """systematic families first (every operator over the special leaves, every operator pair at both operand
    positions, wrapping sums), each with a bounded number of leaf assignments; then random typed trees to depth 4
    until the budget of pairs is reached"""
    rng = ck.rng
    g, fams = G.families(rng, budget)

    def group(fam, tree, limit):
        scope = rng.choice(('global', 'local', 'local', 'shadow', 'decoy'))
        variants = g.assignments(tree, limit)
        if scope == 'decoy':
            # the decoy procedure only matters for leaves spelled through vals
            variants = [[('c', 'val') if (m[0] == 'c' and m[1] in ('dec', 'hex', 'kw') and rng.random() < 0.7) else m for m in v] for v in variants]
        ctx = g.context(tree)
        if fam == 'f6-cond':
            ctx = rng.choice(('ifv', 'ifv', 'whilev'))
        elif fam.startswith('f7-index/'):
            c = g.arr_context(fam.split('/', 1)[1])
            ctx = c if G.ctx_ok(tree, c) else ctx
        elif fam == 'f5-eff':
            ctx = rng.choice(('ifc', 'ifc', 'whilec', 'assign', 'actual', 'ret'))
            # the constant side of the and/or stays a compile-time constant in most variants
            lv = G.leaves(tree)
            side = [G.nleaves(tree[2]), G.nleaves(tree[3])]
            eff_left = G.has_eff(tree[2])
            crange = range(side[0], side[0] + side[1]) if eff_left else range(0, side[0])
            fixed = []
            for v in variants:
                v = list(v)
                if rng.random() < 0.8:
                    for i in crange:
                        if v[i][0] == 'v':
                            v[i] = g.spelling(lv[i])
                fixed.append(v)
            variants = fixed
        return {'family': fam, 'tree': tree, 'ctx': ctx, 'var_scope': scope,
                'var_init': 'built' if rng.random() < 0.15 else 'lit', 'style': rng.choice((0, 0, 2, 3)),
                'variants': variants}
    out = []
    total = 0
    scale = max(1, budget // 2000)
    seen_f2 = {}
    rest = []
    for fam, tree in fams:
        if fam.startswith('f2-'):
            # every (outer, inner, position) shape at least `scale` times
            if seen_f2.get(fam, 0) < 2 * scale:
                seen_f2[fam] = seen_f2.get(fam, 0) + 1
                out.append(group(fam, tree, 3 if scale == 1 else 7))
            else:
                rest.append((fam, tree))
        elif fam.startswith('f1-') or fam in ('f4-wrap', 'f5-eff', 'f6-cond') or fam.startswith('f7-index/'):
            out.append(group(fam, tree, 3))
        else:
            rest.append((fam, tree))
    total = sum(len(x['variants']) for x in out)
    rng.shuffle(rest)
    for fam, tree in rest:
        if total >= budget:
            break
        x = group(fam, tree, 7 if G.nleaves(tree) <= 3 else 4)
        out.append(x)
        total += len(x['variants'])
    while total < budget:
        tree = g.tree(rng.choice('ib'), rng.choice((2, 3, 4)))
        if tree[0] == 'leaf' or G.size(tree) > 40:
            continue
        x = group('f3', tree, 4)
        out.append(x)
        total += len(x['variants'])
    return out


def corpus_groups():
    out = []
    for f in sorted(glob.glob(os.path.join(vlib.ROOT, 'corpus', PID, '*.json'))):
        for it in json.load(open(f)):
            out.append({'family': 'corpus/' + os.path.basename(f), 'tree': tup(it['tree']), 'ctx': it.get('ctx', 'assign'),
                        'var_scope': it.get('var_scope', 'global'), 'var_init': it.get('var_init', 'lit'), 'style': it.get('style', 0),
                        'variants': [[tup(m) for m in v] for v in it['variants']]})
    return out


def main():
    ck = Check(PID, level='proof')
    ck.cov['trusted_base'] = ['Coq 8.16.1 kernel', 'XSem.v (spec of X) and Isa.v (spec of the machine)',
                              'XConstProp.v as a reading of xcmp.hpp ConstProp/OptimiseExpr/genConst/AstPrinter -- tied on every run: tree dumps after both passes, '
                              'emitted load instructions, and the signed-overflow sanitizer build',
                              'ExtrOcamlBasic extraction + OCaml drivers ocaml/c07drv.ml, ocaml/xdrv.ml (s-expression reader)',
                              'tools/xcommon.py printer X AST -> X text (re-parsed by tools/xparse.py on every program)',
                              'g++ -fsanitize=signed-integer-overflow as the detector of C++ signed overflow']
    ck.assumptions = ['a pair = one expression tree in one context; variant with literal/val leaves vs reference with every value in a variable assigned at run time',
                      'observed: end of run, all 32 bits of the exit value and the (stream, byte) outputs on the extracted Isa.step',
                      'operands of and/or/~ are truth values (the property\'s quantifier); programs that wrap around or are otherwise undefined for XSem are still compared pairwise',
                      'PROVED ONLY FOR THE PURE FRAGMENT: C07_fold_agrees_partial / C07_fold_agrees_wrap_partial cover expressions without calls, input/output and array reads '
                      '(XSem.eval_const with an arbitrary environment); expressions with calls, effects and subscripts, and the full interpreter XSem.eval '
                      '(Definition C07_fold_agrees_full, not proved) rest on the paired-program oracle: effectful operands, array index shapes, constant conditions are generated',
                      'WHOLE PROGRAMS: C07_front_preserves_partial proves that XConstProp.front preserves every XSem behaviour (fuel x4), calls, effects and array accesses included, '
                      'for programs that are swap_safe (excluded: > / <= whose right operand contains a call while the left one is not a literal constant; '
                      'the call spelled 4294967295(..)); the excluded shapes rest on the oracle only']
    if os.path.exists(os.path.join(vlib.COQ, 'Properties_%s.v' % PID)):
        ok = ck.proofs()
        ck.log('proofs', 'ok' if ok else 'BROKEN')
    else:
        ck.broken.append('Properties_%s.v is missing' % PID)
    tools = xcommon.Tools()
    if tools.err:
        ck.broken.append(tools.err)
        ck.finish()
    tools.xcmp_ubsan, log = vlib.repo_tool('xcmp', flags=UBSAN_FLAGS)
    if tools.xcmp_ubsan is None:
        ck.broken.append('sanitizer build of xcmp failed: ' + log[-400:])
    scr = vlib.scratch()
    rc, out, err = xcommon._run([tools.hv, 'c07mode'], scr)
    mode = dict(x.split('=') for x in out.decode().split())
    ck.cov['model_mode'] = mode
    ck.log('model mode', mode)
    nproc = min(16, vlib.NCPU)
    pool = multiprocessing.Pool(nproc, _init, (tools, scr))
    _init(tools, scr)
    if ck.replay_arg:
        o = json.load(open(ck.replay_arg))
        groups = [{'family': 'replay', 'tree': tup(o['tree']), 'ctx': o.get('ctx', 'assign'), 'var_scope': o.get('var_scope', 'global'),
                   'var_init': o.get('var_init', 'lit'), 'style': o.get('style', 0), 'variants': [[tup(m) for m in o['modes']]]}]
    else:
        budget = 2600 if not ck.thorough() else 120000
        groups = corpus_groups() + make_groups(ck, budget)
        genconst_tie(ck, tools, scr)
        nonconst_val_probe(ck, tools, scr, mode.get('nonconstval'))
        whole_program_tie(ck, pool, 120 if not ck.thorough() else 4000)
    chunks = [groups[i:i + 6] for i in range(0, len(groups), 6)]
    results = [r for c in pool.imap(chunk_job, chunks, chunksize=2) for r in c]
    summarise(ck, results, pool, mode)
    pool.close()
    ck.finish()


def summarise(ck, results, pool, mode):
    pairs = 0
    differing = []
    fams = {}
    oppairs = set()
    ctxs = {}
    spec_kinds = {}
    wrap_pairs = 0
    cmpov_pairs = 0
    distinct = set()
    ref_vs_spec = {'agree': 0, 'differ': 0, 'undef': 0}
    ref_differs = []
    tie_programs = 0
    ties = []
    ub_confirmed = []
    ub_missing = []
    ub_unexpected = []
    for r in results:
        if r.get('broken'):
            ck.broken.append('%s: %s' % (G.tree_str(r['group']['tree']), r['broken']))
            continue
        g = r['group']
        tie_programs += 1 + len(g['variants'])
        for k, what, x in r['ties']:
            ties.append((what, x, g))
        for k, model_ub, reports, x in r['ub']:
            if model_ub and reports:
                ub_confirmed.append((reports, x, g, k))
            elif model_ub:
                ub_missing.append((x, g))
            else:
                ub_unexpected.append((reports, x, g))
        sp = r['ref_spec']
        if sp and sp['kind'] == 'behaviour':
            b = r['ref_beh']
            if b[0] == 'exit' and b[1] == sp['exit'] and b[2] == sp['out']:
                ref_vs_spec['agree'] += 1
            else:
                ref_vs_spec['differ'] += 1
                ref_differs.append((g, sp, b, r['ref_x']))
        else:
            ref_vs_spec['undef'] += 1
            if sp:
                spec_kinds[sp['reason']] = spec_kinds.get(sp['reason'], 0) + 1
        wr = G.wraps_somewhere(g['tree'])
        ov = G.cmp_overflow_nodes(g['tree'])
        for p in r['pairs']:
            pairs += 1
            fams[g['family'].split('/')[0]] = fams.get(g['family'].split('/')[0], 0) + 1
            ctxs[g['ctx'].split('/')[0]] = ctxs.get(g['ctx'].split('/')[0], 0) + 1
            wrap_pairs += 1 if wr else 0
            cmpov_pairs += 1 if ov else 0
            distinct.add(hashlib.sha1(repr((g['tree'], g['ctx'], [m[0] for m in p['modes']])).encode()).hexdigest())
            for op in G.op_pairs(g['tree']):
                oppairs.add(op)
            if not p['same']:
                differing.append((g, p))
            elif pairs % 397 == 1:
                ck.sample({'expr': G.tree_str(g['tree'], p['modes']), 'context': g['ctx'], 'both': list(r['ref_beh']), 'xsem_reference': sp})
    ck.cov['evaluations'] = pairs
    ck.cov['pairs'] = pairs
    ck.cov['disagreements_checked'] = pairs
    ck.cov['distinct_nontrivial'] = len(distinct)
    ck.cov['rule'] = ('pair = (expression tree, context, leaf assignment with at least one compile-time leaf) compared with the all-variable program of the same tree; '
                      'trees: every operator over the special leaves {0,+-1,+-2,+-127,+-128,+-65535,+-65536,+-65537,2^31-1,-2^31,-2^31+1}, every (outer, inner) operator '
                      'pair at both operand positions, an operator pair over random operands to depth 4, random typed trees, wrapping sums/differences; '
                      'contexts: assignment, exit actual, if / while condition (truth values and arbitrary integers, both branches observable), call actual, return value, subscript, '
                      'array index shapes K-e, e-K, K+e, e+K, K-(e-J), (K-e)+J, J+(e-K), (e+J)-K read and assigned on global arrays and array formals, operands that call a counting function '
                      'next to compile-time constant truth values, and pick(K, .., idf(E), .., K) with equal constants K (immediate, val, pool) around an actual that contains a call; '
                      'scopes: global / local variables, locals hiding global vals, and a decoy procedure defined earlier whose local vals carry the names of the global vals; '
                      'distinct by SHA-1 of (tree, context, const/var pattern); non-trivial = at least one compile-time leaf')
    ck.cov['families'] = fams
    ck.cov['contexts'] = ctxs
    ck.cov['operator_pairs_reached'] = len(oppairs)
    ck.cov['pairs_with_wrap_around'] = wrap_pairs
    ck.cov['pairs_with_cmp_diff_overflow_node'] = cmpov_pairs
    ck.cov['reference_vs_xsem'] = ref_vs_spec
    ck.cov['reference_undefined_for_xsem'] = spec_kinds
    ck.cov['programs_tied_tree_dumps'] = tie_programs
    ck.cov['exhaustive'] = False
    ck.cov['differing_pairs'] = len(differing)
    ck.log('%d pairs (%d groups), %d differ; ties broken %d; ub confirmed %d missing %d unexpected %d; reference vs XSem %s'
           % (pairs, len(results), len(differing), len(ties), len(ub_confirmed), len(ub_missing), len(ub_unexpected), ref_vs_spec))
    # ---- ties
    for what, x, g in ties[:3]:
        ck.broken.append('tie (a): model of ConstProp/OptimiseExpr (coq/XConstProp.v) out of step with the working tree: %s; program: %s' % (what, x[:600]))
    ck.cov['tree_dump_mismatches'] = len(ties)
    # ---- arithmetic mode (tie a3) and the fold-overflow defect
    if mode.get('arith') == 'int':
        for x, g in ub_missing[:2]:
            ck.broken.append('tie (a3): the model folds on C int and says SignedOverflow, the sanitizer build reports nothing: XConstProp.repo_arith is out of date '
                             '(set it to ArithWrap if xcmp.hpp now folds through unsigned)')
        seen_ub = set()
        for reports, x, g, k in sorted(ub_confirmed, key=lambda t: len(t[1])):
            rep = reports[0].split('runtime error:')[-1].strip() if reports else ''
            key = re.sub(r'-?\d+', 'N', rep)
            if key in seen_ub or len(seen_ub) >= 3:
                continue
            seen_ub.add(key)
            ck.violation('compile-time folding overflows a C int (undefined behaviour in ConstProp; model: UB SignedOverflow, sanitizer: %s) on %s; %d such program(s)'
                         % (rep, G.tree_str(g['tree'], g['variants'][k - 1]) if k >= 1 else G.tree_str(g['tree']), len(ub_confirmed)),
                         {'kind': 'fold-signed-overflow-ub', 'x_source': x, 'tree': g['tree'], 'modes': g['variants'][k - 1] if k >= 1 else None, 'sanitizer': reports,
                          'replay_cmd': 'g++ -fsanitize=signed-integer-overflow build of xcmp; xcmp --tree <x_source>'},
                         tags={'kind': 'fold-signed-overflow-ub'})
    ck.cov['fold_overflow_ub_programs'] = len(ub_confirmed)
    for reports, x, g in ub_unexpected[:2]:
        ck.broken.append('tie (a3): the sanitizer build of xcmp reports %s where the model sees no overflow; program: %s' % (reports[:1], x[:600]))
    if mode.get('arith') == 'wrap' and (ub_confirmed or ub_missing):
        ck.broken.append('tie (a3): internal: the wrap-around model answered SignedOverflow')
    # ---- both variants alike but not what the X definition says: a rewrite applied to both (judged only when the
    # tree contains a rewritten operator; anything else is the code generator's business, property C01)
    REW = ('~=', '>=', '>', '<=', 'neg')
    rew = [x for x in ref_differs if any(o in REW for o in G.ops_of(x[0]['tree']))]
    ck.cov['reference_differs_from_xsem_with_rewritten_operator'] = len(rew)
    ck.cov['reference_differs_from_xsem_other'] = len(ref_differs) - len(rew)
    rew.sort(key=lambda x: G.size(x[0]['tree']))
    for g, sp, b, x in rew[:3]:
        ck.violation('rewrite-differs-from-xsem: %s with every operand in a variable: the binary gives %s, the X definition exit=%s out=%r; %d such program(s)'
                     % (G.tree_str(g['tree']), list(b), sp['exit'], sp['out'], len(rew)),
                     {'kind': 'rewrite-differs-from-xsem', 'tree': g['tree'], 'modes': G.ref_modes(g['tree']), 'ctx': g['ctx'], 'var_scope': g['var_scope'],
                      'var_init': g['var_init'], 'style': g['style'], 'x_source': x, 'xsem': sp, 'isa': list(b)}, tags={'kind': 'rewrite-differs-from-xsem'})
    # ---- differing pairs
    if differing:
        ck.log('classifying %d differing pairs' % len(differing))
        cls = pool.map(classify_job, [(g, p['modes'], False) for g, p in differing], chunksize=4)
        kinds_all = {}
        by_shape = {}
        for (g, p), c in zip(differing, cls):
            kinds_all[c['kind']] = kinds_all.get(c['kind'], 0) + 1
            if c['kind'] == 'check-fault':
                ck.broken.append('classification fault: ' + c['what'])
                continue
            key = (c['kind'], tuple(sorted(set(G.ops_of(g['tree'])))) if c['kind'] != 'cmp-diff-overflow' else ())
            by_shape.setdefault(key, []).append((g, p))
        ck.cov['differing_pairs_by_kind'] = kinds_all
        todo = []
        for key, l in sorted(by_shape.items(), key=lambda kv: repr(kv[0])):
            l.sort(key=lambda gp: G.size(gp[0]['tree']))
            todo += l[:3]
        todo = todo[:24]
        ck.log('kinds %s; minimising %d' % (kinds_all, len(todo)))
        infos = pool.map(classify_job, [(g, p['modes'], True) for g, p in todo])
        seen = set()
        for info in infos:
            if info['kind'] == 'check-fault':
                ck.broken.append('classification fault: ' + info['what'])
                continue
            key = (info['kind'], info['expr'])
            if key in seen:
                continue
            seen.add(key)
            sv, sr = info.get('spec_variant') or {}, info.get('spec_reference') or {}
            what = ('%s: constant variant %s, run-time variant %s for %s in context %s, variables %s (XSem: variant %s, reference %s); %d differing pair(s) of this kind'
                    % (info['kind'], info.get('variant'), info.get('reference'), info['expr'], info['ctx'], info['var_scope'],
                       sv.get('exit', sv.get('reason')), sr.get('exit', sr.get('reason')), kinds_all.get(info['kind'], 0)))
            info['replay_cmd'] = './check C07 --replay <this file>'
            ck.violation(what, info, tags={'kind': info['kind']})


if __name__ == '__main__':
    main()
