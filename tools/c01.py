#!/usr/bin/env python3
"""C01 -- xcmp preserves X source semantics in the binaries it emits.

level: translation validation by extracted specs.  For every generated (program, input):
  spec     : extracted XSem.run (coq/XSem.v) decides well-definedness and gives the behaviour;
  compiler : the REAL xcmp built from /repo's working tree compiles the pretty-printed X text;
  oracle   : the emitted binary runs on the extracted Isa.step (coq/Isa.v): same (stream, byte) outputs
             in order, same number of console bytes consumed, same exit value (mod 2^32);
             additionally the real hexsim runs it (stdout bytes, exit status mod 256).
A compiler crash / timeout / diagnostic on a well-defined supported program is a violation too.
Proved in Coq (Properties_C01.v): XSem is monotone in its fuel (a Behaviour never changes with more
fuel), and the constant/variable/+/- fragment of the expression code generator is correct against Isa
(partial).  Ill-defined programs are counted per reason and never judged."""
import os, sys, json, glob, hashlib, shutil, tempfile, time, multiprocessing
sys.path.insert(0, os.path.dirname(os.path.abspath(__file__)))
import vlib, xcommon, xgen, xparse
from vlib import Check

PID = 'C01'
STEPS, DEPTH = 20000, 300           # spec budgets for generated programs (smaller than XSem.run's defaults)
MAXISA = 4000000

_T = None
_SCR = None
_OPTS = {}


def _init(tools, scr, opts):
    global _T, _SCR, _OPTS
    _T, _SCR, _OPTS = tools, scr, opts


# ---------------------------------------------------------------- features (case splits reached)
def is_const_tree(e, vals):
    t = e[0]
    if t in ('num', 'true', 'false'):
        return True
    if t == 'var':
        return e[1] in vals
    if t in ('neg', 'not'):
        return is_const_tree(e[1], vals)
    if t == 'bin':
        return is_const_tree(e[2], vals) and is_const_tree(e[3], vals)
    return False


def has_call(e):
    t = e[0]
    if t in ('call', 'sys'):
        return True
    if t in ('neg', 'not'):
        return has_call(e[1])
    if t == 'bin':
        return has_call(e[2]) or has_call(e[3])
    if t == 'sub':
        return has_call(e[2])
    return False


def needs_temp(e, vals):
    """the expression has a right operand that is spilled (not a constant, a variable or a string)"""
    t = e[0]
    if t == 'bin':
        r = e[3]
        spill = e[1] in ('+', '-', '=', '~=', '<', '<=', '>', '>=') and not (is_const_tree(r, vals) or r[0] in ('var', 'str'))
        return spill or needs_temp(e[2], vals) or needs_temp(r, vals)
    if t in ('neg', 'not'):
        return needs_temp(e[1], vals)
    if t == 'sub':
        return needs_temp(e[2], vals)
    return False


def contains_op(e, ops):
    t = e[0]
    if t == 'bin':
        return e[1] in ops or contains_op(e[2], ops) or contains_op(e[3], ops)
    if t in ('neg', 'not'):
        return contains_op(e[1], ops)
    if t == 'sub':
        return contains_op(e[2], ops)
    if t in ('call', 'sys'):
        return any(contains_op(a, ops) for a in e[2])
    return False


def features(p):
    F = set()
    vals = set(d[1] for d in p['globals'] if d[0] == 'val')
    procs = {q['name']: q for q in p['procs']}

    def ex(e, pos):
        t = e[0]
        if t == 'bin':
            op, l, r = e[1], e[2], e[3]
            if r[0] in ('bin', 'neg', 'not') and is_const_tree(r, vals) and not is_const_tree(l, vals) and op not in ('and', 'or'):
                F.add('const_subtree_right')
            if op not in ('and', 'or') and not is_const_tree(e, vals) and not (is_const_tree(r, vals) or r[0] in ('var', 'str')):
                F.add('spill_right')
            if op in ('+', 'and', 'or') and r[0] == 'bin' and r[1] == op:
                F.add('assoc_chain')
            F.add('op_' + {'+': 'plus', '-': 'minus', '=': 'eq', '~=': 'ne', '<': 'ls', '<=': 'le', '>': 'gr', '>=': 'ge'}.get(op, op))
            ex(l, 'l'); ex(r, 'r')
        elif t in ('neg', 'not'):
            F.add('un_' + t)
            ex(e[1], 'u')
        elif t == 'sub':
            if has_call(e[2]):
                F.add('call_in_read_subscript')
            if e[2][0] != 'num':
                F.add('computed_subscript')
            ex(e[2], 's')
        elif t in ('call', 'sys'):
            args = e[2]
            F.add('nargs_%d' % min(len(args), 12) if len(args) >= 6 else 'nargs_small')
            cc = [has_call(a) for a in args]
            if any(cc):
                F.add('call_in_actual')
                if any(contains_op(a, ('=', '~=')) for a, c in zip(args, cc) if c):
                    F.add('eq_in_call_actual')
                if any(not c for c in cc):
                    F.add('mixed_actuals')
            for j, a in enumerate(args):
                if j > 0 and needs_temp(a, vals):
                    F.add('temp_in_later_actual')
                if needs_temp(a, vals) and any(cc[j + 1:]):
                    F.add('temp_before_call_actual')
                if a[0] == 'str':
                    F.add('string_actual')
                    if not a[1]:
                        F.add('empty_string')
                    if any(b >= 128 for b in a[1]):
                        F.add('string_high_byte')
                ex(a, 'a')
            if t == 'call' and e[1] in procs and pos != 'stmt':
                F.add('call_in_expr')
        elif t == 'str':
            F.add('string')
        elif t == 'num' and e[1] >= 65536:
            F.add('pool_constant')

    def st(s, q):
        t = s[0]
        if t == 'seq':
            for x in s[1]:
                st(x, q)
        elif t == 'if':
            ex(s[1], 'c'); st(s[2], q); st(s[3], q)
            F.add('if')
        elif t == 'while':
            ex(s[1], 'c'); st(s[2], q)
            F.add('while')
        elif t == 'return':
            ex(s[1], 'r')
            F.add('return_in_' + q['kind'] + ('_main' if q['name'] == 'main' else ''))
        elif t == 'assign':
            ex(s[2], 'r')
        elif t == 'assignsub':
            ex(s[2], 's'); ex(s[3], 'r')
            if has_call(s[2]) or has_call(s[3]):
                F.add('call_in_array_assignment')
            F.add('array_assignment')
        elif t in ('call', 'sys'):
            ex(s, 'stmt')
        elif t == 'stop':
            F.add('stop')
    for q in p['procs']:
        st(q['body'], q)
        n = q['name']
        if n == 'start' or (n.startswith('lab') and n[3:].isdigit()):
            F.add('label_named_proc')
        if len(q['formals']) >= 6:
            F.add('many_formals')
        if any(f[0] == 'array' for f in q['formals']):
            F.add('array_formal')
        gl = set(d[1] for d in p['globals'])
        if any(f[1] in gl for f in q['formals']) or any(d[1] in gl for d in q['locals']):
            F.add('shadowing')
        if any(d[0] == 'val' for d in q['locals']):
            F.add('local_val')
            kinds = [d[0] for d in q['locals']]
            if 'var' in kinds[kinds.index('val'):]:
                F.add('local_val_before_local_var')
        if q['kind'] == 'func' and len(q['formals']) >= 2 and has_self_tail_call(q):
            F.add('self_tail_call_multi_formal')
        if has_self_call(q):
            F.add('recursion')
    for d in p['globals']:
        if d[0] in ('var', 'array') and d[1] in xgen.NAME_POOL:
            F.add('compiler_named_global')
            if d[1] == 'start':
                F.add('global_named_start')
        if d[0] == 'val' and d[2][0] in ('bin', 'neg'):
            F.add('val_expression')
        if d[0] == 'array':
            F.add('global_array')
    main = procs.get('main')
    if main is not None:
        last = main['body'][1][-1] if main['body'][0] == 'seq' and main['body'][1] else main['body']
        if not (last[0] == 'stop' or (last[0] in ('call', 'sys') and last[1] in ('exit', 0))):
            F.add('main_returns')
    return F


def has_self_tail_call(q):
    """`return f(..)` in the body of f"""
    def st(s):
        t = s[0]
        if t == 'seq':
            return any(st(x) for x in s[1])
        if t == 'if':
            return st(s[2]) or st(s[3])
        if t == 'while':
            return st(s[2])
        return t == 'return' and s[1][0] == 'call' and s[1][1] == q['name']
    return st(q['body'])


def has_self_call(q):
    found = []

    def f(c):
        if c[1] == q['name']:
            found.append(1)
        return c
    xgen._map_calls_stmt(q['body'], f)
    return bool(found)


# ---------------------------------------------------------------- jobs
def run_one(prog, inputs, xtext=None, want_monitor=False, want_hexsim=True, steps=STEPS, depth=DEPTH, maxisa=MAXISA):
    d = tempfile.mkdtemp(dir=_SCR)
    try:
        return xcommon.evaluate(_T, d, prog, inputs, steps=steps, depth=depth, maxisa=maxisa,
                                want_monitor=want_monitor, want_hexsim=want_hexsim, xtext=xtext)
    finally:
        shutil.rmtree(d, ignore_errors=True)


def model_share(prog, src):
    """is the judged program inside the model's fragment (extracted model_compile with the peephole pass returns an image),
    and is that image the real binary?  Frame sizes and the constant pool are read off `xcmp -S`; nslots and the outgoing
    words are set to the frame size (they only bound what the model accepts).  -> 'outside' | 'identical' | 'differs' | None"""
    import re
    d = tempfile.mkdtemp(dir=_SCR)
    try:
        open(os.path.join(d, 'p.x'), 'wb').write(src)
        open(os.path.join(d, 'p.sx'), 'w').write(xcommon.to_sx(prog))
        st, detail = xcommon.compile_x(_T.xcmp, d, 'p.x')
        rc, out, err = xcommon._run([_T.xcmp, 'p.x', '-S'], d, timeout=60)
        if st != 'ok' or rc != 0:
            return None
        text = out.decode('latin-1')
        ins = listing_instrs(text)
        frames = []
        for pr in prog['procs']:
            try:
                code, size = listing_proc(ins, pr['kind'], pr['name'])
            except (ValueError, StopIteration):
                return None
            try:
                og = proc_og(pr['body'], [q['name'] for q in prog['procs'] if q['kind'] == 'func'])
            except Exception:
                return 'outside'
            frames.append('%s %d %d %d' % (pr['name'], size, size - og, og))       # as in program_tie: exact for fragment-shaped programs
        poolv = []
        lines_ = text.split('\n')
        for q, ln in enumerate(lines_):
            if re.match(r'^(?:0x)?[0-9a-fA-F]+\s+_const\d+\s', ln) and q + 1 < len(lines_):
                m2 = re.match(r'^(?:0x)?[0-9a-fA-F]+\s+DATA\s+(-?\d+)', lines_[q + 1])
                if m2:
                    v = int(m2.group(1))
                    poolv.append(v - (1 << 32) if v >= (1 << 31) else v)
        fr = ('\n'.join(frames) + '\n' + 'pool ' + ' '.join(str(v) for v in poolv) + '\n').encode()
        # inside the fragment = the VALIDATED compile function of C01_program_partial (opt = 0: simple_procb, numbers_okb,
        # no shadowing, ...) returns an image; the unvalidated opt = 1 output alone says nothing about a program outside it
        rc0, out0, err0 = xcommon._run([_T.hv, 'xmc', 'p.sx', '0'], d, fr, 60)
        m0 = out0.decode().strip()
        if rc0 != 0 or not m0:
            return None
        if m0 in ('none', 'front-error'):
            return 'outside'
        rc, out1, err = xcommon._run([_T.hv, 'xmc', 'p.sx', '1'], d, fr, 60)
        mo = out1.decode().strip()
        if rc != 0 or not mo:
            return None
        if mo in ('none', 'front-error'):
            return 'outside'
        return 'identical' if [int(x) for x in mo.split()] == aout_words(os.path.join(d, 'a.out')) else 'differs'
    except Exception:
        return None
    finally:
        shutil.rmtree(d, ignore_errors=True)


def job(arg):
    """arg = ('gen', seed) | ('src', name, xtext(bytes), inputs, steps, depth)"""
    try:
        if arg[0] == 'gen':
            prog, inputs = xgen.generate(arg[1])
            xtext = None
            name = 'seed%d' % arg[1]
            steps, depth = STEPS, DEPTH
        else:
            _, name, xtext, inputs, steps, depth = arg
            prog = xparse.parse(xtext)
        r = run_one(prog, inputs, xtext, _OPTS.get('monitor', False), _OPTS.get('hexsim', True), steps, depth)
        src = xtext if xtext is not None else xcommon.to_x(prog)
        out = {'name': name, 'arg': arg if arg[0] == 'gen' else ('src', name), 'welldef': r['welldef'], 'ninputs': len(inputs),
               'undef': r['undef'], 'findings': r['findings'], 'broken': r['broken'], 'hash': hashlib.sha1(src).hexdigest()[:16],
               'features': sorted(features(prog)) if r['welldef'] else [], 'src': src.decode('latin-1'), 'inputs': inputs,
               'capacity_rejected': bool(r.get('capacity_rejected')),
               'spec': r['spec'], 'isa': r['isa'], 'unsupported': [s['detail'] for s in (r['spec'] or []) if s['kind'] == 'undef' and s['reason'] == 'Unsupported']}
        # X reader cross-check (C09's XFront.front, a Coq model of the real lexer+parser, as the reader of the program text):
        # the AST handed to XSem as .sx must be the AST the real parser builds from the text handed to xcmp
        if not r['broken']:
            import xfrontcommon
            if xfrontcommon.reader_sampled(arg):
                out['xfront'] = xfrontcommon.reader_crosscheck(_T.hv, src, xcommon.to_sx(prog))
        # a sample of the judged programs: is the program inside the proved model's fragment, and does the model then give the real image
        if r['welldef'] and not r['broken'] and ((arg[0] == 'gen' and arg[1] % 6 == 0) or arg[0] != 'gen'):
            out['model_share'] = model_share(prog, src)
        if not r['findings']:
            out['spec'] = (r['spec'] or [])[:1]
            out['isa'] = (r['isa'] or [])[:1]
            if len(out['src']) > 1500:
                out['src'] = None
        return out
    except Exception as ex:      # a fault of the check itself: reported as broken, never silently dropped
        import traceback
        return {'name': str(arg[:2]), 'arg': arg[:2], 'welldef': 0, 'ninputs': 0, 'undef': {}, 'findings': [], 'features': [], 'unsupported': [],
                'broken': 'check fault: ' + traceback.format_exc()[-800:], 'hash': '', 'src': None, 'inputs': [], 'spec': None, 'isa': None}


def shrink_job(arg):
    """minimise a failing program for one input, keeping the kind of failure"""
    src, inp, kind, budget = arg
    prog = xparse.parse(src.encode('latin-1'))
    mon = _OPTS.get('monitor', False)
    hs = kind.startswith('hexsim')
    deadline = time.time() + 90          # wall-clock bound of one minimisation
    cap = 300000                         # instructions per candidate run while minimising

    def fails(q):
        if time.time() > deadline:
            return False
        try:
            xcommon.to_x(q)
        except ValueError:
            return False
        r = run_one(q, [inp], None, mon, hs, 5000, 100, cap)
        return any(k == kind for k, _, _ in r['findings'])
    try:
        small, used = xgen.shrink(prog, fails, budget)
        r = run_one(small, [inp], None, mon, hs, 5000, 100, cap)
        f = [x for x in r['findings'] if x[0] == kind]
        return {'src': xcommon.to_x(small).decode('latin-1'), 'used': used, 'what': f[0][2] if f else '', 'spec': r['spec'], 'isa': r['isa'],
                'features': sorted(features(small))}
    except Exception as ex:
        import traceback
        return {'src': src, 'used': 0, 'what': 'shrinker fault ' + traceback.format_exc()[-300:], 'spec': None, 'isa': None, 'features': []}


SHIPPED_INPUTS = {
    'mul.x': [[1, 1], [3, 13], [13, 3]], 'div.x': [[1, 1], [13, 3], [3, 13]],
    'fib.x': [[i] for i in range(7)], 'fac.x': [[i] for i in range(6)],
    'mul2.x': [[1, 4], [2, 4], [3, 4], [4, 4]], 'exp2.x': [[1], [2], [3], [4]],
    'hello_putval.x': [[]], 'hello_prints.x': [[]], 'printn.x': [[0], [1], [42], [127]], 'printhex.x': [[0], [1], [42], [127]],
    'strlen.x': [[]], 'bubblesort.x': [[]], 'echo_char.x': [[65], []], 'exit.x': [[]],
}


def corpus_jobs(pid):
    jobs = []
    for f in sorted(glob.glob(os.path.join(vlib.ROOT, 'corpus', pid, '*.x'))):
        inf = f[:-2] + '.inputs'
        inputs = [[]]
        if os.path.exists(inf):
            inputs = [list(bytes.fromhex(l.strip())) if l.strip() != '-' else [] for l in open(inf) if l.strip()]
        jobs.append(('src', 'corpus/' + os.path.basename(f), open(f, 'rb').read(), inputs, STEPS, DEPTH))
    return jobs


def directed_jobs():
    return [('src', 'directed/' + n, s.encode('latin-1'), inps, STEPS, DEPTH) for n, s, inps in xgen.directed()]


def shipped_jobs():
    jobs = []
    for f in sorted(glob.glob(os.path.join(vlib.REPO, 'tests', 'x', '*.x'))):
        b = os.path.basename(f)
        if b in SHIPPED_INPUTS:
            jobs.append(('src', 'tests/x/' + b, open(f, 'rb').read(), SHIPPED_INPUTS[b], 400000, 1500))
    return jobs


# ---------------------------------------------------------------- tie of the proved fragment model (XCodegen*.v) to the real xcmp
FRAG_VARS = ['g0', 'g1', 'l0', 'l1', 'p0', 'p1']


CONST_CHOICES = [0, 0, 1, 2, 3, 7, 15, 16, 255, 256, 4095, 4096, 65535, 65534, 1000, 65536, 70000]
FRAG_ARRAYS = [('a0', 8), ('a1', 3)]
FRAG_ARRS = list(FRAG_ARRAYS)      # the arrays in scope of the procedure being generated: the global arrays and its array formals


def frag_formals(rng):
    """formals of the generated procedure f: value formals p0.. and array formals b0.. in any order; sets FRAG_ARRS;
    returns (formals, names of value formals, the actuals main passes)"""
    global FRAG_ARRS
    nform = rng.choice([0, 1, 2, 2, 4])
    narr = rng.choice([0, 0, 1, 1, 2])
    forms = [('val', 'p%d' % k) for k in range(nform)] + [('array', 'b%d' % k) for k in range(narr)]
    rng.shuffle(forms)
    FRAG_ARRS = list(FRAG_ARRAYS) + [('b%d' % k, 3) for k in range(narr)]
    acts = []
    for q, f in enumerate(forms):
        acts.append(('num', 5 + q) if f[0] == 'val' else ('var', rng.choice(['a0', 'a1'])))
    return forms, nform, acts


def has_array_actual(e):
    """a call of ha / ka (an array name as the actual of an array formal) somewhere in e"""
    if isinstance(e, tuple):
        if e[0] == 'call' and e[1] in ('ha', 'ka'):
            return True
        return any(has_array_actual(x) for x in e[1:])
    if isinstance(e, list):
        return any(has_array_actual(x) for x in e)
    return False


def has_left_call(e):
    """a binary operator whose left operand contains a call or get"""
    if isinstance(e, tuple):
        if e[0] == 'bin' and isinstance(e[2], tuple) and (has_call(e[2]) or has_get(e[2])):
            return True
        return any(has_left_call(x) for x in e[1:])
    if isinstance(e, list):
        return any(has_left_call(x) for x in e)
    return False


def has_call_first_actual(e):
    """a procedure-call statement of h whose first actual contains a call or get"""
    if isinstance(e, tuple):
        if ((e[0] == 'call' and e[1] in ('h', 'put')) or (e[0] == 'sys' and e[1] == 1)) and e[2] and (has_call(e[2][0]) or has_get(e[2][0])):
            return True
        return any(has_call_first_actual(x) for x in e[1:])
    if isinstance(e, list):
        return any(has_call_first_actual(x) for x in e)
    return False


def has_get(e):
    """a get system call somewhere in e"""
    if isinstance(e, tuple):
        if (e[0] == 'call' and e[1] == 'get') or (e[0] == 'sys' and e[1] == 2):
            return True
        return any(has_get(x) for x in e[1:])
    if isinstance(e, list):
        return any(has_get(x) for x in e)
    return False


FRAG_HELPERS = [
    {'kind': 'proc', 'name': 'h', 'formals': [('val', 'a'), ('val', 'b')], 'locals': [], 'body': ('assign', 'g0', ('bin', '+', ('var', 'a'), ('var', 'b')))},
    {'kind': 'proc', 'name': 'h0', 'formals': [], 'locals': [], 'body': ('skip',)},
    {'kind': 'func', 'name': 'k', 'formals': [('val', 'a'), ('val', 'b')], 'locals': [], 'body': ('return', ('bin', '-', ('var', 'a'), ('var', 'b')))},
    {'kind': 'func', 'name': 'k0', 'formals': [], 'locals': [], 'body': ('return', ('num', 3))},
    # array formals: the actual is the address of the cells
    {'kind': 'proc', 'name': 'ha', 'formals': [('array', 'b'), ('val', 'i')], 'locals': [],
     'body': ('assignsub', 'b', ('var', 'i'), ('bin', '+', ('sub', 'b', ('num', 0)), ('var', 'i')))},
    {'kind': 'func', 'name': 'ka', 'formals': [('val', 'i'), ('array', 'b')], 'locals': [], 'body': ('return', ('sub', 'b', ('var', 'i')))}]


def frag_expr(rng, depth, want='int'):
    """an expression of the proved fragment: literals, globals g0/g1, locals l0/l1, value formals p0/p1, + and -
    nested on both sides, the six relational operators, ~, unary minus, and/or (the real compiler's constant
    propagation and rewrites are applied to the model's input by XConstProp.front)"""
    def const():
        v = rng.choice(CONST_CHOICES)
        return ('num', v) if rng.random() < 0.8 else ('num', (-v) % (1 << 32))
    r = rng.random()
    if want == 'bool':
        if depth <= 0 or r < 0.15:
            return rng.choice([('true',), ('false',), ('bin', '<', ('var', rng.choice(FRAG_VARS)), const())])
        if r < 0.6:
            op = rng.choice(['=', '~=', '<', '<=', '>', '>='])
            l, rr = frag_expr(rng, depth - 1), frag_expr(rng, depth - 1 if rng.random() < 0.4 else 0)
            if rng.random() < 0.25:
                rr = ('num', 0)
            if rng.random() < 0.1:
                l = ('num', 0)
            return ('bin', op, l, rr)
        if r < 0.85:
            return ('bin', rng.choice(['and', 'or']), frag_expr(rng, depth - 1, 'bool'), frag_expr(rng, depth - 1, 'bool'))
        return ('not', frag_expr(rng, depth - 1, 'bool'))
    if depth <= 0 or r < 0.15:
        r = rng.random()
        if r < 0.55:
            return ('var', rng.choice(FRAG_VARS))
        if r < 0.65 and FRAG_ARRS:
            a, n = rng.choice(FRAG_ARRS)
            return ('sub', a, ('num', rng.randrange(n)))
        return const()
    if r < 0.22 and FRAG_ARRS:
        a, n = rng.choice(FRAG_ARRS)
        return ('sub', a, frag_expr(rng, depth - 1))
    if r < 0.75:
        return ('bin', rng.choice(['+', '-']), frag_expr(rng, depth - 1), frag_expr(rng, depth - 1 if rng.random() < 0.45 else 0))
    if r < 0.85:
        return ('neg', frag_expr(rng, depth - 1))
    return frag_expr(rng, depth - 1, 'bool')


def listing_instrs(text):
    """(mnemonic, operand) of the lines of an `xcmp -S` listing; labels are ('LABEL', name); branches and LDAP keep
    the label name, other label operands their value"""
    import re
    out = []
    for line in text.split('\n'):
        m = re.match(r'^(?:0x)?[0-9a-fA-F]+\s+(_lab\d+|_exit|_start)\s+\(0 bytes\)', line)
        if m:
            out.append(('LABEL', m.group(1)))
            continue
        m = re.match(r'^(?:0x)?[0-9a-fA-F]+\s+([A-Z]+)\s+(\S+)(?:\s+\((-?\d+)\))?\s+\(\d+ bytes\)', line)
        if not m:
            out.append(('', line.strip()))
            continue
        mn, op, val = m.group(1), m.group(2), m.group(3)
        if mn == 'OPR':
            out.append((op, None))
        elif mn in ('BR', 'BRZ', 'BRN', 'LDAP'):
            out.append((mn, op))
        else:
            out.append((mn, int(val) if val is not None else int(op) if re.match(r'^-?\d+$', op) else op))
    return out


def canon_labels(code):
    """rename labels in order of first appearance"""
    names = {}
    out = []
    for mn, op in code:
        if mn in ('LABEL', 'BR', 'BRZ', 'BRN', 'LDAP'):
            if op not in names:
                names[op] = 'L%d' % len(names)
            out.append((mn, names[op]))
        else:
            out.append((mn, op))
    return out


def model_code(text):
    out = []
    for tok in text.split('; '):
        w = tok.split()
        if len(w) == 1 and w[0].endswith(':'):
            out.append(('LABEL', w[0][:-1]))
        elif len(w) == 1:
            out.append((w[0], None))
        elif w[0] in ('BR', 'BRZ', 'BRN', 'LDAP'):
            out.append((w[0], w[1]))
        else:
            out.append((w[0], int(w[1])))
    return out


def frag_lcall(rng, depth, want='int'):
    """an expression with a call (of a function with call-free actuals, or get) at the bottom of its LEFT spine and simple
    right operands (a literal or a variable): xcmp computes the left operand first, as XSem does"""
    def simple():
        if rng.random() < 0.5:
            return ('var', rng.choice(FRAG_VARS))
        v = rng.choice(CONST_CHOICES)
        return ('num', v)
    e = rng.choice([('call', 'k', [frag_expr(rng, rng.randint(0, 1)), frag_expr(rng, rng.randint(0, 1))]), ('call', 'k0', []),
                    ('call', 'ka', [frag_expr(rng, rng.randint(0, 1)), ('var', rng.choice(FRAG_ARRS)[0])]),
                    ('call', 'get', [('num', 0)]), ('sys', 2, [('num', 0)])])
    for _ in range(rng.randint(1, max(1, depth)) if depth > 0 else 0):
        if rng.random() < 0.55:
            e = ('bin', rng.choice(['+', '-']), e, simple())
        else:
            r = simple() if rng.random() < 0.7 else ('num', 0)
            e = ('bin', rng.choice(['=', '<', '~=', '>=', '=', '<']), e, r)
            if rng.random() < 0.2:
                e = ('not', e)
    if want == 'bool' and not (e[0] == 'not' or (e[0] == 'bin' and e[1] in ('=', '<', '~=', '>='))):
        e = ('bin', rng.choice(['=', '<', '~=']), e, simple())
    return e


def frag_stmt(rng, depth):
    """a statement of the proved fragment (never run: only the generated code is compared)"""
    r = rng.random()
    if depth <= 0 or r < 0.35:
        r = rng.random()
        if r < 0.5:
            return ('assign', rng.choice(FRAG_VARS), frag_expr(rng, rng.randint(0, 3), rng.choice(['int', 'int', 'bool'])))
        if r < 0.6 and FRAG_ARRS:
            a, n = rng.choice(FRAG_ARRS)
            return ('assignsub', a, frag_expr(rng, rng.randint(0, 2)), frag_expr(rng, rng.randint(0, 2), rng.choice(['int', 'int', 'bool'])))
        if r < 0.6:
            return ('assign', rng.choice(FRAG_VARS), frag_expr(rng, rng.randint(0, 3), rng.choice(['int', 'int', 'bool'])))
        if r < 0.7:
            e = [frag_expr(rng, rng.randint(0, 2)), rng.choice([('num', 0), ('var', 'g1'), frag_expr(rng, 1)])]
            if rng.random() < 0.25:
                # the byte has a call on its left spine, the stream is simple
                e = [frag_lcall(rng, rng.randint(0, 2)), rng.choice([('num', 0), ('num', 0), ('var', 'g1')])]
            return ('call', 'put', e) if rng.random() < 0.5 else ('sys', 1, e)
        if r < 0.78:
            # a procedure call with call-free actuals (an array in scope as the actual of an array formal)
            if rng.random() < 0.25:
                # the first actual has a call on its left spine, the others are simple
                return ('call', 'h', [frag_lcall(rng, rng.randint(0, 2)) if rng.random() < 0.8 else ('call', 'k0', []),
                                      rng.choice([('var', rng.choice(FRAG_VARS)), ('num', rng.choice(CONST_CHOICES))])])
            return rng.choice([('call', 'h', [frag_expr(rng, rng.randint(0, 2)), frag_expr(rng, rng.randint(0, 2), rng.choice(['int', 'bool']))]),
                               ('call', 'h0', []),
                               ('call', 'ha', [('var', rng.choice(FRAG_ARRS)[0]), frag_expr(rng, rng.randint(0, 2))])])
        if r < 0.82:
            # a function call with call-free actuals as the whole right-hand side / the whole value of a return
            c = rng.choice([('call', 'k', [frag_expr(rng, rng.randint(0, 2)), frag_expr(rng, rng.randint(0, 2), rng.choice(['int', 'bool']))]),
                            ('call', 'k0', []),
                            ('call', 'ka', [frag_expr(rng, rng.randint(0, 2)), ('var', rng.choice(FRAG_ARRS)[0])])])
            if rng.random() < 0.4:
                c = frag_lcall(rng, rng.randint(1, 3))
            return ('assign', rng.choice(FRAG_VARS), c) if rng.random() < 0.7 else ('return', c)
        if r < 0.85:
            # get as the whole right-hand side / the whole value of a return (the stream: mostly the console)
            st = rng.choice([('num', 0), ('num', 0), ('num', 0), ('num', 255), frag_expr(rng, 1)])
            c = rng.choice([('call', 'get', [st]), ('sys', 2, [st])])
            return ('assign', rng.choice(FRAG_VARS), c) if rng.random() < 0.8 else ('return', c)
        if r < 0.87:
            return ('return', frag_expr(rng, rng.randint(0, 2), rng.choice(['int', 'bool'])))
        if r < 0.9:
            return ('sys', 0, [frag_expr(rng, rng.randint(0, 2))])
        if r < 0.95:
            return ('stop',)
        return ('skip',)
    if r < 0.6:
        t = frag_stmt(rng, depth - 1) if rng.random() < 0.8 else ('skip',)
        e = frag_stmt(rng, depth - 1) if rng.random() < 0.6 else ('skip',)
        c = frag_lcall(rng, rng.randint(1, 2), 'bool') if rng.random() < 0.15 and (t != ('skip',) or e != ('skip',)) else frag_expr(rng, rng.randint(0, 2), 'bool')
        return ('if', c, t, e)
    if r < 0.75:
        c = frag_lcall(rng, rng.randint(1, 2), 'bool') if rng.random() < 0.2 else frag_expr(rng, rng.randint(0, 2), 'bool')
        return ('while', c, frag_stmt(rng, depth - 1))
    return ('seq', [frag_stmt(rng, depth - 1) for _ in range(rng.randint(1, 4))])


# ---------------------------------------------------------------- whole fragment programs for the two ties
# several generated procedures and functions that call each other (and themselves, with a decreasing counter), 0..4
# formals mixing val and array, 0..20 locals (frame offsets that need prefixed operands), random global declaration lists
# (vals between vars, 1..4 arrays of length 1..40, occasionally one large array), constants from the corner set; bodies are
# built so that most runs are well-defined in XSem (variables initialised, subscripts mostly in range, bounded loops)
FG_CORNERS = [0, 1, 2, 3, 7, 15, 16, 17, 255, 256, 257, 4095, 4096, 65535, 65536, 65537, 70000, 1000000, (1 << 30), (1 << 31) - 2, (1 << 31) - 1]


class FgEnv:
    def __init__(self):
        self.vars = []        # readable integer variables (initialised)
        self.assign = []      # assignable ones
        self.arrs = []        # (name, known length) arrays in scope
        self.funcs = []       # callable functions {'name', 'formals'}
        self.procs = []       # callable procedures
        self.loopvar = None   # a local reserved as the counter of bounded loops
        self.in_loop = False
        self.vals = []        # global val names (constants)


def fg_const(rng, small=False):
    r = rng.random()
    if small or r < 0.55:
        return ('num', rng.choice([0, 0, 1, 1, 2, 3, 5, 7, 9]))
    if r < 0.85:
        v = rng.choice(FG_CORNERS)
    elif r < 0.93:
        v = -rng.choice(FG_CORNERS + [1 << 31])
    else:
        v = rng.randrange(-(1 << 31), 1 << 31)
    if v >= 0:
        return ('num', v)
    return ('num', v % (1 << 32)) if rng.random() < 0.7 else ('neg', ('num', -v))


def fg_simple(rng, env):
    r = rng.random()
    if r < 0.5 and env.vars:
        return ('var', rng.choice(env.vars))
    if r < 0.6 and env.vals:
        return ('var', rng.choice(env.vals))
    return fg_const(rng, rng.random() < 0.6)


def fg_index(rng, env, a, n):
    r = rng.random()
    if r < 0.75 or not env.vars:
        return ('num', rng.randrange(min(n, 40)))
    if r < 0.9:
        return ('bin', '-', ('num', rng.randrange(min(n, 40)) + 3), ('num', 3))
    return fg_expr(rng, env, 1)


def fg_expr(rng, env, depth, want='int'):
    """a call-free expression of the fragment"""
    r = rng.random()
    if want == 'bool':
        if depth <= 0 or r < 0.2:
            return rng.choice([('true',), ('false',), ('bin', '<', fg_simple(rng, env), fg_const(rng, True))])
        if r < 0.65:
            op = rng.choice(['=', '~=', '<', '<=', '>', '>='])
            l, rr = fg_expr(rng, env, depth - 1), fg_expr(rng, env, depth - 1 if rng.random() < 0.4 else 0)
            if rng.random() < 0.25:
                rr = ('num', 0)
            if rng.random() < 0.1:
                l = ('num', 0)
            return ('bin', op, l, rr)
        if r < 0.87:
            return ('bin', rng.choice(['and', 'or']), fg_expr(rng, env, depth - 1, 'bool'), fg_expr(rng, env, depth - 1, 'bool'))
        return ('not', fg_expr(rng, env, depth - 1, 'bool'))
    if depth <= 0 or r < 0.2:
        r = rng.random()
        if r < 0.15 and env.arrs:
            a, n = rng.choice(env.arrs)
            return ('sub', a, ('num', rng.randrange(min(n, 40))))
        return fg_simple(rng, env)
    if r < 0.3 and env.arrs:
        a, n = rng.choice(env.arrs)
        return ('sub', a, fg_index(rng, env, a, n))
    if r < 0.8:
        return ('bin', rng.choice(['+', '-']), fg_expr(rng, env, depth - 1), fg_expr(rng, env, depth - 1 if rng.random() < 0.45 else 0))
    if r < 0.87:
        return ('neg', fg_expr(rng, env, depth - 1))
    return fg_expr(rng, env, depth - 1, 'bool')


def fg_actuals(rng, env, callee, selfdepth=None, first=None):
    """actuals for the callee: call-free expressions for val formals (small constants for a recursion depth), names of
    arrays in scope for array formals; `first`: an expression to use as the first actual (then the others are simple)"""
    acts = []
    for q, f in enumerate(callee['formals']):
        if f[0] == 'array':
            acts.append(('var', rng.choice(env.arrs)[0]))
        elif callee['name'] in ('ha', 'ka'):
            acts.append(('num', 0))
        elif q == 0 and first is not None:
            acts.append(first)
        elif q == 0 and callee.get('rec'):
            acts.append(selfdepth if selfdepth is not None else ('num', rng.choice([0, 1, 2, 3])))
        elif first is not None:
            acts.append(fg_simple(rng, env))
        else:
            acts.append(fg_expr(rng, env, rng.randint(0, 2), rng.choice(['int', 'int', 'int', 'bool'])))
    return acts


def fg_callable(env, lst):
    return [c for c in lst if all(f[0] != 'array' for f in c['formals']) or env.arrs]


def fg_lcall(rng, env, depth, want='int'):
    """a call of a function (call-free actuals) or get at the bottom of the left spine, simple right operands"""
    fs = fg_callable(env, env.funcs)
    if fs and rng.random() < 0.7:
        f = rng.choice(fs)
        e = ('call', f['name'], fg_actuals(rng, env, f))
    else:
        e = rng.choice([('call', 'get', [('num', 0)]), ('sys', 2, [('num', 0)])])
    for _ in range(rng.randint(1, max(1, depth)) if depth > 0 else 0):
        if rng.random() < 0.55:
            e = ('bin', rng.choice(['+', '-']), e, fg_simple(rng, env))
        else:
            r = fg_simple(rng, env) if rng.random() < 0.7 else ('num', 0)
            e = ('bin', rng.choice(['=', '<', '~=', '>=', '=', '<']), e, r)
            if rng.random() < 0.2:
                e = ('not', e)
    if want == 'bool' and not (e[0] == 'not' or (e[0] == 'bin' and e[1] in ('=', '<', '~=', '>='))):
        e = ('bin', rng.choice(['=', '<', '~=']), e, fg_simple(rng, env))
    return e


def fg_stmt(rng, env, depth):
    r = rng.random()
    if depth <= 0 or r < 0.4:
        r = rng.random()
        if r < 0.3 and env.assign:
            return ('assign', rng.choice(env.assign), fg_expr(rng, env, rng.randint(0, 3), rng.choice(['int', 'int', 'int', 'bool'])))
        if r < 0.42 and env.arrs:
            a, n = rng.choice(env.arrs)
            return ('assignsub', a, fg_index(rng, env, a, n), fg_expr(rng, env, rng.randint(0, 2), rng.choice(['int', 'int', 'bool'])))
        if r < 0.52:
            e = [fg_expr(rng, env, rng.randint(0, 2)), rng.choice([('num', 0), ('num', 0), ('num', 0), fg_simple(rng, env)])]
            if rng.random() < 0.3:
                e = [fg_lcall(rng, env, rng.randint(0, 2)), ('num', 0)]
            return ('call', 'put', e) if rng.random() < 0.5 else ('sys', 1, e)
        if r < 0.68:
            ps = fg_callable(env, env.procs)
            if ps:
                c = rng.choice(ps)
                nval = [f for f in c['formals'] if f[0] == 'val']
                if c['formals'] and c['formals'][0][0] == 'val' and not c.get('rec') and rng.random() < 0.3:
                    return ('call', c['name'], fg_actuals(rng, env, c, first=fg_lcall(rng, env, rng.randint(0, 2))))
                return ('call', c['name'], fg_actuals(rng, env, c))
        if r < 0.82 and env.assign:
            x = rng.choice(env.assign)
            q = rng.random()
            fs = fg_callable(env, env.funcs)
            if q < 0.4 and fs:
                f = rng.choice(fs)
                return ('assign', x, ('call', f['name'], fg_actuals(rng, env, f)))
            if q < 0.6:
                return ('assign', x, rng.choice([('call', 'get', [('num', 0)]), ('sys', 2, [('num', 0)])]))
            return ('assign', x, fg_lcall(rng, env, rng.randint(1, 3)))
        if r < 0.86:
            return ('sys', 0, [fg_expr(rng, env, rng.randint(0, 1))]) if rng.random() < 0.5 else ('stop',)
        if r < 0.93 and env.assign:
            return ('assign', rng.choice(env.assign), fg_expr(rng, env, 1))
        return ('skip',)
    if r < 0.62:
        t = fg_stmt(rng, env, depth - 1) if rng.random() < 0.85 else ('skip',)
        e = fg_stmt(rng, env, depth - 1) if rng.random() < 0.6 else ('skip',)
        c = fg_lcall(rng, env, rng.randint(1, 2), 'bool') if rng.random() < 0.2 and (t != ('skip',) or e != ('skip',)) else fg_expr(rng, env, rng.randint(0, 2), 'bool')
        return ('if', c, t, e)
    if r < 0.8:
        q = rng.random()
        if q < 0.6 and env.loopvar and not env.in_loop:
            # a bounded loop on the reserved counter
            env.in_loop = True
            b = fg_stmt(rng, env, depth - 1)
            env.in_loop = False
            k = rng.randint(1, 4)
            lv = env.loopvar
            return ('seq', [('assign', lv, ('num', 0)),
                            ('while', ('bin', '<', ('var', lv), ('num', k)), ('seq', [b, ('assign', lv, ('bin', '+', ('var', lv), ('num', 1)))]))])
        if q < 0.8:
            # read the console to its end
            return ('while', rng.choice([('not', ('bin', '=', ('call', 'get', [('num', 0)]), ('num', 255))), ('bin', '<', ('call', 'get', [('num', 0)]), ('num', 255)),
                                         ('bin', '~=', ('sys', 2, [('num', 0)]), ('num', 255))]),
                    fg_stmt(rng, env, 0) if not env.in_loop else ('skip',))
        if q < 0.9:
            return ('while', ('false',) if rng.random() < 0.5 else ('bin', '<', fg_simple(rng, env), ('num', 0)), fg_stmt(rng, env, depth - 1))
        return ('while', fg_expr(rng, env, rng.randint(0, 2), 'bool'), fg_stmt(rng, env, depth - 1))
    return ('seq', [fg_stmt(rng, env, depth - 1) for _ in range(rng.randint(1, 4))])


def frag_program(rng):
    """-> (program, the generated procedures)"""
    genv = FgEnv()
    glob = [('val', 'put', ('num', 1)), ('val', 'get', ('num', 2))]
    decls = []
    gvars = ['g%d' % k for k in range(rng.randint(1, 4))]
    decls += [('var', g) for g in gvars]
    arrs = [('a%d' % k, rng.choice([1, 1, 2, 3, 4, 8, 13, 40, rng.randint(1, 40)])) for k in range(rng.randint(1, 4))]
    if rng.random() < 0.15:
        arrs.append(('big', rng.choice([1000, 5000, 60000, 150000])))
    decls += [('array', a, ('num', n)) for a, n in arrs]
    nval = rng.choice([0, 0, 1, 2])
    vals = []
    for k in range(nval):
        c = fg_const(rng)
        if c[0] == 'num':
            vals.append('v%d' % k)
            decls.append(('val', 'v%d' % k, c))
    rng.shuffle(decls)
    glob += decls
    genv.vars = list(gvars); genv.assign = list(gvars); genv.arrs = list(arrs); genv.vals = list(vals)
    helpers = [dict(h) for h in FRAG_HELPERS]
    genv.funcs = [h for h in helpers if h['kind'] == 'func']
    genv.procs = [h for h in helpers if h['kind'] == 'proc']
    gen = []
    for i in range(rng.randint(2, 5)):
        kind = rng.choice(['func', 'proc', 'proc'])
        name = 'f%d' % i
        nform = rng.choice([0, 1, 2, 2, 3, 4])
        forms = [(rng.choice(['val', 'val', 'array']), None) for _ in range(nform)]
        forms = [(k, ('p%d' % q) if k == 'val' else ('b%d' % q)) for q, (k, _) in enumerate(forms)]
        rec = bool(forms) and forms[0][0] == 'val' and rng.random() < 0.4
        nloc = rng.choice([0, 1, 2, 3, 5, 8, 12, 20])
        locs = ['l%d' % q for q in range(nloc)]
        env = FgEnv()
        env.vals = list(vals)
        env.vars = gvars + [n for k, n in forms if k == 'val'] + locs
        env.assign = [v for v in env.vars if not (rec and v == forms[0][1])]
        env.arrs = arrs + [(n, 1) for k, n in forms if k == 'array']
        env.funcs = list(genv.funcs); env.procs = list(genv.procs)
        if locs and rng.random() < 0.7:
            env.loopvar = locs[-1]
            env.vars = [v for v in env.vars if v != locs[-1]]
            env.assign = [v for v in env.assign if v != locs[-1]]
        me = {'kind': kind, 'name': name, 'formals': forms, 'rec': rec}
        init = [('assign', l, fg_const(rng, True)) for l in locs]
        body = [fg_stmt(rng, env, rng.randint(0, 3)) for _ in range(rng.randint(1, 4))]
        if rec:
            d = forms[0][1]
            selfcall = ('call', name, fg_actuals(rng, env, me, selfdepth=('bin', '-', ('var', d), ('num', 1))))
            if kind == 'func':
                step = rng.choice([('return', selfcall), ('return', ('bin', '+', selfcall, fg_simple(rng, env))),
                                   ('seq', [('assign', rng.choice(env.assign), selfcall), ('return', fg_expr(rng, env, 1))]) if env.assign else ('return', selfcall)])
                base = ('return', fg_expr(rng, env, 1))
            else:
                step = selfcall
                base = rng.choice([('skip',), fg_stmt(rng, env, 0)])
            body = [('if', ('bin', '<', ('var', d), ('num', 1)), base, ('seq', body + [step]))]
        if kind == 'func':
            body.append(('return', fg_expr(rng, env, rng.randint(0, 3), rng.choice(['int', 'int', 'bool']))))
        pr = {'kind': kind, 'name': name, 'formals': forms, 'locals': [('var', l) for l in locs], 'body': ('seq', init + body)}
        gen.append(pr)
        (genv.funcs if kind == 'func' else genv.procs).append(me)
    # main: initialise the globals and the arrays, call every generated procedure, echo one byte
    menv = FgEnv()
    menv.vars = list(gvars); menv.assign = list(gvars); menv.arrs = list(arrs); menv.vals = list(vals)
    menv.funcs = list(genv.funcs); menv.procs = list(genv.procs)
    mb = [('assign', g, fg_const(rng, True)) for g in gvars]
    for a, n in arrs:
        k = min(n, 40)
        mb.append(('seq', [('assign', gvars[0], ('num', 0)),
                           ('while', ('bin', '<', ('var', gvars[0]), ('num', k)),
                            ('seq', [('assignsub', a, ('var', gvars[0]), ('bin', '+', ('var', gvars[0]), ('num', rng.randint(0, 5)))),
                                     ('assign', gvars[0], ('bin', '+', ('var', gvars[0]), ('num', 1)))]))]))
    mb.append(('assign', gvars[0], fg_const(rng, True)))
    for pr in gen:
        me = {'kind': pr['kind'], 'name': pr['name'], 'formals': pr['formals'], 'rec': any(c['name'] == pr['name'] and c.get('rec') for c in genv.funcs + genv.procs)}
        acts = fg_actuals(rng, menv, me)
        mb.append(('assign', rng.choice(gvars), ('call', pr['name'], acts)) if pr['kind'] == 'func' else ('call', pr['name'], acts))
    mb += [('sys', 1, [('bin', '+', ('var', gvars[0]), ('num', 48)), ('num', 0)]),
           ('assign', gvars[-1], ('call', 'get', [('num', 0)])), ('sys', 1, [('var', gvars[-1]), ('num', 0)])]
    main = {'kind': 'proc', 'name': 'main', 'formals': [], 'locals': [], 'body': ('seq', mb)}
    procs = gen + helpers + [main]
    if rng.random() < 0.3:
        rng.shuffle(procs)
    return {'globals': glob, 'procs': procs}, gen


def listing_proc(ins, kind, name):
    """(instructions of the procedure in an `xcmp -S` listing, its frame size)"""
    k = ins.index(('FUNC' if kind == 'func' else 'PROC', name))
    size = 0
    if ins[k + 1:k + 3] == [('LDBM', 1), ('STAI', 0)] and ins[k + 3][0] == 'LDAC' and ins[k + 4] == ('ADD', None) and ins[k + 5] == ('STAM', 1) and ins[k + 3][1] < 0:
        size = -ins[k + 3][1]
    end = next(q for q in range(k + 1, len(ins)) if ins[q][0] in ('PROC', 'FUNC') or str(ins[q][1]).startswith('PADDING') or ins[q][0] == 'PADDING')
    return [x for x in ins[k + 1:end] if x[0] != ''], size


def has_many_actuals(e):
    if isinstance(e, tuple):
        if e[0] == 'call' and isinstance(e[2], list) and (len(e[2]) >= 3 or sum(1 for x in e[2] if x[0] == 'var' and (x[1].startswith('a') or x[1].startswith('b') or x[1] == 'big')) >= 2):
            return True
        return any(has_many_actuals(x) for x in e[1:])
    if isinstance(e, list):
        return any(has_many_actuals(x) for x in e)
    return False


def fragment_tie(ck, tools, scr, n):
    """the extracted model (XConstProp.front, then XCodegenStmt.cproc: prologue, statement code, exit label, epilogue,
    peepholes) against the instructions the real xcmp emits for the same procedures and functions (frag_program: several
    per program, calling each other), compared up to a consistent renaming of the labels"""
    import re
    rng = ck.rng
    d = tempfile.mkdtemp(dir=scr)
    agree = outside = nprocs = 0
    cnt = {'array_formals': 0, 'array_actuals': 0, 'get': 0, 'call_or_get_as_left_operand': 0, 'call_in_first_actual': 0,
           'three_or_more_actuals_or_two_arrays': 0, 'recursive': 0, 'frame_of_16_words_or_more': 0, 'pool_constants': 0, 'calls_of_generated_procedures': 0}
    sample = None
    for i in range(n):
        prog, gen = frag_program(rng)
        glob = prog['globals']
        src = xcommon.to_x(prog)
        open(os.path.join(d, 'f.x'), 'wb').write(src)
        open(os.path.join(d, 'f.sx'), 'w').write(xcommon.to_sx(prog))
        rc, out, err = xcommon._run([tools.xcmp, 'f.x', '-S'], d, timeout=60)
        if rc != 0:
            ck.broken.append('fragment tie: xcmp -S failed on %r: %s' % (src.decode('latin-1'), err[-200:]))
            break
        text = out.decode('latin-1')
        ins = listing_instrs(text)
        # addresses of the global variables: the DATA words after the stack pointer, in declaration order
        gdecl = [g for g in glob if g[0] in ('var', 'array')]
        gmap = ' '.join(('%s=%d' if g[0] == 'var' else '@%s=%d') % (g[1], 2 + q) for q, g in enumerate(gdecl))
        poolmap = []
        lines_ = text.split('\n')
        for q, ln in enumerate(lines_):
            m = re.match(r'^(?:0x)?([0-9a-fA-F]+)\s+_const\d+\s', ln)
            if m and q + 1 < len(lines_):
                m2 = re.match(r'^(?:0x)?([0-9a-fA-F]+)\s+DATA\s+(-?\d+)', lines_[q + 1])
                if m2:
                    v = int(m2.group(2))
                    if v >= (1 << 31):
                        v -= 1 << 32
                    poolmap.append('#%d=%d' % (v, int(m2.group(1), 16) // 4))
        codes = []
        try:
            for pr in gen:
                codes.append(listing_proc(ins, pr['kind'], pr['name']))
        except (ValueError, StopIteration):
            ck.broken.append('fragment tie: cannot locate the generated procedures in the listing of %r' % src.decode('latin-1'))
            break
        lines = ''.join('%s size=%d og=%d %s %s\n' % (pr['name'], size, max(size, 8), gmap, ' '.join(poolmap)) for pr, (code, size) in zip(gen, codes))
        rc, out, err = xcommon._run([tools.hv, 'xcg', 'f.sx'], d, lines.encode(), 60)
        mos = out.decode().strip().split('\n')
        if rc != 0 or len(mos) != len(gen) or 'front-error' in mos:
            ck.broken.append('extracted model failed rc=%d %s %s on %r' % (rc, mos[:1], err[-200:], src.decode('latin-1')))
            break
        names = set(q['name'] for q in gen)
        for pr, (code, size), mo in zip(gen, codes, mos):
            nprocs += 1
            if mo == 'none':
                outside += 1
                continue
            want = canon_labels(model_code(mo))
            got = canon_labels(code)
            if want != got:
                ck.broken.append('model XCodegenStmt.cproc differs from the real xcmp on procedure %s of %r: model %r, xcmp %r' % (pr['name'], src.decode('latin-1'), want, got))
                continue
            agree += 1
            body = pr['body']
            cnt['array_formals'] += any(f[0] == 'array' for f in pr['formals'])
            cnt['array_actuals'] += has_arr_act(body)
            cnt['get'] += has_get(body)
            cnt['call_or_get_as_left_operand'] += has_left_call(body)
            cnt['call_in_first_actual'] += has_call_first_actual_any(body, names)
            cnt['three_or_more_actuals_or_two_arrays'] += has_many_actuals(body)
            cnt['recursive'] += has_self_call(pr)
            cnt['frame_of_16_words_or_more'] += size >= 16
            cnt['pool_constants'] += bool(poolmap)
            cnt['calls_of_generated_procedures'] += calls_any(body, names)
            if sample is None and len(src) < 1500:
                sample = {'x_source': src.decode('latin-1'), 'procedure': pr['name'], 'model_and_xcmp': mo}
        if len(ck.broken) > 3:
            break
    ck.cov['fragment_model_tie'] = dict({'programs': n, 'procedures': nprocs, 'in_fragment_identical_code': agree, 'outside_fragment': outside},
                                        **{'identical_with_' + k: v for k, v in cnt.items()})
    if sample:
        ck.sample(sample)
    shutil.rmtree(d, ignore_errors=True)


def has_arr_act(e):
    """a call with the name of an array (a global array or an array formal) among its actuals"""
    import re
    if isinstance(e, tuple):
        if e[0] == 'call' and isinstance(e[2], list) and any(x[0] == 'var' and re.match(r'^(a\d+|b\d+|big)$', x[1]) for x in e[2]):
            return True
        return any(has_arr_act(x) for x in e[1:])
    if isinstance(e, list):
        return any(has_arr_act(x) for x in e)
    return False


def calls_any(e, names):
    if isinstance(e, tuple):
        if e[0] == 'call' and e[1] in names:
            return True
        return any(calls_any(x, names) for x in e[1:])
    if isinstance(e, list):
        return any(calls_any(x, names) for x in e)
    return False


def has_call_first_actual_any(e, names):
    """a procedure-call statement (of a helper or a generated procedure) or a put whose first actual contains a call or get"""
    if isinstance(e, tuple):
        if ((e[0] == 'call' and (e[1] in names or e[1] in ('h', 'put'))) or (e[0] == 'sys' and e[1] == 1)) and e[2] and (has_call(e[2][0]) or has_get(e[2][0])):
            return True
        return any(has_call_first_actual_any(x, names) for x in e[1:])
    if isinstance(e, list):
        return any(has_call_first_actual_any(x, names) for x in e)
    return False


def aout_words(path):
    """the image words of a hex binary: header word = number of image words, then the image"""
    import struct
    dta = open(path, 'rb').read()
    n = struct.unpack('<I', dta[:4])[0]
    return list(struct.unpack('<%dI' % n, dta[4:4 + 4 * n]))


def proc_og(body, funcs=('k', 'k0', 'ka')):
    """outgoing words a procedure body needs: link [+ result] + actuals of its widest call; 3 for exit, 4 for put"""
    og = 0
    def ex(e):
        nonlocal og
        if not isinstance(e, tuple):
            return
        if e[0] == 'call' and isinstance(e[2], list):
            og = max(og, len(e[2]) + (2 if e[1] in funcs or e[1] in ('put', 'get') else 1))
        if e[0] == 'sys':
            og = max(og, 4 if e[1] == 1 else 3)
        for x in e[1:]:
            if isinstance(x, tuple):
                ex(x)
            elif isinstance(x, list):
                for y in x:
                    ex(y)
    ex(body)
    return og


def program_tie(ck, tools, scr, n):
    """whole programs of the proved fragment through XCodegenProgram.model_compile (extracted; hvmain xmc) against the
    real xcmp: opt = 1 (with the peephole pass) must give the words of xcmp's binary; opt = 0 (the validated image of
    the lowered code, the compile function of C01_program_partial) must succeed, and its image is run on the ISA and
    must show what XSem says"""
    import re
    global CONST_CHOICES
    rng = ck.rng
    d = tempfile.mkdtemp(dir=scr)
    saved = CONST_CHOICES
    stats = {'programs': 0, 'programs_with_pool_constants': 0, 'byte_identical_to_xcmp': 0, 'differing': 0, 'model_none_opt': 0,
             'validated_image_ok': 0, 'validated_image_none': 0, 'isa_runs_compared': 0, 'lowered_and_optimised_image_show_the_same': 0,
             'byte_identical_with_array_formals': 0, 'byte_identical_with_array_actuals': 0,
             'well_defined': 0, 'well_defined_lowered_image_shows_the_spec': 0, 'ill_defined': 0, 'ill_defined_images_differ': 0,
             'programs_reading_input': 0, 'well_defined_consuming_input': 0, 'byte_identical_with_call_or_get_as_left_operand': 0, 'byte_identical_with_call_in_first_actual': 0,
             'byte_identical_with_three_or_more_actuals_or_two_arrays': 0, 'byte_identical_with_recursion': 0,
             'byte_identical_with_frame_of_16_words_or_more': 0, 'byte_identical_with_large_array': 0}
    reasons = {}
    for i in range(n):
        prog, gen = frag_program(rng)
        procs = prog['procs']
        body = [pr['body'] for pr in gen]
        forms = [f for pr in gen for f in pr['formals']]
        gnames = set(pr['name'] for pr in gen)
        src = xcommon.to_x(prog)
        open(os.path.join(d, 'p.x'), 'wb').write(src)
        open(os.path.join(d, 'p.sx'), 'w').write(xcommon.to_sx(prog))
        st, detail = xcommon.compile_x(tools.xcmp, d, 'p.x')
        rc, out, err = xcommon._run([tools.xcmp, 'p.x', '-S'], d, timeout=60)
        if st != 'ok' or rc != 0:
            ck.broken.append('program tie: xcmp failed on %r: %s' % (src.decode('latin-1'), detail))
            break
        stats['programs'] += 1
        real = aout_words(os.path.join(d, 'a.out'))
        ins = listing_instrs(out.decode('latin-1'))
        frames = []
        for pr in procs:
            k = ins.index(('FUNC' if pr['kind'] == 'func' else 'PROC', pr['name']))
            size = -ins[k + 3][1] if ins[k + 1:k + 3] == [('LDBM', 1), ('STAI', 0)] and ins[k + 3][0] == 'LDAC' and ins[k + 4] == ('ADD', None) and ins[k + 5] == ('STAM', 1) and ins[k + 3][1] < 0 else 0
            og = proc_og(pr['body'], [q['name'] for q in procs if q['kind'] == 'func'])
            frames.append('%s %d %d %d' % (pr['name'], size, size - og, og))
        poolv = []
        lines_ = out.decode('latin-1').split('\n')
        for q, ln in enumerate(lines_):
            if re.match(r'^(?:0x)?[0-9a-fA-F]+\s+_const\d+\s', ln) and q + 1 < len(lines_):
                m2 = re.match(r'^(?:0x)?[0-9a-fA-F]+\s+DATA\s+(-?\d+)', lines_[q + 1])
                if m2:
                    v = int(m2.group(1))
                    poolv.append(v - (1 << 32) if v >= (1 << 31) else v)
        if poolv:
            stats['programs_with_pool_constants'] += 1
        fr = ('\n'.join(frames) + '\n' + 'pool ' + ' '.join(str(v) for v in poolv) + '\n').encode()
        rc, out1, err = xcommon._run([tools.hv, 'xmc', 'p.sx', '1'], d, fr, 60)
        mo = out1.decode().strip()
        if rc != 0 or not mo or mo == 'front-error':
            ck.broken.append('program tie: extracted model_compile failed rc=%d %s %s on %r' % (rc, mo, err[-200:], src.decode('latin-1')))
            break
        if mo == 'none':
            stats['model_none_opt'] += 1
            why = 'outside the model'
            reasons[why] = reasons.get(why, 0) + 1
            continue
        model = [int(x) for x in mo.split()]
        if model == real:
            stats['byte_identical_to_xcmp'] += 1
            stats['byte_identical_with_array_formals'] += any(f[0] == 'array' for f in forms)
            stats['byte_identical_with_array_actuals'] += has_arr_act(body)
            stats['byte_identical_with_call_or_get_as_left_operand'] += has_left_call(body)
            stats['byte_identical_with_call_in_first_actual'] += has_call_first_actual_any(body, gnames)
            stats['byte_identical_with_three_or_more_actuals_or_two_arrays'] += has_many_actuals(body)
            stats['byte_identical_with_recursion'] += any(has_self_call(pr) for pr in gen)
            stats['byte_identical_with_frame_of_16_words_or_more'] += any(int(fl.split()[1]) >= 16 for fl in frames)
            stats['byte_identical_with_large_array'] += any(g[0] == 'array' and g[2][1] >= 1000 for g in prog['globals'])
        else:
            stats['differing'] += 1
            why = 'length %d vs %d' % (len(model), len(real)) if len(model) != len(real) else 'same length, words differ'
            reasons[why] = reasons.get(why, 0) + 1
            ck.broken.append('XCodegenProgram.model_compile (opt) differs from the binary of the real xcmp on %r: %s' % (src.decode('latin-1'), why))
            if len(ck.broken) > 3:
                break
        rc, out0, err = xcommon._run([tools.hv, 'xmc', 'p.sx', '0'], d, fr, 60)
        m0 = out0.decode().strip()
        if rc != 0 or not m0:
            ck.broken.append('program tie: model_compile (validated) crashed on %r' % src.decode('latin-1'))
            break
        if m0 == 'none':
            stats['validated_image_none'] += 1
        else:
            stats['validated_image_ok'] += 1
            # the proved image (lowered code) and xcmp's binary (peepholes applied), both run on the extracted ISA
            import struct
            low = [int(x) for x in m0.split()]
            open(os.path.join(d, 'low.out'), 'wb').write(struct.pack('<I', len(low)) + b''.join(struct.pack('<I', w) for w in low))
            inputs = [[], [72, 105, 33, 10, 200, 0, 7]]
            ra, ea = xcommon.run_isa(tools.hv, os.path.join(d, 'a.out'), inputs, 200000)
            rl, el = xcommon.run_isa(tools.hv, os.path.join(d, 'low.out'), inputs, 200000)
            if ra is None or rl is None:
                ck.broken.append('program tie: the ISA runner failed: %s %s' % (ea, el))
                break
            # what XSem says: for a well-defined (program, input) both images must show exactly that (for the lowered image
            # this is the statement of C01_program_partial, the consumed input included); an ill-defined program (a subscript
            # out of range stores anywhere, e.g. to a link word, and the two images have different code addresses) may differ
            # between the images: counted only
            spec, e = xcommon.run_xsem(tools.hv, os.path.join(d, 'p.sx'), inputs, STEPS, DEPTH)
            if spec is None:
                ck.broken.append('program tie: the XSem runner failed: %s' % e)
                break
            stats['programs_reading_input'] += has_get(body)
            for q in range(len(inputs)):
                same = all(ra[q][k] == rl[q][k] for k in ('end', 'code', 'out', 'consumed'))
                stats['isa_runs_compared'] += 1
                if same:
                    stats['lowered_and_optimised_image_show_the_same'] += 1
                sp_ = spec[q]
                if sp_['kind'] == 'behaviour':
                    stats['well_defined'] += 1
                    if sp_['consumed'] > 0:
                        stats['well_defined_consuming_input'] += 1
                    for nm, m in (('the validated lowered image of model_compile', rl[q]), ('the binary of xcmp', ra[q])):
                        if m['end'] != 'exit' or m['code'] != sp_['exit'] or m['out'] != sp_['out'] or m['consumed'] != sp_['consumed']:
                            ck.broken.append('%s does not show the behaviour XSem gives on %r, input %r: %r, spec %r' % (nm, src.decode('latin-1'), inputs[q], m, sp_))
                        elif nm.startswith('the validated'):
                            stats['well_defined_lowered_image_shows_the_spec'] += 1
                else:
                    stats['ill_defined'] += 1
                    if not same:
                        stats['ill_defined_images_differ'] += 1
            if len(ck.broken) > 3:
                break
    CONST_CHOICES = saved
    ck.cov['program_model_tie'] = dict(stats, reasons_not_identical=reasons)
    shutil.rmtree(d, ignore_errors=True)


def coq_listing(text):
    """the instruction list of a Coq term  [LDBM 1; STAI 0; LDAC (-5); ADD; ..; LABEL 3; ..]  as listing_instrs gives it"""
    import re
    out = []
    for tok in text.replace('\n', ' ').split(';'):
        w = tok.replace('(', ' ').replace(')', ' ').split()
        if not w:
            continue
        if len(w) == 1:
            out.append((w[0], None))
        elif w[0] in ('LABEL', 'BR', 'BRZ', 'BRN', 'LDAP'):
            out.append((w[0], w[1]))
        else:
            out.append((w[0], int(w[1])))
    return out


def demo_tie(ck, tools, scr):
    """coq/XCodegenDemo.v states (Examples demo_cproc_*) what the model generates for the procedures of its demo
    program and says that this is what `xcmp -S` prints: re-check that text against the real xcmp, on the X source
    quoted in the same file"""
    import re
    path = os.path.join(vlib.COQ, 'XCodegenDemo.v')
    if not os.path.exists(path):
        return
    text = open(path).read()
    m = re.search(r'X-SOURCE-BEGIN\n(.*?)X-SOURCE-END', text, re.S)
    lists = re.findall(r'\(\* XCMP-LISTING (\w+) \*\)\s*\[(.*?)\]\.', text, re.S)
    if not m or not lists:
        ck.broken.append('demo tie: cannot find the X source / listings in coq/XCodegenDemo.v')
        return
    d = tempfile.mkdtemp(dir=scr)
    open(os.path.join(d, 'demo.x'), 'w').write(m.group(1))
    rc, out, err = xcommon._run([tools.xcmp, 'demo.x', '-S'], d, timeout=60)
    if rc != 0:
        ck.broken.append('demo tie: xcmp -S failed on the demo program: %s' % err[-200:])
        return
    ins = listing_instrs(out.decode('latin-1'))
    same = 0
    for name, body in lists:
        try:
            k = ins.index(('PROC', name)) if ('PROC', name) in ins else ins.index(('FUNC', name))
            end = next(q for q in range(k + 1, len(ins)) if ins[q][0] in ('PROC', 'FUNC') or str(ins[q][1]).startswith('PADDING') or ins[q][0] == 'PADDING')
        except (ValueError, StopIteration):
            ck.broken.append('demo tie: cannot locate %s in the listing' % name)
            continue
        got = canon_labels([x for x in ins[k + 1:end] if x[0] != ''])
        want = canon_labels(coq_listing(body))
        if got != want:
            ck.broken.append('coq/XCodegenDemo.v: the code stated for %s differs from the real xcmp: stated %r, xcmp %r' % (name, want, got))
        else:
            same += 1
    ck.cov['coq_demo_listing_tie'] = {'procedures_stated': len(lists), 'identical_to_xcmp_S': same}
    # the image stated in Example demo_model_image_opt against the words of the binary the real xcmp writes
    mi = re.search(r'\(\* XCMP-IMAGE \*\)\s*\[(.*?)\]\.', text, re.S)
    if not mi:
        ck.broken.append('demo tie: cannot find the XCMP-IMAGE list in coq/XCodegenDemo.v')
    else:
        stated = [int(x) for x in mi.group(1).replace('\n', ' ').split(';')]
        st, detail = xcommon.compile_x(tools.xcmp, d, 'demo.x')
        real = aout_words(os.path.join(d, 'a.out')) if st == 'ok' else None
        if real != stated:
            ck.broken.append('coq/XCodegenDemo.v: the image stated for the demo differs from the binary of the real xcmp: stated %r, xcmp %r (%s)' % (stated, real, detail))
        ck.cov['coq_demo_image_tie'] = {'words_stated': len(stated), 'identical_to_xcmp_binary': real == stated}
    shutil.rmtree(d, ignore_errors=True)


def replay(ck, tools, scr, path, monitor):
    o = json.load(open(path))
    _init(tools, scr, {'monitor': monitor, 'hexsim': True})
    res = job(('src', 'replay', o['x_source'].encode('latin-1'), o['inputs'], o.get('steps', STEPS), o.get('depth', DEPTH)))
    return [res]


def report(ck, results, pool, kinds_of_interest=None, max_per_kind=2, shrink_budget=1500):
    """turn failing results into minimised violations"""
    fails = {}
    for r in results:
        for kind, i, what in r['findings']:
            if kinds_of_interest is not None and kind not in kinds_of_interest:
                continue
            fails.setdefault(kind, []).append((r, i, what))
    todo = []
    for kind, l in sorted(fails.items()):
        l.sort(key=lambda x: len(x[0]['src'] or ''))
        for r, i, what in l[:max_per_kind]:
            todo.append((kind, r, i, what))
    ck.log('minimising %d failing programs (%s)' % (len(todo), {k: len(v) for k, v in fails.items()}))
    shr = pool.map(shrink_job, [(r['src'], r['inputs'][i], kind, shrink_budget) for kind, r, i, what in todo]) if todo else []
    for (kind, r, i, what), s in zip(todo, shr):
        tags = {'kind': kind}
        for f in s['features']:
            tags[f] = True
        ck.violation('%s: %s [%s, input %s]; %d failing program(s) of this kind' % (kind, s['what'] or what, r['name'], bytes(r['inputs'][i]).hex() or '-', len(fails[kind])),
                     {'kind': kind, 'name': r['name'], 'x_source': s['src'], 'inputs': [r['inputs'][i]], 'original_x_source': r['src'],
                      'expected_spec': s['spec'], 'actual_isa': s['isa'], 'what_original': what, 'shrink_evaluations': s['used'], 'features': s['features'],
                      'replay_cmd': './check %s --replay <this file>' % ck.pid}, tags=tags)
    return {k: len(v) for k, v in fails.items()}


def main():
    ck = Check(PID, level='translation_validation')
    ck.cov['trusted_base'] = ['Coq 8.16.1 kernel', 'XSem.v as a reading of the X definition (xhexnotes.pdf) -- spec', 'Isa.v as a reading of hexb.pdf -- spec',
                              'ExtrOcamlBasic extraction + OCaml 4.13 driver ocaml/xdrv.ml (s-expression reader, result printer)',
                              'tools/xcommon.py pretty-printer X AST -> X text (cross-checked on every program by re-parsing with tools/xparse.py)']
    ck.assumptions = ['machine capacity: the X definition (XSem) knows no memory size; a program whose image, global arrays and reserved words exceed the 200000-word memory is rejected by the (repaired, 2d62c7c) compiler and counted, after an independent check that it really does not fit (coverage.rejected_because_program_and_arrays_exceed_the_memory); a run whose STACK outgrows the free memory is outside the quantifier (C01: bounded stack depth; C08: recursion up to the stack budget) -- the boundary programs choose their depth from the frame accounting, and C01_program_partial carries the static bound nwords + 2000*maxframe <= sp0 in model_compile\'s validation; C01_full / C08_full as Definitions do not state a capacity hypothesis and are false of any compiler for a finite machine without it',
                     'well-defined = the extracted XSem.run_fuel says Behaviour with budgets of %d statements and call depth %d for generated programs (XSem.run allows 2000000 and 2000); '
                      'proved: a Behaviour does not change when the recursion fuel grows (run_fuel_monotone); NOT proved, assumed: nor when the statement budget or the depth bound grows' % (STEPS, DEPTH),
                      'order-open evaluation is excluded conservatively by footprints (XSem.v header); ill-defined programs are counted per reason and dropped',
                      'file streams (>= 256) are not generated; console only',
                      'proved part (Properties_C01.v): for expressions (literals, globals, locals, value formals, + - = < ~ and or, spills, subscripts a[e] of global arrays '
                      'and of array formals with constant or computed index) and statements (skip stop return if while sequence assignment, assignment to an array element a[e1] := e2, exit put, '
                      'and get: console input, 255 at the end of the input; the input consumed is part of the proved behaviour; function calls and get may be the whole right-hand side of an assignment, '
                      'the whole value of a return or the whole condition of an if / while, or stand at the bottom of the LEFT spine of such an expression under + - = < ~ with simple right operands '
                      '(literals, variables): xcmp computes the left operand first, as XSem does; such an expression may also be the FIRST actual of a procedure-call statement whose other actuals are simple, or the byte of a put statement with a simple stream) '
                      'of the form the code generator reads (after XConstProp.front), '
                      'the code of the model cg/cs run on Isa.run shows the behaviour XSem gives (C01_expr_fragment_partial, C01_stmt_fragment_partial); '
                      'and for procedure-call statements, and function calls as the whole right-hand side of an assignment or the whole value of a return, '
                      'with call-free actuals, to procedures/functions with value and array formals (an array name in scope -- a global array or an array formal -- as the actual, '
                      'passed by the address of its cells) and var locals that hide no global '
                      '(prologue, body, epilogue before the peepholes; recursion included; stack budget from XSem\'s depth bound) the same holds by a '
                      'program-level induction (C01_calls_partial, C01_call_ok_partial), shown non-vacuous on a recursive demo program whose every hypothesis '
                      'is discharged and whose stated code is re-checked here against xcmp -S (C01_calls_nonvacuous_hyps/_run, coq_demo_listing_tie); '
                      'and END TO END for whole programs of the fragment: XSem.run p inp = Behaviour b and model_compile frames false p = Some img imply that the ISA booted on img '
                      'shows b (C01_program_partial = C01_full for the model compile function; model_compile = the model code generator + the assembler model + a built-in computable '
                      'validation of the image; its input is the output of XConstProp.front; frame numbers and the order of the constant pool are parameters read off xcmp\'s listing); '
                      'and from the SOURCE program (C01_source_program_partial): composed with the front-end theorem of C07 (CreateSymbols, ConstProp, OptimiseExpr preserve XSem.run under the decidable '
                      'side conditions names_ok and front_swap_safe, within a quarter of the default fuel), shown non-vacuous on the demo\'s source itself; '
                      'the model is tied to the real xcmp on generated procedures (fragment_model_tie: identical code up to label names, incl. prologue, epilogue and peepholes; whole programs from frag_program: '
                      'several generated procedures and functions calling each other and themselves, 0..4 formals mixing val and array, 0..20 locals, random global declaration lists with vals between vars, '
                      '1..4 arrays of length 1..40 and occasionally one large array, constants from the corner set up to +-2^31), on a sample of the judged programs of the main run (model_compile_on_judged_programs) '
                      'and on generated whole programs (program_model_tie: the image words of model_compile with the peephole pass are compared with the real binary; the validated '
                      'lowered image of the same program must exist, and both images are run on the extracted ISA: where XSem says Behaviour both must show exactly it; '
                      'where XSem says the program is ill-defined nothing is claimed and a difference between the two images is only counted); '
                      'the three peephole rules are proved to preserve the effect of the block they rewrite (C01_peephole_rule1/2/3_partial) and to be all the pass applies (C01_peephole_rewrites); '
                      'global arrays are laid out by model_compile as xcmp does (cells at the top of memory, the name\'s data word holds their address) and, like array formals, are part of '
                      'the end-to-end theorem (the demo passes a global array to a recursive procedure through an array formal); '
                      'NOT proved: calls (and get) in a right operand, under and / or / unary minus, in subscripts, as actuals other than the first actual of a procedure-call statement or the byte of a put statement, proc/func formals, string literals as array actuals, local arrays (XSem rejects them), shadowing of globals, strings, input from file streams (Unsupported in XSem), '
                      'source programs outside front_swap_safe (> / <= whose right operand contains a call or system call while the left one is not a literal-like constant, a string-literal right operand '
                      'under a left operand with calls, the call 4294967295(..)), and that the peephole pass preserves behaviour for whole images (the proved image is the lowered one) '
                      '-- decided per program by this check']
    if os.path.exists(os.path.join(vlib.COQ, 'Properties_%s.v' % PID)):
        ok = ck.proofs()
        ck.log('proofs', 'ok' if ok else 'BROKEN')
    else:
        ck.broken.append('Properties_%s.v is missing' % PID)
    tools = xcommon.Tools()
    if tools.err:
        ck.broken.append(tools.err)
        ck.finish()
    scr = vlib.scratch()
    opts = {'monitor': False, 'hexsim': True}
    nproc = min(16, vlib.NCPU)
    if ck.replay_arg:
        results = replay(ck, tools, scr, ck.replay_arg, False)
        pool = multiprocessing.Pool(2, _init, (tools, scr, opts))
    else:
        pool = multiprocessing.Pool(nproc, _init, (tools, scr, opts))
        n = 3000 if not ck.thorough() else 30000
        base = ck.rng.randrange(1 << 30)
        fragment_tie(ck, tools, scr, 150 if not ck.thorough() else 1500)
        demo_tie(ck, tools, scr)
        program_tie(ck, tools, scr, 40 if not ck.thorough() else 1200)
        jobs = corpus_jobs(PID) + directed_jobs() + shipped_jobs() + [('gen', base + i) for i in range(n)]
        results = pool.map(job, jobs, chunksize=8)
    summarise(ck, results, pool)
    pool.close()
    ck.finish()


def summarise(ck, results, pool, kinds=None):
    undef = {}
    unsupported = {}
    feats = {}
    progs_judged = set()
    pairs = 0
    for r in results:
        if r['broken']:
            ck.broken.append('%s: %s' % (r['name'], r['broken']))
            continue
        ck.cov['evaluations'] += r['ninputs']
        for k, v in r['undef'].items():
            undef[k] = undef.get(k, 0) + v
        for u in r['unsupported']:
            unsupported[u] = unsupported.get(u, 0) + 1
        if r['welldef']:
            progs_judged.add(r['hash'])
            pairs += r['welldef']
            for f in r['features']:
                feats[f] = feats.get(f, 0) + 1
    counts = report(ck, results, pool, kinds)
    ms = [r.get('model_share') for r in results if r.get('model_share') is not None]
    if ms:
        ck.cov['model_compile_on_judged_programs'] = {
            'sampled_judged_programs': len(ms), 'inside_the_models_fragment': sum(1 for x in ms if x != 'outside'),
            'of_those_image_identical_to_xcmp_binary': sum(1 for x in ms if x == 'identical'),
            'note': 'corpus, directed and shipped programs and every sixth generated program that XSem judges well-defined: extracted model_compile '
                    '(peephole pass on; frame sizes and pool read off xcmp -S) returns an image iff the program is inside the proved fragment'}
        for r in results:
            if r.get('model_share') == 'differs':
                ck.broken.append('XCodegenProgram.model_compile (opt) differs from the binary of the real xcmp on the judged program %s' % r['name'])
    ck.cov['rejected_because_program_and_arrays_exceed_the_memory'] = sorted(r['name'] for r in results if r.get('capacity_rejected'))
    import xfrontcommon
    nx, samex = xfrontcommon.reader_report(ck, results)      # fills coverage['xfront_reader_crosscheck']; a disagreement is a broken tie
    ck.log('X reader cross-check (XFront.front vs Python printer/parser): %d compared, %d matching' % (nx, samex))
    ck.cov['programs'] = len(progs_judged)
    ck.cov['disagreements_checked'] = pairs
    ck.cov['distinct_nontrivial'] = len(progs_judged)
    ck.cov['rule'] = ('programs = corpus/%s + directed shapes (tools/xgen.py directed) + shipped tests/x/*.x with the unit tests\' inputs + seeded grammar-based programs; '
                      'judged (non-trivial) = the extracted XSem says Behaviour on at least one input; distinct by SHA-1 of the X source text; '
                      'disagreements_checked = (program, input) pairs on which spec, real compiler output on Isa, and real hexsim were compared' % ck.pid)
    ck.cov['ill_defined_dropped'] = undef
    ck.cov['unsupported_reasons'] = unsupported
    ck.cov['case_splits_reached'] = feats
    ck.cov['failing_pairs_by_kind'] = counts
    ck.cov['exhaustive'] = False
    k = 0
    for r in results:
        if r['welldef'] and not r['findings'] and r['src'] and k < 6 and (r['name'].startswith('seed') or k < 2):
            ck.sample({'name': r['name'], 'x_source': r['src'], 'input': r['inputs'][:1], 'spec': r['spec'], 'isa': r['isa']})
            k += 1
    ck.log('%d programs judged, %d pairs compared, ill-defined dropped %s, failing %s' % (len(progs_judged), pairs, undef, counts))


if __name__ == '__main__':
    main()
