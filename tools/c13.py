#!/usr/bin/env python3
"""C13 -- RTL testbench results do not depend on the power-on state.
proof:  Properties_C13.v over TbModel.v (hextb.cpp's clock/reset/system-call loop driving the generated RTL semantics from an
        arbitrary power-on state, including the four hidden previous-clock/previous-reset copies of Verilator's triggers).
tie:    hextb.cpp's own load()/run() linked into harness/tb_harness.cpp with a planted power-on state (registers, hidden
        trigger copies, adversarial memory contents planted BEFORE load()) on a Verilated `hex` built from the working tree;
        the hextb executable under +verilator+seed+<n>.
oracle: for a fixed binary and input: console output, input consumed and exit status are the same for every seed and
        every planted state (for EVERY shipped/toolchain binary that terminates, whatever it reads) and equal hexsim's for
        the well-behaved ones; at the first post-reset fetch the registers are zero, the image is intact and every word
        outside the image is zero (load() clears the memory)."""
import os, sys, glob, struct, json
sys.path.insert(0, os.path.dirname(os.path.abspath(__file__)))
import vlib, tbcommon, gen_rtl
from vlib import Check, run3


def compile_programs(ck, d, thorough):
    """(name, binary path, input bytes) built with the real xcmp/hexasm from the working tree"""
    xcmp, _ = vlib.repo_tool('xcmp')
    out = []
    srcs = {
        'exit7': b'val exit = 0;\nproc main() is exit(7)\n',
        'echo': b'val put = 1;\nval get = 2;\nproc main() is { put(get(0), 0); put(get(0), 0) }\n',
        'sum': b'val exit = 0;\nvar i; var s;\nproc main() is { i := 0; s := 0; while i < 10 do { s := s + i; i := i + 1 }; exit(s) }\n',
    }
    names = ['hello_prints.x', 'fib.x'] + (['bubblesort.x', 'strlen.x', 'mul.x'] if thorough else [])
    for n in names:
        p = os.path.join(vlib.REPO, 'tests', 'x', n)
        if os.path.exists(p):
            srcs[n] = open(p, 'rb').read()
    if xcmp is None:
        ck.broken.append('xcmp does not build')
        return out
    for name, src in srcs.items():
        sd = os.path.join(d, 'c_' + name)
        os.makedirs(sd, exist_ok=True)
        open(os.path.join(sd, 'p.x'), 'wb').write(src)
        rc, o, e = run3([xcmp, 'p.x', '-o', 'p.bin'], cwd=sd, timeout=60)
        b = os.path.join(sd, 'p.bin')
        if rc == 0 and os.path.exists(b):
            out.append((name, b, b'5' if name == 'fib.x' else b'A\xfe' if name == 'echo' else b''))
        else:
            ck.broken.append('xcmp does not compile %s (rc %d): %s -- nothing would be judged on it' % (name, rc, (o + e)[-200:]))
    return out


def reference(hexsim, b, inp, d):
    ip = os.path.join(d, 'ref.in')
    open(ip, 'wb').write(inp)
    rc, o, e = run3([hexsim, b, '--max-cycles', '2000000'], cwd=d, stdin=open(ip, 'rb'), timeout=120)
    return rc, o


def parse_h(out):
    r = {}
    for l in out.decode('latin1').split('\n'):
        if l.startswith('RC '):
            r['rc'] = int(l.split()[1]) & 0xff
        elif l.startswith('OUT '):
            r['out'] = bytes(int(x) for x in l.split()[2:])
        elif l.startswith('CONSUMED '):
            r['consumed'] = int(l.split()[1])
        elif l.startswith('PROBE '):
            r['probe'] = dict(x.split('=') for x in l.split()[1:])
        elif l.startswith('THROW'):
            r['throw'] = l
    return r


def strip(o):
    return o.split(b'\n', 1)[1] if o.startswith(b'Wrote ') and b'\n' in o else o


def model_outcome(r):
    """canonical outcome of a run: (how it ended, exit code, console output, input consumed)"""
    if 'throw' in r or r.get('end') == 'threw':
        return ('threw', None, r.get('out'), r.get('consumed'))
    return ('returned', r.get('rc'), r.get('out'), r.get('consumed'))


def parse_m(out):
    r = {}
    for l in out.decode('latin1').split('\n'):
        t = l.split()
        if not t:
            continue
        if t[0] == 'END':
            r['end'] = t[1]
        elif t[0] == 'RC':
            r['rc'] = int(t[1]) & 0xff
        elif t[0] == 'CONSUMED':
            r['consumed'] = int(t[1])
        elif t[0] == 'OUT':
            r['out'] = bytes(int(x) for x in t[2:])
        elif t[0] == 'STATE':
            r['state'] = dict(x.split('=') for x in t[1:])
    return r


def model_correspondence(ck, d, tbh, progs):
    """the same planted power-on state -- all four registers, memory fill AND the four hidden trigger copies (previous clock /
    previous reset of the processor and of the memory block) -- through hextb.cpp's own run() in the harness and through the
    extracted TbModel.run: outcome (how it ended, exit code, console output, input consumed) and the state after the reset
    window must be equal, hidden-bit value by hidden-bit value"""
    hv, log = vlib.ocaml_build()
    if hv is None:
        ck.broken.append('extraction/OCaml build failed: ' + log[-300:])
        return {}
    rng = ck.rng
    stats = {'programs': len(progs), 'states': 0, 'real_runs': 0, 'model_runs': 0, 'outcome_mismatch': 0, 'probe_mismatch': 0, 'model_ub_skipped': 0, 'outcomes_seen': 0}
    seen = set()
    for name, b, inp in progs:
        ip = os.path.join(d, 'cin')
        open(ip, 'wb').write(inp)
        img = open(b, 'rb').read()
        hw = struct.unpack('<I', img[:4])[0]
        image = img[4:4 + 4 * hw]
        svc = [i for i, x in enumerate(image) if x == 0xD3]
        stores = [i for i, x in enumerate(image) if (x >> 4) in (2, 8)]
        plants = []
        for a in svc[:3]:
            for pc in (a, max(a - 1, 0)):
                for areg in (0, 1, 2, 3):
                    plants.append('pc=%d areg=%d breg=%d oreg=0 fill=0x%02x' % (pc, areg, rng.choice([0, 5, 199990]), rng.choice([0xD3, 0x00, 0x80])))
        for a in stores[:3]:
            for pc in (a, max(a - 1, 0)):
                plants.append('pc=%d areg=305419896 breg=%d oreg=0 fill=0x%02x' % (pc, rng.choice([0, 3, 7]), rng.choice([0x20, 0x82, 0x00])))
        plants.append('pc=0 areg=0 breg=0 oreg=0 fill=0x00')
        plants.append('pc=2097151 areg=4294967295 breg=4294967295 oreg=4294967280 fill=0xff')
        rng.shuffle(plants)
        for desc in plants[:(4 if not ck.thorough() else 16)]:
            stats['states'] += 1
            hs = list(range(16)) if ck.thorough() else sorted(set([0, 15] + rng.sample(range(16), 4)))
            for h in hs:
                hid = 'pclk=%d prst=%d mclk=%d mrst=%d' % (h & 1, (h >> 1) & 1, (h >> 2) & 1, (h >> 3) & 1)
                rc, o, e = run3([tbh, b, '1', '20000'] + desc.split() + hid.split(), cwd=d, stdin=open(ip, 'rb'), timeout=120)
                real = model_outcome(parse_h(o))
                rc, o, e = run3([tbh, b, '1', '0', 'probe=1'] + desc.split() + hid.split(), cwd=d, stdin=open(ip, 'rb'), timeout=120)
                p = parse_h(o).get('probe') or {}
                realp = (p.get('pc'), p.get('areg'), p.get('breg'), p.get('oreg'), p.get('image_intact'), p.get('rest_zero'))
                stats['real_runs'] += 2
                rc, o, e = run3([hv, 'tbrun', b, 'current', '9000', '0'] + desc.split() + ['h=%d' % h], cwd=d, stdin=open(ip, 'rb'), timeout=300)
                r = parse_m(o)
                model = model_outcome(r)
                rc, o, e = run3([hv, 'tbrun', b, 'current', '9000', '4'] + desc.split() + ['h=%d' % h], cwd=d, stdin=open(ip, 'rb'), timeout=300)
                st = parse_m(o).get('state') or {}
                modelp = (st.get('pc'), st.get('areg'), st.get('breg'), st.get('oreg'), st.get('image_intact'), st.get('rest_zero'))
                stats['model_runs'] += 2
                seen.add(real)
                if r.get('end') in ('ub', 'nofuel'):
                    stats['model_ub_skipped'] += 1          # C++ undefined behaviour / out of fuel in the model: nothing to compare
                    continue
                if real != model:
                    stats['outcome_mismatch'] += 1
                    if stats['outcome_mismatch'] <= 3:
                        ck.broken.append('model correspondence: hextb.cpp run() on %s from [%s %s] gives %s, TbModel.run gives %s' % (name, desc, hid, real, model))
                if realp != modelp:
                    stats['probe_mismatch'] += 1
                    if stats['probe_mismatch'] <= 3:
                        ck.broken.append('model correspondence: state after the reset window on %s from [%s %s]: harness %s, model %s' % (name, desc, hid, realp, modelp))
    stats['outcomes_seen'] = len(seen)
    ck.log('model correspondence: %s' % stats)
    return stats


def extra_programs(ck, d):
    """hand-written shapes xcmp never emits: consecutive system calls (through the real hexasm) and images whose first
    instruction is a system call"""
    out = []
    hexasm, _ = vlib.repo_tool('hexasm')
    for aname, asrc, ainps in tbcommon.asm_programs():
        if not aname.startswith('svc-'):
            continue
        sd = os.path.join(d, 'a_' + aname)
        os.makedirs(sd, exist_ok=True)
        open(os.path.join(sd, 'p.S'), 'w').write(asrc)
        rc, o, e = run3([hexasm, 'p.S', '-o', 'p.bin'], cwd=sd, timeout=60) if hexasm else (1, b'', b'no hexasm')
        if rc == 0 and os.path.exists(os.path.join(sd, 'p.bin')):
            out.append((aname, os.path.join(sd, 'p.bin'), ainps[0]))
        else:
            ck.broken.append('hexasm rejects the hand-written program %s: %s' % (aname, (o + e)[-200:]))
    for sname, (simg, sinp, kind, _, _) in sorted(tbcommon.known_shapes().items()):
        if kind == 'first-instruction-svc':
            b = os.path.join(d, 'first-%s.bin' % sname)
            open(b, 'wb').write(simg)
            out.append((sname, b, sinp))
    return out


def main():
    global run3
    ck = Check('C13')
    run3 = tbcommon.retrying(ck)          # a timed-out run is re-run once before it counts
    ck.cov['trusted_base'] = ['Coq 8.16.1 kernel + VM', 'TbModel.v hand model of hextb.cpp run()/handleSyscall()/load(), tied by this run',
                              'generated RTL semantics (tools/vl2coq.py) and the clocking/first-eval semantics of RtlSem.v', 'Verilator 5.006 (the Verilated model is the implementation under test)',
                              'harness/tb_harness.cpp (plants state through --public-flat-rw, calls hextb.cpp\'s own load/run)']
    ck.assumptions = ['binaries whose first instruction is a system call are ordinary judged inputs since the repair of hextb.cpp (known_findings.json: fixed, kind first-instruction-svc); so are binaries that read words they never wrote, since load() clears the memory (fixed, kind power-on / how memory: tests/asm/hello_procedure.S); the READ clause of well_behaved is the known finding read-overwrites-own-svc (exhibited by ./check C03 and ./check C06)',
                      'power-on states are enumerated (seeds + planted adversarial states + fills), not proved exhaustively on the Verilated model; the theorem quantifies over all of them on the model']
    status = gen_rtl.generate_all()          # TbProofs is about the design regenerated from the working tree
    if status.get('hex'):
        ck.broken.append('translation of the hex top failed: %s' % status['hex'])
    ok = ck.proofs()
    ck.log('proofs', 'ok' if ok else 'BROKEN')
    hexsim, l0 = vlib.repo_tool('hexsim')
    hextb, l1 = tbcommon.build_hextb()
    tbh, l2 = tbcommon.build_tb_harness()
    if hexsim is None or hextb is None or tbh is None:
        ck.broken.append('testbench does not build from the working tree: ' + (l0 if hexsim is None else l1 if hextb is None else l2)[-500:])
        ck.finish()
    d = vlib.scratch()
    rng = ck.rng
    # --replay <file>: the binary and input of a recorded finding, under seeds, memory contents and its recorded planted state
    replay = json.load(open(ck.replay_arg)) if ck.replay_arg else None
    progs = compile_programs(ck, d, ck.thorough()) if replay is None else []
    nseeds = 40 if not ck.thorough() else 4000
    nplant = 24 if not ck.thorough() else 1500
    nbad = 0
    dist = {'seed': 0, 'planted': 0, 'fill': 0, 'probe': 0}
    distinct = set()
    for name, b, inp in progs:
        ref_rc, ref_out = reference(hexsim, b, inp, d)
        ip = os.path.join(d, 'in')
        open(ip, 'wb').write(inp)
        img = open(b, 'rb').read()
        hw = struct.unpack('<I', img[:4])[0]
        image = img[4:4 + 4 * hw]
        sp = struct.unpack('<I', image[4:8])[0] if len(image) >= 8 else 0

        def judge(kind, desc, r, probe=False):
            nonlocal nbad
            ck.cov['evaluations'] += 1
            dist[kind] += 1
            distinct.add((name, desc))
            bad = None
            if probe:
                p = r.get('probe')
                if not p or p['pc'] != '0' or p['areg'] != '0' or p['breg'] != '0' or p['oreg'] != '0' or p['image_intact'] != '1' or p.get('rest_zero') != '1':
                    bad = 'state at the first post-reset fetch is not canonical: %s' % p
                elif r.get('out') or r.get('consumed') or 'throw' in r:
                    bad = 'a system call was serviced before reset was released: out=%r consumed=%s %s' % (r.get('out'), r.get('consumed'), r.get('throw', ''))
            else:
                if r.get('rc') is None and 'throw' not in r:
                    bad = 'hextb.cpp run() did not return (the process died, e.g. a system-call shim indexing outside the memory, or hit the time limit); reference run: exit %d, output %r' % (ref_rc, ref_out[:30])
                elif 'throw' in r or r.get('rc') != ref_rc or r.get('out') != ref_out or r.get('consumed', 0) > len(inp):
                    bad = 'result differs from the reference run (exit %d, output %r): got exit %s output %r %s' % (ref_rc, ref_out[:30], r.get('rc'), (r.get('out') or b'')[:30], r.get('throw', ''))
            if bad:
                nbad += 1
                if nbad <= 4:
                    ck.violation('hextb on %s with power-on state [%s]: %s' % (name, desc, bad),
                                 {'program': name, 'binary_hex': img.hex(), 'input': list(inp), 'power_on': desc, 'replay_cmd': 'tb_harness <bin> ' + desc},
                                 tags={'kind': 'power-on', 'how': kind})
            elif len(ck.cov['samples']) < 6 and ck.cov['evaluations'] % 37 == 0:
                ck.sample({'program': name, 'power_on': desc, 'result': {k: (v if not isinstance(v, bytes) else v.decode('latin1')) for k, v in r.items()}})
        # seeds through the real executable
        for s in range(1, nseeds + 1):
            rc, o, e = run3([hextb, b, '--max-cycles', '400000', '+verilator+seed+%d' % s], cwd=d, stdin=open(ip, 'rb'), timeout=120)
            o = o.split(b'\n', 1)[1] if o.startswith(b'Wrote ') and b'\n' in o else o
            judge('seed', '+verilator+seed+%d' % s, {'rc': rc & 0xff, 'out': o, 'consumed': 0})
        # planted adversarial states: pc at/just before every SVC byte and every store byte of the image
        svc = [i for i, x in enumerate(image) if x == 0xD3]
        stores = [i for i, x in enumerate(image) if (x >> 4) in (2, 8)]
        plants = []
        for a in svc[:6]:
            for pc in (a, a - 1):
                for areg in (0, 1, 2, 3):
                    plants.append('pc=%d areg=%d' % (pc, areg))
        for a in stores[:8]:
            for pc in (a, a - 1):
                plants.append('pc=%d breg=0 oreg=0 areg=3735928559' % pc)
                plants.append('pc=%d breg=%d oreg=0 areg=0' % (pc, (1 << 32) - 1))
        rng.shuffle(plants)
        # the hidden "previous clock / previous reset" copies of the two always_ff blocks are part of the power-on state:
        # plant every combination of the clock copies (is the time-1 edge seen by the processor / by the memory?) and
        # two of the reset copies
        hidden = ['pclk=%d mclk=%d prst=%d mrst=%d' % (pc_, mc_, pr_, mr_) for pc_ in (0, 1) for mc_ in (0, 1) for pr_, mr_ in ((0, 0), (1, 1))]
        for desc0 in plants[:nplant]:
            # hextb as CMake builds it (no --public-flat-rw) has ONE trigger pair taken from the top-level inputs: at the first eval the
            # copies equal the inputs (1, 1), no edge is seen at time 1 and the power-on registers survive until the time-3 edge:
            # that combination is always among the planted ones
            real_tb = 'pclk=1 mclk=1 prst=1 mrst=1'
            for hid in (hidden if ck.thorough() else [real_tb] + rng.sample([h_ for h_ in hidden if h_ != real_tb], 3)):
                desc = desc0 + ' ' + hid
                seed = rng.randrange(1, 65)          # everything that is not planted (any further flop of the design) is randomised by the seed
                rc, o, e = run3([tbh, b, str(seed), '400000'] + desc.split(), cwd=d, stdin=open(ip, 'rb'), timeout=120)
                judge('planted', 'seed=%d %s' % (seed, desc), parse_h(o))
                rc, o, e = run3([tbh, b, str(seed), '0', 'probe=1'] + desc.split(), cwd=d, stdin=open(ip, 'rb'), timeout=120)
                judge('probe', 'seed=%d %s probe' % (seed, desc), parse_h(o), probe=True)
        # power-on memory contents (planted before load(), which must clear them): every word outside the image would decode as
        # SVC / STAI / STAM whatever the random pc is
        for fill in (0xD3, 0x80, 0x82, 0x20, 0xA5, 0xFF):
            for seed in (1, 2, 3, 4):
                for extra in ('', 'areg=0', 'areg=1 breg=0', 'breg=0 areg=305419896'):
                    desc = ('fill=0x%02x %s' % (fill, extra)).strip()
                    rc, o, e = run3([tbh, b, str(seed), '400000'] + desc.split(), cwd=d, stdin=open(ip, 'rb'), timeout=120)
                    judge('fill', 'seed=%d %s' % (seed, desc), parse_h(o))
                    rc, o, e = run3([tbh, b, str(seed), '0', 'probe=1'] + desc.split(), cwd=d, stdin=open(ip, 'rb'), timeout=120)
                    judge('probe', 'seed=%d %s probe' % (seed, desc), parse_h(o), probe=True)
    # ---- every shipped / toolchain binary that terminates, whatever it reads: the property quantifies over ALL binaries (a
    # program that reads a word it never wrote sees the memory outside the image).  hextb against hextb: Verilator seeds
    # through the real executable and memory fills through the harness must all give one and the same result
    import glob
    hexasm, _ = vlib.repo_tool('hexasm')
    xcmp, _ = vlib.repo_tool('xcmp')
    allbins = []
    for src in sorted(glob.glob(os.path.join(vlib.REPO, 'tests', 'asm', '*.S'))) + sorted(glob.glob(os.path.join(vlib.REPO, 'tests', 'x', '*.x'))):
        sd = os.path.join(d, 'all_' + os.path.basename(src))
        os.makedirs(sd, exist_ok=True)
        tool = hexasm if src.endswith('.S') else xcmp
        rc, o, e = run3([tool, src, '-o', 'p.bin'], cwd=sd, timeout=120) if tool else (1, b'', b'')
        b = os.path.join(sd, 'p.bin') if os.path.exists(os.path.join(sd, 'p.bin')) else os.path.join(sd, 'a.out')
        if rc == 0 and os.path.exists(b):
            allbins.append((os.path.relpath(src, vlib.REPO), b))
    for aname, asrc, ainps in tbcommon.asm_programs():
        sd = os.path.join(d, 'allasm_' + aname)
        os.makedirs(sd, exist_ok=True)
        open(os.path.join(sd, 'p.S'), 'w').write(asrc)
        rc, o, e = run3([hexasm, 'p.S', '-o', 'p.bin'], cwd=sd, timeout=120) if hexasm else (1, b'', b'')
        if rc == 0:
            allbins.append(('asm/' + aname, os.path.join(sd, 'p.bin')))
    nall = 0
    sweep_inputs = (b'', b'7a\n')
    extra_descs = []
    if replay is not None:
        rb = os.path.join(d, 'replay.bin')
        if replay.get('binary_hex'):
            open(rb, 'wb').write(bytes.fromhex(replay['binary_hex']))
        else:
            rb = dict(allbins).get(replay.get('program'), rb)
        allbins = [(replay.get('program', 'replay'), rb)]
        sweep_inputs = (bytes(replay.get('input', [])),)
        if replay.get('power_on') and not replay['power_on'].startswith('+verilator'):
            extra_descs = [' '.join(t for t in replay['power_on'].split() if '=' in t and not t.startswith('seed='))]
    elif len(allbins) < 20:
        ck.broken.append('only %d shipped/toolchain binaries could be built for the seed sweep (expected >= 20)' % len(allbins))
    for name, b in allbins:
        img = open(b, 'rb').read()
        for inp in sweep_inputs:
            ip = os.path.join(d, 'allin')
            open(ip, 'wb').write(inp)
            budget = '60000' if not ck.thorough() else '1500000'
            rc, o, e = run3([hextb, b, '--max-cycles', budget, '+verilator+seed+1'], cwd=d, stdin=open(ip, 'rb'), timeout=300)
            # terminated (not cut by the cycle budget)?  the same run with twice the budget gives the same result
            rcb, ob, eb = run3([hextb, b, '--max-cycles', str(int(budget) * 2), '+verilator+seed+1'], cwd=d, stdin=open(ip, 'rb'), timeout=300)
            if (rc, o) != (rcb, ob):
                continue          # still running at the budget: not a terminating run within what is explored
            descs = {}
            for s_ in ((2, 3, 4, 5) if not ck.thorough() else range(2, 40)):
                r_, o_, e_ = run3([hextb, b, '--max-cycles', budget, '+verilator+seed+%d' % s_], cwd=d, stdin=open(ip, 'rb'), timeout=300)
                descs['+verilator+seed+%d' % s_] = (r_ & 0xff, strip(o_))
            for fill in (0x00, 0xA5, 0xFF, 0xD3):
                r_, o_, e_ = run3([tbh, b, '1', budget, 'fill=0x%02x' % fill], cwd=d, stdin=open(ip, 'rb'), timeout=300)
                hh = parse_h(o_)
                descs['fill=0x%02x' % fill] = ((hh.get('rc') if hh.get('rc') is not None else -1), hh.get('out') if 'throw' not in hh else b'THROW')
            for xd in extra_descs:
                r_, o_, e_ = run3([tbh, b, '1', budget] + xd.split(), cwd=d, stdin=open(ip, 'rb'), timeout=300)
                hh = parse_h(o_)
                descs[xd] = ((hh.get('rc') if hh.get('rc') is not None else -1), hh.get('out') if 'throw' not in hh else b'THROW')
            ck.cov['evaluations'] += 1
            nall += 1
            distinct.add((name, inp))
            ref = (rc & 0xff, strip(o))
            diff = [(k, v) for k, v in sorted(descs.items()) if v != ref]
            if diff:
                nbad += 1
                if nbad <= 6:
                    ck.violation('hextb on %s (input %r): +verilator+seed+1 gives exit %d output %r, but %s gives exit %s output %r (%d of %d power-on states differ)'
                                 % (name, inp, ref[0], ref[1][:30], diff[0][0], diff[0][1][0], (diff[0][1][1] or b'')[:30], len(diff), len(descs)),
                                 {'program': name, 'binary_hex': img.hex() if len(img) < 4000 else None, 'build': 'hexasm/xcmp ' + name, 'input': list(inp),
                                  'reference': '+verilator+seed+1', 'differing': {k: [v[0], list(v[1] or b'')] for k, v in diff},
                                  'replay_cmd': 'hextb <bin> +verilator+seed+<n> ; echo $?'}, tags={'kind': 'power-on', 'how': 'memory'})
    ck.cov['all_binaries_seed_sweep'] = {'binaries': len(allbins), 'terminating_runs_judged': nall}
    # ---- hand-written shapes (consecutive system calls; first instruction a system call -- repaired, a difference is a violation):
    # Verilator seeds through the real executable against hexsim's result
    extras = extra_programs(ck, d) if replay is None else []
    for name, b, inp in extras:
        ip = os.path.join(d, 'xin')
        open(ip, 'wb').write(inp)
        ref_rc, ref_out = reference(hexsim, b, inp, d)
        img = open(b, 'rb').read()
        for s_ in range(1, (9 if not ck.thorough() else 200)):
            rc, o, e = run3([hextb, b, '--max-cycles', '20000', '+verilator+seed+%d' % s_], cwd=d, stdin=open(ip, 'rb'), timeout=120)
            o = o.split(b'\n', 1)[1] if o.startswith(b'Wrote ') and b'\n' in o else o
            ck.cov['evaluations'] += 1
            dist['seed'] += 1
            distinct.add((name, 'seed%d' % s_))
            if (rc & 0xff, o) != (ref_rc & 0xff, ref_out):
                nbad += 1
                if nbad <= 4:
                    kind = 'first-instruction-svc' if name.startswith('first-svc') else 'power-on'
                    ck.violation('hextb on %s with +verilator+seed+%d: exit %d output %r, hexsim: exit %d output %r' % (name, s_, rc & 0xff, o[:30], ref_rc & 0xff, ref_out[:30]),
                                 {'program': name, 'binary_hex': img.hex(), 'input': list(inp), 'power_on': '+verilator+seed+%d' % s_}, tags={'kind': kind, 'how': 'seed'})
    # ---- tie for the model: extracted TbModel.run (hextb.cpp's loop over the generated RTL) vs hextb.cpp's own run() in the harness
    corr = model_correspondence(ck, d, tbh, [p for p in progs if p[0] in ('exit7', 'echo', 'sum')] + extras) if replay is None else {}
    ck.cov['model_correspondence'] = corr
    floor = 1200 if not ck.thorough() else 20000
    if not ck.replay_arg and (len(progs) < 5 or ck.cov['evaluations'] < floor):
        ck.broken.append('only %d programs / %d runs were judged (expected at least 5 / %d): the check would pass without having looked' % (len(progs), ck.cov['evaluations'], floor))
    ck.cov['distinct_nontrivial'] = len(distinct)
    ck.cov['rule'] = 'power-on states = Verilator seeds (real executable) + planted register states at/just before every SVC and store byte of the image + power-on memory contents that make every non-image byte an SVC/store + every shipped tests/asm and tests/x binary under seeds and memory contents; distinct by (program, state)'
    ck.cov['input_distribution'] = dist
    ck.log('programs %d, runs %d (%s), differing %d' % (len(progs), ck.cov['evaluations'], dist, nbad))
    ck.finish()


if __name__ == '__main__':
    main()
