#!/usr/bin/env python3
"""asmcommon.py -- shared machinery of the assembler checks (C04 C05 C10 C15 C17, asm half of C11):
generators of assembly programs, running the real hexasm front/back end (harness/asm_harness.cpp, sanitizer
build from the working tree) and the extracted model on the same sources, parsing the emitted file/listing,
and the direct oracle (extracted AsmSpec validators)."""
import os, re, struct, subprocess, sys
sys.path.insert(0, os.path.dirname(os.path.abspath(__file__)))
import vlib
from vlib import sh, run3

REL = ['BR', 'BRZ', 'BRN', 'LDAP', 'LDAI', 'LDBI', 'STAI']
ABS = ['LDAM', 'LDBM', 'STAM', 'LDAC', 'LDBC']
IMM = ABS + REL
OPRS = ['BRB', 'ADD', 'SUB', 'SVC']
OPC = {'LDAM': 0, 'LDBM': 1, 'STAM': 2, 'LDAC': 3, 'LDBC': 4, 'LDAP': 5, 'LDAI': 6, 'LDBI': 7, 'STAI': 8, 'BR': 9, 'BRZ': 10, 'BRN': 11, 'OPR': 13}
BOUNDS = [15, 16, 17, 255, 256, 257, 4095, 4096, 4097]
BIGBOUNDS = [65535, 65536, 65537]

# ------------------------------------------------------------------ program items
# ('label', kind, name) kind in id/func/proc | ('ref', mnem, name) | ('imm', mnem, v) | ('data', v) | ('opr', op)


def fill(n):
    """n bytes of straight-line filler with few lines"""
    out = []
    while n >= 8:
        out.append(('imm', 'LDAC', 0x11111111))
        n -= 8
    if n >= 4:
        out.append(('imm', 'LDBC', 0x1111))
        n -= 4
    out += [('opr', 'ADD')] * n
    return out


def to_source(items):
    o = []
    for it in items:
        if it[0] == 'label':
            o.append({'id': '', 'func': 'FUNC ', 'proc': 'PROC '}[it[1]] + it[2])
        elif it[0] == 'ref':
            o.append('%s %s' % (it[1], it[2]))
        elif it[0] == 'imm':
            o.append('%s %d' % (it[1], it[2]))
        elif it[0] == 'data':
            o.append('DATA %d' % it[1])
        elif it[0] == 'opr':
            o.append('OPR ' + it[1])
    return ('\n'.join(o) + '\n').encode()


def to_oracle_prog(items):
    o = []
    for it in items:
        if it[0] == 'label':
            o.append('L %s %s' % (it[1], it[2]))
        elif it[0] == 'ref':
            o.append('R %s %s' % (it[1], it[2]))
        elif it[0] == 'imm':
            v = it[2] & 0xffffffff
            if v >= 1 << 31:
                v -= 1 << 32
            o.append('I %s %d' % (it[1], v))
        elif it[0] == 'data':
            v = it[1] & 0xffffffff
            if v >= 1 << 31:
                v -= 1 << 32
            o.append('D %d' % v)
        elif it[0] == 'opr':
            o.append('O ' + it[1])
    return o


KEYWORDS = set(IMM + OPRS + ['OPR', 'DATA', 'FUNC', 'PROC'])


def parse_asm(text):
    """well-formed assembly text -> items (None if it uses anything this simple reader does not understand)"""
    toks = []
    for line in text.split('\n'):
        line = line.split('#')[0]
        toks += line.replace('-', ' - ').split()
    items = []
    i = 0

    def integer(i):
        if i < len(toks) and toks[i] == '-' and i + 1 < len(toks) and toks[i + 1].isdigit():
            return -int(toks[i + 1]), i + 2
        if i < len(toks) and toks[i].isdigit():
            return int(toks[i]), i + 1
        return None, i
    while i < len(toks):
        t = toks[i]
        if t == 'DATA':
            v, i = integer(i + 1)
            if v is None:
                return None
            items.append(('data', v))
        elif t in ('FUNC', 'PROC'):
            if i + 1 >= len(toks) or not re.match(r'^[A-Za-z][A-Za-z0-9_]*$', toks[i + 1]) or toks[i + 1] in KEYWORDS:
                return None
            items.append(('label', t.lower(), toks[i + 1]))
            i += 2
        elif t == 'OPR':
            if i + 1 >= len(toks) or toks[i + 1] not in OPRS:
                return None
            items.append(('opr', toks[i + 1]))
            i += 2
        elif t in IMM:
            if i + 1 < len(toks) and re.match(r'^[A-Za-z][A-Za-z0-9_]*$', toks[i + 1]) and toks[i + 1] not in KEYWORDS:
                items.append(('ref', t, toks[i + 1]))
                i += 2
            else:
                v, j = integer(i + 1)
                if v is None:
                    return None
                items.append(('imm', t, v))
                i = j
        elif re.match(r'^[A-Za-z][A-Za-z0-9_]*$', t) and t not in KEYWORDS:
            items.append(('label', 'id', t))
            i += 1
        else:
            return None
    return items


# ------------------------------------------------------------------ generators

def gen_layout_program(rng, big=False):
    """labels, relative/absolute references, DATA words and filler whose lengths put reference distances at the
    encoding-length boundaries, in both directions, with chains and alignment absorption"""
    nl = rng.randint(1, 5)
    stem = rng.choice(['L', 'L', 'L', 'lab_', 'a_rather_long_label_name_', 'x' * rng.randint(1, 28), 'Procedure_With_A_Long_Name', 'n' * rng.randint(29, 90) + '_'])
    labels = ['%s%d' % (stem, i) for i in range(nl)]
    kinds = {l: rng.choice(['id', 'id', 'id', 'func', 'proc']) for l in labels}
    items = []
    bounds = BOUNDS + (BIGBOUNDS if big else [])
    nseg = rng.randint(2, 9)
    for _ in range(nseg):
        r = rng.random()
        if r < 0.45:
            items.append(('ref', rng.choice(REL), rng.choice(labels)))
        elif r < 0.49:
            items.append(('ref', rng.choice(ABS), '#data'))       # patched below: absolute refs go to data labels
        elif r < 0.50:
            items.append(('ref', rng.choice(ABS), rng.choice(labels)))   # absolute reference to a code label: accepted only if it happens to be word aligned
        elif r < 0.80:
            b = rng.choice(bounds)
            n = max(0, b + rng.choice([-3, -2, -1, 0, 1, 2, 3]) - rng.choice([0, 1, 2, 3, 4]))
            if rng.random() < 0.3:
                n = rng.choice([0, 1, 2, 3, 5, 8, 13, 14])
            items += fill(n)
        elif r < 0.9:
            items.append(('imm', rng.choice(IMM), rng.choice([0, 1, 15, 16, 255, 256, -1, -15, -16, -17, -255, -256, -257, 4095, 4096,
                                                              65535, 65536, -65536, 2147483647, -2147483647, rng.randrange(-2 ** 31 + 1, 2 ** 31)])))
        else:
            items.append(('data', rng.choice([0, 1, 99, -1, 2147483647, -2147483647 - 1, rng.randrange(-2 ** 31, 2 ** 31)])))
    for l in labels:
        items.insert(rng.randint(0, len(items)), ('label', kinds[l], l))
    # data labels: a label directly before a DATA word (possibly after unaligned code), referenced absolutely
    ndata = rng.randint(0, 2)
    dlabels = []
    for k in range(ndata):
        pos = rng.randint(0, len(items))
        name = 'D%d' % k
        kind = rng.choice(['id', 'id', 'func', 'proc'])           # FUNC/PROC may name a DATA word too
        run = [('label', kind, name)]
        if rng.random() < 0.3:                                     # a run of labels before the word: all of them name it
            run.insert(rng.randint(0, 1), ('label', rng.choice(['id', 'func', 'proc']), 'E%d' % k))
        items[pos:pos] = run + [('data', rng.randrange(0, 1000))]
        dlabels.append(name)
    if rng.random() < 0.25:                                        # two FUNC/PROC entries with no code between them
        pos = rng.randint(0, len(items))
        items[pos:pos] = [('label', rng.choice(['func', 'proc']), 'adj_a'), ('label', rng.choice(['func', 'proc']), 'adj_b')]
    out = []
    for it in items:
        if it[0] == 'ref' and it[2] == '#data':
            if dlabels:
                out.append(('ref', it[1], rng.choice(dlabels)))
            else:
                out.append(('imm', it[1], rng.randrange(0, 100)))
        else:
            out.append(it)
    return out


def gen_boundary_pair(rng, big=False):
    """one reference and its label at an exact boundary distance, forward or backward, optionally with a second
    reference in between whose own length shifts the first (chains)"""
    b = rng.choice(BOUNDS + (BIGBOUNDS if big else [65535] if rng.random() < 0.05 else []))
    delta = rng.choice([-2, -1, 0, 1, 2])
    mn = rng.choice(REL)
    pre = fill(rng.choice([0, 1, 2, 3, 5]))
    between = []
    if rng.random() < 0.5:
        between = [('ref', rng.choice(REL), rng.choice(['T', 'U']))]
    n = max(0, b + delta)
    if rng.random() < 0.5:      # forward
        body = [('ref', mn, 'T')] + between + fill(n) + [('label', 'id', 'T')] + fill(rng.choice([0, 1, 3]))
        items = pre + body + [('label', 'id', 'U')]
    else:                       # backward
        items = pre + [('label', 'id', 'T')] + fill(n) + between + [('ref', mn, 'T')] + [('label', 'id', 'U')] + fill(rng.choice([0, 2]))
    if rng.random() < 0.3:
        k = rng.randint(0, len(items))
        items[k:k] = [('label', 'id', 'W'), ('data', 7)]
        items.append(('ref', rng.choice(ABS), 'W'))
    return items


# ------------------------------------------------------------------ running real and model

def write_casefile(path, sources):
    with open(path, 'wb') as f:
        for s in sources:
            f.write(b'%d\n' % len(s) + s)


def split_cases(text):
    d = {}
    cur = None
    for l in text.split('\n'):
        if l.startswith('CASE '):
            cur = int(l.split()[1])
            d[cur] = []
        elif l.startswith('END '):
            cur = None
        elif cur is not None:
            d[cur].append(l)
    return d


SAN_ENV = {'ASAN_OPTIONS': 'detect_leaks=0:abort_on_error=0:exitcode=99', 'UBSAN_OPTIONS': 'print_stacktrace=0:halt_on_error=1'}


def build_asm_harness(sanitize=True):
    flags = '-O1 -g' + (' -fsanitize=address,undefined -fno-sanitize-recover=all' if sanitize else '')
    return vlib.cxx_build('asm_harness' + ('_san' if sanitize else ''), [os.path.join(vlib.ROOT, 'harness', 'asm_harness.cpp')], flags)


def run_real(harness, sources, workdir, timeout_per_batch=600):
    """run every source through the real assembler code; returns list of dict(status, lines, detail).
    status: 'ok' (lines = harness output), 'crash' (sanitizer report / signal), 'hang'"""
    cf = os.path.join(workdir, 'real_cases.bin')
    write_casefile(cf, sources)
    res = [None] * len(sources)
    start = 0
    while start < len(sources):
        rc, out, err = run3([harness, 'batch', cf, str(start)], cwd=workdir, env=SAN_ENV, timeout=timeout_per_batch)
        d = split_cases(out.decode('utf-8', 'replace'))
        done = -1
        ended = set()
        for l in out.decode('utf-8', 'replace').split('\n'):
            if l.startswith('END '):
                ended.add(int(l.split()[1]))
        for i in sorted(d):
            if i in ended:
                res[i] = {'status': 'ok', 'lines': d[i]}
                done = max(done, i)
        nxt = max(done + 1, start)
        if nxt >= len(sources) and rc == 0:
            break
        if nxt < len(sources) and (rc != 0 or nxt not in ended):
            res[nxt] = {'status': 'hang' if rc == 124 else 'crash', 'lines': d.get(nxt, []), 'detail': err.decode('utf-8', 'replace')[-600:], 'rc': rc}
            start = nxt + 1
        else:
            break
    for i in range(len(sources)):
        if res[i] is None:
            res[i] = {'status': 'crash', 'lines': [], 'detail': 'no output', 'rc': -1}
    return res


def run_model(hv, sources, workdir, timeout=900):
    cf = os.path.join(workdir, 'model_cases.bin')
    write_casefile(cf, sources)
    rc, out, err = run3(vlib.big_stack([hv, 'asmbatch', cf]), cwd=workdir, timeout=timeout)
    d = split_cases(out.decode('utf-8', 'replace'))
    return [d.get(i) for i in range(len(sources))], rc, err.decode('utf-8', 'replace')[-400:]


# ------------------------------------------------------------------ parsing outputs

def parse_file_line(lines):
    for l in lines:
        if l.startswith('FILE '):
            t = l.split()
            return bytes(int(x, 16) for x in t[2:])
    return None


def parse_binary(b):
    """hex binary file -> (header_words, image bytes, symbols [(name, off)] or None if malformed)"""
    if b is None or len(b) < 4:
        return None
    hw = struct.unpack('<I', b[:4])[0]
    img = b[4:4 + 4 * hw]
    rest = b[4 + 4 * hw:]
    syms = None
    if len(img) == 4 * hw and len(rest) >= 4:
        try:
            n = struct.unpack('<I', rest[:4])[0]
            p = 4
            names = []
            for _ in range(n):
                e = rest.index(b'\0', p)
                names.append(rest[p:e].decode('latin1'))
                p = e + 1
            m = struct.unpack('<I', rest[p:p + 4])[0]
            p += 4
            syms = []
            for _ in range(m):
                idx, off = struct.unpack('<II', rest[p:p + 8])
                p += 8
                syms.append((names[idx], off))
        except Exception:
            syms = None
    return hw, img, syms


LIST_RE = re.compile(r'^L (0x[0-9a-f]+|0+) (.*?)\s*\((\d+) bytes\)$')


def parse_listing(lines):
    """listing lines of emitProgramText -> oracle LIST lines (None if a line is not understood)"""
    out = []
    for l in lines:
        if not l.startswith('L '):
            continue
        if re.match(r'^L \d+ bytes$', l):
            continue
        m = LIST_RE.match(l)
        if not m:
            return None
        off = int(m.group(1), 16)
        text = m.group(2).strip()
        size = int(m.group(3))
        t = text.split()
        if t[0] == 'PADDING':
            out.append('P %d' % size)
        elif t[0] == 'DATA':
            if len(t) != 2 or not re.match(r'^-?\d+$', t[1]):
                return None
            out.append('D %d %s %d' % (off, t[1], size))
        elif t[0] in ('FUNC', 'PROC'):
            out.append('B %d %d' % (off, size))
        elif t[0] == 'OPR':
            if len(t) != 2 or t[1] not in OPRS:
                return None
            out.append('O %d %s %d' % (off, t[1], size))
        elif t[0] in IMM:
            if len(t) == 3 and re.match(r'^\(-?\d+\)$', t[2]):
                out.append('I %d %s %s %d' % (off, t[0], t[2].strip('()'), size))
            elif len(t) == 2 and re.match(r'^-?\d+$', t[1]):
                out.append('I %d %s %s %d' % (off, t[0], t[1], size))
            else:
                return None
        elif len(t) == 1:
            out.append('B %d %d' % (off, size))
        else:
            return None
    return out


def oracle(hv, cases, workdir):
    """sharded front: see _oracle_one"""
    import concurrent.futures
    CH = 1500
    if len(cases) <= CH:
        return _oracle_one(hv, cases, workdir)
    out = [None] * len(cases)
    parts = [(k, cases[k:k + CH]) for k in range(0, len(cases), CH)]

    def one(p):
        k, part = p
        sd = os.path.join(workdir, 'oshard%d' % k)
        os.makedirs(sd, exist_ok=True)
        return k, _oracle_one(hv, part, sd)
    with concurrent.futures.ThreadPoolExecutor(max_workers=vlib.NCPU) as ex:
        for k, r in ex.map(one, parts):
            out[k:k + len(r)] = r
    return out


def _oracle_one(hv, cases, workdir):
    """cases: list of dict(prog=[oracle lines], file=bytes, listing=[LIST lines] or None, use_syms=bool)
    returns list of dict(image, symtab, listing) with values 'ok'/'FAIL'/'skip' (None when the file is malformed)"""
    path = os.path.join(workdir, 'oracle_cases.txt')
    idx = []
    with open(path, 'w') as f:
        for k, c in enumerate(cases):
            pb = parse_binary(c['file'])
            if pb is None:
                continue
            hw, img, syms = pb
            idx.append(k)
            f.write('PROG %d\n' % len(c['prog']))
            for l in c['prog']:
                f.write(l + '\n')
            f.write('IMAGE %d %d %s\n' % (hw, len(img), ' '.join('%02x' % b for b in img)))
            if syms is None or not c.get('use_syms', True) or any((not n) or re.search(r'\s', n) for n, _ in syms):
                f.write('SYMS skip\n')
            else:
                f.write('SYMS %d\n' % len(syms))
                for n, o in syms:
                    f.write('%s %d\n' % (n, o))
            if c.get('listing') is None:
                f.write('LIST skip\n')
            else:
                f.write('LIST %d\n' % len(c['listing']))
                for l in c['listing']:
                    f.write(l + '\n')
    rc, out, err = run3(vlib.big_stack([hv, 'asmoracle', path]), cwd=workdir, timeout=1800)
    res = [None] * len(cases)
    n = 0
    for l in out.decode().split('\n'):
        if l.startswith('RESULT '):
            t = l.split()
            res[idx[n]] = dict(x.split('=') for x in t[2:])
            n += 1
    if rc != 0 or n != len(idx):
        raise RuntimeError('asmoracle failed rc=%d (%d/%d) %s' % (rc, n, len(idx), err.decode()[-300:]))
    return res


def explain_image(items, file_bytes):
    """human-readable reason why an image fails C05 (python re-walk; diagnostics only, no verdict rests on it)"""
    pb = parse_binary(file_bytes)
    if pb is None:
        return 'malformed file'
    hw, img, _ = pb
    pos = 0
    labpos = {}
    refs = []

    def dec(p):
        o = 0
        for _ in range(16):
            if p >= len(img):
                return None
            b = img[p]
            p += 1
            o |= b & 15
            op = b >> 4
            if op == 14:
                o = (o << 4) & 0xffffffff
            elif op == 15:
                o = (0xffffff00 | (o << 4)) & 0xffffffff
            else:
                return op, o, p
        return None
    for k, it in enumerate(items):
        if it[0] == 'label':
            j = k
            while j < len(items) and items[j][0] == 'label':
                j += 1
            if j < len(items) and items[j][0] == 'data':
                pos = (pos + 3) & ~3
            labpos[it[2]] = pos
        elif it[0] == 'data':
            pos = (pos + 3) & ~3
            if pos + 4 > len(img) or struct.unpack('<I', img[pos:pos + 4])[0] != (it[1] & 0xffffffff):
                return 'DATA %d not found at %d' % (it[1], pos)
            pos += 4
        elif it[0] == 'opr':
            if pos >= len(img) or img[pos] != 0xd0 | OPRS.index(it[1]):
                return 'OPR %s not found at %d' % (it[1], pos)
            pos += 1
        else:
            r = dec(pos)
            if r is None:
                return 'cannot decode at %d' % pos
            op, o, np_ = r
            if op != OPC[it[1]]:
                return '%s: opcode %d found at %d' % (it[1], op, pos)
            if it[0] == 'imm':
                if o != (it[2] & 0xffffffff):
                    return '%s %d at %d decodes to operand %d (bytes %s)' % (it[1], it[2], pos, o, img[pos:np_].hex())
            else:
                refs.append((it, pos, np_, o))
            pos = np_
    for it, p, np_, o in refs:
        want = labpos.get(it[2])
        if it[1] in REL:
            if ((np_ + o) & 0xffffffff) != want:
                return '%s %s at %d (%d bytes, operand %d) reaches %d, label is at %d' % (it[1], it[2], p, np_ - p, o if o < 2 ** 31 else o - 2 ** 32, (np_ + o) & 0xffffffff, want)
        else:
            if want is None or want % 4 or o != want // 4:
                return '%s %s at %d has operand %d, label is at byte %s' % (it[1], it[2], p, o, want)
    if ((pos + 3) & ~3) != len(img) or any(img[pos:]):
        return 'image length %d, program ends at %d' % (len(img), pos)
    if hw * 4 != len(img):
        return 'header word %d, image length %d' % (hw, len(img))
    return 'ok'


# ------------------------------------------------------------------ common pipeline

def pipeline(ck, cases, need_model=True):
    """cases: list of dict(src=bytes, items=list or None, tag=str).  Adds to each: real (dict), model (lines),
    file (bytes or None), accept (bool).  Returns (cases, hv) or None when the machinery cannot be built."""
    hv, log = vlib.ocaml_build()
    if hv is None:
        ck.broken.append('extraction/OCaml build failed: ' + log[-400:])
        return None
    har, log = build_asm_harness(True)
    if har is None:
        ck.broken.append('asm_harness does not build against the working tree: ' + log[-600:])
        return None
    d = vlib.scratch()
    srcs = [c['src'] for c in cases]
    # shard: the big batches of the thorough tier run in parallel, each shard in its own directory
    import concurrent.futures
    CH = 1500
    shards = [(k, srcs[k:k + CH]) for k in range(0, len(srcs), CH)]

    def one(sh):
        k, part = sh
        sd = os.path.join(d, 'shard%d' % k)
        os.makedirs(sd, exist_ok=True)
        r = run_real(har, part, sd)
        if need_model:
            m, rc, err = run_model(hv, part, sd, timeout=3600)
        else:
            m, rc, err = [None] * len(part), 0, ''
        return k, r, m, rc, err
    real = [None] * len(cases)
    model = [None] * len(cases)
    with concurrent.futures.ThreadPoolExecutor(max_workers=min(vlib.NCPU, max(1, len(shards)))) as ex:
        for k, r, m, rc, err in ex.map(one, shards):
            real[k:k + len(r)] = r
            model[k:k + len(m)] = m
            if rc != 0:
                ck.broken.append('extracted assembler model failed rc=%d %s' % (rc, err))
    for c, r, m in zip(cases, real, model):
        c['real'] = r
        c['model'] = m
        c['accept'] = r['status'] == 'ok' and bool(r['lines']) and r['lines'][0] == 'ACCEPT'
        c['file'] = parse_file_line(r['lines']) if c['accept'] else None
    return cases, hv, d


def correspondence(ck, cases, limit=3):
    """model output must equal the real tool's output wherever the real tool ran to completion"""
    n = 0
    for c in cases:
        if c['real']['status'] != 'ok' or c['model'] is None:
            continue
        if c['model'] and (c['model'][0].startswith('UB') or c['model'][0].startswith('OUTOFFUEL')):
            continue    # a model UB with a silent real run is kept as UB (UB need not crash)
        if c['model'] != c['real']['lines']:
            n += 1
            if n <= limit:
                a, b = c['model'], c['real']['lines']
                first = next(((x, y) for x, y in zip(a, b) if x != y), (a[-1:] , b[-1:]))
                c['corr_diff'] = first
    return n


def gen_relax_chain(rng, n, tot=None):
    """a relaxation chain: n forward branches, each reaching a fixed run of filler plus the NEXT branch, sized so that a
    branch fits one byte exactly when the next one does -- the layout settles one link per pass, from the far end back
    (hundreds of passes of the label-resolution loop for hundreds of links)"""
    mn = rng.choice(['BR', 'BR', 'BRZ', 'LDAP'])
    def filler(nbytes):
        out = []
        while nbytes > 0:
            if nbytes >= 4 and rng.random() < 0.5:
                out.append(('imm', 'LDBC', 65535)); nbytes -= 4
            elif nbytes >= 2 and rng.random() < 0.5:
                out.append(('imm', 'LDAC', rng.randrange(16, 256))); nbytes -= 2
            else:
                out.append(('opr', rng.choice(['ADD', 'SUB']))); nbytes -= 1
        return out
    items = [('ref', 'BR', 'start'), ('label', 'id', 'w1'), ('data', 16383), ('label', 'id', 'start')]
    # link k: [ref -> L(k+1)] [a bytes] L(k): [b bytes] ... so that the span of ref k = a + b + len(ref k+1) + a' ...
    # span of a link = 2a + b + len(next link).  2a + b = 13 is the slow case: every span fits one byte (14 or 15), but
    # a link is measured against label values of the previous pass, so it stays long until all links before it have
    # shrunk -- one link per pass.  253 is the same at the two-byte/three-byte boundary.
    tot = tot or rng.choice([13, 13, 13, 13, 12, 14, 253])
    a = rng.randint(1, 6) if tot < 100 else rng.randint(60, 120)
    b = tot - 2 * a
    items.append(('ref', mn, 'L1'))
    items += filler(a)
    for k in range(1, n + 1):
        if k > 1:
            items.append(('label', 'id', 'L%d' % (k - 1)))
        items += filler(b)
        items.append(('ref', mn, 'L%d' % (k + 1)))
        items += filler(a)
    items.append(('label', 'id', 'L%d' % n))
    items.append(('label', 'id', 'L%d' % (n + 1)))
    items += [('imm', 'LDAC', 0), ('opr', 'SVC')]
    return items


def standard_cases(ck, n_layout, n_boundary, corpus_id):
    """corpus first, then the shipped .S files, then generated layout/boundary programs"""
    import glob
    rng = ck.rng
    cases = []
    for f in sorted(glob.glob(os.path.join(vlib.ROOT, 'corpus', corpus_id, '*.S'))):
        src = open(f, 'rb').read()
        cases.append({'src': src, 'items': parse_asm(src.decode('latin1')), 'tag': 'corpus:' + os.path.basename(f)})
    if ck.replay_arg:
        import json
        r = json.load(open(ck.replay_arg))
        src = r['source'].encode('latin1')
        return [{'src': src, 'items': parse_asm(r['source']), 'tag': 'replay'}]
    for f in sorted(glob.glob(os.path.join(vlib.REPO, 'tests', 'asm', '*.S'))):
        src = open(f, 'rb').read()
        cases.append({'src': src, 'items': parse_asm(src.decode('latin1')), 'tag': 'shipped:' + os.path.basename(f)})
    for k in range(n_layout):
        items = gen_layout_program(rng, big=(k % 50 == 0))
        cases.append({'src': to_source(items), 'items': items, 'tag': 'layout'})
    for k in range(n_boundary):
        items = gen_boundary_pair(rng, big=(k % 40 == 0))
        cases.append({'src': to_source(items), 'items': items, 'tag': 'boundary'})
    cases += relax_chain_cases(rng, n_layout > 1000)
    return cases


def relax_chain_cases(rng, thorough):
    out = []
    for n, tot in ([(30, None), (130, 13), (290, 13), (420, 13), (300, 253)] if not thorough else
                   [(10, None), (30, None), (70, 13), (130, None), (200, 13), (257, 13), (258, 13), (290, 13), (330, None), (420, 13), (600, 13), (900, 13), (300, 253), (500, 253)]):
        items = gen_relax_chain(rng, n, tot)
        out.append({'src': to_source(items), 'items': items, 'tag': 'relax-chain'})
    return out


def xcmp_listings(ck, workdir, limit=None):
    """compile the shipped X programs with the real xcmp: returns list of dict(name, listing_lines (as 'L ...'), file bytes)"""
    import glob
    xcmp, log = vlib.repo_tool('xcmp')
    out = []
    if xcmp is None:
        ck.broken.append('xcmp does not build: ' + log[-300:])
        return out
    srcs = sorted(glob.glob(os.path.join(vlib.REPO, 'tests', 'x', '*.x')))
    if limit:
        srcs = srcs[:limit]
    for src in srcs:
        d = os.path.join(workdir, 'x_' + os.path.basename(src))
        os.makedirs(d, exist_ok=True)
        rc1, o1, e1 = run3([xcmp, src, '-S'], cwd=d, timeout=120)
        rc2, o2, e2 = run3([xcmp, src, '-o', 'out.bin'], cwd=d, timeout=120)
        binp = os.path.join(d, 'out.bin') if os.path.exists(os.path.join(d, 'out.bin')) else os.path.join(d, 'a.out')
        if rc1 != 0 or rc2 != 0 or not os.path.exists(binp):
            continue
        lines = ['L ' + l for l in o1.decode('latin1').split('\n') if l.strip()]
        out.append({'name': os.path.basename(src), 'lines': lines, 'file': open(binp, 'rb').read()})
    if srcs and len(out) < max(1, len(srcs) // 2):
        ck.broken.append('xcmp compiled only %d of %d shipped X programs: the compiler-level listings cannot be judged' % (len(out), len(srcs)))
    return out
