#!/usr/bin/env python3
"""seedconfirm.py <seeded/dir> -- confirm a seeded change independently: in a scratch worktree of /repo HEAD the demo
passes on the unchanged code; with the patch the code compiles, the unit tests pass (129) and the demo fails.
Writes confirm.json into the seed directory."""
import json, os, subprocess, sys, tempfile, shutil, time


def sh(cmd, cwd=None, timeout=3000):
    p = subprocess.run(cmd, shell=True, cwd=cwd, capture_output=True, text=True, errors='replace', timeout=timeout)
    return p.returncode, (p.stdout + p.stderr)[-1500:]


def main():
    d = os.path.abspath(sys.argv[1])
    wt = tempfile.mkdtemp(prefix='seedconf-')
    os.rmdir(wt)
    res = {'head': subprocess.run(['git', '-C', '/repo', 'rev-parse', '--short', 'HEAD'], capture_output=True, text=True).stdout.strip()}
    subprocess.run(['git', '-C', '/repo', 'worktree', 'add', '-q', '--detach', wt, 'HEAD'], check=True)
    try:
        verilog = 'verilog/' in open(os.path.join(d, 'patch.diff')).read() or 'hextb.cpp' in open(os.path.join(d, 'patch.diff')).read()
        cfg = 'cmake -S . -B _build -G Ninja -DUSE_VERILATOR=%s >/dev/null 2>&1' % ('ON' if verilog else 'OFF')
        rc, o = sh(cfg + ' && cmake --build _build 2>&1 | tail -2', cwd=wt)
        res['build_clean'] = rc
        demo = 'bash %s/demo.sh %s/_build' % (d, wt)
        rc, o = sh(demo, cwd=d, timeout=1200)
        res['demo_clean_rc'] = rc
        res['demo_clean_out'] = o[-300:]
        rc, o = sh('git apply %s/patch.diff' % d, cwd=wt)
        res['apply_rc'] = rc
        rc, o = sh('cmake --build _build 2>&1 | tail -2', cwd=wt)
        res['build_patched'] = rc
        rc, o = sh('cd _build/tests/unit && ./UnitTests 2>&1 | tail -3', cwd=wt, timeout=1800)
        res['unit_tests_ok'] = 'No errors detected' in o
        rc, o = sh(demo, cwd=d, timeout=1200)
        res['demo_patched_rc'] = rc
        res['demo_patched_out'] = o[-400:]
        res['confirmed'] = (res['demo_clean_rc'] == 0 and res['apply_rc'] == 0 and res['build_patched'] == 0 and res['unit_tests_ok'] and res['demo_patched_rc'] != 0)
    finally:
        subprocess.run(['git', '-C', '/repo', 'worktree', 'remove', '--force', wt])
    json.dump(res, open(os.path.join(d, 'confirm.json'), 'w'), indent=1)
    print(os.path.basename(d), 'confirmed' if res.get('confirmed') else 'NOT CONFIRMED', {k: v for k, v in res.items() if k.endswith('rc') or k.startswith('build') or k == 'unit_tests_ok'})


if __name__ == '__main__':
    main()
