#!/usr/bin/env python3
"""C05 -- every label reference assembles to the address of its label.
proof:  Properties_C05.v over AsmLayout.v (model of resolveLabels/emitProgramBin) and the spec validator AsmSpec.check_image.
tie:    the extracted model and the real Lexer/Parser/CodeGen (sanitizer build from the working tree) on the same sources.
oracle: extracted AsmSpec.check_image (ISA decode of the REAL image at the positions the source order dictates)."""
import os, sys, glob
sys.path.insert(0, os.path.dirname(os.path.abspath(__file__)))
import vlib, asmcommon as A
from vlib import Check


def main():
    ck = Check('C05')
    ck.cov['trusted_base'] = ['Coq 8.16.1 kernel + VM', 'Isa.v / AsmSpec.v (spec: ISA operand rule, what an image must satisfy)',
                              'AsmModel.v+AsmLayout.v hand model of hexasm.hpp, tied by this correspondence run',
                              'ExtrOcamlBasic extraction + OCaml drivers asmdrv.ml/asmoracle.ml', 'harness/asm_harness.cpp (g++ 12, ASan+UBSan)',
                              'tools/asmcommon.py generators/parsers']
    ok = ck.proofs()
    ck.log('proofs', 'ok' if ok else 'BROKEN')
    rng = ck.rng
    cases = []
    # corpus first
    for f in sorted(glob.glob(os.path.join(vlib.ROOT, 'corpus', 'C05', '*.S'))):
        src = open(f, 'rb').read()
        cases.append({'src': src, 'items': A.parse_asm(src.decode('latin1')), 'tag': 'corpus:' + os.path.basename(f)})
    if ck.replay_arg:
        import json
        r = json.load(open(ck.replay_arg))
        src = r['source'].encode('latin1')
        cases = [{'src': src, 'items': A.parse_asm(r['source']), 'tag': 'replay'}]
    else:
        for f in sorted(glob.glob(os.path.join(vlib.REPO, 'tests', 'asm', '*.S'))):
            src = open(f, 'rb').read()
            cases.append({'src': src, 'items': A.parse_asm(src.decode('latin1')), 'tag': 'shipped:' + os.path.basename(f)})
        n1, n2 = (900, 900) if not ck.thorough() else (30000, 30000)
        for k in range(n1):
            items = A.gen_layout_program(rng, big=(k % 50 == 0))
            cases.append({'src': A.to_source(items), 'items': items, 'tag': 'layout'})
        for k in range(n2):
            items = A.gen_boundary_pair(rng, big=(k % 40 == 0))
            cases.append({'src': A.to_source(items), 'items': items, 'tag': 'boundary'})
        cases += A.relax_chain_cases(rng, ck.thorough())
    r = A.pipeline(ck, cases)
    if r is None:
        ck.finish()
    cases, hv, d = r
    dist = {}
    ncorr = A.correspondence(ck, cases)
    # direct oracle on every accepted output
    ocases, oidx = [], []
    for i, c in enumerate(cases):
        st = c['real']['status']
        key = c['tag'].split(':')[0] + '/' + ('accept' if c['accept'] else st if st != 'ok' else 'reject')
        dist[key] = dist.get(key, 0) + 1
        if c['accept'] and c['items'] is not None:
            ocases.append({'prog': A.to_oracle_prog(c['items']), 'file': c['file'], 'listing': None, 'use_syms': False})
            oidx.append(i)
    res = A.oracle(hv, ocases, d)
    unread = [c['tag'] for c in cases if c['items'] is None and c['accept']]
    ck.cov['accepted_sources_not_oracle_checked'] = unread[:20]        # sources tools/asmcommon.parse_asm cannot read: tie only
    if unread and len(unread) * 2 > len([c for c in cases if c['accept']]):
        ck.broken.append('the reader of assembly sources understands fewer than half of the accepted sources: the direct oracle is not judging')
    nfail = 0
    distinct = set()
    for j, i in enumerate(oidx):
        c = cases[i]
        ck.cov['evaluations'] += 1
        refs = tuple((it[1], it[2]) for it in c['items'] if it[0] == 'ref')
        if refs:
            distinct.add(hash(c['src']))
        if res[j] is None or res[j]['image'] != 'ok':
            nfail += 1
            why = A.explain_image(c['items'], c['file'])
            if nfail <= 3:
                ck.violation('hexasm accepted the program but the image violates C05: ' + why,
                             {'source': c['src'].decode('latin1'), 'why': why, 'file_hex': c['file'].hex() if c['file'] else None,
                              'replay_cmd': './check C05 --replay <this file>'},
                             tags={'kind': 'image', 'why': why.split(' at ')[0][:40]})
        elif len(ck.cov['samples']) < 6 and refs and j % 97 == 0:
            ck.sample({'source': c['src'].decode('latin1')[:300], 'verdict': 'check_image ok', 'refs': len(refs)})
    # crashes / hangs of the real tool on these (valid) programs also break "assembly terminates"
    for c in cases:
        if c['real']['status'] != 'ok':
            ck.violation('hexasm %s on a well-formed program: %s' % (c['real']['status'], c['real'].get('detail', '')[-200:]),
                         {'source': c['src'].decode('latin1')[:4000], 'detail': c['real'].get('detail')}, tags={'kind': c['real']['status']})
    if ncorr:
        ex = next(c for c in cases if 'corr_diff' in c)
        ck.broken.append('correspondence AsmLayout model vs real hexasm: %d of %d sources differ, e.g. model [%s] real [%s] on source %r'
                         % (ncorr, len(cases), ex['corr_diff'][0], ex['corr_diff'][1], ex['src'][:200]))
    ck.log('cases %d, oracle-checked %d, image failures %d, correspondence differences %d' % (len(cases), len(oidx), nfail, ncorr))
    ck.cov['distinct_nontrivial'] = len(distinct)
    ck.cov['rule'] = ('generated assembly programs (labels, relative/absolute references, DATA, filler placing distances at +-16^k boundaries, chains, '
                      'alignment absorption) + shipped .S; non-trivial = accepted and contains at least one label reference; distinct by source text')
    ck.cov['input_distribution'] = dist
    ck.cov['correspondence_differences'] = ncorr
    ck.cov['exhaustive'] = False
    ck.finish()


if __name__ == '__main__':
    main()
