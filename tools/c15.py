#!/usr/bin/env python3
"""C15 -- trace and debug symbols report what is actually executing.
proof:  Properties_C15.v: the assembler model's symbol table passes the spec validator check_symtab (FUNC/PROC directives,
        once, in order, offset of the first instruction byte after each); lookupSymbol labels every address in
        [entry, next entry) with that procedure and its offset, offset 0 exactly at the entry; the n-th trace line
        reports (n, pc_n, symbol, opcode, low nibble) of the n-th instruction of the ISA trace.
tie:    real `hexsim -t` on binaries compiled by the real xcmp from the working tree: leading five columns of every trace
        line vs the extracted ISA run + extracted SimModel.trace_symbol on the symbol table found in the binary;
        extracted check_symtab/check_image on the real binary against the directive list of `xcmp -S`.
oracle: the same comparisons (ISA and AsmSpec are spec artefacts); procedure names of the X source vs symbol names;
        the sequence of offset-0 lines vs the call sequence of the source computed by a reference evaluation of the
        generated program family (the last sentence of the property is decided per program, not proved)."""
import os, sys, re, glob
sys.path.insert(0, os.path.dirname(os.path.abspath(__file__)))
import vlib, asmcommon as A
from vlib import Check, run3

MNEM = {'LDAM': 0, 'LDBM': 1, 'STAM': 2, 'LDAC': 3, 'LDBC': 4, 'LDAP': 5, 'LDAI': 6, 'LDBI': 7, 'STAI': 8, 'BR': 9, 'BRZ': 10, 'BRN': 11, 'OPR': 13, 'PFIX': 14, 'NFIX': 15}
LINE = re.compile(r'^(\d+)\s+(\d+)\s+(?:([A-Za-z_][A-Za-z0-9_]*\+\d+)\s+)?([A-Z]+)\s+(\d+)\s')


def gen_program(rng):
    """X program family with a computable call sequence: procedures/functions p0..pk, calls only to higher-numbered
    ones or to itself with a decreasing counter; no console output; exit(g)."""
    k = rng.randint(1, 10)
    kinds = [rng.choice(['proc', 'proc', 'func']) for _ in range(k)]
    bodies = []
    for i in range(k):
        stmts = []
        for _ in range(rng.randint(0, 6)):
            r = rng.random()
            if r < 0.45:
                stmts.append(('add', rng.choice([1, 2, 3, 15, 16, 17, 255, 256, 1000, 4095, 4096, 5000, 40000, 65535, 70000])))
            elif r < 0.85 and i + 1 < k:
                j = rng.randint(i + 1, k - 1)
                stmts.append(('call', j, rng.randint(0, 3)))
            elif r < 0.95:
                stmts.append(('rec', rng.choice([0, 0, 1, 2, 3, 4, 5, 6])))
            else:
                stmts.append(('pad', rng.randint(1, 40)))
        bodies.append(stmts)
    order = list(range(k))
    rng.shuffle(order)
    main_calls = [(rng.randint(0, k - 1), rng.randint(0, 3)) for _ in range(rng.randint(1, 4))]
    main_pos = rng.randint(0, k)
    src = ['val exit = 0;', 'var g;', 'var t;']
    # procedure names of every length: the trace label is '<name>+<offset>' whatever its width
    style = rng.choice(['short', 'short', 'mid', 'long', 'mixed'])

    def mkname(i):
        st = style if style != 'mixed' else rng.choice(['short', 'mid', 'long'])
        if st == 'short':
            return 'p%d' % i
        n = rng.randint(8, 15) if st == 'mid' else rng.randint(16, 48)
        stem = ''.join(rng.choice('abcdefghijklmnopqrstuvwxyz_ABCXYZ0123456789') for _ in range(n))
        return 'q%d_%s' % (i, stem)
    N = [mkname(i) for i in range(k)]

    def body_text(i):
        out = []
        for st in bodies[i]:
            if st[0] == 'add':
                out.append('g := g + %d' % st[1])
            elif st[0] == 'call':
                out.append('%s(%d)' % (N[st[1]], st[2]) if kinds[st[1]] == 'proc' else 't := %s(%d)' % (N[st[1]], st[2]))
            elif st[0] == 'rec':
                c = '%s(n - 1)' % N[i] if kinds[i] == 'proc' else 't := %s(n - 1)' % N[i]
                filler = '; '.join(['t := t + 1'] * (st[1] if len(st) > 1 else 0))
                out.append('if n = 0 then skip else { %s }' % ('; '.join(x for x in (filler, c) if x)))
            elif st[0] == 'pad':
                out += ['t := t + 1'] * st[1]
        if kinds[i] == 'func':
            out.append('return g')
        if not out:
            out = ['skip']
        return '{ ' + '; '.join(out) + ' }'
    decls = []
    for i in order:
        decls.append('%s %s(val n) is %s' % (kinds[i], N[i], body_text(i)))
    mb = ['g := 0', 't := 0'] + [('%s(%d)' % (N[j], a) if kinds[j] == 'proc' else 't := %s(%d)' % (N[j], a)) for j, a in main_calls] + ['exit(g - (g - 7))']
    decls.insert(main_pos, 'proc main() is { ' + '; '.join(mb) + ' }')
    src += decls
    # reference call sequence
    seq = ['main']

    def run(i, n, depth=0):
        seq.append(N[i])
        if len(seq) > 5000 or depth > 200:
            raise OverflowError
        for st in bodies[i]:
            if st[0] == 'call':
                run(st[1], st[2], depth + 1)
            elif st[0] == 'rec' and n != 0:
                run(i, n - 1, depth + 1)
    try:
        for j, a in main_calls:
            run(j, a)
    except OverflowError:
        return None
    return ('\n'.join(src) + '\n').encode(), seq, N + ['main']


def prog_from_listing(lines):
    """`xcmp -S` listing -> directive list in the oracle's PROG format"""
    out = []
    for l in lines:
        m = A.LIST_RE.match(l)
        if not m:
            continue
        t = m.group(2).strip().split()
        if t[0] == 'PADDING':
            continue
        if t[0] == 'DATA':
            out.append('D %s' % t[1])
        elif t[0] in ('FUNC', 'PROC'):
            out.append('L %s %s' % (t[0].lower(), t[1]))
        elif t[0] == 'OPR':
            out.append('O %s' % t[1])
        elif t[0] in A.IMM:
            if len(t) == 3:
                out.append('R %s %s' % (t[0], t[1]))
            else:
                out.append('I %s %s' % (t[0], t[1]))
        else:
            out.append('L id %s' % t[0])
    return out


def main():
    ck = Check('C15')
    ck.cov['trusted_base'] = ['Coq 8.16.1 kernel + VM', 'Isa.v, AsmSpec.check_symtab (spec)', 'SimModel.v (lookupSymbol / trace prefix) and AsmLayout.v hand models, tied by this run',
                              'extraction + ocaml/simtracedrv.ml (c15text: hex transport of the text)', 'SimTraceText.v: Coq printer of the trace line prefix, compared verbatim with the real lines (the regex reading is a cross-check only)', 'the built xcmp and hexsim executables; reference call sequence of the generated program family (python)']
    ck.assumptions = ['"entries = call sequence of the source" is decided per explored program (needs compiler correctness, C01), not proved',
                      'programs write nothing to the console so that trace lines stay parseable']
    ok = ck.proofs()
    ck.log('proofs', 'ok' if ok else 'BROKEN')
    hv, log = vlib.ocaml_build()
    xcmp, l1 = vlib.repo_tool('xcmp')
    hexsim, l2 = vlib.repo_tool('hexsim')
    if hv is None or xcmp is None or hexsim is None:
        ck.broken.append('tools do not build: ' + (log if hv is None else l1 if xcmp is None else l2)[-300:])
        ck.finish()
    base = vlib.scratch()
    rng = ck.rng
    progs = []
    n = 40 if not ck.thorough() else 1500
    while len(progs) < n:
        g = gen_program(rng)
        if g:
            progs.append(g + ('gen',))
    for f in ('fib.x', 'fac.x'):
        p = os.path.join(vlib.REPO, 'tests', 'x', f)
        if os.path.exists(p):
            progs.append((open(p, 'rb').read(), None, None, 'shipped:' + f))
    if ck.replay_arg:
        import json
        r = json.load(open(ck.replay_arg))
        progs = [(r['source'].encode(), r.get('calls'), r.get('names'), 'replay')]
    ocases, ometa = [], []
    nbad = 0
    lines_total = 0
    text_lines = 0
    dist = {}
    for k, (src, seq, names, tag) in enumerate(progs):
        d = os.path.join(base, 'p%d' % k)
        os.makedirs(d)
        open(os.path.join(d, 'p.x'), 'wb').write(src)
        rc, o, e = run3([xcmp, 'p.x', '-o', 'p.bin'], cwd=d, timeout=60)
        rcS, oS, eS = run3([xcmp, 'p.x', '-S'], cwd=d, timeout=60)
        pb = os.path.join(d, 'p.bin')
        if rc != 0 or rcS != 0 or not os.path.exists(pb):
            ck.violation('xcmp rejected a program of the C15 family: ' + e.decode()[:200], {'source': src.decode()}, tags={'kind': 'compile'})
            continue
        dist[tag.split(':')[0]] = dist.get(tag.split(':')[0], 0) + 1
        binb = open(pb, 'rb').read()
        hw, img, syms = A.parse_binary(binb)
        # symbols = procedures and functions of the source, once each
        declared = re.findall(r'^\s*(?:proc|func)\s+([A-Za-z_][A-Za-z0-9_]*)', src.decode(), re.M)
        if syms is None or sorted(n_ for n_, _ in syms) != sorted(declared):
            nbad += 1
            ck.violation('the symbol table does not list every procedure/function once: table %s, source declares %s' % (syms, declared),
                         {'source': src.decode(), 'calls': seq, 'names': names}, tags={'kind': 'symtab-names'})
        ocases.append({'prog': prog_from_listing(['L ' + l for l in oS.decode('latin1').split('\n') if l.strip()]), 'file': binb, 'listing': None, 'use_syms': True})
        ometa.append((src, seq, names))
        # trace
        inp = b'7' if tag.startswith('shipped') else b''
        ip = os.path.join(d, 'in')
        open(ip, 'wb').write(inp)
        rc2, o2, e2 = run3([hexsim, '-t', 'p.bin', '--max-cycles', '150000'], cwd=d, stdin=open(ip, 'rb'), timeout=120)
        # c15text = c15trace + for every step the TEXT hexsim prints at the start of the line, produced by the extracted Coq
        # printer SimTraceText.prefix_text of the structured prefix (theorem C15_trace_line_text)
        rc3, o3, e3 = run3(vlib.big_stack([hv, 'c15text', pb, '150001']), cwd=d, stdin=open(ip, 'rb'), timeout=600)
        rawlines = [l for l in o2.split(b'\n') if l != b'']
        real = []          # the regex reading of the real lines: kept as a cross-check only
        for l in o2.decode('latin1').split('\n'):
            m = LINE.match(l)
            if m and m.group(4) in MNEM:
                real.append('%s %s %s %d %s' % (m.group(1), m.group(2), m.group(3) or '-', MNEM[m.group(4)], m.group(5)))
        exp, exptext = [], []
        for l in o3.decode('latin1').split('\n'):
            if l.strip() and '\t' in l:
                a, b = l.split('\t')
                exp.append(a)
                exptext.append(bytes.fromhex(b))
        if rc3 != 0 or not exp or o3.startswith(b'LOADREJECT'):
            ck.broken.append('the extracted trace run failed on a compiled program (rc=%d): %s' % (rc3, (o3 + e3).decode('latin1')[-200:]))
            continue
        if not rawlines:
            nbad += 1
            ck.violation('hexsim -t printed no trace line for a compiled program (status %d, stderr %r)' % (rc2, e2.decode('latin1')[:120]),
                         {'source': src.decode(), 'calls': seq, 'names': names}, tags={'kind': 'trace'})
            continue
        ck.cov['evaluations'] += 1
        lines_total += len(rawlines)
        ncmp = min(len(rawlines), len(exp))
        # the oracle: every real line starts, byte for byte, with the text of the instruction executing at that step
        diff = next((i for i in range(ncmp) if not rawlines[i].startswith(exptext[i])), None)
        if diff is None and abs(len(rawlines) - len(exp)) > 1:
            diff = ncmp
        if diff is not None:
            nbad += 1
            if nbad <= 3:
                ck.violation('trace line %d of hexsim -t starts [%s], the instruction executing is [%s] (n pc symbol opcode nibble), whose line starts [%s]' %
                             (diff, rawlines[diff][:60].decode('latin1') if diff < len(rawlines) else 'missing', exp[diff] if diff < len(exp) else 'missing',
                              exptext[diff].decode('latin1') if diff < len(exp) else ''),
                             {'source': src.decode(), 'calls': seq, 'names': names, 'line': diff}, tags={'kind': 'trace'})
            continue
        text_lines += ncmp
        # cross-check: the regular-expression reader sees the same five columns
        if real[:ncmp] != exp[:ncmp]:
            k2 = next((i for i in range(min(len(real), ncmp)) if real[i] != exp[i]), min(len(real), ncmp))
            ck.broken.append('trace readers disagree at line %d: regular expression [%s], Coq text/structured prefix [%s]; source %r'
                             % (k2, real[k2] if k2 < len(real) else 'missing', exp[k2] if k2 < len(exp) else 'missing', src.decode()[:200]))
        # entries = call sequence of the source
        if seq is not None:
            entries = [l.split()[2].rsplit('+', 1)[0] for l in exp[:ncmp] if l.split()[2].endswith('+0')]      # lines verified verbatim above
            cut = ncmp >= 150000          # the run was cut by --max-cycles: only a prefix of the calls was traced
            if (entries != seq) if not cut else (entries != seq[:len(entries)]):
                nbad += 1
                ck.violation('procedure entries in the trace %s differ from the call sequence of the source %s' % (entries[:12], seq[:12]),
                             {'source': src.decode(), 'calls': seq, 'names': names}, tags={'kind': 'entries'})
            elif len(ck.cov['samples']) < 5 and k % 9 == 0:
                ck.sample({'source_head': src.decode()[:160], 'trace_lines': ncmp, 'entries': entries[:10], 'symbols': syms})
    nasm = 300 if not ck.thorough() else 20000
    acases = [c for c in A.standard_cases(ck, nasm, nasm, 'C15') if c['items'] is not None and any(it[0] == 'label' and it[1] in ('func', 'proc') for it in c['items'])]
    pr = A.pipeline(ck, acases, need_model=False)
    if pr is not None:
        for c in pr[0]:
            if c['accept']:
                ocases.append({'prog': A.to_oracle_prog(c['items']), 'file': c['file'], 'listing': None, 'use_syms': True})
                ometa.append((c['src'], None, None))
                dist['asm'] = dist.get('asm', 0) + 1
    res = A.oracle(hv, ocases, base)
    for j, rj in enumerate(res):
        ck.cov['evaluations'] += 1
        if rj is None or rj['symtab'] != 'ok' or rj['image'] != 'ok':
            nbad += 1
            ck.violation('the binary xcmp/hexasm wrote fails the spec validators (image=%s symtab=%s): symbol offsets are not the first instruction byte of each procedure, or a reference misses its label' % ((rj or {}).get('image'), (rj or {}).get('symtab')),
                         {'source': ometa[j][0].decode(), 'calls': ometa[j][1], 'names': ometa[j][2]}, tags={'kind': 'symtab'})
    ck.cov['distinct_nontrivial'] = len(progs)
    ck.cov['rule'] = 'generated X programs (1-10 procedures/functions in shuffled order, DAG calls, self recursion, never-called procedures, varied body sizes) + fib/fac; each distinct; non-trivial = compiled and traced'
    ck.cov['input_distribution'] = dist
    ck.cov['trace_lines_compared'] = lines_total
    ck.cov['trace_text'] = {'lines_matching_coq_text_verbatim': text_lines, 'printer': 'extracted SimTraceText.prefix_text (C15_trace_line_text)', 'regex': 'cross-check only'}
    ck.log('programs %d, trace lines %d, failures %d' % (len(progs), lines_total, nbad))
    ck.finish()


if __name__ == '__main__':
    main()
