#!/usr/bin/env python3
"""C12 -- a simulator run depends only on the binary, the input and the options.
proof:  Properties_C12.v over SimModel.v: the constructor's memory is all zero outside the image and the exit code is
        initialised, so a run is a function of (image, input, options); tracing adds reads only at addresses the
        instruction itself accesses and changes no state; a run cut by --max-cycles returns the initial exit code after
        exactly max_cycles+1 instructions.  The pinned constructor (no initialisers) is refuted by a vm_compute witness.
tie:    the real Processor (HEX_VERIF hook) constructed by placement-new in a buffer pre-filled with 4 byte patterns,
        trace on/off, cycle limits, against the extracted SimModel/Isa run; the built hexsim executable under
        environment/ASLR/MALLOC_PERTURB_ perturbation.
oracle: all runs of one (binary, input, options) agree with each other and with the ISA run on zero memory."""
import os, sys, glob
sys.path.insert(0, os.path.dirname(os.path.abspath(__file__)))
import vlib
from vlib import Check, run3

MEMW = 200000


def enc(opc, v):
    """prefix encoding of an operand (python, independent of hexasm)"""
    v &= 0xffffffff
    sv = v - (1 << 32) if v >= 1 << 31 else v
    if 0 <= sv < 16:
        return bytes([opc << 4 | sv])
    nibs = []
    if sv >= 0:
        x = sv
        while x:
            nibs.append(x & 15)
            x >>= 4
        out = [0xE0 | n for n in reversed(nibs[1:])]
    else:
        # NFIX supplies the sign extension: find n such that sv >= -16^n... use 8 nibbles unless small
        n = 2
        while sv < -(16 ** n):
            n += 1
        ns = [(sv >> (4 * i)) & 15 for i in range(n)]
        nibs = ns
        out = [0xF0 | ns[-1]] + [0xE0 | x for x in reversed(ns[1:-1])]
    return bytes(out + [opc << 4 | nibs[0]])


def image(code, sp=150000):
    """BR over word 1; word 1 = sp; code from byte 8; padded"""
    b = bytearray([0x97, 0, 0, 0]) + sp.to_bytes(4, 'little') + code
    while len(b) % 4:
        b.append(0)
    return (len(b) // 4).to_bytes(4, 'little') + bytes(b)


EXIT_AREG = enc(1, 1) + enc(8, 2) + enc(3, 0) + bytes([0xD3])        # LDBM 1; STAI 2; LDAC 0; OPR SVC


def with_debug_section(binary, rng):
    """append a string table and a symbol table (as hexasm writes them) to a header+image file"""
    names = [b'main', b'p%d' % rng.randrange(10), b'a_longer_name'][:rng.randint(1, 3)]
    out = bytearray(binary)
    out += len(names).to_bytes(4, 'little')
    for n in names:
        out += n + b'\0'
    out += len(names).to_bytes(4, 'little')
    for i, n in enumerate(names):
        out += i.to_bytes(4, 'little') + (8 + 4 * i).to_bytes(4, 'little')
    return bytes(out)


def gen_past_image(rng):
    """reads the words just past its own image (where a loader that copies too much would put the debug tables), sums them into the exit value"""
    nk = rng.randint(1, 4)

    def build(nwords_guess):
        code = bytearray()
        code += enc(3, 0)                                   # LDAC 0
        for k in range(nk):
            code += enc(1, nwords_guess + k) + bytes([0xD1])    # LDBM past+k ; OPR ADD
        code += EXIT_AREG
        return image(bytes(code))
    nw = 20
    for _ in range(6):                       # the address of "past the image" depends on the image's own size
        b = build(nw)
        nw2 = int.from_bytes(b[:4], 'little')
        if nw2 == nw:
            break
        nw = nw2
    return with_debug_section(b, rng)


def gen_image(rng):
    """programs that read words they never wrote, print them and exit with a value derived from them"""
    code = bytearray()
    n = rng.randint(1, 6)
    for _ in range(n):
        ad = rng.choice([rng.randrange(64, MEMW), MEMW - 1, 149990, 150001 + rng.randrange(0, 50), 2 + rng.randrange(0, 1000) * 7 % 1000 + 60])
        r = rng.random()
        if r < 0.4:
            code += enc(0, ad)                       # LDAM ad
        elif r < 0.6:
            code += enc(1, ad) + bytes([0xD1])       # LDBM ad ; OPR ADD
        elif r < 0.8:
            code += enc(3, ad - 5) + enc(6, 5)       # LDAC ad-5 ; LDAI 5
        else:
            code += enc(4, ad - 3) + enc(7, 3) + bytes([0xD1])  # LDBC ; LDBI 3 ; ADD
    if rng.random() < 0.6:
        # put(areg, stream): STAI 2 ; LDAC stream ; STAI 3 ; LDAC 1 ; SVC -- with breg = sp; console or a simout file
        stream = rng.choice([0, 0, 256, 512, 0x700, 255])
        code += enc(1, 1) + enc(8, 2) + enc(3, stream) + enc(8, 3) + enc(3, 1) + bytes([0xD3]) + enc(0, 150002)
    if rng.random() < 0.4:
        # get(stream): LDAC stream ; STAI 2 ; LDAC 2 ; SVC ; LDAM sp+1 -- console or a simin file (EOF when it does not exist)
        stream = rng.choice([0, 1024, 768])      # file indices 4 (exists) and 3 (missing): never an index the image also writes to --
        # the reference simulator binds a stream index to one FILE* at first use, so mixing directions on one index is outside the ISA model
        code += enc(1, 1) + enc(3, stream) + enc(8, 2) + enc(3, 2) + bytes([0xD3]) + enc(0, 150001)
    if rng.random() < 0.3:
        code += enc(9, -len(code) - 2) if False else b''
    code += EXIT_AREG
    return image(bytes(code))


def malformed_files(rng):
    """files that are not exactly header + image [+ well-formed tables]: the loader must still be a function of the
    file's bytes (and reject or load, never read stack residue, never hang).  -> [(tag, bytes or None)]"""
    val = rng.randrange(2, 120)            # below 124, the status this framework uses for its own time limit
    base = image(enc(3, val) + EXIT_AREG)
    dbg = with_debug_section(base, rng)
    out = []
    for tail in ([0], [1], [2], [0xff], [0, 0], [3, 0], [1, 0, 0], [0xff, 3], [rng.randrange(256)], [rng.randrange(256), rng.randrange(4)]):
        out.append(('trailing-bytes', base + bytes(tail)))
    cuts = sorted(set([len(base) + k for k in (1, 2, 3, 4, 5, 6, 7, 8, 9)] + [rng.randrange(len(base) + 1, len(dbg)) for _ in range(6)] + [len(dbg) - k for k in (1, 2, 3, 4, 5, 8)]))
    for c in cuts:
        out.append(('truncated-tables', dbg[:c]))
    nw = int.from_bytes(base[:4], 'little')
    for hdr in (nw + 1, nw + 3, 2 * nw, 199999, 200000, 200001, 250000, 0x3fffffff, 0x40000000, 0x40000001, 0x40000000 + nw, 0x80000000 + nw, 0xffffffff):
        out.append(('header-mismatch', hdr.to_bytes(4, 'little') + base[4:]))
    out.append(('header-mismatch', (0).to_bytes(4, 'little') + base[4:]))
    out.append(('header-mismatch', (nw - 1).to_bytes(4, 'little') + base[4:]))
    for n in range(4):
        out.append(('short-file', bytes([rng.randrange(256) for _ in range(n)])))
    out.append(('short-file', base[:5]))
    out.append(('short-file', base[:len(base) - 3]))
    # a symbol whose string index is out of range
    bad = bytearray(base) + (1).to_bytes(4, 'little') + b'main\0' + (1).to_bytes(4, 'little') + (rng.choice([1, 2, 7, 1000, 0xffffffff])).to_bytes(4, 'little') + (8).to_bytes(4, 'little')
    out.append(('bad-string-index', bytes(bad)))
    bad2 = bytearray(base) + (0).to_bytes(4, 'little') + (2).to_bytes(4, 'little') + (0).to_bytes(4, 'little') + (8).to_bytes(4, 'little')
    out.append(('bad-string-index', bytes(bad2)))
    out.append(('missing-file', None))
    return out


def loop_image(n):
    """counts down from n then exits with 7: used for the cycle-limit cases"""
    code = bytearray()
    code += enc(3, n)                      # LDAC n
    top = len(code)
    code += enc(4, 1) + bytes([0xD2])      # LDBC 1 ; OPR SUB
    # BRZ +2 (skip the BR) ; BR top
    body = enc(10, 2)
    code += body
    off = top - (len(code) + 2)
    code += enc(9, off) if len(enc(9, off)) == 2 else enc(9, off)
    code += enc(3, 7) + EXIT_AREG
    return image(bytes(code))


def main():
    ck = Check('C12')
    ck.cov['trusted_base'] = ['Coq 8.16.1 kernel + VM', 'SimModel.v hand model of hexsim.hpp (constructor, load, run loop, trace reads), tied by this run',
                              'Isa.v (zero-memory reference run)', 'extraction + c02drv.ml', 'harness/sim_harness.cpp (placement-new into a patterned buffer, g++ 12)',
                              'the built hexsim executable; setarch -R, MALLOC_PERTURB_, environment size as host-state perturbations']
    ck.assumptions = ['heap/ASLR/stack residue cannot be exhibited by a theorem: that half is correspondence over 4 fill patterns and host perturbations',
                      'images keep every effective address below 200000 words',
                      'a file-stream index is used in one direction only within an image (Isa.v models input and output files independently; the reference simulator binds an index to one FILE* at first use)']
    ok = ck.proofs()
    ck.log('proofs', 'ok' if ok else 'BROKEN')
    hv, log = vlib.ocaml_build()
    har, log2 = vlib.cxx_build('sim_harness', [os.path.join(vlib.ROOT, 'harness', 'sim_harness.cpp'), os.path.join(vlib.REPO, 'hex.cpp')], '-O1 -g -D' + vlib.GUARD)
    if hv is None or har is None:
        ck.broken.append('engines do not build: ' + (log if hv is None else log2)[-400:])
        ck.finish()
    hexsim, log3 = vlib.repo_tool('hexsim')
    if hexsim is None:
        ck.broken.append('hexsim does not build from the working tree: ' + log3[-300:])
    d = vlib.scratch()
    rng = ck.rng
    bins = []
    nimg = 40 if not ck.thorough() else 1500
    if ck.replay_arg:
        import json
        r = json.load(open(ck.replay_arg))
        replay_mal = None
        if 'binary_hex' in r:
            p = os.path.join(d, 'replay.bin')
            open(p, 'wb').write(bytes.fromhex(r['binary_hex']))
            bins = [(p, 'replay')]
        elif 'tag' in r:                       # a malformed-file replay
            replay_mal = [(r['tag'], bytes.fromhex(r['file_hex']) if r.get('file_hex') is not None else None)]
    else:
        for k in range(nimg):
            p = os.path.join(d, 'u%d.bin' % k)
            open(p, 'wb').write(gen_image(rng))
            bins.append((p, 'unwritten-reads'))
        for k in range(6 if not ck.thorough() else 200):
            p = os.path.join(d, 'past%d.bin' % k)
            open(p, 'wb').write(gen_past_image(rng))
            bins.append((p, 'unwritten-reads'))
        for k in range(4 if not ck.thorough() else 100):
            p = os.path.join(d, 'usym%d.bin' % k)
            open(p, 'wb').write(with_debug_section(gen_image(rng), rng))
            bins.append((p, 'unwritten-reads'))
        for n in (1, 5, 40):
            p = os.path.join(d, 'loop%d.bin' % n)
            open(p, 'wb').write(loop_image(n))
            bins.append((p, 'loop'))
        xcmp, _ = vlib.repo_tool('xcmp')
        if xcmp:
            for src in sorted(glob.glob(os.path.join(vlib.REPO, 'tests', 'x', '*.x')))[:6 if not ck.thorough() else 99]:
                sd = os.path.join(d, 'c_' + os.path.basename(src))
                os.makedirs(sd, exist_ok=True)
                rc, _, _ = run3([xcmp, src, '-o', 'out.bin'], cwd=sd, timeout=60)
                b = os.path.join(sd, 'out.bin') if os.path.exists(os.path.join(sd, 'out.bin')) else os.path.join(sd, 'a.out')
                if rc == 0 and os.path.exists(b):
                    bins.append((b, 'xprogram'))
    ip = os.path.join(d, 'in.bin')
    open(ip, 'wb').write(b'hello\n')
    open(os.path.join(d, 'simin4'), 'wb').write(b'\x90file four')      # stream 1024 reads this; stream 768 (simin3) does not exist
    dist = {}
    distinct = set()
    nbad = 0
    for b, tag in bins:
        dist[tag] = dist.get(tag, 0) + 1
        rc, o, e = run3(vlib.big_stack([hv, 'c02run', b, '300000']), cwd=d, stdin=open(ip, 'rb'), timeout=300)
        isa = o.decode().strip().split('\n')
        if rc != 0 or not isa[0].startswith('END'):
            ck.broken.append('extracted run failed: ' + (o + e).decode()[-200:])
            continue
        if isa[0].split()[1] in ('badaddr',):
            continue           # outside the quantifier (address out of the simulated memory)
        steps = int(dict(x.split('=') for x in isa[0].split()[2:])['steps'])
        configs = []
        for fill in (0, 0xA5, 0x5A, 0xFF):
            for tr in (0, 1):
                configs.append((fill, tr, 0))
        limits = sorted(set([1, 2, max(1, steps // 2), max(1, steps - 2), max(1, steps - 1), steps, steps + 1])) if tag in ('loop', 'unwritten-reads', 'replay') else []
        for mc in limits:
            configs.append((0xA5, 0, mc))
            configs.append((0, 1, mc))
        results = {}
        for fill, tr, mc in configs:
            if mc:
                rcm, om, em = run3(vlib.big_stack([hv, 'c02run', b, '300000', str(mc)]), cwd=d, stdin=open(ip, 'rb'), timeout=300)
                exp = om.decode().strip().split('\n')
            else:
                exp = isa
            rc2, o2, e2 = run3([har, 'run', b, '300000', str(fill), str(tr), str(mc)], cwd=d, stdin=open(ip, 'rb'), timeout=300)
            real = o2.decode().strip().split('\n')
            ck.cov['evaluations'] += 1
            distinct.add((os.path.basename(b), fill, tr, mc))
            # with tracing the captured output stream also carries trace text: compare everything but OUT
            cmpl = (lambda ls: [ls[0], ls[1]] + ([ls[2]] if not tr else []) + [ls[3]]) if True else None
            if rc2 != 0 or len(real) < 4 or cmpl(real) != cmpl(exp):
                nbad += 1
                if nbad <= 3:
                    what = 'hexsim run (fill=0x%02x trace=%d max_cycles=%d) differs from the run on zero memory: expected [%s] got [%s]' % (fill, tr, mc, exp[0], real[0] if real else rc2)
                    ck.violation(what, {'binary_hex': open(b, 'rb').read().hex(), 'fill': fill, 'trace': tr, 'max_cycles': mc, 'expected': exp[:4], 'got': real[:4],
                                        'replay_cmd': './check C12 --replay <this file>'},
                                 tags={'kind': 'fill' if fill and not mc else 'limit' if mc else 'trace' if tr else 'run'})
            elif len(ck.cov['samples']) < 6 and ck.cov['evaluations'] % 53 == 0:
                ck.sample({'binary': os.path.basename(b), 'fill': fill, 'trace': tr, 'max_cycles': mc, 'end': real[0]})
        # executable level: host-state perturbations, -t on/off
        if hexsim and tag != 'xprogram' or (hexsim and ck.thorough()):
            outs = set()
            for env, pre in (({}, []), ({'MALLOC_PERTURB_': '85'}, []), ({'MALLOC_PERTURB_': '255', 'PADDING': 'x' * 60000}, []), ({}, ['setarch', '-R'])):
                rc3, o3, e3 = run3(pre + [hexsim, b, '--max-cycles', '300000'], cwd=d, stdin=open(ip, 'rb'), env=env, timeout=60)
                if pre and rc3 != 0 and b'setarch' in e3:
                    continue
                outs.add((rc3, o3))
                ck.cov['evaluations'] += 1
            rc4, o4, e4 = run3([hexsim, b, '-t', '--max-cycles', '300000'], cwd=d, stdin=open(ip, 'rb'), timeout=60)
            if len(outs) > 1 or any(rc4 != x[0] for x in outs):
                nbad += 1
                ck.violation('the hexsim executable gives different results for the same binary and input under host-state perturbation or -t: %s / -t rc=%d' % (sorted((x[0], x[1][:20]) for x in outs), rc4),
                             {'binary_hex': open(b, 'rb').read().hex()}, tags={'kind': 'fill'})
    # ---- files that are not well-formed binaries: the loader is still a function of the file (no stack residue, no hang)
    dso0 = os.path.join(d, 'dirty_stack0.so')
    rcc0, _, _ = run3(['cc', '-shared', '-fPIC', '-O0', '-o', dso0, os.path.join(vlib.ROOT, 'harness', 'dirty_stack.c')], timeout=120)
    hexsim_o0, _ = vlib.repo_tool('hexsim', flags='-O0')
    if not hexsim or not hexsim_o0 or rcc0 != 0:
        ck.broken.append('hexsim (-O1/-O0) or the dirty-stack preload does not build: the malformed-file runs cannot be made')
    else:
        mal = malformed_files(rng) if not ck.replay_arg else (replay_mal or [])
        if ck.thorough():
            for _ in range(6):
                mal += malformed_files(rng)
        for k, (tag, content) in enumerate(mal):
            dist['malformed:' + tag] = dist.get('malformed:' + tag, 0) + 1
            fn = os.path.join(d, 'mal%d.bin' % k)
            if content is None:
                fn = os.path.join(d, 'no-such-file-%d.bin' % k)
                exp = ['END loadreject']
            else:
                open(fn, 'wb').write(content)
                rcm, om, em = run3(vlib.big_stack([hv, 'c02run', fn, '300000', '5000']), cwd=d, stdin=open(ip, 'rb'), timeout=300)
                exp = om.decode().strip().split('\n')
                if rcm != 0 or not exp[0].startswith('END'):
                    ck.broken.append('extracted loader/run failed on a malformed file: ' + (om + em).decode()[-200:])
                    continue
            runs = []
            for exe, envs in ((hexsim, [{}, {'LD_PRELOAD': dso0, 'DIRTY_BYTE': '1'}, {'LD_PRELOAD': dso0, 'DIRTY_BYTE': '170'}, {'LD_PRELOAD': dso0, 'DIRTY_BYTE': '255'}, {'MALLOC_PERTURB_': '85', 'PADDING': 'x' * 20000}]),
                              (hexsim_o0, [{}, {'LD_PRELOAD': dso0, 'DIRTY_BYTE': '85'}, {'LD_PRELOAD': dso0, 'DIRTY_BYTE': '255'}])):
                for env in envs:
                    if sum(1 for r in runs if r[0] == 124) >= 2:
                        break
                    rcx, ox, ex = run3([exe, fn, '--max-cycles', '5000'], cwd=d, stdin=open(ip, 'rb'), env=env, timeout=6)
                    ck.cov['evaluations'] += 1
                    runs.append((rcx, ox, bool(ex.strip())))
            distinct.add(('malformed', tag, k))
            what = None
            if any(r[0] == 124 for r in runs):
                what = 'hexsim does not terminate on this file (%s): %d of %d runs hit the 6 s limit' % (tag, sum(1 for r in runs if r[0] == 124), len(runs))
            elif len(set((r[0], r[1]) for r in runs)) > 1:
                what = 'hexsim runs of one file (%s) differ with the host stack/heap contents: statuses %s' % (tag, sorted(set(r[0] for r in runs)))
            elif any(r[0] < 0 for r in runs):               # killed by a signal (an exit status >= 128 is a legal program exit value)
                what = 'hexsim crashes on this file (%s): status %d' % (tag, runs[0][0])
            else:
                kind = exp[0].split()[1]
                rc0, o0, diag = runs[0]
                if kind == 'loadreject':
                    if rc0 == 0 or not diag or o0:
                        what = 'the loader model rejects this file (%s: program larger than the memory, string index out of range, or no file) but hexsim exits %d %s a diagnostic' % (tag, rc0, 'with' if diag else 'without')
                elif kind in ('exit', 'limit'):
                    want = int(dict(x.split('=') for x in exp[0].split()[2:])['rc']) & 0xff
                    wout = bytes(int(x) for x in exp[2].split()[2:])
                    if rc0 != want or o0 != wout:
                        what = 'hexsim on this file (%s) exits %d with output %r; the loader model + ISA run give %d %r' % (tag, rc0, o0[:20], want, wout[:20])
            if what:
                nbad += 1
                if nbad <= 6:
                    ck.violation(what, {'file_hex': content.hex() if content is not None else None, 'tag': tag, 'expected': exp[:4], 'runs': [(r[0], r[1][:40].hex(), r[2]) for r in runs],
                                        'cmd': 'hexsim <file> --max-cycles 5000 (stdin "hello\\n"), plain / LD_PRELOAD=dirty_stack.so DIRTY_BYTE=.. / -O0 build'},
                                 tags={'kind': 'malformed-file', 'tag': tag})
            elif k % 11 == 0:
                ck.sample({'malformed': tag, 'size': len(content) if content is not None else None, 'model': exp[0], 'runs': len(runs), 'all_equal': True})
    # ---- the executables cut short by --max-cycles must return the defined initial status (0) whatever the host state
    xrun, _ = vlib.repo_tool('xrun')
    loopsrc = os.path.join(d, 'loop.x')
    open(loopsrc, 'wb').write(b'val exit = 0;\nvar i;\nproc main() is { i := 0; while i < 100000 do i := i + 1; exit(9) }\n')
    lb = os.path.join(d, 'loop40.bin')
    cut_runs = []
    # dirty-stack preload (host memory state: dirty vs clean backing store)
    dso = os.path.join(d, 'dirty_stack.so')
    rcc, _, ecc = run3(['cc', '-shared', '-fPIC', '-O0', '-o', dso, os.path.join(vlib.ROOT, 'harness', 'dirty_stack.c')], timeout=120)
    # the same tools as the project's default build compiles them (no optimisation): different stack residue
    xrun0, _ = vlib.repo_tool('xrun', flags='-O0')
    hexsim0, _ = vlib.repo_tool('hexsim', flags='-O0')
    if rcc != 0 or not xrun0 or not hexsim0 or not xrun:
        ck.broken.append('xrun/hexsim (-O0) or the dirty-stack preload do not build: the cut-short executable runs cannot be made')
    for rep in range(6 if not ck.thorough() else 200):
        if xrun0:
            cut_runs.append(('xrun', [xrun0, 'loop.x', '--max-cycles', '100'], {'SEEDPAD': 'q' * (rep * 24)}))
        if hexsim0 and os.path.exists(lb):
            cut_runs.append(('hexsim', [hexsim0, lb, '--max-cycles', '20'], {'SEEDPAD': 'q' * (rep * 24)}))
    if rcc == 0:
        for byte in (0xAA, 0x55, 0x01, 0xFF):
            for tool_cmd in ((('hexsim', [hexsim0, lb, '--max-cycles', '20']) if hexsim0 else None), (('xrun', [xrun0, 'loop.x', '--max-cycles', '100']) if xrun0 else None)):
                if tool_cmd:
                    cut_runs.append((tool_cmd[0], tool_cmd[1], {'LD_PRELOAD': dso, 'DIRTY_BYTE': str(byte)}))
            for tool_cmd in ((('hexsim', [hexsim, lb, '--max-cycles', '20']) if hexsim else None), (('xrun', [xrun, 'loop.x', '--max-cycles', '100']) if xrun else None),
                             (('xrun', [xrun, 'loop.x', '-t', '--max-cycles', '30']) if xrun else None)):
                if tool_cmd:
                    cut_runs.append((tool_cmd[0], tool_cmd[1], {'LD_PRELOAD': dso, 'DIRTY_BYTE': str(byte)}))
    for k, (env, pre) in enumerate([({}, []), ({'MALLOC_PERTURB_': '85'}, []), ({'PADDING': 'x' * 30000}, []), ({'PADDING': 'y' * 90000, 'MALLOC_PERTURB_': '255'}, []),
                                    ({}, ['setarch', '-R']), ({'PADDING': 'z' * 5000}, ['setarch', '-R'])] * (2 if not ck.thorough() else 30)):
        env = dict(env, SEEDPAD='p' * (37 * k))
        if hexsim and os.path.exists(lb):
            cut_runs.append(('hexsim', pre + [hexsim, lb, '--max-cycles', '20'], env))
        if xrun:
            cut_runs.append(('xrun', pre + [xrun, 'loop.x', '--max-cycles', '100'], env))
    if ck.replay_arg:
        cut_runs = []          # a replay judges the replayed binary/file only
    for tool, cmd, env in cut_runs:
        rc5, o5, e5 = run3(cmd, cwd=d, stdin=open(ip, 'rb'), env=env, timeout=60)
        if cmd[0] == 'setarch' and rc5 != 0 and b'setarch' in e5:
            continue
        ck.cov['evaluations'] += 1
        distinct.add((tool, 'cut', len(env.get('SEEDPAD', '')), env.get('DIRTY_BYTE'), os.path.basename(os.path.dirname(cmd[-4] if len(cmd) > 3 else cmd[0]))))
        if rc5 != 0:
            nbad += 1
            if nbad <= 5:
                ck.violation('%s cut short by --max-cycles returns status %d instead of the defined initial status 0 (host state: %s)' % (tool, rc5, sorted(env)),
                             {'cmd': cmd[-4:], 'env_keys': sorted(env), 'status': rc5, 'stderr': e5.decode('latin1')[-200:]}, tags={'kind': 'limit', 'tool': tool})
    ck.cov['distinct_nontrivial'] = len(distinct)
    ck.cov['rule'] = 'runs = (image, fill pattern of the backing store, trace on/off, cycle limit); images read words they never wrote; distinct by that tuple; all non-trivial'
    ck.cov['input_distribution'] = dist
    ck.log('images %d, runs %d, differing %d' % (len(bins), ck.cov['evaluations'], nbad))
    ck.finish()


if __name__ == '__main__':
    main()
