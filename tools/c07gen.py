#!/usr/bin/env python3
"""c07gen.py -- generators, program builders and the reference arithmetic of the C07 check.

A *tree* is an expression template over 32-bit values:
    ('leaf', v, ty)                 v a signed 32-bit value; ty 'i' (integer) or 'b' (truth value, v in {0,1})
    ('neg', t) ('not', t) ('bin', op, l, r)        op in + - = ~= < <= > >= and or
    ('eff', t)                      tick(t): a call of a function that counts its calls in a global and returns t
The operands of and/or/~ are truth-valued trees (the property's quantifier), everything else takes integers
(truth values are the integers 0/1 in X).

A *variant* of a tree fixes, per leaf (in-order), a mode:
    ('v',)            the value sits in a variable assigned at run time
    ('c', spelling)   the value is a compile-time constant, spelled
        'dec'   unsigned decimal literal of v mod 2^32          'hex'  #XXXXXXXX of v mod 2^32
        'neg'   -(magnitude)  (v < 0)                            'sub0' (0 - magnitude)  (v < 0)
        'kw'    true / false  (truth-valued leaves)
        'val'   a val name declared with the unsigned literal     'valneg' a val name declared as -magnitude
        'valsum' a val name declared as  k + d  with k another val (folding inside the declarations)
The *reference variant* has every leaf in a variable; a *pair* is (some variant, reference variant) of the same tree
in the same context.  The two programs of a pair must behave identically.

Contexts (where the expression sits): assign, exit, ifc, whilec, actual, ret, sub;
  ifv / whilev            the expression (any integer) is the condition of an if with two observable branches / of a while
                          whose body leaves the program;
  callrep/<pattern>/..    one actual among equal constants K;
  arr/<shape>/<r|w>/<g|f>/<t>/<lit|val>/<J>
                          the expression e is part of an array index of the given shape over constants K (computed so that
                          the index is t) and J: K-e, e-K, K+e, e+K, K-(e-J), (K-e)+J, J+(e-K), (e+J)-K; the element is read
                          or assigned; the array is global or an array formal.
"""
import itertools

M32 = 1 << 32
INT_MAX = (1 << 31) - 1
INT_MIN = -(1 << 31)
SPECIAL = [0, 1, -1, 2, -2, 127, -127, 128, -128, 65535, -65535, 65536, -65536, 65537, -65537, INT_MAX, INT_MIN, INT_MIN + 1]
ARITH = ('+', '-')
REL = ('=', '~=', '<', '<=', '>', '>=')
ORD = ('<', '<=', '>', '>=')
LOGIC = ('and', 'or')
BINOPS = ARITH + REL + LOGIC
BOOL_OPS = REL + LOGIC + ('not',)
ALL_OPS = BINOPS + ('neg', 'not')
UNARY = ('neg', 'not', 'eff')
CONTEXTS = ('assign', 'exit', 'ifc', 'whilec', 'actual', 'ret', 'sub', 'ifv', 'whilev')
ARR_SHAPES = ('K-e', 'e-K', 'K+e', 'e+K', 'K-(e-J)', '(K-e)+J', 'J+(e-K)', '(e+J)-K')
ARR_N = 16


def wrap(z):
    z &= M32 - 1
    return z - M32 if z >= (1 << 31) else z


def u32(z):
    return z & (M32 - 1)


def in_int(z):
    return INT_MIN <= z <= INT_MAX


# ---------------------------------------------------------------- trees
def leaf(v, ty='i'):
    return ('leaf', v, ty)


def leaves(t):
    if t[0] == 'leaf':
        return [t]
    if t[0] in UNARY:
        return leaves(t[1])
    return leaves(t[2]) + leaves(t[3])


def nleaves(t):
    return len(leaves(t))


def size(t):
    if t[0] == 'leaf':
        return 1
    if t[0] in UNARY:
        return 1 + size(t[1])
    return 1 + size(t[2]) + size(t[3])


def depth(t):
    if t[0] == 'leaf':
        return 0
    if t[0] in UNARY:
        return 1 + depth(t[1])
    return 1 + max(depth(t[2]), depth(t[3]))


def has_eff(t):
    if t[0] == 'leaf':
        return False
    if t[0] == 'eff':
        return True
    if t[0] in UNARY:
        return has_eff(t[1])
    return has_eff(t[2]) or has_eff(t[3])


def is_bool_tree(t):
    if t[0] == 'leaf':
        return t[2] == 'b'
    if t[0] == 'not':
        return True
    if t[0] == 'eff':
        return is_bool_tree(t[1])
    if t[0] == 'bin':
        return t[1] in REL or t[1] in LOGIC
    return False


def tree_str(t, modes=None, _k=None):
    """readable form; with modes, variable leaves print as <v>, constant leaves bare, or with the spelling when the
    spelling itself is folded by the compiler: (-n), (0 - n), val(-n), val(k + d)"""
    k = _k if _k is not None else [0]
    if t[0] == 'leaf':
        i = k[0]
        k[0] += 1
        v = t[1]
        plain = '%d' % v if t[2] == 'i' else ('true' if v else 'false')
        if modes is None:
            return plain
        m = modes[i]
        if m[0] == 'v':
            return '<%d>' % v
        sp = m[1] if len(m) > 1 else 'dec'
        if sp in ('neg', 'sub0', 'valneg') and v >= 0:
            sp = 'dec'
        if sp == 'neg':
            return '(-%d)' % -v
        if sp == 'sub0':
            return '(0 - %d)' % -v
        if sp == 'valneg':
            return 'val(-%d)' % -v
        if sp == 'valsum':
            d = m[2]
            return 'val(%d %s %d)' % (u32(wrap(v - d)), '+' if d >= 0 else '-', abs(d))
        if sp == 'val':
            return 'val(%d)' % u32(v)
        return plain
    if t[0] == 'neg':
        return '-(%s)' % tree_str(t[1], modes, k)
    if t[0] == 'not':
        return '~(%s)' % tree_str(t[1], modes, k)
    if t[0] == 'eff':
        return 'tick(%s)' % tree_str(t[1], modes, k)
    return '(%s %s %s)' % (tree_str(t[2], modes, k), t[1], tree_str(t[3], modes, k))


def ops_of(t):
    if t[0] == 'leaf':
        return []
    if t[0] in UNARY:
        return [t[0]] + ops_of(t[1])
    return [t[1]] + ops_of(t[2]) + ops_of(t[3])


def op_pairs(t):
    """(outer, inner) for every operator whose operand is an operator"""
    out = []
    if t[0] == 'leaf':
        return out
    kids = [t[1]] if t[0] in UNARY else [t[2], t[3]]
    me = t[0] if t[0] in UNARY else t[1]
    for c in kids:
        if c[0] != 'leaf':
            out.append((me, c[0] if c[0] in UNARY else c[1]))
        out += op_pairs(c)
    return out


# ---------------------------------------------------------------- two's complement evaluation (for classification only)
def possible_values(t):
    """-> (set of possible values, number of relational nodes whose operand difference can overflow).
    + - and unary minus wrap; = ~= and or ~ are exact; an ordering operator whose operand difference leaves the
    32-bit range has BOTH truth values as possible results (mathematical order / sign of the wrapped difference)."""
    if t[0] == 'leaf':
        return {t[1]}, 0
    if t[0] == 'eff':
        return possible_values(t[1])
    if t[0] == 'neg':
        s, n = possible_values(t[1])
        return {wrap(-a) for a in s}, n
    if t[0] == 'not':
        s, n = possible_values(t[1])
        return {1 if a == 0 else 0 for a in s}, n
    op = t[1]
    sl, nl = possible_values(t[2])
    sr, nr = possible_values(t[3])
    out = set()
    ov = 0
    for a in sl:
        for b in sr:
            if op == '+':
                out.add(wrap(a + b))
            elif op == '-':
                out.add(wrap(a - b))
            elif op == '=':
                out.add(int(a == b))
            elif op == '~=':
                out.add(int(a != b))
            elif op == 'and':
                out.add(0 if a == 0 else (0 if b == 0 else 1))
            elif op == 'or':
                out.add(1 if a != 0 else (0 if b == 0 else 1))
            else:
                r = {'<': a < b, '<=': a <= b, '>': a > b, '>=': a >= b}[op]
                out.add(int(r))
                if not in_int(a - b) or not in_int(b - a):
                    ov = 1
                    out.add(int(not r))
    return out, nl + nr + ov


def cmp_overflow_nodes(t):
    return possible_values(t)[1]


def wraps_somewhere(t):
    """some + - or unary minus node whose mathematical result leaves the 32-bit range (on some possible operand values)"""
    if t[0] == 'leaf':
        return False
    if t[0] == 'neg':
        return wraps_somewhere(t[1]) or any(not in_int(-a) for a in possible_values(t[1])[0])
    if t[0] in ('not', 'eff'):
        return wraps_somewhere(t[1])
    if wraps_somewhere(t[2]) or wraps_somewhere(t[3]):
        return True
    if t[1] in ARITH:
        for a in possible_values(t[2])[0]:
            for b in possible_values(t[3])[0]:
                if not in_int(a + b if t[1] == '+' else a - b):
                    return True
    return False


def excise(t, bits):
    """replace every (outermost-first, in-order) ordering node whose difference can overflow by a truth-valued leaf
    taken from the iterator bits; nodes are visited bottom-up so that inner ones go first"""
    if t[0] == 'leaf':
        return t
    if t[0] in UNARY:
        return (t[0], excise(t[1], bits))
    l = excise(t[2], bits)
    r = excise(t[3], bits)
    n = ('bin', t[1], l, r)
    if t[1] in ORD:
        sl, _ = possible_values(l)
        sr, _ = possible_values(r)
        if any(not in_int(a - b) or not in_int(b - a) for a in sl for b in sr):
            return ('leaf', next(bits), 'b')
    return n


# ---------------------------------------------------------------- variants -> programs
def _num(v):
    return ('num', u32(v))


class Builder:
    """builds the X program (xparse AST) of one variant of a tree in a context"""

    def __init__(self, tree, modes, ctx='assign', var_scope='global', var_init='lit', style=0):
        self.tree, self.modes, self.ctx = tree, modes, ctx
        # var_scope 'shadow': variables and vals are local to main and hide global vals of the same names
        self.shadow = (var_scope == 'shadow' and ctx != 'ret')
        # var_scope 'decoy': the vals are global, and a procedure defined BEFORE their uses declares local vals of the
        # same names with other values (a local val must not leak into later procedures)
        self.decoy = (var_scope == 'decoy')
        if var_scope in ('shadow', 'decoy'):
            var_scope = 'local'
        if ctx.startswith('arr/') and ctx.split('/')[3] == 'f':
            self.shadow = False
            var_scope = 'global'          # the index is evaluated inside the procedure that has the array formal
        self.var_scope = var_scope if ctx not in ('ret',) else 'global'
        self.var_init = var_init
        self.style = style
        self.vals = []          # declarations ('val', name, expr)
        self.vars = []          # (name, value)
        self.k = 0

    def leaf_expr(self, t, mode):
        i = self.k
        self.k += 1
        v = t[1]
        if mode[0] == 'v':
            name = 'x%d' % i
            self.vars.append((name, v))
            return ('var', name)
        sp = mode[1]
        if sp == 'kw' and t[2] == 'b':
            return ('true',) if v else ('false',)
        if sp in ('neg', 'sub0', 'valneg') and v >= 0:
            sp = {'neg': 'dec', 'sub0': 'dec', 'valneg': 'val'}[sp]
        if sp == 'dec' or sp == 'hex' or sp == 'kw':
            return _num(v)
        if sp == 'neg':
            return ('neg', _num(-v))
        if sp == 'sub0':
            return ('bin', '-', _num(0), _num(-v))
        name = 'k%d' % i
        if sp == 'val':
            self.vals.append(('val', name, _num(v)))
        elif sp == 'valneg':
            self.vals.append(('val', name, ('neg', _num(-v))))
        elif sp == 'valsum':
            d = mode[2]
            self.vals.append(('val', name + 'a', _num(wrap(v - d))))
            self.vals.append(('val', name, ('bin', '+', ('var', name + 'a'), _num(d)) if d >= 0
                              else ('bin', '-', ('var', name + 'a'), _num(-d))))
        else:
            raise ValueError('spelling %r' % (sp,))
        return ('var', name)

    def expr(self, t):
        if t[0] == 'leaf':
            return self.leaf_expr(t, self.modes[self.k])
        if t[0] == 'eff':
            return ('call', 'tick', [self.expr(t[1])])
        if t[0] in UNARY:
            return (t[0], self.expr(t[1]))
        l = self.expr(t[2])
        r = self.expr(t[3])
        return ('bin', t[1], l, r)

    def init_stmts(self):
        out = []
        for name, v in self.vars:
            if self.var_init == 'built' and not (-65536 < v < 65536):
                u = u32(v)
                hi, lo = u >> 16, u & 0xffff
                out += [('assign', name, _num(hi)), ('assign', 'n', _num(0)),
                        ('while', ('bin', '<', ('var', 'n'), _num(16)),
                         ('seq', [('assign', name, ('bin', '+', ('var', name), ('var', name))),
                                  ('assign', 'n', ('bin', '+', ('var', 'n'), _num(1)))])),
                        ('assign', name, ('bin', '+', ('var', name), _num(lo)))]
            else:
                out.append(('assign', name, _num(v)))
        return out

    def program(self):
        e = self.expr(self.tree)
        ctx = self.ctx
        procs = []
        main_locals = []
        if self.shadow:
            # the real declarations are local to main; the globals of the same names hold other values
            gl = [('val', d[1], _num(wrap(7 * i + 123456789))) for i, d in enumerate(self.vals)]
            gl += [('val', name, _num(wrap(v + 1 + 65536 * i))) for i, (name, v) in enumerate(self.vars)]
            gl += [('var', 'r'), ('var', 'n')]
            main_locals += list(self.vals) + [('var', name) for name, _ in self.vars]
        else:
            gl = list(self.vals) + [('var', 'r'), ('var', 'n')]
            if self.var_scope == 'global':
                gl += [('var', name) for name, _ in self.vars]
            else:
                main_locals += [('var', name) for name, _ in self.vars]
        if self.decoy and self.vals:
            procs.append({'kind': 'proc', 'name': 'decoy', 'formals': [],
                          'locals': [('val', d[1], _num(wrap(11 * i + 1234567))) for i, d in enumerate(self.vals)] + [('var', 'w')],
                          'body': ('assign', 'w', ('var', self.vals[-1][1]))})
        body = self.init_stmts()
        eff = has_eff(self.tree)
        if eff:
            gl.append(('var', 'cnt'))
            procs.insert(0, {'kind': 'func', 'name': 'tick', 'formals': [('val', 'a')], 'locals': [],
                             'body': ('seq', [('assign', 'cnt', ('bin', '+', ('var', 'cnt'), _num(1))), ('return', ('var', 'a'))])})
            body = [('assign', 'cnt', _num(0))] + body
        if ctx == 'exit' and eff:
            ctx = 'assign'
        if ctx.startswith('arr/'):
            _, shape, rw, gf, t, kspell, jv = ctx.split('/')
            t, jv = int(t), int(jv)
            v = sorted(possible_values(self.tree)[0])[0]
            kv = {'K-e': t + v, 'e-K': v - t, 'K+e': t - v, 'e+K': t - v, 'K-(e-J)': t + v - jv, '(K-e)+J': t - jv + v,
                  'J+(e-K)': v + jv - t, '(e+J)-K': v + jv - t}[shape]
            kv = wrap(kv)
            is_ref = all(m[0] == 'v' for m in self.modes)
            if is_ref:
                gl += [('var', 'kk'), ('var', 'kj')]
                body = [('assign', 'kk', _num(kv)), ('assign', 'kj', _num(jv))] + body
                K, J = ('var', 'kk'), ('var', 'kj')
            elif kspell == 'val':
                gl.insert(0, ('val', 'kc', _num(kv)))
                gl.insert(1, ('val', 'kd', _num(jv)))
                K, J = ('var', 'kc'), ('var', 'kd')
            else:
                K, J = _num(kv), _num(jv)
            idx = {'K-e': ('bin', '-', K, e), 'e-K': ('bin', '-', e, K), 'K+e': ('bin', '+', K, e), 'e+K': ('bin', '+', e, K),
                   'K-(e-J)': ('bin', '-', K, ('bin', '-', e, J)), '(K-e)+J': ('bin', '+', ('bin', '-', K, e), J),
                   'J+(e-K)': ('bin', '+', J, ('bin', '-', e, K)), '(e+J)-K': ('bin', '-', ('bin', '+', e, J), K)}[shape]
            gl.append(('array', 't', _num(ARR_N)))
            fill = [('assign', 'n', _num(0)),
                    ('while', ('bin', '<', ('var', 'n'), _num(ARR_N)),
                     ('seq', [('assignsub', 't', ('var', 'n'), ('bin', '+', ('var', 'n'), _num(100))),
                              ('assign', 'n', ('bin', '+', ('var', 'n'), _num(1)))]))]
            body = fill + body
            if rw == 'r':
                if gf == 'f':
                    procs.append({'kind': 'func', 'name': 'rdf', 'formals': [('array', 'a')], 'locals': [], 'body': ('return', ('sub', 'a', idx))})
                    body += [('assign', 'r', ('call', 'rdf', [('var', 't')]))]
                else:
                    body += [('assign', 'r', ('sub', 't', idx))]
            else:
                if gf == 'f':
                    procs.append({'kind': 'proc', 'name': 'wrf', 'formals': [('array', 'a')], 'locals': [], 'body': ('assignsub', 'a', idx, _num(77))})
                    body += [('call', 'wrf', [('var', 't')])]
                else:
                    body += [('assignsub', 't', idx, _num(77))]
                body += [('assign', 'n', _num(0)), ('assign', 'r', _num(99)),
                         ('while', ('bin', '<', ('var', 'n'), _num(ARR_N)),
                          ('seq', [('if', ('bin', '=', ('sub', 't', ('var', 'n')), _num(77)), ('assign', 'r', ('var', 'n')), ('skip',)),
                                   ('assign', 'n', ('bin', '+', ('var', 'n'), _num(1)))]))]
            body += [('sys', 0, [('var', 'r')])]
        elif ctx == 'ifv':
            body += [('if', e, ('assign', 'r', _num(11)), ('assign', 'r', _num(22))), ('sys', 0, [('var', 'r')])]
        elif ctx == 'whilev':
            body += [('while', e, ('sys', 0, [_num(7)])), ('sys', 0, [_num(9)])]
        elif ctx.startswith('callrep/'):
            # r := pick(K, .., idf(E), .., K): equal constants K around an actual that contains a call
            _, pattern, wrapcall, kval, kspell = ctx.split('/')
            kval = int(kval)
            is_ref = all(m[0] == 'v' for m in self.modes)
            if is_ref:
                gl.append(('var', 'kk'))
                body = [('assign', 'kk', _num(kval))] + body
                kexpr = ('var', 'kk')
            elif kspell == 'val':
                gl.insert(0, ('val', 'kc', _num(kval)))
                kexpr = ('var', 'kc')
            else:
                kexpr = _num(kval)
            n = len(pattern)
            procs.append({'kind': 'func', 'name': 'idf', 'formals': [('val', 'a')], 'locals': [], 'body': ('return', ('var', 'a'))})
            terms = []
            for i in range(n):
                terms += [('var', 'p%d' % i)] * (i + 1)
            acc = terms[-1]
            for t in reversed(terms[:-1]):
                acc = ('bin', '+', t, acc)
            procs.append({'kind': 'func', 'name': 'pick', 'formals': [('val', 'p%d' % i) for i in range(n)], 'locals': [], 'body': ('return', acc)})
            actuals = [kexpr if c == 'K' else (('call', 'idf', [e]) if wrapcall == 'c' else e) for c in pattern]
            body += [('assign', 'r', ('call', 'pick', actuals)), ('sys', 0, [('var', 'r')])]
        elif ctx == 'assign':
            body += [('assign', 'r', e), ('sys', 0, [('var', 'r')])]
        elif ctx == 'exit':
            body += [('sys', 0, [e])]
        elif ctx == 'ifc':
            body += [('if', e, ('assign', 'r', _num(11)), ('assign', 'r', _num(22))), ('sys', 0, [('var', 'r')])]
        elif ctx == 'whilec':
            body += [('assign', 'n', _num(0)),
                     ('while', ('bin', 'and', ('bin', '=', ('var', 'n'), _num(0)), e), ('assign', 'n', ('bin', '+', ('var', 'n'), _num(1)))),
                     ('sys', 0, [('var', 'n')])]
        elif ctx == 'actual':
            procs.append({'kind': 'func', 'name': 'snd', 'formals': [('val', 'a'), ('val', 'b')], 'locals': [], 'body': ('return', ('var', 'b'))})
            body += [('assign', 'r', ('call', 'snd', [_num(7), e])), ('sys', 0, [('var', 'r')])]
        elif ctx == 'ret':
            procs.append({'kind': 'func', 'name': 'g', 'formals': [], 'locals': [], 'body': ('return', e)})
            body += [('assign', 'r', ('call', 'g', [])), ('sys', 0, [('var', 'r')])]
        elif ctx == 'sub':
            gl.append(('array', 't', _num(8)))
            body = [('assign', 'n', _num(0)),
                    ('while', ('bin', '<', ('var', 'n'), _num(8)),
                     ('seq', [('assignsub', 't', ('var', 'n'), ('bin', '+', ('var', 'n'), _num(100))),
                              ('assign', 'n', ('bin', '+', ('var', 'n'), _num(1)))]))] + body
            body += [('assign', 'r', ('sub', 't', e)), ('sys', 0, [('var', 'r')])]
        else:
            raise ValueError(ctx)
        if eff:
            body = body[:-1] + [('sys', 1, [('bin', '+', ('var', 'cnt'), _num(48)), _num(0)])] + body[-1:]
        procs.append({'kind': 'proc', 'name': 'main', 'formals': [], 'locals': main_locals, 'body': ('seq', body)})
        return {'globals': gl, 'procs': procs, 'style': self.style}


def build(tree, modes, ctx='assign', var_scope='global', var_init='lit', style=0):
    return Builder(tree, modes, ctx, var_scope, var_init, style).program()


def ref_modes(tree):
    return [('v',)] * nleaves(tree)


def ctx_ok(tree, ctx):
    if ctx.startswith('callrep/'):
        return True
    if ctx.startswith('arr/'):
        s, n = possible_values(tree)
        return n == 0 and len(s) == 1
    if ctx == 'whilev':
        return not has_eff(tree)
    if ctx == 'ifv':
        return True
    if ctx in ('ifc', 'whilec'):
        return is_bool_tree(tree)
    if ctx == 'sub':
        s, n = possible_values(tree)
        return n == 0 and all(0 <= v < 8 for v in s)
    return True


# ---------------------------------------------------------------- generators
class Gen:
    def __init__(self, rng):
        self.rng = rng

    def value(self, near=None):
        r = self.rng
        p = r.random()
        if p < 0.55:
            return r.choice(SPECIAL)
        if p < 0.70:
            return wrap(r.choice(SPECIAL) + r.choice((-3, -2, -1, 1, 2, 3)))
        if p < 0.85:
            return r.randrange(-300, 300)
        return wrap(r.getrandbits(32))

    def int_leaf(self):
        return leaf(self.value(), 'i')

    def bool_leaf(self):
        return leaf(self.rng.randrange(2), 'b')

    def tree(self, ty, d):
        """random typed tree of depth <= d; now and then a subtree goes through the counting function tick()"""
        t = self.tree0(ty, d)
        if self.rng.random() < 0.06:
            return ('eff', t)
        return t

    def tree0(self, ty, d):
        r = self.rng
        if d <= 0 or r.random() < 0.18:
            return self.bool_leaf() if ty == 'b' else self.int_leaf()
        if ty == 'b':
            k = r.random()
            if k < 0.55:
                return ('bin', r.choice(REL), self.tree('i', d - 1), self.tree('i', d - 1))
            if k < 0.85:
                return ('bin', r.choice(LOGIC), self.tree('b', d - 1), self.tree('b', d - 1))
            return ('not', self.tree('b', d - 1))
        k = r.random()
        if k < 0.62:
            return ('bin', r.choice(ARITH), self.tree('i', d - 1), self.tree('i', d - 1))
        if k < 0.78:
            return ('neg', self.tree('i', d - 1))
        return self.tree('b', d)          # a truth value used as an integer

    def operand(self, ty, d=0):
        return self.tree(ty, d)

    def node(self, op, kids):
        if op in ('neg', 'not'):
            return (op, kids[0])
        return ('bin', op, kids[0], kids[1])

    def arity(self, op):
        return 1 if op in ('neg', 'not') else 2

    def operand_type(self, op):
        return 'b' if op in LOGIC or op == 'not' else 'i'

    def result_is_bool(self, op):
        return op in BOOL_OPS

    def op_pair_tree(self, outer, inner, pos, extra_depth=0):
        """outer(.., inner(..), ..) with inner at operand position pos, or None if the typing forbids it"""
        if self.operand_type(outer) == 'b' and not self.result_is_bool(inner):
            return None
        ity = self.operand_type(inner)
        ikids = [self.operand(ity, extra_depth) for _ in range(self.arity(inner))]
        inn = self.node(inner, ikids)
        oty = self.operand_type(outer)
        okids = [self.operand(oty, extra_depth) for _ in range(self.arity(outer))]
        okids[pos] = inn
        return self.node(outer, okids)

    def wrap_tree(self):
        """sums / differences / negations that leave the 32-bit range"""
        r = self.rng
        big = [INT_MAX, INT_MIN, INT_MIN + 1, INT_MAX - 1, 1 << 30, -(1 << 30), (1 << 30) + 5, 65536 * 32767]
        k = r.randrange(7)
        a, b, c = r.choice(big), r.choice(big), r.choice(SPECIAL)
        if k == 0:
            return ('bin', '+', leaf(a), leaf(b if (a > 0) == (b > 0) else -b if b != INT_MIN else INT_MIN))
        if k == 1:
            return ('bin', '-', leaf(a), leaf(b if (a > 0) != (b > 0) else wrap(-b)))
        if k == 2:
            return ('neg', leaf(INT_MIN)) if r.random() < 0.5 else ('bin', '-', leaf(0), leaf(INT_MIN))
        if k == 3:
            return ('bin', '+', leaf(a), ('bin', '+', leaf(a), leaf(c)))                 # chain a + a + c
        if k == 4:
            return ('bin', '-', ('bin', '+', leaf(INT_MAX), leaf(abs(c) + 1 if c != INT_MIN else 1)), leaf(abs(c) + 1 if c != INT_MIN else 1))
        if k == 5:
            return ('bin', r.choice(REL), ('bin', '+', leaf(INT_MAX), leaf(1)), leaf(r.choice((INT_MIN, 0, INT_MAX))))
        return ('bin', '-', ('neg', leaf(INT_MIN)), leaf(c))

    def spelling(self, lf):
        r = self.rng
        v, ty = lf[1], lf[2]
        if ty == 'b' and r.random() < 0.5:
            return ('c', 'kw')
        p = r.random()
        if v < 0:
            if p < 0.25:
                return ('c', 'hex')
            if p < 0.50 and v != INT_MIN:
                return ('c', 'neg')
            if p < 0.62 and v != INT_MIN:
                return ('c', 'sub0')
            if p < 0.75:
                return ('c', 'val')
            if p < 0.87 and v != INT_MIN:
                return ('c', 'valneg')
            return ('c', 'valsum', r.choice((1, -1, 2, 65536, -65536, 5, INT_MAX)))
        if p < 0.45:
            return ('c', 'dec')
        if p < 0.60:
            return ('c', 'hex')
        if p < 0.85:
            return ('c', 'val')
        return ('c', 'valsum', r.choice((1, -1, 2, 65536, -65536, 5, INT_MIN)))

    def assignments(self, tree, limit):
        """leaf-mode assignments other than the all-variable one: every one if few, else a sample that contains
        the all-constant one and the single-variable / single-constant ones"""
        n = nleaves(tree)
        lv = leaves(tree)
        allc = [tuple(m) for m in itertools.product('cv', repeat=n) if 'c' in m] if n <= 4 else None
        if allc is not None and len(allc) <= limit:
            pick = allc
        else:
            pick = {tuple('c' * n)}
            for i in range(n):
                pick.add(tuple('v' if j == i else 'c' for j in range(n)))
                pick.add(tuple('c' if j == i else 'v' for j in range(n)))
            pick = sorted(pick)
            self.rng.shuffle(pick)
            pick = pick[:max(1, limit - 2)]
            while len(pick) < limit:
                m = tuple(self.rng.choice('cv') for _ in range(n))
                if 'c' in m and m not in pick:
                    pick.append(m)
                elif n <= 1:
                    break
        out = []
        for m in pick:
            out.append([('v',) if c == 'v' else self.spelling(lv[i]) for i, c in enumerate(m)])
        return out

    def callrep_context(self):
        r = self.rng
        n = r.randrange(2, 6)
        pos = r.randrange(n)
        pattern = ''.join('E' if i == pos else 'K' for i in range(n))
        k = r.choice((0, 1, 5, -1, 65535, 65536, 70000, -65536, -70000, INT_MAX, INT_MIN, r.randrange(-300, 300)))
        return 'callrep/%s/%s/%d/%s' % (pattern, 'c' if r.random() < 0.75 else 'n', k, r.choice(('lit', 'val')))

    def arr_context(self, shape=None):
        r = self.rng
        return 'arr/%s/%s/%s/%d/%s/%d' % (shape or r.choice(ARR_SHAPES), r.choice('rw'), r.choice('gf'), r.randrange(ARR_N),
                                          r.choice(('lit', 'val')), r.choice((0, 1, 2, 3, 5, -1, -4, 70000, -65536)))

    def context(self, tree):
        r = self.rng
        p = r.random()
        if p < 0.08:
            return self.callrep_context()
        if p < 0.18:
            c = self.arr_context()
            if ctx_ok(tree, c):
                return c
        elif p < 0.30:
            c = r.choice(('ifv', 'ifv', 'whilev'))
            if ctx_ok(tree, c):
                return c
        for _ in range(8):
            c = r.choice(('assign', 'assign', 'exit', 'exit', 'ifc', 'whilec', 'actual', 'ret', 'sub'))
            if ctx_ok(tree, c):
                return c
        return 'assign'


def families(rng, budget):
    """-> list of (family, tree) with about `budget` pairs worth of trees (the caller expands assignments)"""
    g = Gen(rng)
    out = []
    # F1: every operator over the special leaves
    pairs_sp = [(a, b) for a in SPECIAL for b in SPECIAL]
    n1 = max(4, budget // 160)
    for op in ARITH + REL:
        for a, b in rng.sample(pairs_sp, min(n1, len(pairs_sp))):
            out.append(('f1-' + op, ('bin', op, leaf(a), leaf(b))))
    for op in LOGIC:
        for a in (0, 1):
            for b in (0, 1):
                out.append(('f1-' + op, ('bin', op, leaf(a, 'b'), leaf(b, 'b'))))
    for a in (0, 1):
        out.append(('f1-not', ('not', leaf(a, 'b'))))
    for a in rng.sample(SPECIAL, min(len(SPECIAL), max(6, n1))):
        out.append(('f1-neg', ('neg', leaf(a))))
    # F2: all operator pairs, both operand positions
    reps = max(1, budget // 900)
    for outer in ALL_OPS:
        for inner in ALL_OPS:
            for pos in range(g.arity(outer)):
                for _ in range(reps):
                    t = g.op_pair_tree(outer, inner, pos)
                    if t is not None:
                        out.append(('f2-%s/%s' % (outer, inner), t))
    # F3: depth 3 and 4: an operator pair on top of random typed operands
    n3 = max(40, budget // 6)
    for _ in range(n3):
        outer, inner = rng.choice(ALL_OPS), rng.choice(ALL_OPS)
        t = g.op_pair_tree(outer, inner, rng.randrange(g.arity(outer)), extra_depth=rng.choice((1, 1, 2)))
        if t is not None and size(t) <= 40:
            out.append(('f3', t))
    for _ in range(n3 // 2):
        t = g.tree(rng.choice('ib'), rng.choice((3, 4)))
        if t[0] != 'leaf' and size(t) <= 40:
            out.append(('f3', t))
    # F5: effectful operands next to a compile-time constant truth value, on either side of and/or, and inside
    # relational operands
    def effx():
        k = rng.randrange(6)
        a, b = g.value(), g.value()
        if k == 0:
            return ('eff', g.bool_leaf())
        if k == 1:
            return ('bin', rng.choice(REL), ('eff', leaf(a)), leaf(rng.choice((a, b))))
        if k == 2:
            return ('not', ('bin', rng.choice(REL), leaf(b), ('eff', leaf(a))))
        if k == 3:
            return ('bin', rng.choice(LOGIC), ('bin', '=', ('eff', leaf(a)), leaf(a)), g.bool_leaf())
        if k == 4:
            return ('bin', rng.choice(REL), ('bin', rng.choice(ARITH), ('eff', leaf(a % 1000)), leaf(b % 1000)), leaf(rng.choice((a, b)) % 1000))
        return ('bin', '<', ('neg', ('eff', leaf(a % 1000))), leaf(b % 1000))

    def constb():
        k = rng.randrange(4)
        if k == 0:
            return g.bool_leaf()
        if k == 1:
            return ('bin', rng.choice(('<', '=', '~=', '>=')), leaf(rng.randrange(4)), leaf(rng.randrange(4)))
        if k == 2:
            return ('not', g.bool_leaf())
        return ('bin', rng.choice(LOGIC), g.bool_leaf(), g.bool_leaf())
    for _ in range(max(24, budget // 25)):
        x, c = effx(), constb()
        op = rng.choice(LOGIC)
        out.append(('f5-eff', ('bin', op, x, c) if rng.random() < 0.6 else ('bin', op, c, x)))
    for _ in range(max(8, budget // 100)):
        out.append(('f5-eff', ('bin', rng.choice(REL), ('eff', g.int_leaf()), g.int_leaf())))
    # F6: integer-valued conditions (values other than 0 and 1), F7: array index shapes -- both get their context in
    # the caller (families named f6-cond / f7-index)
    for _ in range(max(24, budget // 30)):
        k = rng.randrange(5)
        a, b = g.value(), g.value()
        t = [leaf(a), ('bin', '-', leaf(a), leaf(b)), ('bin', '+', leaf(a), leaf(b)), ('neg', leaf(a)),
             ('bin', '-', leaf(a), ('bin', '+', leaf(b), leaf(rng.randrange(-3, 4))))][k]
        out.append(('f6-cond', t))
    for shape in ARR_SHAPES:
        for _ in range(max(3, budget // 250)):
            k = rng.randrange(4)
            a, b = rng.choice((g.value(), rng.randrange(-20, 20))), rng.randrange(-9, 10)
            t = [leaf(a), ('bin', '+', leaf(a), leaf(b)), ('bin', '-', leaf(b), leaf(a)), ('neg', leaf(a))][k]
            out.append(('f7-index/' + shape, t))
    # F4: sums and differences that wrap
    for _ in range(max(20, budget // 40)):
        out.append(('f4-wrap', g.wrap_tree()))
    return g, out


# ---------------------------------------------------------------- shrinking
def subtrees_variants(t, modes):
    """candidates smaller than (t, modes): (tree, modes) lists.  modes is the per-leaf list."""
    lv = leaves(t)
    assert len(lv) == len(modes)
    out = []

    def rec(node, ms):
        """yield (replacement node, replacement modes) for node with its modes ms"""
        res = []
        if node[0] == 'leaf':
            v = node[1]
            for w in (0, 1, -1, v // 2, wrap(v + 1), wrap(v - 1), INT_MAX, INT_MIN):
                if w != v and abs(w) <= abs(v) and (node[2] == 'i' or w in (0, 1)):
                    res.append((('leaf', w, node[2]), ms))
            if ms[0][0] == 'c' and (len(ms[0]) < 2 or ms[0][1] not in ('dec', 'kw')):
                res.append((node, [('c', 'kw' if node[2] == 'b' else 'dec')]))
            return res
        isb = is_bool_tree(node)
        vals, _ = possible_values(node)
        anyc = any(m[0] == 'c' for m in ms)
        for v in sorted(vals):
            if (not isb) or v in (0, 1):
                res.append((('leaf', v, 'b' if isb and v in (0, 1) else 'i'), [('c', 'dec') if anyc else ('v',)]))
        if node[0] in UNARY:
            if is_bool_tree(node[1]) == isb or not isb:
                res.append((node[1], ms))
            for c, cm in rec(node[1], ms):
                res.append(((node[0], c), cm))
            return res
        nl = nleaves(node[2])
        lm, rm = ms[:nl], ms[nl:]
        for kid, km in ((node[2], lm), (node[3], rm)):
            if (not isb) or is_bool_tree(kid):
                res.append((kid, km))
        for c, cm in rec(node[2], lm):
            res.append((('bin', node[1], c, node[3]), cm + rm))
        for c, cm in rec(node[3], rm):
            res.append((('bin', node[1], node[2], c), lm + cm))
        return res

    for c, cm in rec(t, list(modes)):
        if any(m[0] == 'c' for m in cm):
            out.append((c, cm))
    # one more constant leaf turned into a variable (towards the smallest constant part)
    for i, m in enumerate(modes):
        if m[0] == 'c' and sum(1 for x in modes if x[0] == 'c') > 1:
            out.append((t, [('v',) if j == i else x for j, x in enumerate(modes)]))
    return out


def measure(t, modes):
    return (cmp_overflow_nodes(t), size(t), sum(1 for m in modes if m[0] == 'c'),
            sum(0 if (m[0] == 'v' or m[1] in ('dec', 'kw')) else 1 for m in modes),
            sum(len(str(abs(l[1]))) for l in leaves(t)))


def shrink(t, modes, fails, budget=150):
    """greedy: accept any candidate with a smaller measure on which `fails` still holds"""
    used = 0
    cur = (t, list(modes))
    improved = True
    while improved and used < budget:
        improved = False
        cands = subtrees_variants(*cur)
        cands.sort(key=lambda c: measure(*c))
        for c in cands:
            if measure(*c) >= measure(*cur):
                continue
            used += 1
            if fails(*c):
                cur = c
                improved = True
                break
            if used >= budget:
                break
    return cur, used
