#!/usr/bin/env python3
"""C16 -- processor.v (verilog/ and synth/) is behaviourally identical to processor.sv.
proof : Properties_C16.v -- C16_equiv / C16_copies_identical by reflection (vm_compute over 256 bytes x 2 reset levels,
        lifted by norm_sound / veqb_sound) over the designs that tools/vl2coq.py regenerates from the working tree.
tie   : translator validation -- extracted Vexp.eval of each generated design vs the Verilated model of the same file.
oracle: the Verilated models of processor.sv and processor.v (and synth/processor.v when it is not a textual copy)
        stepped in lock-step on planted states (all 256 bytes x corner/random registers x random i_d_data, both reset
        levels) and on random instruction sequences; all outputs and all registers compared after every clock."""
import json, os, re, sys
sys.path.insert(0, os.path.dirname(os.path.abspath(__file__)))
import vlib, gen_rtl
from vlib import Check, sh

M32 = 0xffffffff
A_CORNERS = [0, 1, 2, 3, 0x7fffffff, 0x80000000, 0xffffffff, 0xfffffffe, 0x7ffff, 0x80000, 0x3ffff, 0x40000, 0xfffff, 0x100000,
             0x1fffff, 0x200000, 199999, 200000]
PC_CORNERS = [0, 1, 2, 3, 4, 0x1fffff, 0x1ffffe, 0x100000, 0xfffff, 799999, 800000]


def gen_state(rng, byte):
    def val():
        r = rng.random()
        if r < 0.4:
            return rng.choice(A_CORNERS)
        if r < 0.6:
            return rng.randrange(0, 64)
        if r < 0.8:
            return rng.randrange(0, 1 << 21)
        return rng.randrange(0, 1 << 32)
    r = rng.random()
    if r < 0.3:
        oreg = 0
    elif r < 0.75:
        # prefix-chain shaped: multiple of 16; exercise bit 18 / bit 20 (sign of the 19/21-bit operands) and NFIX shapes
        oreg = (rng.choice([1, 2, 15, 16, 255, 0x3fff, 0x4000, 0x7fff, 0x8000, 0xffff, 0x10000, 0xfffffff, 0xffffff0,
                            rng.randrange(0, 1 << 28)]) << 4) & M32
    else:
        oreg = val()
    pc = rng.choice(PC_CORNERS) if rng.random() < 0.4 else rng.randrange(0, 1 << 21)
    return pc, val(), val(), oreg, val()


def strip_comments(text):
    text = re.sub(r'/\*.*?\*/', ' ', text, flags=re.S)
    text = re.sub(r'//[^\n]*', ' ', text)
    return text.split()


def coq_failures(ck, pair):
    """ask Coq which (byte, reset, signals) fail the reflective comparison; [] if it cannot be computed"""
    d = vlib.scratch()
    a, b = pair
    open(os.path.join(d, 'Diag.v'), 'w').write(
        'From Coq Require Import ZArith List String.\nFrom HexVerif Require Import Vexp RtlEquiv.\n'
        'From HexVerif.gen Require %s %s.\nSet Printing Width 100000.\n'
        'Eval vm_compute in (proc_equiv_failures %s.design %s.design).\n' % (a, b, a, b))
    rc, out = sh('coqc -Q %s HexVerif %s/Diag.v' % (vlib.COQ, d), cwd=d, timeout=600)
    if rc != 0:
        return None
    fails = []
    flat = re.sub(r'\s+', ' ', out).replace('%Z', '').replace('%string', '')
    for m in re.finditer(r'\( ?(\d+), ?\( ?(\d+), ?((?:"[^"]*" ?:: ?)*)nil ?\) ?\)', flat):
        fails.append((int(m.group(1)), int(m.group(2)), re.findall(r'"([^"]+)"', m.group(3))))
    return fails


def main():
    ck = Check('C16')
    ck.cov['trusted_base'] = ['Coq 8.16.1 kernel + VM (vm_compute)', 'Verilator 5.006 front end (elaboration, widths) -- shared by translator and oracle',
                              'tools/vl2coq.py (XML -> vexp), validated on every run against the Verilated models',
                              'Vexp.eval as the 2-state meaning of an expression', 'ExtrOcamlBasic extraction + ocaml/rtldrv.ml',
                              'harness/rtl_proc.cpp, g++ 12']
    ck.assumptions = ['2-state semantics as Verilator implements it: ===/!== are ==/!=, 1\'bx is an arbitrary value (the theorem quantifies over it)',
                      'the next-state functions take i_rst as an ordinary input sampled at the rising clock edge; which edges trigger a register is compared separately (design.clocking, part of C16_equiv) and exercised by reset pulses between clock edges in the lock-step runs',
                      'timing, X-propagation and synthesis are not modelled; synth/synth.in.ys reads processor.sv, not the .v (observation, not judged)']
    rng = ck.rng
    # ---- (a) regenerate the designs from the working tree
    status = gen_rtl.generate_all()
    for t in ('sv', 'v', 'vsynth'):
        if status.get(t):
            ck.broken.append('translation of %s failed: %s' % (vl2coq_name(t), status[t]))
    ck.log('generated designs:', {k: ('ok' if v is None else 'FAILED') for k, v in status.items()})
    # ---- (b) proofs
    ok = ck.proofs()
    ck.log('proofs', 'ok' if ok else 'BROKEN')
    focus = {}
    if not ok:
        for pair in (('RtlV', 'RtlSv'), ('RtlVSynth', 'RtlV')):
            fl = coq_failures(ck, pair)
            if fl:
                ck.cov.setdefault('coq_failing_bytes', {})['%s vs %s' % pair] = [{'byte': k, 'rst': r, 'signals': s} for k, r, s in fl[:40]]
                for k, r, s in fl:
                    focus[k] = focus.get(k, 0) + 1
                ck.log('Coq comparison %s vs %s fails for bytes %s' % (pair[0], pair[1], sorted({k for k, _, _ in fl})[:20]))
    # ---- textual relation of the two shipped copies
    try:
        tv = open(os.path.join(vlib.REPO, 'verilog', 'processor.v')).read()
        ts = open(os.path.join(vlib.REPO, 'synth', 'processor.v')).read()
        copies_textual = strip_comments(tv) == strip_comments(ts)
    except OSError as ex:
        copies_textual = False
        ck.broken.append('cannot read the shipped copies: %s' % ex)
    ck.cov['copies_differ_only_in_comments'] = copies_textual
    try:
        body = lambda f: open(os.path.join(vlib.COQ, 'gen', f)).read().split('\n', 1)[1]
        ck.cov['copies_translate_to_identical_design'] = body('RtlV.v') == body('RtlVSynth.v')
    except (OSError, IndexError):
        ck.cov['copies_translate_to_identical_design'] = False
    # ---- (c) engines
    hv, log = vlib.ocaml_build()
    if hv is None:
        ck.broken.append('extraction/OCaml build failed: ' + log[-400:])
    variants = ['sv', 'v'] + ([] if copies_textual else ['vsynth'])
    exe = {}
    for v in variants:
        exe[v], log = gen_rtl.build_proc(v)
        if exe[v] is None:
            ck.broken.append('Verilator cannot build %s from the working tree: %s' % (gen_rtl.PROC_VARIANTS[v][-1], log[-500:]))
    ck.log('verilated models:', {v: bool(exe[v]) for v in variants})
    if exe.get('sv') is None or exe.get('v') is None:
        ck.finish()
    # ---- cases
    cases = []
    if ck.replay_arg:
        rp = json.load(open(ck.replay_arg))
        cases = list(rp.get('cases') or [rp['case']])
    else:
        corp = os.path.join(vlib.ROOT, 'corpus', 'C16', 'cases.txt')
        if os.path.exists(corp):
            block = []
            for l in open(corp):
                if l.strip() and not l.startswith('#'):
                    cases.append(l.strip())
        ncorpus = len(cases)
        per_byte = 150 if not ck.thorough() else 4000
        for byte in range(256):
            n = per_byte * (6 if byte in focus else 1)
            for i in range(n):
                pc, a, b, o, dd = gen_state(rng, byte)
                rst = 1 if i % 16 == 15 else 2 if i % 16 == 7 else 0          # 2 = reset pulse with the clock low (no clock edge)
                cases.append('1 %d %d %d %d %d %d %d %d' % (byte, rst, pc, a, b, o, dd, rng.choice([0, 1, rng.randrange(0, 1 << 32)])))
        # instruction sequences: plant once, then let the designs run on a random byte / read-data stream
        nseq, seqlen = (60, 300) if not ck.thorough() else (2000, 400)
        legal = [k for k in range(256) if (k >> 4) != 12]
        for s in range(nseq):
            pc, a, b, o, dd = gen_state(rng, 0)
            for j in range(seqlen):
                r = rng.random()
                byte = rng.choice(legal) if r < 0.7 else (rng.choice([0xD0, 0xD1, 0xD2, 0xD3]) if r < 0.85 else rng.randrange(256))
                r2 = rng.random()
                rst = 1 if r2 < 0.01 else 2 if r2 < 0.02 else 0
                cases.append('%d %d %d %d %d %d %d %d %d' % (1 if j == 0 else 0, byte, rst, pc, a, b, o, rng.choice([0, 1, M32, rng.randrange(0, 1 << 32)]), rng.randrange(0, 2)))
    d = vlib.scratch()
    open(os.path.join(d, 'cases.txt'), 'w').write('\n'.join(cases) + '\n')
    R = {}
    for v in variants:
        if exe[v] is None:
            continue
        rc, out = sh('%s < cases.txt > real_%s.txt' % (exe[v], v), cwd=d, timeout=1800)
        R[v] = [l[2:] for l in open(os.path.join(d, 'real_%s.txt' % v)).read().split('\n') if l.startswith('R ')]
        if rc != 0 or len(R[v]) != len(cases):
            ck.broken.append('Verilated model of %s stopped: rc=%d, %d/%d results %s' % (v, rc, len(R[v]), len(cases), out[-200:]))
            del R[v]
    Mod = {}
    if hv:
        for v in variants:
            rc, out = sh('%s rtlproc %s < cases.txt > model_%s.txt' % (hv, v, v), cwd=d, timeout=1800)
            Mod[v] = [l[2:] for l in open(os.path.join(d, 'model_%s.txt' % v)).read().split('\n') if l.startswith('R ')]
            if rc != 0 or len(Mod[v]) != len(cases):
                ck.broken.append('extracted eval of the generated design %s failed: rc=%d, %d/%d results %s' % (v, rc, len(Mod[v]), len(cases), out[-300:]))
                del Mod[v]
    # ---- direct oracle: the real designs against each other
    def context(i):
        """the case with the planted prefix of its sequence, so that a replay reproduces it"""
        j = i
        while j > 0 and cases[j].split()[0] == '0':
            j -= 1
        return cases[j:i + 1]
    nviol = 0
    pairs = [('v', 'sv')] + ([('vsynth', 'v')] if 'vsynth' in R else [])
    for a, b in pairs:
        if a not in R or b not in R:
            continue
        skip_until_plant = False
        for i, c in enumerate(cases):
            if c.split()[0] == '1':
                skip_until_plant = False
            if skip_until_plant:
                continue
            if R[a][i] != R[b][i]:
                nviol += 1
                skip_until_plant = True          # the rest of a diverged sequence carries no information
                if nviol <= 3:
                    f = c.split()
                    ck.violation('%s and %s differ on byte 0x%02x rst=%s: %s gives [%s], %s gives [%s]'
                                 % (gen_rtl.PROC_VARIANTS[a][-1], gen_rtl.PROC_VARIANTS[b][-1], int(f[1]), f[2], a, R[a][i], b, R[b][i]),
                                 {'cases': context(i), 'format': 'plant byte rst pc areg breg oreg i_d_data xv', a: R[a][i], b: R[b][i],
                                  'replay_cmd': './check C16 --replay <this file>'},
                                 tags={'kind': 'rtl-diff', 'pair': a + '/' + b})
    # ---- translator validation: extracted eval of the generated design vs the Verilated model of the same source
    tdiff = 0
    for v in variants:
        if v not in R or v not in Mod or status.get(v):
            continue          # (a failed translation is already reported as a broken tie)
        skip_until_plant = False
        for i, c in enumerate(cases):
            if c.split()[0] == '1':
                skip_until_plant = False
            if skip_until_plant:
                continue
            if R[v][i] != Mod[v][i]:
                tdiff += 1
                skip_until_plant = True
                if tdiff <= 3:
                    ck.broken.append('translator validation: generated design %s disagrees with the Verilated model on case [%s]: model [%s] verilator [%s]'
                                     % (v, c, Mod[v][i], R[v][i]))
    # ---- evidence
    distinct = set()
    dist = {'planted': 0, 'sequence_cycles': 0, 'reset_cycles': 0, 'reset_pulses_between_edges': 0}
    byop = {}
    if 'sv' in R:
        for i, c in enumerate(cases):
            f = c.split()
            dist['planted' if f[0] == '1' else 'sequence_cycles'] += 1
            if f[2] == '1':
                dist['reset_cycles'] += 1
            if f[2] == '2':
                dist['reset_pulses_between_edges'] += 1
            outs, nxt = R['sv'][i].split(' | ')
            nx = dict(x.split('=') for x in nxt.split())
            ou = dict(x.split('=') for x in outs.split())
            trivial = (ou['o_d_valid'] == '0' and ou['o_syscall_valid'] == '0' and f[0] == '1' and
                       nx['areg_q'] == f[4] and nx['breg_q'] == f[5] and nx['oreg_q'] == '0' and int(nx['pc_q']) == (int(f[3]) + 1) % (1 << 21))
            if not trivial:
                distinct.add((f[1], nxt, outs))
            op = int(f[1]) >> 4
            byop[op] = byop.get(op, 0) + 1
            if i % 2503 == 0:
                ck.sample({'case': c, 'format': 'plant byte rst pc areg breg oreg i_d_data xv', 'processor.sv': R['sv'][i], 'processor.v': R.get('v', [''] * len(cases))[i],
                           'extracted_eval_of_RtlV': Mod.get('v', [''] * len(cases))[i]})
    ck.cov['evaluations'] = len(cases) * (len(R) + len(Mod))
    ck.cov['cycles_compared'] = len(cases)
    ck.cov['distinct_nontrivial'] = len(distinct)
    ck.cov['rule'] = ('case = (instruction byte, reset level, planted pc/areg/breg/oreg, i_d_data, value of the x constants) for each of the 256 bytes, '
                      'plus random instruction sequences continued from the designs\' own state; non-trivial = the cycle does more than pc+1/oreg:=0 '
                      '(register written, branch taken, memory or syscall request, reset, or a sequence cycle); distinct by (byte, outputs, next state)')
    ck.cov['input_distribution'] = dist
    ck.cov['cases_per_opcode'] = {('%x' % k): v for k, v in sorted(byop.items())}
    ck.cov['designs_stepped'] = sorted(R)
    ck.cov['translator_validation_disagreements'] = tdiff
    ck.cov['oracle_disagreements'] = nviol
    ck.cov['exhaustive'] = False
    ck.cov['explanation'] = 'the theorem covers all states; the lock-step runs validate the translator and give replays'
    ck.log('cycles %d on %s; oracle differences %d; translator-validation differences %d' % (len(cases), sorted(R), nviol, tdiff))
    ck.finish()


def vl2coq_name(t):
    return {'sv': 'verilog/processor.sv', 'v': 'verilog/processor.v', 'vsynth': 'synth/processor.v'}.get(t, t)


if __name__ == '__main__':
    main()
