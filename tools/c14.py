#!/usr/bin/env python3
"""C14 -- tool exit status and output files reflect what happened.
proof:  Properties_C14.v over CliModel.v (the four main() functions over an abstract file system).
tie:    the four executables built from the working tree, run in a fresh scratch directory per case, against the
        extracted CliModel on the same argv and the same accepted/rejected classification of the source.
oracle: the property's table applied to the observed run: accepted -> status 0, binary exactly in the file named by
        -o/--output (a.out by default), nothing else created; rejected -> diagnostic on stderr, non-zero status, no new
        file; hexsim/xrun status = the program's exit value mod 256; xrun = xcmp then hexsim."""
import os, sys, shutil, itertools
sys.path.insert(0, os.path.dirname(os.path.abspath(__file__)))
import vlib
from vlib import Check, run3


def asm_exit(v):
    return ('BR start\nDATA 16383\nstart\nLDAC %d\nLDBM 1\nSTAI 2\nLDAC 0\nOPR SVC\n' % v).encode()


def x_exit(v):
    if v < 0:
        return ('val exit = 0;\nproc main() is exit(0 - %d)\n' % (-v)).encode()
    return ('val exit = 0;\nproc main() is exit(%d)\n' % v).encode()


BIG_ASM = b'BR start\nDATA 16383\nstart\nLDAC 0\nLDBM 1\nSTAI 2\nLDAC 0\nOPR SVC\n' + b'DATA 7\n' * 200100   # image > 200000 words: still an acceptable source
ASM_SOURCES = [('accept', BIG_ASM, 0), ('accept', asm_exit(0), 0), ('accept', asm_exit(7), 7), ('accept', b'x\nLDAC 1\nBR x\n', None),
               ('reject', b'LDAC @\n', None), ('reject', b'LDAC\n', None), ('reject', b'BR nowhere\n', None), ('reject', b'OPR LDAC\n', None),
               ('reject', b'LDAC 1\nx\nDATA 1\nOPR ADD\ny\nLDAM y\n', None)]
X_SOURCES = [('accept', x_exit(0), 0), ('accept', x_exit(1), 1), ('accept', x_exit(255), 255), ('accept', x_exit(256), 256), ('accept', x_exit(-1), -1),
             ('accept', b'proc main() is skip\n', 0), ('accept', b'val put = 1;\nproc main() is { put(104, 0); put(105, 0) }\n', 0),
             ('reject', b'proc main() is @\n', None), ('reject', b'proc main() is\n', None), ('reject', b'proc main( is skip\n', None),
             ('reject', b'proc main() is x := 1\n', None), ('reject', b'proc main() is 3(1)\n', None), ('reject', b'array a[n];\nproc main() is skip\n', None)]


def argv_shapes(infile, thorough):
    o = 'out.bin'
    shapes = [[infile], [infile, '-o', o], ['-o', o, infile], [infile, '--output', o], ['--output', o, infile]]
    extra = [[infile, '-o'], ['-o', o], ['--bogus', infile], [infile, 'second.src'], ['-o', o, infile, '-o', 'o2.bin'], []]
    return shapes + extra


def snapshot(d):
    out = {}
    for n in os.listdir(d):
        p = os.path.join(d, n)
        if os.path.isfile(p):
            out[n] = open(p, 'rb').read()
    return out


def main():
    ck = Check('C14')
    ck.cov['trusted_base'] = ['Coq 8.16.1 kernel + VM', 'CliModel.v hand model of the four main() functions, tied by this run', 'extraction + clidrv.ml',
                              'the OS: exit status truncation to 8 bits, file creation', 'g++ 12 builds of hexasm/xcmp/xrun/hexsim from the working tree']
    ck.assumptions = ['accepted/rejected classification of the test sources is by construction (valid programs / programs with one injected error)',
                      'listing modes other than -S/--instrs are not judged']
    ok = ck.proofs()
    ck.log('proofs', 'ok' if ok else 'BROKEN')
    hv, log = vlib.ocaml_build()
    tools = {}
    for t in ('hexasm', 'xcmp', 'xrun', 'hexsim'):
        exe, lg = vlib.repo_tool(t)
        if exe is None:
            ck.broken.append('%s does not build from the working tree: %s' % (t, lg[-300:]))
        tools[t] = exe
    if hv is None or any(v is None for v in tools.values()):
        ck.finish()
    base = vlib.scratch()
    cases = []      # (tool, cls, exitvalue, argv, srcbytes, exists)
    for cls, src, ev in ASM_SOURCES:
        for argv in argv_shapes('in.src', ck.thorough()):
            cases.append(('hexasm', cls, ev, argv, src, True))
    for cls, src, ev in X_SOURCES:
        for argv in argv_shapes('in.src', ck.thorough()):
            cases.append(('xcmp', cls, ev, argv, src, True))
        cases.append(('xrun', cls, ev, ['in.src'], src, True))
    # the file named by -o cannot be written: a missing directory, a directory, the empty name
    UNW = [['in.src', '-o', 'nodir/out.bin'], ['-o', 'adir', 'in.src'], ['in.src', '-o', ''], ['--output', 'nodir/x', 'in.src'], ['in.src', '--output', '.']]
    for argv in UNW:
        cases.append(('hexasm', 'accept', 7, argv, asm_exit(7), True))
        cases.append(('hexasm', 'reject', None, argv, b'LDAC\n', True))
        cases.append(('xcmp', 'accept', 1, argv, x_exit(1), True))
        cases.append(('xcmp', 'reject', None, argv, b'proc main() is @\n', True))
    # hexsim / xrun argument shapes (the binary exits with 9 after 6 instructions)
    def tiny_bin(v):
        body = bytes([0x97, 0, 0, 0, 0xff, 0x3f, 0, 0, 0x30 | v, 0x11, 0x82, 0x30, 0xD3, 0, 0, 0])
        return (4).to_bytes(4, 'little') + body
    for argv in (['in.bin'], ['in.bin', '--max-cycles', '100'], ['--max-cycles', '100', 'in.bin'], ['--max-cycles', 'abc', 'in.bin'], ['in.bin', '--max-cycles'],
                 ['-t', 'in.bin'], ['in.bin', '--trace'], ['in.bin', 'extra.bin'], ['--max-cycles', '12abc', 'in.bin'], ['--max-cycles', ' 7', 'in.bin'], ['--max-cycles', '-1', 'in.bin'],
                 ['--max-cycles', '99999999999999999999999', 'in.bin'], ['--max-cycles', '18446744073709551615', 'in.bin'], ['--max-cycles', '18446744073709551616', 'in.bin'],
                 ['--max-cycles', '', 'in.bin'], ['--max-cycles', '+50', 'in.bin'], ['--max-cycles', '- 5', 'in.bin'], ['-d', 'in.bin'], ['in.bin', '--dump'], ['-h'], ['in.bin', '--help'], [],
                 ['--bogus', 'in.bin']):
        cases.append(('hexsim', 'accept', 9, argv, tiny_bin(9), True))
    cases.append(('hexsim', 'accept', 9, ['missing.bin'], b'', False))
    cases.append(('hexsim', 'accept', 9, ['-d', 'missing.bin'], b'', False))
    for argv in (['in.src', '--max-cycles', 'abc'], ['--max-cycles', '100000', 'in.src'], ['in.src', '--max-cycles'], ['in.src', '--bogus'], ['in.src', 'second.src'], ['--max-cycles', '', 'in.src'],
                 ['-h'], [], ['--max-cycles', '12000abc ', 'in.src']):
        cases.append(('xrun', 'accept', 5, argv, x_exit(5), True))
    cases.append(('hexasm', 'accept', 0, ['missing.src'], b'', False))
    cases.append(('xcmp', 'accept', 0, ['missing.src', '-o', 'out.bin'], b'', False))
    if ck.replay_arg:
        import json
        r = json.load(open(ck.replay_arg))
        # a recorded table violation: the tool, its argv and the source; the class is re-derived from the model's work
        # parameter as recorded (accepted iff the recorded model line starts with status 0 or the status is the program's)
        src = r.get('source', '').encode('latin1')
        cls = 'accept' if any(src == s2 for c2, s2, e2 in ASM_SOURCES + X_SOURCES if c2 == 'accept') or src in (asm_exit(7), x_exit(1), x_exit(5), tiny_bin(9)) else 'reject'
        cases = [(r['tool'], cls, 0, r['argv'], src, True)]
    # model expectations
    lines = []
    for tool, cls, ev, argv, src, exists in cases:
        lines.append('\t'.join([tool, '1' if cls == 'accept' else '0', str(ev or 0), '1' if exists else '0'] + argv))
    rc, o, e = run3([hv, 'climodel'], input=('\n'.join(lines) + '\n').encode(), timeout=120)
    model = o.decode().strip().split('\n')
    if rc != 0 or len(model) != len(cases):
        ck.broken.append('extracted CliModel failed: rc=%d %s' % (rc, e.decode()[-200:]))
        ck.finish()
    nbad = 0
    ncorr = 0
    dist = {}
    reference_bin = {}
    # what hexasm must write for the accepted assembly sources: the assembler model's file bytes (asm_tool of Properties_C14.v)
    import asmcommon as A
    asm_srcs = [src for cls, src, ev in ASM_SOURCES if cls == 'accept' and len(src) < 100000]
    mres, mrc, merr = A.run_model(hv, asm_srcs, base)
    for src, lines in zip(asm_srcs, mres):
        fb = A.parse_file_line(lines or [])
        if fb is not None:
            reference_bin[('hexasm', src)] = fb
    for k, (tool, cls, ev, argv, src, exists) in enumerate(cases):
        d = os.path.join(base, 'c%d' % k)
        os.makedirs(d)
        if exists:
            open(os.path.join(d, 'in.bin' if tool == 'hexsim' else 'in.src'), 'wb').write(src)
        os.makedirs(os.path.join(d, 'adir'))
        stale = (k % 2 == 1)
        if stale:
            # an older binary already sits where the output goes: a rejected run must leave it as it is
            for n in ('out.bin', 'a.out'):
                open(os.path.join(d, n), 'wb').write(b'OLD BINARY ' + n.encode())
        before = snapshot(d)
        rc, out, err = run3([tools[tool]] + argv, cwd=d, input=b'', timeout=60)
        after = snapshot(d)
        changed = sorted(n for n in after if after[n] != before.get(n))
        ck.cov['evaluations'] += 1
        key = '%s/%s/%s' % (tool, cls, 'std' if k % 11 < 5 else 'odd')
        dist[key] = dist.get(key, 0) + 1
        obs = '%d %d changed=%s' % (rc, 1 if err.strip() else 0, ','.join(changed))
        # ---- direct oracle: the property's table, for the argument shapes the property names
        std_shape = exists and len(argv) in (1, 3) and 'in.src' in argv and all(a in ('in.src', '-o', '--output', 'out.bin') for a in argv) and (len(argv) == 1 or argv[-1] != '-o')
        viol = None
        if tool in ('hexasm', 'xcmp') and std_shape:
            outname = 'out.bin' if len(argv) == 3 else 'a.out'
            if cls == 'accept':
                if rc != 0:
                    viol = 'accepted source but exit status %d' % rc
                elif changed != [outname]:
                    viol = 'accepted source, -o names %s, but the files created are %s' % (outname, changed)
                else:
                    ref = reference_bin.setdefault((tool, src), after[outname])
                    if after[outname] != ref or not after[outname]:
                        viol = 'the binary differs between argument orders/spellings (or is empty)'
            else:
                if rc == 0:
                    viol = 'rejected source (diagnostic: %r) but exit status 0' % err.decode('latin1')[:80]
                elif not err.strip():
                    viol = 'rejected source, non-zero status, but no diagnostic'
                elif changed:
                    viol = 'rejected source but files were created, truncated or rewritten: %s' % changed
        if tool in ('hexasm', 'xcmp') and not exists and (rc == 0 or not err.strip() or changed):
            viol = 'input file does not exist: status %d, diagnostic %r, files %s (expected a diagnostic, non-zero status, nothing written)' % (rc, err.decode('latin1')[:60], changed)
        outarg = next((argv[i + 1] for i in range(len(argv) - 1) if argv[i] in ('-o', '--output')), None)
        if tool in ('hexasm', 'xcmp') and exists and outarg in ('nodir/out.bin', 'adir', '', 'nodir/x', '.') and 'in.src' in argv:
            if rc == 0 or not err.strip() or changed:
                viol = 'the file named by -o (%r) cannot be written, yet status %d, diagnostic %r, files changed %s (expected a diagnostic and a non-zero status)' % (outarg, rc, err.decode('latin1')[:60], changed)
        if tool == 'xrun' and argv == ['in.src']:
            if cls == 'accept' and rc != (ev & 0xff):
                viol = 'xrun exit status %d, the program exits with %d' % (rc, ev)
            if cls == 'reject' and (rc == 0 or not err.strip()):
                viol = 'xrun on a rejected source: status %d, diagnostic %r' % (rc, err.decode('latin1')[:60])
        if viol:
            nbad += 1
            if nbad <= 6:
                ck.violation('%s %s: %s' % (tool, ' '.join(argv), viol),
                             {'tool': tool, 'argv': argv, 'source': src.decode('latin1'), 'status': rc, 'stderr': err.decode('latin1')[:300], 'files_created': changed,
                              'model': model[k]}, tags={'kind': 'cli', 'tool': tool, 'class': cls})
        # ---- correspondence with the model (file a.bin of xrun and every shape, also the odd ones)
        mo = model[k]
        if tool == 'xrun' and cls == 'accept':
            mo = mo      # model status is exit value mod 256 as well
        if obs != mo:
            ncorr += 1
            if ncorr <= 3:
                ck.broken.append('CliModel disagrees with the %s executable on argv %s (%s source): model [%s] real [%s]' % (tool, argv, cls, mo, obs))
        elif len(ck.cov['samples']) < 8 and k % 23 == 0:
            ck.sample({'tool': tool, 'argv': argv, 'class': cls, 'observed': obs})
        shutil.rmtree(d, ignore_errors=True)
    # ---- hexsim: status = exit value mod 256 ; xrun = xcmp ; hexsim
    for cls, src, ev in X_SOURCES:
        if cls != 'accept':
            continue
        d = os.path.join(base, 'hs')
        os.makedirs(d, exist_ok=True)
        open(os.path.join(d, 'in.src'), 'wb').write(src)
        rc1, o1, e1 = run3([tools['xcmp'], 'in.src', '-o', 't.bin'], cwd=d, timeout=60)
        tb = os.path.join(d, 't.bin') if os.path.exists(os.path.join(d, 't.bin')) else os.path.join(d, 'a.out')
        if rc1 != 0 or not os.path.exists(tb):
            ck.broken.append('xcmp did not compile an accepted test source (status %d): the hexsim/xrun status comparison cannot be made' % rc1)
            continue
        rc2, o2, e2 = run3([tools['hexsim'], os.path.basename(tb)], cwd=d, input=b'', timeout=60)
        rc3, o3, e3 = run3([tools['xrun'], 'in.src'], cwd=d, input=b'', timeout=60)
        ck.cov['evaluations'] += 2
        if rc2 != (ev & 0xff):
            ck.violation('hexsim exit status %d, the program exits with %d' % (rc2, ev), {'source': src.decode(), 'status': rc2}, tags={'kind': 'cli', 'tool': 'hexsim'})
        # with a cycle limit that still lets the program reach its exit, the status is still the program's exit value
        rcI, oI, eI = run3(vlib.big_stack([hv, 'c02run', os.path.basename(tb), '1000000']), cwd=d, input=b'', timeout=120)
        try:
            steps = int(dict(x.split('=') for x in oI.decode().split('\n')[0].split()[2:])['steps'])
        except Exception:
            steps = None
            ck.broken.append('the extracted ISA run of a compiled test program gave no END line: ' + (oI + eI).decode('latin1')[-160:])
        if steps:
            for m in (steps - 1, steps, steps + 7):
                if m < 1:
                    continue
                rc6, o6, e6 = run3([tools['hexsim'], os.path.basename(tb), '--max-cycles', str(m)], cwd=d, input=b'', timeout=60)
                rc7, o7, e7 = run3([tools['xrun'], 'in.src', '--max-cycles', str(m)], cwd=d, input=b'', timeout=60)
                ck.cov['evaluations'] += 2
                for tool_, rcx in (('hexsim', rc6), ('xrun', rc7)):
                    if rcx != (ev & 0xff):
                        ck.violation('%s --max-cycles %d (the program exits on instruction %d): status %d, the program exits with %d' % (tool_, m, steps, rcx, ev),
                                     {'source': src.decode(), 'max_cycles': m, 'steps': steps, 'status': rcx}, tags={'kind': 'cli', 'tool': tool_, 'class': 'limit'})
        if (rc3, o3) != (rc2, o2):
            ck.violation('xrun (status %d, output %r) is not xcmp followed by hexsim (status %d, output %r)' % (rc3, o3[:40], rc2, o2[:40]),
                         {'source': src.decode()}, tags={'kind': 'cli', 'tool': 'xrun', 'class': 'accept'})
        shutil.rmtree(d, ignore_errors=True)
    # ---- programs that read input: hexsim's and xrun's status/output = the ISA run of the compiled binary on the same
    #      console bytes and stream files (bytes >= 0x80, 0xFF, end of file, missing/empty/exhausted simin files)
    IO_PROGS = [b'val exit = 0;\nval get = 2;\nproc main() is exit(get(0))\n',
                b'val exit = 0;\nval get = 2;\nproc main() is if get(0) = 255 then exit(33) else exit(22)\n',
                b'val exit = 0;\nval get = 2;\nproc main() is if get(0) < 0 then exit(11) else exit(44)\n',
                b'val exit = 0;\nval get = 2;\nval put = 1;\nvar c;\nproc main() is { c := get(0); while ~(c = 255) do { put(c, 0); c := get(0) }; exit(0) }\n',
                b'val exit = 0;\nval get = 2;\nproc main() is exit(get(256))\n',
                b'val exit = 0;\nval get = 2;\nvar c;\nvar n;\nproc main() is { n := 0; c := get(512); while ~(c = 255) do { n := n + 1; c := get(512) }; exit(0) }\n',
                b'val exit = 0;\nval get = 2;\nvar c;\nproc main() is { c := get(768); c := get(768); exit(7) }\n']
    IO_INPUTS = [b'', b'A', b'\x80', b'\xff', b'ab\xfe\n']
    for pi, src in enumerate(IO_PROGS):
        d = os.path.join(base, 'io%d' % pi)
        os.makedirs(d, exist_ok=True)
        open(os.path.join(d, 'in.src'), 'wb').write(src)
        open(os.path.join(d, 'simin1'), 'wb').write(b'\x90xyz')      # stream 256
        open(os.path.join(d, 'simin2'), 'wb').write(b'12345')         # stream 512: read to its end
        # stream 768 (simin3) does not exist
        rc1, o1, e1 = run3([tools['xcmp'], 'in.src', '-o', 't.bin'], cwd=d, timeout=60)
        if rc1 != 0 or not os.path.exists(os.path.join(d, 't.bin')):
            ck.violation('xcmp rejected an I/O test program: ' + e1.decode('latin1')[:120], {'source': src.decode()}, tags={'kind': 'cli', 'tool': 'xcmp', 'class': 'accept'})
            continue
        for inp in IO_INPUTS:
            rcI, oI, eI = run3(vlib.big_stack([hv, 'c02run', 't.bin', '2000000']), cwd=d, input=inp, timeout=120)
            li = oI.decode().split('\n')
            try:
                f = dict(x.split('=') for x in li[0].split()[2:])
                exp_rc = int(f['rc']) & 0xff
                exp_out = bytes(int(x) for x in li[2].split()[2:])
                ended = li[0].split()[1]
            except Exception:
                ck.broken.append('the extracted ISA run of an I/O test program gave no END line: ' + (oI + eI).decode('latin1')[-160:])
                continue
            if ended != 'exit':
                ck.broken.append('an I/O test program does not reach its exit on the extracted ISA (%s)' % li[0][:80])
                continue
            for tool_, cmd in (('hexsim', [tools['hexsim'], 't.bin']), ('xrun', [tools['xrun'], 'in.src'])):
                rcx, ox, ex = run3(cmd, cwd=d, input=inp, timeout=60)
                ck.cov['evaluations'] += 1
                if rcx != exp_rc or ox != exp_out:
                    ck.violation('%s on a program that reads input %r: status %d output %r, the program (ISA run of its binary) exits with %d and writes %r' % (tool_, inp, rcx, ox[:30], exp_rc, exp_out[:30]),
                                 {'source': src.decode(), 'input': list(inp), 'status': rcx, 'stderr': ex.decode('latin1')[:200]}, tags={'kind': 'cli', 'tool': tool_, 'class': 'io'})
        shutil.rmtree(d, ignore_errors=True)
    ck.cov['distinct_nontrivial'] = len(cases)
    ck.cov['rule'] = 'every (tool, argv shape, source) triple: 11 argv shapes x accepted/rejected assembly and X sources; all distinct; all judged (standard shapes by the property table, all shapes against the model)'
    ck.cov['input_distribution'] = dist
    ck.cov['exhaustive'] = True
    ck.cov['correspondence_differences'] = ncorr
    ck.log('cases %d, table violations %d, model differences %d' % (len(cases), nbad, ncorr))
    ck.finish()


if __name__ == '__main__':
    main()
