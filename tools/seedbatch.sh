#!/bin/sh
# seedbatch.sh "<dir> <check> [<check>...]" ... -- run tools/seedtest.py for each argument, one summary line each
cd "$(dirname "$0")/.."
for spec in "$@"; do
  python3 tools/seedtest.py $spec 2>&1 | python3 -c "
import sys,json
try:
    r=json.load(sys.stdin)
    print(r['patch'], {k:(v['exit'],v['fired'],v['violations'],v['no_failing_input_found_only'],v['first'][:300],v['tail'][-300:]) for k,v in r['checks'].items()}, r.get('apply_error'), flush=True)
except Exception as ex:
    print('ERROR', ex, flush=True)
"
done
