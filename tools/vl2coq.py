#!/usr/bin/env python3
"""vl2coq.py -- Verilator XML (verilator --xml-only) -> deep-embedded Coq design values (coq/Vexp.v).

For every Verilog top that the RTL properties talk about the elaborated, width-annotated AST of /repo's *working tree*
is translated into a Coq value `design : Vexp.design`:
    outputs    : one expression per output port (combinational function of registers, inputs, cut wires)
    next       : one expression per register (value after a rising clock edge; i_rst is an ordinary input)
    wires      : definitions of the "cut" signals that were deliberately not inlined (they appear as `V name w`)
    mem_writes : clocked writes to unpacked arrays (array, enable, address, data)
    clocking   : the sensitivity list (sorted edge list) of the clocked block that assigns each register / array
Every `always` block is if-converted by symbolic execution, functions are inlined, combinational signals are resolved in
dependency order and fully inlined.  Constants containing x/z become uninterpreted inputs `X k`.

An XML construct outside the supported subset raises Unsupported(tag) -- the checks turn that into a broken tie.

CLI:  vl2coq.py            regenerate coq/gen/*.v (only rewrites a file when its content changed)
      vl2coq.py --print sv|v|vsynth|hex     print one generated file to stdout
"""
import os, re, subprocess, sys, tempfile, shutil
import xml.etree.ElementTree as ET

ROOT = os.path.dirname(os.path.dirname(os.path.abspath(__file__)))
REPO = os.environ.get('HEX_REPO', '/repo')
GEN = os.path.join(ROOT, 'coq', 'gen')


class Unsupported(Exception):
    """an XML construct (or a design shape) the translator does not handle; .tag names it"""

    def __init__(self, tag, what=''):
        self.tag = tag
        Exception.__init__(self, 'vl2coq: unsupported construct <%s>%s' % (tag, (': ' + what) if what else ''))


# --------------------------------------------------------------------------- expressions (python tuples)
def C(n):
    return ('C', int(n))


def LNot(a):
    return ('Eq', a, C(0))


def RedOr(a):
    return LNot(LNot(a))


def pr(x):
    """print an expression as a Coq term"""
    t = x[0]
    if t == 'C':
        return '(C %d)' % x[1] if x[1] >= 0 else '(C (%d))' % x[1]
    if t == 'V':
        return '(V "%s" %d)' % (x[1], x[2])
    if t == 'X':
        return '(X %d)' % x[1]
    if t == 'ArrSel':
        return '(ArrSel "%s" %d %s)' % (x[1], x[2], pr(x[3]))
    out = ['(' + t]
    for a in x[1:]:
        out.append(str(a) if isinstance(a, int) else pr(a))
    return ' '.join(out) + ')'


def parse_const(name):
    """-> (width, value, xmask): value has 0 in the x/z positions"""
    m = re.match(r"(\d+)'(s?)([hbdo])([0-9a-fA-FxXzZ_?]+)$", name)
    if not m:
        raise Unsupported('const', 'literal ' + name)
    w = int(m.group(1))
    base = m.group(3)
    digs = m.group(4).replace('_', '')
    if base == 'd':
        if re.search('[xXzZ?]', digs):
            return w, 0, (1 << w) - 1
        return w, int(digs, 10) & ((1 << w) - 1), 0
    bits = {'h': 4, 'b': 1, 'o': 3}[base]
    val = 0
    xm = 0
    for ch in digs:
        val <<= bits
        xm <<= bits
        if ch in 'xXzZ?':
            xm |= (1 << bits) - 1
        else:
            val |= int(ch, 16)
    mask = (1 << w) - 1
    return w, val & mask, xm & mask


STMT_TAGS = ('assign', 'assigndly', 'begin', 'if', 'case', 'contassign', 'comment')
IGNORED_TOP = ('var', 'func', 'task', 'typedef', 'assignalias', 'varscope', 'instance', 'cell', 'topscope', 'scope',
               'comment', 'modport', 'text')


class Gen:
    def __init__(self, xmlfile, top, cuts=()):
        self.root = ET.parse(xmlfile).getroot()
        self.dt = {}
        for tt in self.root.iter('typetable'):
            for d in tt:
                self.dt[d.get('id')] = d
        mods = [m for m in self.root.iter('module') if m.get('name') == top]
        if not mods:
            mods = [m for m in self.root.iter('module') if m.get('topModule') == '1']
        if len(mods) != 1:
            raise Unsupported('module', 'top module %s not found' % top)
        self.mod = mods[0]
        # a hierarchy that was not flattened cannot be translated module-by-module
        if any(c.tag == 'instance' and not self._is_package_instance(c) for c in self.mod):
            raise Unsupported('instance', 'module hierarchy below %s (elaborate with --flatten)' % top)
        self.items = []
        for c in self.mod:
            if c.tag == 'topscope':
                for sc in c:
                    if sc.tag != 'scope':
                        raise Unsupported(sc.tag, 'inside topscope')
                    self.items += list(sc)
            else:
                self.items.append(c)
        self.vars = {v.get('name'): v for v in self.mod if v.tag == 'var'}
        self.funcs = {f.get('name'): f for f in self.items if f.tag == 'func'}
        self._canonical_names()
        self.nx = 0
        self.cuts = list(cuts)
        self.memw = []           # (array, enable, addr, data) in program order
        self.depth = 0

    def _canonical_names(self):
        """after --flatten Verilator names some references relative to the top scope (`u_processor.x` for the variable
        `hex.u_processor.x`): rewrite every reference that is not a declared variable to the unique variable it is a
        dotted suffix of"""
        def fix(scope, local):
            for c in scope:
                if c.tag == 'func':
                    fix(c, local | {v.get('name') for v in c if v.tag == 'var'})
                    continue
                if c.tag == 'varref':
                    n = c.get('name')
                    if n not in self.vars and n not in local:
                        cand = [v for v in self.vars if v.endswith('.' + n)]
                        if len(cand) != 1:
                            raise Unsupported('varref', 'reference %s matches %d declared variables' % (n, len(cand)))
                        c.set('name', cand[0])
                fix(c, local)
        fix(self.mod, set())

    def _is_package_instance(self, c):
        dn = c.get('defName')
        return any(p.get('name') == dn for p in self.root.iter('package'))

    # ------------------------------------------------------------------ types
    def dtype(self, id):
        if id not in self.dt:
            raise Unsupported('dtype', 'unknown dtype id %s' % id)
        return self.dt[id]

    def width(self, id):
        d = self.dtype(id)
        if d.tag == 'basicdtype':
            if d.get('name') in ('real', 'string', 'chandle', 'event', 'shortreal', 'realtime'):
                raise Unsupported('basicdtype', d.get('name'))
            if d.get('left') is None:
                return {'integer': 32, 'int': 32, 'longint': 64, 'shortint': 16, 'byte': 8, 'time': 64}.get(d.get('name'), 1)
            return abs(int(d.get('left')) - int(d.get('right'))) + 1
        if d.tag in ('refdtype', 'enumdtype', 'memberdtype', 'constdtype'):
            return self.width(d.get('sub_dtype_id'))
        if d.tag == 'structdtype':
            return sum(self.width(m.get('sub_dtype_id')) for m in d if m.tag == 'memberdtype')
        if d.tag == 'packarraydtype':
            lo, hi = self.arr_range(d)
            return (hi - lo + 1) * self.width(d.get('sub_dtype_id'))
        raise Unsupported(d.tag, 'as a packed type')

    def arr_range(self, d):
        r = d.find('range')
        if r is None:
            raise Unsupported(d.tag, 'array without range')
        a, b = [parse_const(c.get('name'))[1] for c in r]
        return min(a, b), max(a, b)

    def is_array(self, id):
        d = self.dtype(id)
        if d.tag == 'refdtype':
            return self.is_array(d.get('sub_dtype_id'))
        return d.tag == 'unpackarraydtype'

    def array_info(self, id):
        d = self.dtype(id)
        if d.tag == 'refdtype':
            return self.array_info(d.get('sub_dtype_id'))
        lo, hi = self.arr_range(d)
        if self.is_array(d.get('sub_dtype_id')):
            raise Unsupported('unpackarraydtype', 'multi-dimensional unpacked array')
        return lo, hi, self.width(d.get('sub_dtype_id'))

    def W(self, e):
        if e.get('dtype_id') is None:
            raise Unsupported(e.tag, 'expression without dtype')
        return self.width(e.get('dtype_id'))

    def signed(self, e):
        d = self.dtype(e.get('dtype_id'))
        while d.tag in ('refdtype', 'enumdtype'):
            d = self.dtype(d.get('sub_dtype_id'))
        return d.get('signed') == 'true'

    # ------------------------------------------------------------------ expressions
    def newx(self, w):
        n = self.nx
        self.nx += 1
        return ('Trunc', w, ('X', n))

    def const(self, e):
        w, v, xm = parse_const(e.get('name'))
        if xm == 0:
            return C(v)
        if xm == (1 << w) - 1:
            return self.newx(w)
        return ('Or', C(v), ('And', self.newx(w), C(xm)))

    def sext(self, a, wf, wt):
        """sign-extend the wf-bit value a to wt bits: ((a xor 2^(wf-1)) - 2^(wf-1)) mod 2^wt"""
        if wt <= wf:
            return a
        h = 1 << (wf - 1)
        return ('Sub', wt, ('Xor', a, C(h)), C(h))

    def array_read(self, e, env):
        k = list(e)
        base = k[0]
        if base.tag != 'varref' or not self.is_array(base.get('dtype_id')):
            raise Unsupported('arraysel', 'base is not an unpacked array variable')
        lo, hi, ew = self.array_info(base.get('dtype_id'))
        iw = self.W(k[1])
        if lo != 0 or (1 << iw) > hi + 1:
            raise Unsupported('arraysel', 'index of %d bits may leave the array range [%d:%d]' % (iw, hi, lo))
        return ('ArrSel', base.get('name'), ew, self.ex(k[1], env))

    def ex(self, e, env):
        t = e.tag
        k = list(e)
        if t == 'const':
            return self.const(e)
        if t == 'varref':
            n = e.get('name')
            if n not in env:
                if n in self.vars and self.is_array(self.vars[n].get('dtype_id')):
                    raise Unsupported('varref', 'whole-array reference ' + n)
                raise Unsupported('varref', 'signal %s is read but has no driver (or a combinational loop)' % n)
            return env[n]
        w = self.W(e) if e.get('dtype_id') else None
        if t in ('add', 'sub', 'mul', 'muls'):
            return ({'add': 'Add', 'sub': 'Sub', 'mul': 'Mul', 'muls': 'Mul'}[t], w, self.ex(k[0], env), self.ex(k[1], env))
        if t in ('and', 'or', 'xor'):
            return ({'and': 'And', 'or': 'Or', 'xor': 'Xor'}[t], self.ex(k[0], env), self.ex(k[1], env))
        if t == 'not':
            return ('Not', w, self.ex(k[0], env))
        if t == 'negate':
            return ('Sub', w, C(0), self.ex(k[0], env))
        if t in ('eq', 'eqcase', 'neq', 'neqcase', 'eqwild', 'neqwild'):
            a = self.ex(k[0], env)
            if t in ('eqwild', 'neqwild') and k[1].tag == 'const' and parse_const(k[1].get('name'))[2] != 0:
                cw, v, xm = parse_const(k[1].get('name'))
                r = ('Eq', ('And', a, C(((1 << cw) - 1) & ~xm)), C(v))
            else:
                r = ('Eq', a, self.ex(k[1], env))
            return LNot(r) if t.startswith('n') else r
        if t in ('lt', 'gt', 'lte', 'gte'):
            a, b = self.ex(k[0], env), self.ex(k[1], env)
            return {'lt': ('Ltu', a, b), 'gt': ('Ltu', b, a), 'lte': LNot(('Ltu', b, a)), 'gte': LNot(('Ltu', a, b))}[t]
        if t in ('lts', 'gts', 'ltes', 'gtes'):
            wa = self.W(k[0])
            if self.W(k[1]) != wa:
                raise Unsupported(t, 'operands of different width')
            a, b = self.ex(k[0], env), self.ex(k[1], env)
            return {'gts': ('Gts', wa, a, b), 'lts': ('Gts', wa, b, a), 'ltes': LNot(('Gts', wa, a, b)), 'gtes': LNot(('Gts', wa, b, a))}[t]
        if t in ('shiftl', 'shiftr'):
            return ({'shiftl': 'Shl', 'shiftr': 'Shr'}[t], w, self.ex(k[0], env), self.ex(k[1], env))
        if t == 'sel':
            a = self.ex(k[0], env)
            if k[2].tag != 'const':
                raise Unsupported('sel', 'non-constant width')
            wd = parse_const(k[2].get('name'))[1]
            if k[1].tag == 'const' and parse_const(k[1].get('name'))[2] == 0:
                return ('Sel', parse_const(k[1].get('name'))[1], wd, a)
            return ('Trunc', wd, ('Shr', self.W(k[0]), a, self.ex(k[1], env)))
        if t == 'arraysel':
            return self.array_read(e, env)
        if t == 'extend':
            return self.ex(k[0], env)
        if t == 'extends':
            return self.sext(self.ex(k[0], env), self.W(k[0]), w)
        if t == 'concat':
            wb = self.W(k[1])
            return ('Or', ('Shl', w, self.ex(k[0], env), C(wb)), self.ex(k[1], env))
        if t == 'replicate':
            if k[1].tag != 'const':
                raise Unsupported('replicate', 'non-constant count')
            n = parse_const(k[1].get('name'))[1]
            wa = self.W(k[0])
            a = self.ex(k[0], env)
            r = a
            for i in range(1, n):
                r = ('Or', ('Shl', w, r, C(wa)), a)
            return r
        if t == 'cond':
            return ('Cond', self.ex(k[0], env), self.ex(k[1], env), self.ex(k[2], env))
        if t == 'lognot':
            return LNot(self.ex(k[0], env))
        if t == 'logand':
            return ('And', RedOr(self.ex(k[0], env)), RedOr(self.ex(k[1], env)))
        if t == 'logor':
            return ('Or', RedOr(self.ex(k[0], env)), RedOr(self.ex(k[1], env)))
        if t == 'redor':
            return RedOr(self.ex(k[0], env))
        if t == 'redand':
            return ('Eq', self.ex(k[0], env), C((1 << self.W(k[0])) - 1))
        if t == 'funcref':
            return self.call(e, env)
        raise Unsupported(t, 'expression')

    def call(self, e, env):
        name = e.get('name')
        if name not in self.funcs:
            raise Unsupported('funcref', 'function %s is not defined in the module' % name)
        self.depth += 1
        if self.depth > 32:
            raise Unsupported('funcref', 'recursive function ' + name)
        f = self.funcs[name]
        fvars = [v for v in f if v.tag == 'var']
        ins = [v for v in fvars if v.get('dir') == 'input']
        outs = [v for v in fvars if v.get('dir') == 'output']
        if len(outs) != 1 or any(v.get('dir') in ('inout', 'ref') for v in fvars):
            raise Unsupported('func', 'function %s: only pure functions with input arguments' % name)
        args = [a for a in e if a.tag == 'arg']
        if len(args) != len(ins):
            raise Unsupported('funcref', 'argument count of ' + name)
        fenv = dict(env)                      # module-level signals stay visible
        for v in fvars:
            fenv.pop(v.get('name'), None)
        for v, a in zip(ins, args):
            wv = self.width(v.get('dtype_id'))
            val = self.ex(list(a)[0], env)
            fenv[v.get('name')] = ('Trunc', wv, val) if self.W(list(a)[0]) > wv else val
        for st in f:
            if st.tag != 'var':
                fenv = self.stmt(st, fenv, None, None)
        self.depth -= 1
        on = outs[0].get('name')
        if on not in fenv:
            raise Unsupported('func', 'function %s does not assign its result on every path' % name)
        return fenv[on]

    # ------------------------------------------------------------------ statements (symbolic execution)
    def assign_to(self, lhs, val, wr, env, nba, path, delayed):
        """store val (wr bits) into lhs; returns the updated (env, nba)"""
        tgt = nba if delayed else env
        if lhs.tag == 'varref':
            n = lhs.get('name')
            wl = self.W(lhs)
            if n in self.vars and self.is_array(self.vars[n].get('dtype_id')):
                raise Unsupported(lhs.tag, 'assignment to a whole array ' + n)
            tgt = dict(tgt)
            tgt[n] = ('Trunc', wl, val) if wr > wl else val
        elif lhs.tag == 'sel':
            k = list(lhs)
            if k[0].tag != 'varref' or k[1].tag != 'const' or k[2].tag != 'const':
                raise Unsupported('sel', 'assignment to a non-constant part select')
            n = k[0].get('name')
            wv = self.W(k[0])
            lsb = parse_const(k[1].get('name'))[1]
            wd = parse_const(k[2].get('name'))[1]
            old = tgt.get(n)
            if old is None:
                old = env.get(n) if delayed else None
            if old is None:
                old = C(0) if path == 'cont' else None
            if old is None:
                raise Unsupported('sel', 'part-select assignment to %s before the whole signal has a value (latch)' % n)
            keep = ((1 << wv) - 1) & ~(((1 << wd) - 1) << lsb)
            v = ('Trunc', wd, val) if wr > wd else val
            tgt = dict(tgt)
            tgt[n] = ('Or', ('And', old, C(keep)), ('Shl', wv, v, C(lsb)))
        elif lhs.tag == 'arraysel':
            if not delayed:
                raise Unsupported('arraysel', 'blocking/continuous assignment to an array element')
            k = list(lhs)
            if k[0].tag != 'varref' or not self.is_array(k[0].get('dtype_id')):
                raise Unsupported('arraysel', 'assignment target')
            lo, hi, ew = self.array_info(k[0].get('dtype_id'))
            iw = self.W(k[1])
            if lo != 0 or (1 << iw) > hi + 1:
                raise Unsupported('arraysel', 'write index of %d bits may leave the array range [%d:%d]' % (iw, hi, lo))
            en = path if isinstance(path, tuple) else C(1)
            self.memw.append((k[0].get('name'), en, self.ex(k[1], env), ('Trunc', ew, val) if wr > ew else val))
            return env, nba
        else:
            raise Unsupported(lhs.tag, 'as an assignment target')
        return (env, tgt) if delayed else (tgt, nba)

    def stmt(self, st, env, nba, path):
        """-> env (when nba is None: combinational / function body) or (env, nba)"""
        seq = nba is not None
        r = self.stmt2(st, env, nba if seq else {}, path)
        return r if seq else r[0]

    def stmt2(self, st, env, nba, path):
        t = st.tag
        k = list(st)
        if t == 'comment':
            return env, nba
        if t == 'begin':
            for c in k:
                if c.tag == 'var':
                    raise Unsupported('var', 'block-local variable')
                env, nba = self.stmt2(c, env, nba, path)
            return env, nba
        if t in ('assign', 'assigndly', 'contassign'):
            rhs, lhs = k
            return self.assign_to(lhs, self.ex(rhs, env), self.W(rhs), env, nba, path, t == 'assigndly')
        if t == 'if':
            c = self.ex(k[0], env)
            p1 = self.conj(path, c)
            p2 = self.conj(path, LNot(c))
            e1, n1 = self.stmt2(k[1], env, nba, p1)
            e2, n2 = self.stmt2(k[2], env, nba, p2) if len(k) > 2 else (env, nba)
            return self.merge(c, e1, e2), self.merge(c, n1, n2)
        if t == 'case':
            if st.get('casex') or st.get('casez') or st.get('caseinside'):
                raise Unsupported('case', 'casex/casez/case inside')
            sel = self.ex(k[0], env)
            items = k[1:]
            for it in items:
                if it.tag != 'caseitem':
                    raise Unsupported(it.tag, 'inside case')

            def go(i, path):
                if i == len(items):
                    return env, nba
                it = items[i]
                conds = [c for c in it if c.tag not in STMT_TAGS]
                body = [c for c in it if c.tag in STMT_TAGS]
                if not conds:                         # default
                    e1, n1 = env, nba
                    for b in body:
                        e1, n1 = self.stmt2(b, e1, n1, path)
                    return e1, n1
                c = None
                for cc in conds:
                    if cc.tag == 'const' and parse_const(cc.get('name'))[2] != 0:
                        raise Unsupported('caseitem', 'case label with x/z bits')
                    t1 = ('Eq', sel, self.ex(cc, env))
                    c = t1 if c is None else ('Or', c, t1)
                e1, n1 = env, nba
                for b in body:
                    e1, n1 = self.stmt2(b, e1, n1, self.conj(path, c))
                e2, n2 = go(i + 1, self.conj(path, LNot(c)))
                return self.merge(c, e1, e2), self.merge(c, n1, n2)
            # a default item may appear anywhere in the source; Verilator keeps source order, semantics = last resort
            dflt = [it for it in items if not [c for c in it if c.tag not in STMT_TAGS]]
            if len(dflt) > 1:
                raise Unsupported('case', 'more than one default')
            items = [it for it in items if it not in dflt] + dflt
            return go(0, path)
        raise Unsupported(t, 'statement')

    def conj(self, path, c):
        if not isinstance(path, tuple):
            return c
        return ('And', path, RedOr(c))

    def merge(self, c, e1, e2):
        if e1 is e2:
            return e1
        out = {}
        for n in set(e1) | set(e2):
            a = e1.get(n)
            b = e2.get(n)
            if a is b or a == b:
                out[n] = a
            elif a is None or b is None:
                out[n] = ('LATCH', n)         # assigned on one path only: reading it later is an error
            else:
                out[n] = ('Cond', c, a, b)
        return out

    # ------------------------------------------------------------------ module level
    def check_latch(self, x, what):
        """('LATCH', n) markers must not survive into a result"""
        stack = [x]
        seen = set()
        while stack:
            y = stack.pop()
            if id(y) in seen:
                continue
            seen.add(id(y))
            if y[0] == 'LATCH':
                raise Unsupported('always', 'signal %s is not assigned on every path (latch) in %s' % (y[1], what))
            for a in y[1:]:
                if isinstance(a, tuple):
                    stack.append(a)

    def generate(self):
        vars_ = self.vars
        seq_blocks = []
        drivers = []          # (set of driven names, element, kind)
        for a in self.items:
            t = a.tag
            if t in IGNORED_TOP:
                continue
            if t == 'contassign':
                lhs = list(a)[1]
                base = lhs if lhs.tag == 'varref' else list(lhs)[0]
                if base.tag != 'varref':
                    raise Unsupported(lhs.tag, 'continuous assignment target')
                drivers.append(({base.get('name')}, a, 'cont'))
            elif t in ('always', 'alwayspublic'):
                st = a.find('sentree')
                edges = [si.get('edgeType') for si in st] if st is not None else []
                if st is not None and any(e in ('POS', 'NEG', 'BOTH') for e in edges):
                    clk = [list(si)[0].get('name') for si in st]
                    if any(e != 'POS' for e in edges) or not all(re.search(r'(^|\.)i_(clk|rst)$', c or '') for c in clk):
                        raise Unsupported('sentree', 'only @(posedge i_clk [or posedge i_rst]) is modelled, got %s' % list(zip(edges, clk)))
                    seq_blocks.append(a)
                else:
                    names = set()
                    for x in a.iter():
                        if x.tag == 'assigndly':
                            raise Unsupported('assigndly', 'non-blocking assignment in a combinational block')
                        if x.tag == 'assign':
                            lhs = list(x)[1]
                            base = lhs if lhs.tag == 'varref' else list(lhs)[0]
                            names.add(base.get('name'))
                    drivers.append((names, a, 'comb'))
            elif t == 'initial':
                body = list(a)
                if len(body) == 1 and body[0].tag == 'assign' and list(body[0])[0].tag == 'const' and list(body[0])[1].tag == 'varref':
                    drivers.append(({list(body[0])[1].get('name')}, a, 'init'))
                # other initial blocks ($display, $dumpvars, power-on values) do not take part in a clock cycle
            elif t in ('final',):
                continue
            else:
                raise Unsupported(t, 'module item')
        # registers = targets of non-blocking assignments in clocked blocks
        regs = []
        clocking = {}         # register / written array -> the sorted edge list of the clocked block that assigns it
        for a in seq_blocks:
            st = a.find('sentree')
            edges = sorted('%s %s' % ({'POS': 'posedge', 'NEG': 'negedge', 'BOTH': 'edge'}[si.get('edgeType')], list(si)[0].get('name')) for si in st)
            for ad in a.iter('assigndly'):
                lhs = list(ad)[1]
                base = lhs if lhs.tag == 'varref' else list(lhs)[0]
                n = base.get('name')
                if n in clocking and clocking[n] != edges:
                    raise Unsupported('sentree', '%s is assigned in clocked blocks with different sensitivity lists' % n)
                clocking[n] = edges
                if lhs.tag == 'arraysel':
                    continue
                if n not in regs:
                    regs.append(n)
            for x in a.iter('assign'):
                raise Unsupported('assign', 'blocking assignment in a clocked block')
        # an `initial` constant is a driver only if nothing else drives the signal
        driven_elsewhere = set(regs)
        for names, a, kind in drivers:
            if kind != 'init':
                driven_elsewhere |= names
        drivers = [d for d in drivers if d[2] != 'init' or not (d[0] & driven_elsewhere)]
        seen = {}
        for names, a, kind in drivers:
            for n in names:
                if n in seen and not (kind == 'cont' and seen[n] == 'cont'):
                    raise Unsupported(a.tag, 'signal %s has several drivers' % n)
                if n in regs:
                    raise Unsupported(a.tag, 'register %s is also driven combinationally' % n)
                seen[n] = kind
        env = {}
        for n, v in vars_.items():
            if self.is_array(v.get('dtype_id')):
                continue
            w = self.width(v.get('dtype_id'))
            if v.get('dir') == 'input' or n in regs:
                env[n] = ('V', n, w)
            elif (v.get('localparam') or v.get('param')) and len(v) == 1 and v[0].tag == 'const':
                env[n] = self.const(v[0])
        inputs = [n for n, v in vars_.items() if v.get('dir') == 'input']
        wires = []
        pending = list(drivers)
        while pending:
            prog = False
            for d in list(pending):
                names, a, kind = d
                rd = set()
                for v in a.iter('varref'):
                    rd.add(v.get('name'))
                for fr in a.iter('funcref'):
                    f = self.funcs.get(fr.get('name'))
                    if f is not None:
                        loc = {v.get('name') for v in f if v.tag == 'var'}
                        rd |= {v.get('name') for v in f.iter('varref')} - loc
                arrays = {r for r in rd if r in vars_ and self.is_array(vars_[r].get('dtype_id'))}
                if kind == 'cont':
                    # all continuous assignments to the same signal are resolved together (disjoint part selects)
                    group = [x for x in pending if x[2] == 'cont' and x[0] == names]
                    for x in group:
                        for v in x[1].iter('varref'):
                            rd.add(v.get('name'))
                else:
                    group = [d]
                if not all(r in env or r in names or r in arrays for r in rd):
                    continue
                e2 = dict(env)
                for x in group:
                    if x[2] == 'cont':
                        e2, _ = self.stmt2(x[1], e2, {}, 'cont')
                    else:
                        for b in x[1]:
                            if b.tag != 'sentree':
                                e2 = self.stmt(b, e2, None, None)
                for n in names:
                    if n not in e2:
                        raise Unsupported(a.tag, 'no value for ' + n)
                    self.check_latch(e2[n], n)
                    if n in self.cuts:
                        w = self.width(vars_[n].get('dtype_id'))
                        wires.append((n, e2[n]))
                        env[n] = ('V', n, w)
                    else:
                        env[n] = e2[n]
                for x in group:
                    pending.remove(x)
                prog = True
                break
            if not prog:
                raise Unsupported('always', 'combinational loop or undriven signal among ' + str(sorted(set().union(*[d[0] for d in pending]))))
        missing = [c for c in self.cuts if c not in [w[0] for w in wires]]
        if missing:
            raise Unsupported('var', 'cut signal(s) %s not found as combinational signals' % missing)
        nxt = {}
        for a in seq_blocks:
            nba = {r: env[r] for r in regs}
            e2 = env
            for b in a:
                if b.tag != 'sentree':
                    e2, nba = self.stmt(b, e2, nba, None)
            for r in regs:
                if nba[r] is not env[r]:
                    if r in nxt:
                        raise Unsupported('always', 'register %s assigned in two clocked blocks' % r)
                    nxt[r] = nba[r]
        for r in regs:
            nxt.setdefault(r, env[r])
            self.check_latch(nxt[r], r)
        outs = sorted(n for n, v in vars_.items() if v.get('dir') == 'output')
        for n in outs:
            if n not in env:
                raise Unsupported('var', 'output %s has no driver' % n)
        self.result = {
            'outputs': [(n, env[n]) for n in outs],
            'next': [(r, nxt[r]) for r in sorted(regs)],
            'wires': wires,
            'mem_writes': list(self.memw),
            'nx': self.nx,
            'clocking': sorted(clocking.items()),
            'inputs': [(n, self.width(vars_[n].get('dtype_id'))) for n in inputs],
            'regs': [(r, self.width(vars_[r].get('dtype_id'))) for r in sorted(regs)],
            'arrays': [(n,) + self.array_info(v.get('dtype_id')) for n, v in vars_.items() if self.is_array(v.get('dtype_id'))],
        }
        return self.result


def coq_text(res, source_desc):
    L = []
    L.append('(* GENERATED by tools/vl2coq.py from %s -- do not edit; regenerated from the working tree on every run *)' % source_desc)
    L.append('From Coq Require Import ZArith String List.')
    L.append('From HexVerif Require Import Vexp.')
    L.append('Import ListNotations.')
    L.append('Local Open Scope Z_scope.')
    L.append('Local Open Scope string_scope.')
    L.append('(* inputs: %s *)' % ', '.join('%s[%d]' % x for x in res['inputs']))
    L.append('(* registers: %s *)' % ', '.join('%s[%d]' % x for x in res['regs']))
    L.append('(* arrays: %s *)' % ', '.join('%s[%d:%d] of %d bits' % (a[0], a[2], a[1], a[3]) for a in res['arrays']))

    def plist(name, items):
        L.append('Definition %s : list (string * vexp) := [' % name)
        L.append(';\n'.join('  ("%s",\n    %s)' % (n, pr(x)) for n, x in items))
        L.append('].')
    plist('d_outputs', res['outputs'])
    plist('d_next', res['next'])
    plist('d_wires', res['wires'])
    L.append('Definition d_mem_writes : list (string * (vexp * (vexp * vexp))) := [')
    L.append(';\n'.join('  ("%s",\n    (%s,\n    (%s,\n     %s)))' % (m, pr(en), pr(ad), pr(da)) for m, en, ad, da in res['mem_writes']))
    L.append('].')
    L.append('(* the sensitivity list of the clocked block that assigns each register / array *)')
    L.append('Definition d_clocking : list (string * list string) := [')
    L.append(';\n'.join('  ("%s", [%s])' % (n, '; '.join('"%s"' % e for e in es)) for n, es in res['clocking']))
    L.append('].')
    L.append('Definition design : Vexp.design :=')
    L.append('  {| outputs := d_outputs; next := d_next; wires := d_wires; mem_writes := d_mem_writes; clocking := d_clocking; nx := %d |}.' % res['nx'])
    return '\n'.join(L) + '\n'


# --------------------------------------------------------------------------- the designs of this repository
V = lambda *p: os.path.join(REPO, 'verilog', *p)
TARGETS = {
    # name: (coq file, top, verilator sources, flatten, cut signals)
    'sv': ('RtlSv.v', 'processor', ['verilog/hex_pkg.sv', 'verilog/processor.sv'], False, ()),
    'v': ('RtlV.v', 'processor', ['verilog/processor.v'], False, ()),
    'vsynth': ('RtlVSynth.v', 'processor', ['synth/processor.v'], False, ()),
    'hex': ('RtlHex.v', 'hex', ['verilog/hex_pkg.sv', 'verilog/hex.sv', 'verilog/processor.sv', 'verilog/memory.sv'], True,
            ('hex.res_f_data', 'hex.res_d_data')),
}


def verilator_xml(sources, top, flatten, outdir):
    xml = os.path.join(outdir, 'out.xml')
    cmd = ['verilator', '--xml-only', '--xml-output', xml, '-Wno-fatal', '--top-module', top]
    if flatten:
        cmd.append('--flatten')
    cmd += [os.path.join(REPO, s) for s in sources]
    try:
        p = subprocess.run(cmd, stdout=subprocess.PIPE, stderr=subprocess.STDOUT, timeout=300, cwd=outdir)
    except subprocess.TimeoutExpired:
        raise Unsupported('verilator', 'timeout: ' + ' '.join(cmd))
    if p.returncode != 0 or not os.path.exists(xml):
        raise Unsupported('verilator', 'elaboration failed: %s\n%s' % (' '.join(cmd), p.stdout.decode('utf-8', 'replace')[-1500:]))
    return xml


def translate(name):
    """-> (coq text, result dict) for one target, from the working tree"""
    fn, top, srcs, flatten, cuts = TARGETS[name]
    d = tempfile.mkdtemp(prefix='hexverif-vl2coq-')
    try:
        xml = verilator_xml(srcs, top, flatten, d)
        g = Gen(xml, '$root' if flatten else top, cuts)
        res = g.generate()
        return coq_text(res, ' + '.join(srcs) + (' (--flatten, top %s)' % top if flatten else ' (top %s)' % top)), res
    finally:
        shutil.rmtree(d, ignore_errors=True)


def write_if_changed(path, text):
    os.makedirs(os.path.dirname(path), exist_ok=True)
    try:
        if open(path).read() == text:
            return False
    except OSError:
        pass
    tmp = '%s.tmp.%d' % (path, os.getpid())
    with open(tmp, 'w') as f:
        f.write(text)
    os.rename(tmp, path)
    return True


def failure_text(name, ex):
    """a generated file that records why translation failed.  It defines an EMPTY design (so that files which merely
    mention the design, like Extract.v, still compile) -- every theorem about the real design then fails: the
    equivalence checks compare list shapes and the non-vacuity examples name the expected ports."""
    return ('(* GENERATED by tools/vl2coq.py: translation of target %s FAILED *)\n'
            '(* %s *)\n'
            'From Coq Require Import ZArith String List.\nFrom HexVerif Require Import Vexp.\n'
            'Definition translation_failed : unit := tt.\n'
            'Definition design : Vexp.design :=\n'
            '  {| outputs := nil; next := nil; wires := nil; mem_writes := nil; clocking := nil; nx := 0 |}.\n'
            % (name, str(ex).replace('*)', '* )').replace('(*', '( *')))


def generate_all(targets=None):
    """regenerate coq/gen/*.v; returns {target: None | error string}.  Never raises for an untranslatable design:
    the file is replaced by a stub without `design` (so dependent proofs fail) and the error is returned."""
    status = {}
    for name in (targets or TARGETS):
        fn = TARGETS[name][0]
        try:
            text, _ = translate(name)
            status[name] = None
        except Unsupported as ex:
            text = failure_text(name, ex)
            status[name] = str(ex)
        except ET.ParseError as ex:
            text = failure_text(name, ex)
            status[name] = 'XML parse error: %s' % ex
        write_if_changed(os.path.join(GEN, fn), text)
    return status


if __name__ == '__main__':
    if len(sys.argv) >= 3 and sys.argv[1] == '--print':
        sys.stdout.write(translate(sys.argv[2])[0])
    else:
        st = generate_all()
        for k, v in st.items():
            print('%-7s %s' % (k, 'ok' if v is None else v))
        sys.exit(1 if any(st.values()) else 0)
