#!/usr/bin/env python3
"""gen_rtl.py -- shared by setup.sh and the RTL checks (C16, C03):
   generate_all()      regenerate coq/gen/*.v (deep-embedded designs) from /repo's working-tree Verilog (see vl2coq.py)
   verilated_build()   Verilate + compile a harness against working-tree Verilog, cached by content hash"""
import os, shutil, sys
sys.path.insert(0, os.path.dirname(os.path.abspath(__file__)))
import vl2coq
import vlib


def generate_all(targets=None):
    """-> {target: None | error text}; files are rewritten only when their content changed"""
    return vl2coq.generate_all(targets)


def verilated_build(name, top, sources, harness, prefix, vflags='', timeout=1500):
    """verilator --cc --exe --build of `sources` (paths relative to /repo) with top module `top` and the C++ harness
    `harness` (path relative to /verif).  The binary is kept under _work/cache/<name>-<hash of sources+harness+flags>,
    so a changed Verilog file gives a new binary.  returns (exe or None, log)"""
    srcs = [os.path.join(vlib.REPO, s) for s in sources]
    har = os.path.join(vlib.ROOT, harness)
    key = vlib.file_hash(srcs + [har], '|'.join([name, top, prefix, vflags]))
    d = os.path.join(vlib.CACHE, name + '-' + key)
    exe = os.path.join(d, name)
    with vlib.locked('vl-' + name):
        if os.path.exists(exe):
            os.utime(d, None)
            return exe, 'cached'
        work = vlib.scratch('hexverif-vl-')
        cmd = ('verilator --cc --exe --build -j 4 -Wno-fatal %s --top-module %s --prefix %s -Mdir %s/obj '
               '-CFLAGS "-O1 -I%s" -o %s/%s %s %s'
               % (vflags, top, prefix, work, vlib.REPO, work, name, ' '.join(srcs), har))
        rc, out = vlib.sh(cmd, timeout=timeout, cwd=work)
        built = os.path.join(work, name)
        if rc != 0 or not os.path.exists(built):
            return None, cmd + '\n' + out[-3000:]
        os.makedirs(d, exist_ok=True)
        shutil.copy2(built, exe + '.tmp')
        os.rename(exe + '.tmp', exe)
        shutil.rmtree(work, ignore_errors=True)
        vlib._prune_cache()
        return exe, out[-500:]


PROC_VARIANTS = {
    'sv': ['verilog/hex_pkg.sv', 'verilog/processor.sv'],
    'v': ['verilog/processor.v'],
    'vsynth': ['synth/processor.v'],
}


def build_proc(variant):
    return verilated_build('rtl_proc_' + variant, 'processor', PROC_VARIANTS[variant], 'harness/rtl_proc.cpp', 'Vproc',
                           '--public-flat-rw')


HEX_SOURCES = ['verilog/hex_pkg.sv', 'verilog/hex.sv', 'verilog/processor.sv', 'verilog/memory.sv']


def build_hex():
    return verilated_build('rtl_hex', 'hex', HEX_SOURCES, 'harness/rtl_hex.cpp', 'Vhexv', '--public-flat-rw')


if __name__ == '__main__':
    st = generate_all()
    for k, v in st.items():
        print('%-7s %s' % (k, 'ok' if v is None else v))
    sys.exit(1 if any(st.values()) else 0)
