#!/usr/bin/env python3
# placeholder until the RTL translator lands (C16/C03): nothing to generate yet
import sys
sys.exit(0)
