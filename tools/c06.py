#!/usr/bin/env python3
"""C06 -- a binary behaves identically on the RTL testbench (hextb) and on the simulator (hexsim).
proof : Properties_C06.v -- C06_tb_equals_sim_partial composes C03 (RTL refines the ISA), C13 (boot is canonical for every power-on
        state), the testbench model TbModel (tied to hextb.cpp by ./check C13) and C02 (hexsim's model refines the ISA).
oracle: the REAL hextb executable (3 Verilator seeds, --max-cycles) against the REAL hexsim executable, both built from
        the working tree: stdout after hextb's load banner, exit status, console input consumed (through the two
        harnesses that link hextb.cpp's run() / hexsim's Processor) -- and both against the extracted ISA run.
        Only (binary, input) pairs whose ISA run the monitor accepts (TbModel.safe_mon: defined, in range, read-safe) and
        that exit are judged; the others are run, counted and reported.  Which words a program reads plays no role:
        since load() clears hextb's memory, programs that read words they never wrote (tests/asm/hello_procedure.S) are
        judged like any other."""
import glob, json, os, sys
sys.path.insert(0, os.path.dirname(os.path.abspath(__file__)))
import vlib, gen_rtl, tbcommon
from vlib import Check, run3


def parse_kv(out):
    r = {}
    for l in out.decode('latin1').split('\n'):
        t = l.split()
        if not t:
            continue
        if t[0] == 'OUT':
            r['out'] = bytes(int(x) for x in t[2:])
        elif t[0] in ('RC', 'CONSUMED', 'STEPS'):
            r[t[0].lower()] = int(t[1])
        elif t[0] == 'END':
            r['end'] = t[1]
            for kv in t[2:]:
                if '=' in kv:
                    k, v = kv.split('=', 1)
                    r[k] = v
        elif t[0] == 'WB':
            r['wb'] = t[1] == '1'
            r['why'] = ' '.join(t[2:])
        elif t[0] == 'THROW':
            r['throw'] = l
    return r


def strip_banner(o):
    return o.split(b'\n', 1)[1] if o.startswith(b'Wrote ') and b'\n' in o else o


def main():
    global run3
    ck = Check('C06')
    run3 = tbcommon.retrying(ck)          # a timed-out run is re-run once before it counts
    ck.cov['trusted_base'] = ['Coq 8.16.1 kernel + VM', 'Isa.v as a reading of hexb.pdf (spec)',
                              'TbModel.v hand model of hextb.cpp (tied by ./check C13), SimModel.v hand model of hexsim.hpp (tied by ./check C02)',
                              'generated RTL (tools/vl2coq.py, validated by ./check C03) and RtlSem.v',
                              'ExtrOcamlBasic extraction + ocaml/tbdrv.ml (ISA monitor)', 'Verilator 5.006, g++ 12; harness/tb_harness.cpp, harness/sim_harness.cpp']
    ck.assumptions = ['judged: ISA run exits, is defined, stays below byte address 800000, READ does not overwrite its own SVC '
                      '(nothing is assumed about which words are read: both loaders leave zero outside the header-announced image; known_findings.json: fixed, kind power-on / how memory)',
                      'KNOWN FINDING (known_findings.json, kind read-overwrites-own-svc), inside the literal quantifier and exhibited on every run by a hand-assembled binary: '
                      'a READ whose result slot is the word holding its own SVC -- hextb retires the overwritten byte (hypothesis read clause of step_safe in C06_tb_equals_sim_partial)',
                      'binaries whose first instruction is a system call are ordinary judged inputs since the repair of hextb.cpp (known_findings.json: fixed, kind first-instruction-svc)',
                      'file streams (>= 256) are not exercised (no simin/simout files in the scratch directory); console only',
                      'hextb is run with 3 Verilator seeds per case; power-on independence itself is C13']
    status = gen_rtl.generate_all()
    if status.get('hex'):
        ck.broken.append('translation of the hex top failed: %s' % status['hex'])
    ok = ck.proofs()
    ck.log('proofs', 'ok' if ok else 'BROKEN')
    hv, log = vlib.ocaml_build()
    hexsim, l0 = vlib.repo_tool('hexsim')
    hextb, l1 = tbcommon.build_hextb()
    tbh, l2 = tbcommon.build_tb_harness()
    simh, l3 = vlib.cxx_build('sim_harness', [os.path.join(vlib.ROOT, 'harness', 'sim_harness.cpp'), os.path.join(vlib.REPO, 'hex.cpp')], '-O1 -g -D' + vlib.GUARD)
    for exe, lg, what in ((hv, log, 'extracted engines'), (hexsim, l0, 'hexsim'), (hextb, l1, 'hextb'), (tbh, l2, 'tb_harness'), (simh, l3, 'sim_harness')):
        if exe is None:
            ck.broken.append('%s does not build from the working tree: %s' % (what, lg[-500:]))
    if ck.broken and (hv is None or hexsim is None or hextb is None or tbh is None or simh is None):
        ck.finish()
    d = vlib.scratch()
    rng = ck.rng
    xcmp, _ = vlib.repo_tool('xcmp')
    hexasm, _ = vlib.repo_tool('hexasm')
    # ---- binaries
    progs = []          # (name, binary, [inputs])
    rejected = []       # shipped sources the tools reject

    def rand_input():
        n = rng.choice([0, 1, 2, 5, 17, 64])
        return bytes(rng.randrange(256) for _ in range(n))
    std_inputs = [b'', b'7', b'hello world\n', bytes(range(48, 58)) * 2]
    if ck.replay_arg:
        rp = json.load(open(ck.replay_arg))
        b = os.path.join(d, 'replay.bin')
        open(b, 'wb').write(bytes.fromhex(rp['binary_hex']))
        progs.append((rp.get('program', 'replay'), b, [bytes(rp.get('input', []))]))
    else:
        nx = 0
        for src in sorted(glob.glob(os.path.join(vlib.REPO, 'tests', 'x', '*.x'))):
            sd = os.path.join(d, 'x%d' % nx)
            nx += 1
            os.makedirs(sd)
            rc, o, e = run3([xcmp, src, '-o', 'p.bin'], cwd=sd, timeout=120)
            b = os.path.join(sd, 'p.bin') if os.path.exists(os.path.join(sd, 'p.bin')) else os.path.join(sd, 'a.out')
            if rc == 0 and os.path.exists(b):
                progs.append(('tests/x/' + os.path.basename(src), b, std_inputs[:3] + [rand_input()]))
            else:          # (tests/x/globals.x has no main: a legitimate rejection; the floor below guards against a compiler that rejects everything)
                rejected.append(os.path.basename(src))
        for src in sorted(glob.glob(os.path.join(vlib.REPO, 'tests', 'asm', '*.S'))):
            b = os.path.join(d, os.path.basename(src) + '.bin')
            rc, o, e = run3([hexasm, src, '-o', b], cwd=d, timeout=120)
            if rc == 0 and os.path.exists(b):
                progs.append(('tests/asm/' + os.path.basename(src), b, std_inputs[:2] + [rand_input()]))
            else:
                rejected.append(os.path.basename(src))
        for aname, asrc, ainps in tbcommon.asm_programs():
            sd = os.path.join(d, 'a%d' % nx)
            nx += 1
            os.makedirs(sd)
            open(os.path.join(sd, 'p.S'), 'w').write(asrc)
            rc, o, e = run3([hexasm, 'p.S', '-o', 'p.bin'], cwd=sd, timeout=120)
            if rc == 0 and os.path.exists(os.path.join(sd, 'p.bin')):
                progs.append(('asm/' + aname, os.path.join(sd, 'p.bin'), list(ainps)))
            else:
                ck.broken.append('hexasm rejects the hand-written program %s: %s' % (aname, (o + e)[-200:]))
        # hand-assembled images whose first instruction is a system call (repaired shape: ordinary judged inputs now)
        for sname, (simg, sinp, kind, _, _) in sorted(tbcommon.known_shapes().items()):
            if kind == 'first-instruction-svc':
                b = os.path.join(d, 'first-%s.bin' % sname)
                open(b, 'wb').write(simg)
                progs.append(('image/' + sname, b, [sinp]))
        try:
            import xgen
            shapes = xgen.directed()
        except Exception as ex:          # generator not importable: the generated third of the programs would silently vanish
            shapes = []
            ck.broken.append('tools/xgen.py (generated X programs) is not usable: %s' % ex)
        if not ck.thorough():
            rng.shuffle(shapes)
            shapes = shapes[:22]
        for name, text, inps in shapes:
            sd = os.path.join(d, 'g%d' % nx)
            nx += 1
            os.makedirs(sd)
            open(os.path.join(sd, 'p.x'), 'wb').write(text.encode('latin-1'))
            rc, o, e = run3([xcmp, 'p.x', '-o', 'p.bin'], cwd=sd, timeout=120)
            b = os.path.join(sd, 'p.bin') if os.path.exists(os.path.join(sd, 'p.bin')) else os.path.join(sd, 'a.out')
            if rc == 0 and os.path.exists(b):
                ins = [bytes(i) for i in inps][:3]
                if len(ins) < 2:
                    ins.append(rand_input())
                progs.append(('generated/' + name, b, ins))
    maxsteps = 100000 if not ck.thorough() else 3000000
    seeds = [1, 2, 3]
    dist = {'judged': 0, 'not_well_behaved': 0, 'no_exit_within_budget': 0}
    why_counts = {}
    unjudged_differ = 0
    nbad = 0
    distinct = set()
    for name, b, inputs in progs:
        img = open(b, 'rb').read()
        for inp in inputs:
            ip = os.path.join(d, 'in.bin')
            open(ip, 'wb').write(inp)
            rc, o, e = run3([hv, 'c06mon', b, str(maxsteps)], cwd=d, stdin=open(ip, 'rb'), timeout=600)
            mon = parse_kv(o)
            if rc != 0 or 'end' not in mon:
                ck.broken.append('ISA monitor failed on %s: %s' % (name, (o + e)[-200:]))
                continue
            if mon['end'] != 'exit':
                # the ISA run does not exit within the budget (or is undefined): outside what is judged; not run on the executables
                dist['no_exit_within_budget'] += 1
                ck.cov['evaluations'] += 1
                continue
            cyc = str(2 * mon['steps'] + 1000)
            # hexsim: executable (stdout, exit status) + harness (input consumed)
            rs, os_, es = run3([hexsim, b, '--max-cycles', cyc], cwd=d, stdin=open(ip, 'rb'), timeout=600)
            _, oh, _ = run3([simh, 'run', b, str(maxsteps + 10), '0', '0', '0'], cwd=d, stdin=open(ip, 'rb'), timeout=600)
            sh = parse_kv(oh)
            sim = {'rc': rs & 0xff, 'out': os_, 'consumed': sh.get('consumed')}
            # hextb: executable x seeds + harness for the consumed input
            tbs = []
            for s in seeds:
                rt, ot, et = run3([hextb, b, '--max-cycles', cyc, '+verilator+seed+%d' % s], cwd=d, stdin=open(ip, 'rb'), timeout=600)
                tbs.append({'rc': rt & 0xff, 'out': strip_banner(ot)})
            _, oth, _ = run3([tbh, b, '1', cyc], cwd=d, stdin=open(ip, 'rb'), timeout=600)
            th = parse_kv(oth)
            ck.cov['evaluations'] += 1
            isa = {'rc': mon['rc'] & 0xff, 'out': mon['out'], 'consumed': mon['consumed']}
            same = all(t == {'rc': sim['rc'], 'out': sim['out']} for t in tbs) and th.get('consumed') == sim['consumed'] and \
                th.get('out') == sim['out'] and (th.get('rc', 0) & 0xff) == sim['rc'] and 'throw' not in th
            same_isa = sim['rc'] == isa['rc'] and sim['out'] == isa['out'] and sim['consumed'] == isa['consumed']
            if not mon['wb']:
                dist['not_well_behaved'] += 1
                k = mon['why'].split('-')[2] if mon['why'].startswith('step-') else mon['why']
                k = '-'.join(mon['why'].split('-')[2:4]) if mon['why'].startswith('step-') else mon['why']
                why_counts[k] = why_counts.get(k, 0) + 1
                if not same:
                    unjudged_differ += 1
                continue
            dist['judged'] += 1
            distinct.add((name, inp))
            if not (same and same_isa):
                nbad += 1
                if nbad <= 4:
                    ck.violation('%s with input %r: hextb %s / harness %s, hexsim %s, ISA %s'
                                 % (name, inp[:20], [(t['rc'], t['out'][:30]) for t in tbs], (th.get('rc'), th.get('out'), th.get('consumed'), th.get('throw', '')),
                                    (sim['rc'], sim['out'][:30], sim['consumed']), (isa['rc'], isa['out'][:30], isa['consumed'])),
                                 {'program': name, 'binary_hex': img.hex(), 'input': list(inp), 'hextb': [[t['rc'], list(t['out'])] for t in tbs],
                                  'hexsim': [sim['rc'], list(sim['out']), sim['consumed']], 'isa': [isa['rc'], list(isa['out']), isa['consumed']],
                                  'replay_cmd': './check C06 --replay <this file>'}, tags={'kind': 'tb-vs-sim'})
            elif len(ck.cov['samples']) < 6 and dist['judged'] % 9 == 1:
                ck.sample({'program': name, 'input': list(inp), 'steps': mon['steps'], 'exit': sim['rc'], 'stdout': sim['out'].decode('latin1')[:60], 'consumed': sim['consumed']})
    # ---- the loaders: files at and beyond the capacity of the memory, truncated and missing files.  hextb and hexsim must agree
    # (reject with exit status 1 and no output, or run the same way); the toolchain can produce the oversize ones
    loader = []
    if not ck.replay_arg:
        for lname, lpath, linp in tbcommon.loader_files(d, hexasm):
            rs, os_, es = run3([hexsim, lpath, '--max-cycles', '2000'], cwd=d, input=linp, timeout=300)
            tbs = []
            for sd_ in seeds[:2]:
                rt, ot, et = run3([hextb, lpath, '--max-cycles', '2000', '+verilator+seed+%d' % sd_], cwd=d, input=linp, timeout=300)
                tbs.append((rt & 0xff if rt >= 0 else rt, strip_banner(ot)))
            ck.cov['evaluations'] += 1
            differs = any(t != (rs & 0xff if rs >= 0 else rs, os_) for t in tbs)
            loader.append({'file': lname, 'differs': differs, 'hexsim': [rs, os_.decode('latin1'), es.decode('latin1')[:80]], 'hextb': [[t[0], t[1].decode('latin1')] for t in tbs]})
            if differs:
                nbad += 1
                ck.violation('%s: hexsim exit %d output %r (%s); hextb %s' % (lname, rs, os_, es.decode('latin1').strip()[:80], tbs),
                             {'program': lname, 'how_to_build': 'tools/tbcommon.py loader_files()', 'hexsim': [rs, list(os_)], 'hextb': [[t[0], list(t[1])] for t in tbs]},
                             tags={'kind': 'loader'})
    ck.cov['loader_files'] = loader
    # ---- the known-finding shape inside the literal quantifier (judged; reported through known_findings.json)
    exhibits = []
    if not ck.replay_arg:
        for sname, (simg, sinp, kind, sim_does, tb_does) in sorted(tbcommon.known_shapes().items()):
            if sname == 'read-own-svc-wrap' or kind != 'read-overwrites-own-svc':
                continue                      # (the wrap variant never exits: C03 exhibits it clock by clock; first-instruction images are judged above)
            b = os.path.join(d, 'shape-%s.bin' % sname)
            open(b, 'wb').write(simg)
            ip = os.path.join(d, 'shape.in')
            open(ip, 'wb').write(sinp)
            rs, os_, es = run3([hexsim, b, '--max-cycles', '2000'], cwd=d, stdin=open(ip, 'rb'), timeout=120)
            tbs = []
            for sd_ in seeds:
                rt, ot, et = run3([hextb, b, '--max-cycles', '2000', '+verilator+seed+%d' % sd_], cwd=d, stdin=open(ip, 'rb'), timeout=120)
                tbs.append((rt & 0xff, strip_banner(ot)))
            ck.cov['evaluations'] += 1
            differs = any(t != (rs & 0xff, os_) for t in tbs)
            exhibits.append({'shape': sname, 'kind': kind, 'differs': differs, 'hexsim': [rs & 0xff, os_.decode('latin1')], 'hextb': [[t[0], t[1].decode('latin1')] for t in tbs]})
            if differs:
                ck.violation('%s (%s): hexsim %s -> exit %d output %r; hextb %s -> %s'
                             % (sname, kind, sim_does, rs & 0xff, os_, tb_does, [(t[0], t[1]) for t in tbs]),
                             {'program': 'shape/' + sname, 'binary_hex': simg.hex(), 'input': list(sinp), 'hexsim': [rs & 0xff, list(os_)],
                              'hextb': [[t[0], list(t[1])] for t in tbs], 'replay_cmd': './check C06 --replay <this file>'}, tags={'kind': kind})
    ck.cov['known_finding_exhibits'] = exhibits
    if not ck.replay_arg:
        floor_p, floor_j = (40, 70) if not ck.thorough() else (50, 90)
        if len(progs) < floor_p or dist['judged'] < floor_j:
            ck.broken.append('only %d programs compiled and %d (binary, input) pairs were judged (expected at least %d / %d): the check would pass without having looked'
                             % (len(progs), dist['judged'], floor_p, floor_j))
    ck.cov['distinct_nontrivial'] = len(distinct)
    ck.cov['rule'] = ('(binary, input): shipped tests/x and tests/asm programs and generated X programs (tools/xgen.py directed shapes) compiled by the real xcmp/hexasm, '
                      'inputs of length 0-64 incl. EOF; judged iff the ISA monitor accepts the run and it exits; distinct by (program, input)')
    ck.cov['input_distribution'] = dist
    ck.cov['not_judged_reasons'] = why_counts
    ck.cov['not_judged_but_different'] = unjudged_differ
    ck.cov['programs'] = len(progs)
    ck.cov['shipped_sources_rejected_by_the_tools'] = rejected
    ck.cov['verilator_seeds_per_case'] = len(seeds)
    ck.cov['exhaustive'] = False
    ck.log('programs %d, cases %d (%s), differing %d; not judged but different %d; reasons %s' % (len(progs), ck.cov['evaluations'], dist, nbad, unjudged_differ, why_counts))
    ck.finish()


if __name__ == '__main__':
    main()
