#!/usr/bin/env python3
"""C04 -- assembler prefix encoding reconstructs every 32-bit operand exactly.
proof:  Properties_C04.v (emit_instr of the model decodes, by the ISA's own operand rule / Isa.step, to the value mod 2^32,
        for every int value and every admissible length; shape of the emitted bytes; literal spellings).
tie:    model vs real Lexer/Parser/CodeGen on "<OP> <literal>" sources (sanitizer build);
oracle: ISA decode of the REAL bytes: extracted AsmSpec.check_image on sources, and the in-process sweep of the real
        InstrImm::getSize + emitProgramBin over the value space (thorough: all 2^32 values x 12 mnemonics)."""
import os, sys, glob, subprocess, concurrent.futures
sys.path.insert(0, os.path.dirname(os.path.abspath(__file__)))
import vlib, asmcommon as A
from vlib import Check, run3


def spellings(v):
    """source spellings of the 32-bit value v (as signed int): '-n' and unsigned decimal"""
    u = v & 0xffffffff
    out = [str(u)]
    if v < 0:
        out.append('-%d' % (-v))
    else:
        out.append(str(v))
    return sorted(set(out))


def odd_spelling(v):
    """'-n' with n above 2^31: unary minus on the lexer's unsigned value wraps (model and code must agree; not one of
    the property's two spellings, so kept in sources of its own)"""
    u = v & 0xffffffff
    return '-%d' % ((1 << 32) - u) if u != 0 else None


def main():
    ck = Check('C04')
    ck.cov['trusted_base'] = ['Coq 8.16.1 kernel + VM', 'Isa.v / AsmSpec.decode (the ISA operand rule)',
                              'AsmLayout.v (num_nibbles, enc_size, emit_instr) hand model tied by correspondence',
                              'extraction + asmdrv.ml/asmoracle.ml', 'harness/asm_harness.cpp incl. its in-process sweep decoder (g++ 12)']
    ok = ck.proofs()
    ck.log('proofs', 'ok' if ok else 'BROKEN')
    rng = ck.rng
    vals = [0, 1, -1, 15, 16, 17, -15, -16, -17, 2 ** 31 - 1, -2 ** 31, -2 ** 31 + 1, 2 ** 31 - 2]
    for k in range(1, 8):
        for d in (-2, -1, 0, 1, 2):
            vals += [16 ** k + d, -(16 ** k) + d]
    for nn in range(1, 9):
        lo, hi = 16 ** (nn - 1), min(16 ** nn, 2 ** 31) - 1
        for _ in range(40 if not ck.thorough() else 2000):
            x = rng.randint(lo, hi)
            vals += [x, -x]
    vals = [v for v in vals if -2 ** 31 <= v < 2 ** 31]
    cases = []
    # each source: one mnemonic, a few dozen literals
    per = 24
    allv = []
    for mn in A.IMM:
        vs = list(vals)
        rng.shuffle(vs)
        for i in range(0, len(vs), per):
            items = []
            src = []
            for v in vs[i:i + per]:
                sp = rng.choice(spellings(v))
                items.append(('imm', mn, v))
                src.append('%s %s' % (mn, sp))
                allv.append((mn, v))
            cases.append({'src': ('\n'.join(src) + '\n').encode(), 'items': items, 'tag': 'imm'})
    for mn in A.IMM:
        vs = [v for v in rng.sample(vals, min(len(vals), 48)) if odd_spelling(v)]
        cases.append({'src': ('\n'.join('%s %s' % (mn, odd_spelling(v)) for v in vs) + '\n').encode(), 'items': [('imm', mn, v) for v in vs], 'tag': 'oddspelling'})
    # literals beyond 32 and 64 bits are truncated by the lexer (strtoul saturation, unsigned truncation): model must agree; value = what the model's front end says
    big = ['4294967296', '4294967297', '18446744073709551615', '18446744073709551616', '99999999999999999999999', '-4294967296', '-4294967295']
    for lit in big:
        cases.append({'src': ('LDAC %s\n' % lit).encode(), 'items': None, 'tag': 'bigliteral'})
    if ck.replay_arg:
        import json
        r = json.load(open(ck.replay_arg))
        cases = [{'src': r['source'].encode('latin1'), 'items': A.parse_asm(r['source']), 'tag': 'replay'}]
    r = A.pipeline(ck, cases)
    if r is None:
        ck.finish()
    cases, hv, d = r
    ncorr = A.correspondence(ck, cases)
    ocases, oidx = [], []
    nrej = 0
    for i, c in enumerate(cases):
        if c['real']['status'] == 'ok' and not c['accept'] and c.get('items') is not None and c['tag'] in ('imm', 'replay'):
            # every operand of these sources is representable in 32 bits: a diagnostic means no bytes for that value
            first = (c['real']['lines'] or ['?'])[0]
            import re as _re
            m = _re.search(r'line (\d+)', first)
            lines = c['src'].decode('latin1').split('\n')
            culprit = lines[int(m.group(1))] if m and int(m.group(1)) < len(lines) else lines[0]
            nrej += 1
            if nrej <= 3:
                ck.violation('hexasm rejects an operand that is representable in 32 bits: %r -> %s' % (culprit, first[:160]),
                             {'source': culprit + '\n', 'full_source': c['src'].decode('latin1'), 'diagnostic': first}, tags={'kind': 'rejected-operand'})
            continue
        if c['real']['status'] != 'ok':
            ck.violation('hexasm %s (sanitizer/signal) on immediates: %s' % (c['real']['status'], c['real'].get('detail', '')[-300:]),
                         {'source': c['src'].decode('latin1'), 'detail': c['real'].get('detail')},
                         tags={'kind': c['real']['status'], 'has_int_min': '2147483648' in c['src'].decode('latin1')})
            continue
        if c['accept'] and c['items'] is not None:
            ocases.append({'prog': A.to_oracle_prog(c['items']), 'file': c['file'], 'listing': None, 'use_syms': False})
            oidx.append(i)
    res = A.oracle(hv, ocases, d)
    nfail = 0
    for j, i in enumerate(oidx):
        c = cases[i]
        ck.cov['evaluations'] += len(c['items'])
        if res[j] is None or res[j]['image'] != 'ok':
            nfail += 1
            why = A.explain_image(c['items'], c['file'])
            if nfail <= 3:
                ck.violation('emitted bytes do not deliver the operand: ' + why, {'source': c['src'].decode('latin1'), 'why': why, 'file_hex': c['file'].hex()},
                             tags={'kind': 'encode', 'has_int_min': '2147483648' in c['src'].decode('latin1')})
        elif j % 37 == 0:
            ck.sample({'source': c['src'].decode('latin1')[:80], 'image_hex': A.parse_binary(c['file'])[1][:24].hex(), 'verdict': 'ISA decode == value'})
    if ncorr:
        ex = next(c for c in cases if 'corr_diff' in c)
        ck.broken.append('correspondence AsmLayout model vs real hexasm on immediates: %d sources differ, e.g. model [%s] real [%s] source %r'
                         % (ncorr, ex['corr_diff'][0], ex['corr_diff'][1], ex['src'][:120]))
    # ---- in-process sweep of the real encoder over the value space
    fast, log = vlib.cxx_build('asm_harness_fast', [os.path.join(vlib.ROOT, 'harness', 'asm_harness.cpp')], '-O2')
    sweep_total = 0
    bylen = [0] * 9
    if fast is None:
        ck.broken.append('asm_harness (fast) does not build: ' + log[-300:])
    else:
        jobs = []
        if ck.thorough():
            shards = 16
            per_shard = (1 << 32) // shards
            for mn in A.IMM:
                for s in range(shards):
                    jobs.append((mn, s * per_shard, per_shard, 1))
        else:
            # every 4099th value of the whole space from a seeded start (2^20 values per mnemonic), plus windows at the length boundaries
            for mn in A.IMM:
                jobs.append((mn, rng.randrange(0, 4099), (1 << 32) // 4099, 4099))
                for k in range(1, 8):
                    jobs.append((mn, (16 ** k - 600) & 0xffffffff, 1200, 1))
                    jobs.append((mn, (-(16 ** k) - 600) & 0xffffffff, 1200, 1))
                jobs.append((mn, (2 ** 31 - 600), 1200, 1))
                jobs.append((mn, 0xffffffff - 600, 1200, 1))

        def runjob(j):
            mn, st, cnt, stride = j
            rc, out, err = run3([fast, 'sweep', mn, str(st), str(cnt), str(stride)], timeout=7200)
            return j, rc, out.decode(), err.decode()[-200:]
        with concurrent.futures.ThreadPoolExecutor(max_workers=vlib.NCPU) as ex:
            for j, rc, out, err in ex.map(runjob, jobs):
                if rc != 0 or 'SWEEP' not in out:
                    ck.violation('real encoder crashed in the sweep %s rc=%d %s' % (j, rc, err), {'job': j}, tags={'kind': 'sweep-crash'})
                    continue
                t = out.split()
                f = dict(x.split('=') for x in t if '=' in x)
                sweep_total += int(f['done'])
                bl = t[t.index('bylen') + 1:]
                for i2, x in enumerate(bl[:8]):
                    bylen[i2 + 1] += int(x)
                if int(f['bad']):
                    v = int(f['first'])
                    ck.violation('real encoder: %s %d is emitted as %s which does not deliver that operand (%s bad in job %s)' % (j[0], v, f.get('bytes'), f['bad'], j),
                                 {'source': '%s %d\n' % (j[0], v), 'bytes': f.get('bytes'), 'job': j}, tags={'kind': 'encode', 'has_int_min': v == -2 ** 31})
    ck.cov['evaluations'] += sweep_total
    ck.cov['sweep_values'] = sweep_total
    ck.cov['exhaustive'] = bool(ck.thorough() and sweep_total == 12 * (1 << 32))
    ck.cov['distinct_nontrivial'] = len(set(allv)) + sum(bylen[2:])
    ck.cov['rule'] = ('(mnemonic, value) pairs: literal sources through the real lexer/parser/encoder + in-process sweep of the real InstrImm/emitProgramBin; '
                      'each decoded with the ISA operand rule; non-trivial = needs at least one prefix byte (sweep) / distinct (mnemonic,value) (sources)')
    ck.cov['input_distribution'] = {'sweep_by_encoded_length': {str(i): bylen[i] for i in range(1, 9)}, 'literal_sources': len(cases)}
    ck.log('literal cases %d (failures %d, correspondence diffs %d); sweep %d values' % (len(cases), nfail, ncorr, sweep_total))
    ck.finish()


if __name__ == '__main__':
    main()
