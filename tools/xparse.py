#!/usr/bin/env python3
"""xparse.py -- a parser for X source text producing the AST of coq/XAst.v (as Python tuples).

It follows xcmp.hpp's Lexer and Parser (classes Lexer/Parser) token for token: no operator precedence, a
binary expression has two operands unless it is a chain of one associative operator (+, and, or), which
nests to the right; `-e`/`~e` only at the start of an expression; `n(args)` is a system call.

AST (shared with xcommon.py / xgen.py):
  expr : ('num', n) n in [0, 2^32)   ('true',) ('false',) ('str', [bytes]) ('var', x) ('sub', a, e)
         ('call', f, [e]) ('sys', n, [e]) ('neg', e) ('not', e) ('bin', op, l, r)   op in + - or and = ~= < <= > >=
  stmt : ('skip',) ('stop',) ('return', e) ('if', c, t, e) ('while', c, b) ('seq', [s]) ('assign', x, e)
         ('assignsub', a, i, e) ('call', f, [e]) ('sys', n, [e])
  decl : ('val', x, e) ('var', x) ('array', x, e)        formal : ('val'|'array'|'proc'|'func', x)
  proc : {'kind': 'proc'|'func', 'name', 'formals', 'locals', 'body'}
  program : {'globals': [decl], 'procs': [proc]}
"""

KEYWORDS = {'and', 'array', 'do', 'else', 'false', 'func', 'if', 'is', 'or', 'proc', 'return', 'skip', 'stop',
            'then', 'true', 'val', 'var', 'while'}
BINOPS = ('+', '-', 'or', 'and', '=', '~=', '<', '<=', '>', '>=')
ASSOC = ('and', 'or', '+')


class XSyntaxError(Exception):
    pass


def tokens(src):
    """src: bytes.  yields (kind, value): kind in id num str kw sym eof"""
    i, n = 0, len(src)
    out = []

    def charconst(i):
        c = src[i]
        if c == 0x5c:  # backslash
            i += 1
            if i >= n:
                raise XSyntaxError('bad character constant')
            m = {0x5c: 0x5c, 0x27: 0x27, 0x22: 0x22, ord('t'): 9, ord('r'): 13, ord('n'): 10}
            if src[i] not in m:
                raise XSyntaxError('bad character constant')
            return m[src[i]], i + 1
        return c, i + 1

    while True:
        while i < n and chr(src[i]) in ' \t\n\r\v\f':
            i += 1
        if i >= n:
            out.append(('eof', None))
            return out
        c = chr(src[i])
        if c == '|':
            while i < n and src[i] != 10:
                i += 1
            continue
        if c.isascii() and c.isalpha():
            j = i + 1
            while j < n and ((chr(src[j]).isascii() and chr(src[j]).isalnum()) or src[j] == ord('_')):
                j += 1
            w = src[i:j].decode('ascii')
            out.append(('kw' if w in KEYWORDS else 'id', w))
            i = j
            continue
        if c.isdigit():
            j = i
            while j < n and chr(src[j]).isdigit():
                j += 1
            out.append(('num', int(src[i:j]) % (1 << 32)))
            i = j
            continue
        if c == '#':
            j = i + 1
            while j < n and chr(src[j]).isascii() and chr(src[j]).isalnum():
                j += 1
            # strtoul(…, 16) stops at the first non-hex digit
            k = i + 1
            while k < j and chr(src[k]) in '0123456789abcdefABCDEF':
                k += 1
            out.append(('num', (int(src[i + 1:k] or b'0', 16)) % (1 << 32)))
            i = j
            continue
        two = src[i:i + 2].decode('latin-1')
        if two in ('<=', '>=', '~=', ':='):
            out.append(('sym', two))
            i += 2
            continue
        if c in '[](){};,+-=<>~':
            out.append(('sym', c))
            i += 1
            continue
        if c == "'":
            v, i = charconst(i + 1)
            if i >= n or src[i] != 0x27:
                raise XSyntaxError("expected ' after char constant")
            i += 1
            # `value = readCharConst()` : a char converted to unsigned
            out.append(('num', v if v < 128 else (v - 256) % (1 << 32)))
            continue
        if c == '"':
            i += 1
            bs = []
            while i < n and src[i] != 0x22:
                v, i = charconst(i)
                bs.append(v)
            if i >= n:
                raise XSyntaxError('expected " after string')
            i += 1
            out.append(('str', bs))
            continue
        raise XSyntaxError('unexpected character %r' % c)


class Parser:
    def __init__(self, src):
        if isinstance(src, str):
            src = src.encode('latin-1')
        self.toks = tokens(src)
        self.p = 0

    def peek(self):
        return self.toks[self.p]

    def next(self):
        t = self.toks[self.p]
        if self.p < len(self.toks) - 1:
            self.p += 1
        return t

    def is_sym(self, s):
        return self.peek() == ('sym', s)

    def is_kw(self, s):
        return self.peek() == ('kw', s)

    def expect_sym(self, s):
        if not self.is_sym(s):
            raise XSyntaxError('expected %s, got %r' % (s, self.peek()))
        self.next()

    def expect_kw(self, s):
        if not self.is_kw(s):
            raise XSyntaxError('expected %s, got %r' % (s, self.peek()))
        self.next()

    def ident(self):
        k, v = self.peek()
        if k != 'id':
            raise XSyntaxError('expected name but got %r' % (self.peek(),))
        self.next()
        return v

    def binop(self):
        k, v = self.peek()
        if (k == 'sym' and v in BINOPS) or (k == 'kw' and v in ('or', 'and')):
            return v
        return None

    def binop_rhs(self, op):
        el = self.element()
        if op in ASSOC and self.binop() == op:
            self.next()
            return ('bin', op, el, self.binop_rhs(op))
        return el

    def expr(self):
        if self.is_sym('-'):
            self.next()
            return ('neg', self.element())
        if self.is_sym('~'):
            self.next()
            return ('not', self.element())
        el = self.element()
        op = self.binop()
        if op is not None:
            self.next()
            return ('bin', op, el, self.binop_rhs(op))
        return el

    def expr_list(self):
        l = [self.expr()]
        while self.is_sym(','):
            self.next()
            l.append(self.expr())
        return l

    def call_args(self):
        # after '(' has been seen (current token)
        self.next()
        if self.is_sym(')'):
            self.next()
            return []
        l = self.expr_list()
        self.expect_sym(')')
        return l

    def element(self):
        k, v = self.peek()
        if k == 'id':
            self.next()
            if self.is_sym('['):
                self.next()
                e = self.expr()
                self.expect_sym(']')
                return ('sub', v, e)
            if self.is_sym('('):
                return ('call', v, self.call_args())
            return ('var', v)
        if k == 'num':
            self.next()
            if self.is_sym('('):
                return ('sys', v, self.call_args())
            return ('num', v)
        if k == 'str':
            self.next()
            return ('str', list(v))
        if k == 'kw' and v == 'true':
            self.next()
            return ('true',)
        if k == 'kw' and v == 'false':
            self.next()
            return ('false',)
        if k == 'sym' and v == '(':
            self.next()
            e = self.expr()
            self.expect_sym(')')
            return e
        raise XSyntaxError('in expression element, got %r' % (self.peek(),))

    def decl(self):
        k, v = self.peek()
        if (k, v) == ('kw', 'val'):
            self.next()
            x = self.ident()
            self.expect_sym('=')
            e = self.expr()
            self.expect_sym(';')
            return ('val', x, e)
        if (k, v) == ('kw', 'var'):
            self.next()
            x = self.ident()
            self.expect_sym(';')
            return ('var', x)
        if (k, v) == ('kw', 'array'):
            self.next()
            x = self.ident()
            self.expect_sym('[')
            e = self.expr()
            self.expect_sym(']')
            self.expect_sym(';')
            return ('array', x, e)
        raise XSyntaxError('invalid declaration')

    def formal(self):
        k, v = self.peek()
        if k == 'kw' and v in ('val', 'array', 'proc', 'func'):
            self.next()
            return (v, self.ident())
        raise XSyntaxError('invalid formal')

    def statement(self):
        k, v = self.peek()
        if k == 'kw':
            if v == 'skip':
                self.next()
                return ('skip',)
            if v == 'stop':
                self.next()
                return ('stop',)
            if v == 'return':
                self.next()
                return ('return', self.expr())
            if v == 'if':
                self.next()
                c = self.expr()
                self.expect_kw('then')
                t = self.statement()
                self.expect_kw('else')
                e = self.statement()
                return ('if', c, t, e)
            if v == 'while':
                self.next()
                c = self.expr()
                self.expect_kw('do')
                return ('while', c, self.statement())
        if (k, v) == ('sym', '{'):
            self.next()
            ss = [self.statement()]
            while self.is_sym(';'):
                self.next()
                ss.append(self.statement())
            self.expect_sym('}')
            return ('seq', ss)
        if k == 'id':
            el = self.element()
            if el[0] == 'call':
                return ('call', el[1], el[2])
            self.expect_sym(':=')
            e = self.expr()
            if el[0] == 'var':
                return ('assign', el[1], e)
            if el[0] == 'sub':
                return ('assignsub', el[1], el[2], e)
            raise XSyntaxError('unexpected target of assignment')
        if k == 'num':
            el = self.element()
            if el[0] == 'sys':
                return ('sys', el[1], el[2])
            raise XSyntaxError('invalid statement beginning with number')
        raise XSyntaxError('invalid statement, got %r' % (self.peek(),))

    def proc(self):
        kind = self.next()[1]
        name = self.ident()
        self.expect_sym('(')
        formals = []
        if self.is_sym(')'):
            self.next()
        else:
            while True:
                formals.append(self.formal())
                if self.is_sym(','):
                    self.next()
                else:
                    break
            self.expect_sym(')')
        self.expect_kw('is')
        locs = []
        while self.is_kw('val') or self.is_kw('var'):
            locs.append(self.decl())
        body = self.statement()
        return {'kind': kind, 'name': name, 'formals': formals, 'locals': locs, 'body': body}

    def program(self):
        gl = []
        while self.is_kw('val') or self.is_kw('var') or self.is_kw('array'):
            gl.append(self.decl())
        procs = []
        while self.is_kw('proc') or self.is_kw('func'):
            procs.append(self.proc())
        # xcmp reads one more token and then expects the end of the file
        self.next()
        if self.peek()[0] != 'eof':
            raise XSyntaxError('expected end of file, got %r' % (self.peek(),))
        return {'globals': gl, 'procs': procs}


def parse(src):
    return Parser(src).program()


if __name__ == '__main__':
    import sys, pprint
    pprint.pprint(parse(open(sys.argv[1], 'rb').read()))
