#!/usr/bin/env python3
"""seedtest.py <seeded/ID/n> [check ids...] -- run checks against a seeded change WITHOUT touching /repo:
a scratch git worktree of /repo's HEAD gets the patch, the checks run with HEX_REPO pointing at it and write their
evidence to a scratch directory.  Records seeded/ID/n/result.json: which checks fired."""
import json, os, subprocess, sys, tempfile, shutil, time
ROOT = os.path.dirname(os.path.dirname(os.path.abspath(__file__)))


def main():
    d = os.path.abspath(sys.argv[1])
    meta = json.load(open(os.path.join(d, 'meta.json')))
    checks = sys.argv[2:] or [meta['property']]
    wt = tempfile.mkdtemp(prefix='seedrun-')
    os.rmdir(wt)
    subprocess.run(['git', '-C', '/repo', 'worktree', 'add', '-q', '--detach', wt, 'HEAD'], check=True)
    res = {'patch': os.path.relpath(os.path.join(d, 'patch.diff'), ROOT), 'repo_head': subprocess.run(['git', '-C', '/repo', 'rev-parse', '--short', 'HEAD'], capture_output=True, text=True).stdout.strip(), 'checks': {}}
    try:
        r = subprocess.run(['git', '-C', wt, 'apply', os.path.join(d, 'patch.diff')], capture_output=True, text=True)
        if r.returncode != 0:
            res['apply_error'] = r.stderr[-500:]
        else:
            evd = tempfile.mkdtemp(prefix='seedev-')
            for c in checks:
                t0 = time.time()
                env = dict(os.environ, HEX_REPO=wt, HEX_EVIDENCE_DIR=evd)
                p = subprocess.run([os.path.join(ROOT, 'check'), c], cwd=ROOT, env=env, capture_output=True, text=True, timeout=3600)
                viol = [l for l in p.stdout.split('\n') if l.startswith('VIOLATION')]
                first = ''
                lines = p.stdout.split('\n')
                for i, l in enumerate(lines):
                    if l.startswith('VIOLATION') and i + 1 < len(lines):
                        first = lines[i + 1].strip()[:300]
                        break
                res['checks'][c] = {'exit': p.returncode, 'violations': len(viol), 'fired': p.returncode != 0 and bool(viol),
                                    'no_failing_input_found_only': bool(viol) and all('no-failing-input-found' in v for v in viol),
                                    'first': first, 'wall_s': round(time.time() - t0, 1), 'tail': (p.stdout + p.stderr)[-600:] if (p.returncode != 0 and not viol) else ''}
            shutil.rmtree(evd, ignore_errors=True)
    finally:
        subprocess.run(['git', '-C', '/repo', 'worktree', 'remove', '--force', wt])
    if 'apply_error' in res and os.path.exists(os.path.join(d, 'result.json')):
        # the patch was written against an earlier HEAD (a later fix: commit rewrote the same lines): keep the earlier result
        old = json.load(open(os.path.join(d, 'result.json')))
        old['no_longer_applies_to'] = res['repo_head']
        res = old
    json.dump(res, open(os.path.join(d, 'result.json'), 'w'), indent=1)
    back = os.environ.get('SEED_COPY_BACK')
    if back:
        tgt = os.path.join(back, os.path.relpath(d, ROOT))
        if os.path.isdir(tgt):
            json.dump(res, open(os.path.join(tgt, 'result.json'), 'w'), indent=1)
    print(json.dumps(res, indent=1))


if __name__ == '__main__':
    main()
