#!/usr/bin/env python3
"""asmlisting.py -- the C17 oracle's reader: the REAL listing text (hexasm --instrs / xcmp -S) is read by the extracted
Coq reader AsmListingRead.read_listing_line (proved to invert the model's listing printer: C17_text_listing_reads_back)
and judged by the extracted AsmSpec.check_listing against the real image (`hvmain asmlistcheck`).  The Python reader
asmcommon.parse_listing stays only as a cross-check that must agree item by item."""
import os, sys
sys.path.insert(0, os.path.dirname(os.path.abspath(__file__)))
import vlib, asmcommon as A
from vlib import run3


def listing_lines(lines):
    """harness / xcmp_listings lines -> the listing's own lines (bytes), in order"""
    return [l[2:].encode('latin1', 'replace') for l in lines if l.startswith('L ')]


def read_listings(hv, cases, workdir):
    """cases: list of dict(file=bytes of the binary file, lines=[listing line bytes]).
    -> list of dict(read 'ok' | ('reject', index), verdict 'ok'|'FAIL'|'skip', items [str], consistent bool), None when the file is malformed.
    Sharded over the cores (1500 cases per call of the extracted reader)."""
    import concurrent.futures
    shards = [(k, cases[k:k + 1500]) for k in range(0, len(cases), 1500)]
    out = [None] * len(cases)
    with concurrent.futures.ThreadPoolExecutor(max_workers=min(vlib.NCPU, max(1, len(shards)))) as ex:
        for k, res in ex.map(lambda sh: (sh[0], _read_listings_chunk(hv, sh[1], workdir, sh[0])), shards):
            out[k:k + len(res)] = res
    return out


def _read_listings_chunk(hv, cases, workdir, tag):
    path = os.path.join(workdir, 'listcheck_cases_%d.txt' % tag)
    idx = []
    with open(path, 'w') as f:
        for k, c in enumerate(cases):
            pb = A.parse_binary(c['file'])
            if pb is None:
                continue
            hw, img, _ = pb
            idx.append(k)
            f.write('CASE %d\n' % len(c['lines']))
            f.write((img.hex() or '-') + '\n')
            for l in c['lines']:
                f.write((l.hex() or '-') + '\n')
    rc, out, err = run3(vlib.big_stack([hv, 'asmlistcheck', path]), cwd=workdir, timeout=3600)
    res = [None] * len(cases)
    n = 0
    for l in out.decode('latin1').split('\n'):
        if l.startswith('RESULT '):
            head, _, items = l.partition(' | ')
            t = head.split()
            d = dict(x.split('=') for x in t[2:] if '=' in x)
            rd = 'ok' if d['read'] == 'ok' else ('reject', int(d['read'].split(':')[1]))
            res[idx[n]] = {'read': rd, 'verdict': d['listing'], 'items': [x for x in items.split(';') if x], 'consistent': 'INCONSISTENT' not in head}
            n += 1
    if rc != 0 or n != len(idx):
        raise RuntimeError('asmlistcheck failed rc=%d (%d/%d) %s' % (rc, n, len(idx), err.decode('latin1')[-300:]))
    return res


def python_items(lines):
    """the same items through the Python reader asmcommon.parse_listing (cross-check only); None when it refuses a line"""
    ll = A.parse_listing(lines)
    if ll is None:
        return None
    out = []
    for l in ll:
        t = l.split()
        if t[0] == 'I':
            out.append('I %s %d %d %s' % (t[1], A.OPC[t[2]], int(t[3]), t[4]))
        elif t[0] == 'O':
            out.append('O %s %d %s' % (t[1], A.OPRS.index(t[2]), t[3]))
        elif t[0] == 'D':
            out.append('D %s %d %s' % (t[1], int(t[2]), t[3]))
        else:
            out.append(l)
    return out


def model_text(hv, sources, workdir, timeout=1800):
    """the model's listing of every source, printed by the Coq printer AsmListingRead.listing_lines: list of [line bytes] or None (rejected).
    Sharded over the cores (1500 sources per call) so that the thorough tier stays inside the time limit of one call."""
    import concurrent.futures
    shards = [(k, sources[k:k + 1500]) for k in range(0, len(sources), 1500)]

    def one(sh):
        k, srcs = sh
        cf = os.path.join(workdir, 'listtext_cases_%d.bin' % k)
        A.write_casefile(cf, srcs)
        rc, out, err = run3(vlib.big_stack([hv, 'asmlisttext', cf]), cwd=workdir, timeout=timeout)
        d = A.split_cases(out.decode('latin1'))
        res = []
        for i in range(len(srcs)):
            ls = d.get(i)
            if ls is None or ls[:1] == ['REJECT']:
                res.append(None)
            else:
                res.append([l[2:].encode('latin1') for l in ls if l.startswith('L ')])
        return k, res, rc, err.decode('latin1')[-300:]
    out = [None] * len(sources)
    worst_rc, worst_err = 0, ''
    with concurrent.futures.ThreadPoolExecutor(max_workers=min(vlib.NCPU, max(1, len(shards)))) as ex:
        for k, res, rc, err in ex.map(one, shards):
            out[k:k + len(res)] = res
            if rc != 0:
                worst_rc, worst_err = rc, err
    return out, worst_rc, worst_err
