#!/usr/bin/env python3
"""seedtable.py -- markdown table of the seeded changes under seeded/ and which checks caught them (from result.json)"""
import json, os, glob
ROOT = os.path.dirname(os.path.dirname(os.path.abspath(__file__)))
print('| seeded change | property | what it breaks (needs to manifest) | confirmed | caught by |')
print('|---|---|---|---|---|')
for d in sorted(glob.glob(os.path.join(ROOT, 'seeded', '*'))):
    try:
        m = json.load(open(os.path.join(d, 'meta.json')))
    except Exception:
        continue
    r = json.load(open(os.path.join(d, 'result.json'))) if os.path.exists(os.path.join(d, 'result.json')) else {'checks': {}}
    c = json.load(open(os.path.join(d, 'confirm.json'))) if os.path.exists(os.path.join(d, 'confirm.json')) else {}
    caught = ', '.join('%s%s' % (k, ' (no failing input)' if v.get('no_failing_input_found_only') else '') for k, v in r['checks'].items() if v.get('fired')) or 'MISSED by ' + ', '.join(r['checks']) if r['checks'] else 'not run'
    what = (m.get('title') or m.get('what_it_breaks', ''))[:110].replace('|', '/')
    need = (m.get('needs_to_manifest', ''))[:120].replace('|', '/').replace('\n', ' ')
    print('| %s | %s | %s (%s) | %s | %s |' % (os.path.basename(d), m.get('property'), what, need, 'yes' if c.get('confirmed') else 'no' if c else '-', caught))
