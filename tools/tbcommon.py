#!/usr/bin/env python3
"""tbcommon.py -- building the RTL testbench from /repo's working tree for C06/C13:
   build_hextb()      the real hextb executable (Verilated hex + hextb.cpp's own main)
   build_tb_harness() hextb.cpp's load()/run() linked with harness/tb_harness.cpp (planted power-on state, captured I/O)"""
import os, shutil, sys
sys.path.insert(0, os.path.dirname(os.path.abspath(__file__)))
import vlib

HEX_SOURCES = ['verilog/hex_pkg.sv', 'verilog/hex.sv', 'verilog/processor.sv', 'verilog/memory.sv']


def _vl_build(name, cpps, vflags, cflags, timeout=1800):
    srcs = [os.path.join(vlib.REPO, s) for s in HEX_SOURCES]
    key = vlib.file_hash(srcs + cpps + [os.path.join(vlib.REPO, 'hex.hpp'), os.path.join(vlib.REPO, 'hexsimio.hpp')], '|'.join([name, vflags, cflags]))
    d = os.path.join(vlib.CACHE, name + '-' + key)
    exe = os.path.join(d, name)
    with vlib.locked('vl-' + name):
        if os.path.exists(exe):
            os.utime(d, None)
            return exe, 'cached'
        work = vlib.scratch('hexverif-tb-')
        cmd = ('verilator --cc --exe --build -j 8 -Wno-fatal %s --top-module hex --prefix Vhex_pkg -Mdir %s/obj '
               '-CFLAGS "-O1 -std=c++17 -I%s %s" -o %s/%s %s %s'
               % (vflags, work, vlib.REPO, cflags, work, name, ' '.join(srcs), ' '.join(cpps)))
        rc, out = vlib.sh(cmd, timeout=timeout, cwd=work)
        built = os.path.join(work, name)
        if rc != 0 or not os.path.exists(built):
            return None, cmd + '\n' + out[-3000:]
        os.makedirs(d, exist_ok=True)
        shutil.copy2(built, exe + '.tmp')
        os.rename(exe + '.tmp', exe)
        shutil.rmtree(work, ignore_errors=True)
        vlib._prune_cache()
        return exe, out[-300:]


def build_hextb():
    return _vl_build('hextb', [os.path.join(vlib.REPO, 'hextb.cpp'), os.path.join(vlib.REPO, 'hex.cpp')], '--trace', '')


def build_tb_harness():
    return _vl_build('tb_harness', [os.path.join(vlib.REPO, 'hextb.cpp'), os.path.join(vlib.REPO, 'hex.cpp'),
                                    os.path.join(vlib.ROOT, 'harness', 'tb_harness.cpp')], '--public-flat-rw', '-Dmain=hextb_main')


if __name__ == '__main__':
    print(build_hextb())
    print(build_tb_harness())
