#!/usr/bin/env python3
"""tbcommon.py -- building the RTL testbench from /repo's working tree for C06/C13:
   build_hextb()      the real hextb executable (Verilated hex + hextb.cpp's own main)
   build_tb_harness() hextb.cpp's load()/run() linked with harness/tb_harness.cpp (planted power-on state, captured I/O)"""
import os, shutil, sys
sys.path.insert(0, os.path.dirname(os.path.abspath(__file__)))
import vlib

HEX_SOURCES = ['verilog/hex_pkg.sv', 'verilog/hex.sv', 'verilog/processor.sv', 'verilog/memory.sv']


def _vl_build(name, cpps, vflags, cflags, timeout=1800):
    srcs = [os.path.join(vlib.REPO, s) for s in HEX_SOURCES]
    key = vlib.file_hash(srcs + cpps + [os.path.join(vlib.REPO, 'hex.hpp'), os.path.join(vlib.REPO, 'hexsimio.hpp')], '|'.join([name, vflags, cflags]))
    d = os.path.join(vlib.CACHE, name + '-' + key)
    exe = os.path.join(d, name)
    with vlib.locked('vl-' + name):
        if os.path.exists(exe):
            os.utime(d, None)
            return exe, 'cached'
        work = vlib.scratch('hexverif-tb-')
        cmd = ('verilator --cc --exe --build -j 8 -Wno-fatal %s --top-module hex --prefix Vhex_pkg -Mdir %s/obj '
               '-CFLAGS "-O1 -std=c++17 -I%s %s" -o %s/%s %s %s'
               % (vflags, work, vlib.REPO, cflags, work, name, ' '.join(srcs), ' '.join(cpps)))
        rc, out = vlib.sh(cmd, timeout=timeout, cwd=work)
        built = os.path.join(work, name)
        if rc != 0 or not os.path.exists(built):
            return None, cmd + '\n' + out[-3000:]
        os.makedirs(d, exist_ok=True)
        shutil.copy2(built, exe + '.tmp')
        os.rename(exe + '.tmp', exe)
        shutil.rmtree(work, ignore_errors=True)
        vlib._prune_cache()
        return exe, out[-300:]


def build_hextb():
    return _vl_build('hextb', [os.path.join(vlib.REPO, 'hextb.cpp'), os.path.join(vlib.REPO, 'hex.cpp')], '--trace', '')


def build_tb_harness():
    return _vl_build('tb_harness', [os.path.join(vlib.REPO, 'hextb.cpp'), os.path.join(vlib.REPO, 'hex.cpp'),
                                    os.path.join(vlib.ROOT, 'harness', 'tb_harness.cpp')], '--public-flat-rw', '-Dmain=hextb_main')


# --------------------------------------------------------------------------- hand-assembled binaries of the two known-finding shapes
def _image(words):
    b = len(words).to_bytes(4, 'little')
    for w in words:
        b += (w & 0xffffffff).to_bytes(4, 'little')
    return b


def _w(*bytes4):
    return bytes4[0] | (bytes4[1] << 8) | (bytes4[2] << 16) | (bytes4[3] << 24)


def known_shapes():
    """name -> (binary file bytes, console input, kind, what the ISA / hexsim does, what the RTL testbench does / did)
    read-overwrites-own-svc: a READ whose result slot mem[sp+1] is the word that holds its own OPR SVC byte (known finding)
    first-instruction-svc  : the instruction at byte 0 is OPR SVC (areg = 0 at reset: EXIT).  Repaired in hextb.cpp (requests
                             are sampled from the last reset edge); kept as ordinary judged inputs: a difference is a violation"""
    S = {}
    # LDAC 2; BR +6 -> byte 8 | sp = 1 | byte 8: OPR SVC (READ: result slot = word sp+1 = 2 = this word) | LDAC 0; OPR SVC (EXIT); stream word,
    # negative as int = console | 7.   input '!' = 0x21 = STAM 1
    S['read-own-svc'] = (_image([_w(0x32, 0x96, 0, 0), 1, _w(0xD3, 0, 0, 0), _w(0x30, 0xD3, 0x00, 0x80), 7]), b'!', 'read-overwrites-own-svc',
                         'SVC retires; exit status = low byte of mem[3] = 0x30', 'the overwritten byte 0x21 = STAM 1 retires (mem[1] := 2); exit status = mem[4] = 7')
    # LDAC 2; OPR SVC (READ) with sp = 0xFFFFFFFF: result slot wraps to word 0 = this word; never exits (runs on into zeros)
    S['read-own-svc-wrap'] = (_image([_w(0x32, 0xD3, 0x30, 0xD3), 0xFFFFFFFF]), b'A', 'read-overwrites-own-svc',
                              'SVC retires, areg stays 2', 'the overwritten byte 0x00 = LDAM 0 retires, areg = 0x41')
    # OPR SVC (EXIT 42) | then, only reached on the testbench: LDAC 2; STAM 1; LDAC 0 | (word 1 = sp) | LDAC 0; OPR SVC | 42 | 9
    S['first-svc-exit'] = (_image([_w(0xD3, 0x32, 0x21, 0x30), 1, _w(0x30, 0xD3, 0, 0), 42, 9]), b'', 'first-instruction-svc',
                           'exit status 42 at the first instruction', 'the request at pc 0 is never sampled; runs on, moves sp, exits with mem[4] = 9')
    # OPR SVC (EXIT 72) | LDAC 1; OPR SVC (WRITE 'H'); BR +4 | sp = 1 | LDAC 0; OPR SVC (EXIT) | 72 | stream 0
    S['first-svc-then-write'] = (_image([_w(0xD3, 0x31, 0xD3, 0x94), 1, _w(0x30, 0xD3, 0, 0), 72, 0]), b'', 'first-instruction-svc',
                                 'exit status 72, no output', 'the first request is never sampled; prints H, then exits 72')
    return S


# --------------------------------------------------------------------------- hand-written assembly (through the real hexasm)
_HDR = 'BR start\nDATA 1 # sp = 1: result slot word 2, value/stream/exit word 3, write stream word 4\nDATA 0\nDATA %d\nDATA 0\nstart\n'


def asm_programs():
    """(name, hexasm source, [console inputs]) -- shapes xcmp never emits:
    consecutive system calls (OPR SVC in back-to-back cycles, SVC reached by a branch right after an SVC, exit straight after a
    write) and LDAC/LDBC immediates of more than 20 significant bits (6-8 nibble PFIX/NFIX chains) whose high bits decide
    a branch or reach the output"""
    P = []
    P.append(('svc-write-twice', _HDR % 65 + 'LDAC 1\nOPR SVC\nOPR SVC\nLDAC 0\nOPR SVC\n', [b'']))
    P.append(('svc-write-thrice-read-twice', _HDR % 66 + 'LDAC 1\nOPR SVC\nOPR SVC\nOPR SVC\nLDAC 2\nOPR SVC\nOPR SVC\nLDAM 2\nSTAM 3\nLDAC 1\nOPR SVC\nLDAC 0\nOPR SVC\n',
              [b'xy', b'x', b'', b'\xfe\x80z']))
    P.append(('svc-read-twice', _HDR % 63 + 'LDAC 2\nOPR SVC\nOPR SVC\nLDAM 2\nSTAM 3\nLDAC 1\nOPR SVC\nLDAC 0\nOPR SVC\n', [b'xy', b'q', b'']))
    P.append(('svc-then-branch-to-svc', _HDR % 67 + 'LDAC 1\nOPR SVC\nBR again\nLDAC 0\nagain\nOPR SVC\nBRZ never\nOPR SVC\nnever\nLDAC 0\nOPR SVC\n', [b'']))
    P.append(('svc-exit-after-write', _HDR % 68 + 'LDAC 1\nOPR SVC\nLDAC 0\nOPR SVC\n', [b'']))
    P.append(('svc-read-write-interleaved', _HDR % 69 + 'LDAC 2\nOPR SVC\nLDAC 1\nOPR SVC\nOPR SVC\nLDAC 2\nOPR SVC\nOPR SVC\nLDAC 0\nOPR SVC\n', [b'abc', b'']))

    # a symbol table after the image (PROC/FUNC) and a read of the word just after the image (never written): hexsim reads 0
    # there, and so does the testbench since load() clears its memory and does not load the table; an ordinary judged input
    P.append(('symtab-read-past-image', 'BR start\nDATA 1\nDATA 0\nDATA 72\nDATA 0\nPROC start\nLDAC last\nLDAI 1\nSTAM 3\nLDAC 1\nOPR SVC\nLDAC 0\nOPR SVC\nlast\nDATA 0\n', [b'']))

    def wide(tests):
        """each test: (setup lines leaving a value in areg, 'BRN' or 'BRZ'): prints T when the branch is taken, F otherwise"""
        src = _HDR % 70
        for i, (setup, br) in enumerate(tests):
            src += setup + '%s t%d\nLDAC 70\nBR p%d\nt%d\nLDAC 84\np%d\nSTAM 3\nLDAC 1\nOPR SVC\n' % (br, i, i, i, i)
        return src + 'LDAC 9\nSTAM 3\nLDAC 0\nOPR SVC\n'
    P.append(('wide-ldac-sign', wide([('LDAC 1234567\n', 'BRN'), ('LDAC 1048576\n', 'BRN'), ('LDAC 2147483647\n', 'BRN'), ('LDAC -2147483648\n', 'BRZ'),
                                     ('LDAC -1048577\n', 'BRN'), ('LDAC 2097152\n', 'BRZ'), ('LDAC -2097152\n', 'BRZ'), ('LDAC 305419896\n', 'BRN')]), [b'']))
    P.append(('wide-ldbc-arith', wide([('LDAC 16\nLDBC 2097155\nOPR SUB\n', 'BRN'), ('LDAC -3000000\nLDBC 1000000\nOPR ADD\n', 'BRN'),
                                      ('LDAC 0\nLDBC 1048576\nOPR SUB\n', 'BRN'), ('LDAC 5\nLDBC -1048581\nOPR ADD\n', 'BRN'),
                                      ('LDAC 1000\nLDBC 4293918720\nOPR ADD\n', 'BRN'), ('LDAC 7\nLDBC 268435463\nOPR SUB\n', 'BRZ')]), [b'']))
    # the wide value itself reaches the output: printed byte = bits 24..31 through repeated doubling is not available; use the exit word
    P.append(('wide-ldac-exit', _HDR % 71 + 'LDAC 19088743\nLDBC 19088640\nOPR SUB\nSTAM 3\nLDAC 0\nOPR SVC\n', [b'']))
    return P


# --------------------------------------------------------------------------- files that exercise the loaders (hextb.cpp load() vs hexsim's load())
def loader_files(d, hexasm):
    """[(name, path, console input)] written into directory d:
    an image larger than the architecture's memory (200000 words; produced by the real hexasm, it exits 7), one larger than the
    RTL memory array (2^19 words), a header announcing more words than the file holds, a 2-byte file, a missing file, and an
    empty image -- on each hextb and hexsim must agree (both reject the file, or both run it the same way)"""
    out = []
    src = 'BR start\nDATA 1\nDATA 0\nDATA 7\nstart\nLDAC 0\nOPR SVC\n' + 'DATA 5\n' * 200000
    open(os.path.join(d, 'oversize.S'), 'w').write(src)
    if hexasm:
        rc, _ = vlib.sh('%s oversize.S -o oversize.bin' % hexasm, cwd=d, timeout=300)
        if rc == 0 and os.path.exists(os.path.join(d, 'oversize.bin')):
            out.append(('loader/oversize-200006-words(hexasm)', os.path.join(d, 'oversize.bin'), b''))
    n = (1 << 19) + 16
    open(os.path.join(d, 'huge.bin'), 'wb').write(n.to_bytes(4, 'little') + _w(0x30, 0xD3, 0, 0).to_bytes(4, 'little') + (1).to_bytes(4, 'little') + b'\x00' * 4 * (n - 2))
    out.append(('loader/oversize-2^19+16-words', os.path.join(d, 'huge.bin'), b''))
    # header says 12 words, the file holds 5: LDAC 0; OPR SVC -> exit(mem[mem[1]+2]) = exit 9
    open(os.path.join(d, 'short.bin'), 'wb').write((12).to_bytes(4, 'little') + b''.join(w.to_bytes(4, 'little') for w in [_w(0x30, 0xD3, 0, 0), 1, 0, 9, 0]))
    out.append(('loader/header-larger-than-file', os.path.join(d, 'short.bin'), b''))
    open(os.path.join(d, 'two.bin'), 'wb').write(b'\x01\x00')
    out.append(('loader/two-byte-file', os.path.join(d, 'two.bin'), b''))
    out.append(('loader/missing-file', os.path.join(d, 'does-not-exist.bin'), b''))
    open(os.path.join(d, 'empty.bin'), 'wb').write((0).to_bytes(4, 'little'))
    return out


# --------------------------------------------------------------------------- runs under load: a timeout is not a result
def retrying(ck, factor=3):
    """run3 with one retry: a run that hits its time limit (rc 124) is inconclusive -- the machine may be loaded -- and is run
    once more with a longer limit; only if it times out again is it reported (as a run that does not terminate)"""
    def run(cmd, timeout=60, cwd=None, env=None, input=None, stdin=None):
        path = getattr(stdin, 'name', None) if stdin is not None else None
        rc, o, e = vlib.run3(cmd, timeout=timeout, cwd=cwd, env=env, input=input, stdin=stdin)
        if rc != 124:
            return rc, o, e
        ck.cov['timeouts_retried'] = ck.cov.get('timeouts_retried', 0) + 1
        s2 = open(path, 'rb') if isinstance(path, str) else None
        rc, o, e = vlib.run3(cmd, timeout=timeout * factor, cwd=cwd, env=env, input=input, stdin=s2)
        if rc == 124:
            ck.broken.append('a run does not terminate within %d s (timed out twice): %s' % (timeout * factor, ' '.join(str(c) for c in cmd)[:300]))
        return rc, o, e
    return run


if __name__ == '__main__':
    print(build_hextb())
    print(build_tb_harness())
