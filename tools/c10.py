#!/usr/bin/env python3
"""C10 -- hexasm accepts or cleanly rejects every input.
proof:  Properties_C10.v: the model of hexasm (lexer, parser, layout, emission) is total: for every byte string it returns
        Ok or Reject, never UB/OutOfFuel (lexer structurally recursive; parser fuel = #tokens+1 suffices; layout bounded by
        the pass limit); a rejected source produces no output.
tie:    model vs the real Lexer/Parser/CodeGen built with ASan+UBSan (-fno-sanitize-recover) on random bytes, token-level
        mutations of the shipped .S files and generated odd programs; executable-level runs of the built hexasm.
oracle: the real tool terminates within the time limit, exits through accept or a diagnostic, sanitizers silent, and
        leaves no output file on a diagnostic."""
import os, sys, glob, re
sys.path.insert(0, os.path.dirname(os.path.abspath(__file__)))
import vlib, asmcommon as A
from vlib import Check, run3

TOKS = A.IMM + A.OPRS + ['OPR', 'DATA', 'FUNC', 'PROC', '-', '0', '1', '15', '16', '255', '4294967295', '4294967296', '2147483648', '-2147483648',
                           '99999999999999999999999', 'x', 'lab', 'L1', 'main', '_x', 'a_b', '#', '\n', '@', '\xff', '\x00', 'BRB', 'LDAM', '%', '%s', '%d', '%n', '%1$s', '{}', '\\', '"', "'"]


def random_bytes(rng):
    n = rng.choice([0, 1, 2, 3, 8, 30, 200, 1000, 4000])
    r = rng.random()
    if r < 0.4:
        return bytes(rng.randrange(256) for _ in range(n))
    if r < 0.7:
        return bytes(rng.choice(b'ABDLOPRSTUXZ 0123456789-\n#_abc\t\xff\x00\x80') for _ in range(n))
    return ''.join(rng.choice(TOKS) + rng.choice([' ', '\n', '', '  ', '\t']) for _ in range(n // 4)).encode('latin1')


def mutate(rng, text):
    toks = re.findall(r'\s+|[^\s]+', text)
    if not toks:
        return text
    for _ in range(rng.randint(1, 4)):
        k = rng.randrange(len(toks))
        op = rng.random()
        if op < 0.25:
            del toks[k]
            if not toks:
                break
        elif op < 0.5:
            toks.insert(k, toks[k])
        elif op < 0.75:
            toks[k] = rng.choice(TOKS)
        else:
            j = rng.randrange(len(toks))
            toks[k], toks[j] = toks[j], toks[k]
    s = ''.join(toks)
    if rng.random() < 0.3:
        s = s[:rng.randrange(len(s) + 1)]      # EOF after any token kind
    return s


def odd_program(rng):
    """syntactically plausible but semantically unusual: undefined/duplicated/keyword-like labels, huge literals, stray operands"""
    lines = []
    names = ['x', 'y', 'ADD1', 'BRx', 'DATA_', 'L0', 'x', 'y']
    for _ in range(rng.randint(0, 25)):
        r = rng.random()
        if r < 0.2:
            lines.append(rng.choice(names))
        elif r < 0.3:
            lines.append(rng.choice(['FUNC ', 'PROC ']) + rng.choice(names + ['5', '', 'LDAC', '-']))
        elif r < 0.55:
            lines.append(rng.choice(A.IMM) + ' ' + rng.choice(names + ['undefined', 'zz']))
        elif r < 0.75:
            lines.append(rng.choice(A.IMM) + ' ' + rng.choice(['0', '-0', '--1', '- 1', '-2147483648', '2147483648', '4294967295', '4294967296', '18446744073709551616', '1 2', '']))
        elif r < 0.85:
            lines.append('OPR ' + rng.choice(A.OPRS + ['LDAC', 'x', '1', '']))
        elif r < 0.95:
            lines.append('DATA ' + rng.choice(['0', '-1', '-', 'x', '4294967296', '']))
        else:
            lines.append(rng.choice(['BRB', 'SVC', '5', '-', '@', '# only a comment', 'BR %', 'LDAC 7 % 2', '%s', 'LDAM %d%n', 'x%', '100%']))
    sep = rng.choice(['\n', '\n', ' ', '\n\n'])
    return (sep.join(lines) + rng.choice(['\n', '', '#'])).encode('latin1')


def main():
    ck = Check('C10')
    ck.cov['trusted_base'] = ['Coq 8.16.1 kernel + VM', 'AsmModel.v/AsmLayout.v hand model of hexasm.hpp incl. C++ hazards as explicit outcomes, tied by correspondence',
                              'glibc ctype semantics for bytes >= 0x80 as modelled (C locale: not space/alpha/digit)', 'extraction + asmdrv.ml',
                              'harness/asm_harness.cpp under ASan+UBSan (g++ 12); the built hexasm executable']
    ck.assumptions = ['inputs up to a few kilobytes (plus the shipped 480 KB xhexb.S); stack exhaustion/allocator failure are outside the model',
                      'LeakSanitizer off: leaks are not in the property']
    ok = ck.proofs()
    ck.log('proofs', 'ok' if ok else 'BROKEN')
    rng = ck.rng
    cases = []
    for f in sorted(glob.glob(os.path.join(vlib.ROOT, 'corpus', 'C10', '*'))):
        cases.append({'src': open(f, 'rb').read(), 'items': None, 'tag': 'corpus'})
    if ck.replay_arg:
        import json
        cases = [{'src': bytes.fromhex(json.load(open(ck.replay_arg))['source_hex']), 'items': None, 'tag': 'replay'}]
    else:
        shipped = [open(f, 'rb').read().decode('latin1') for f in sorted(glob.glob(os.path.join(vlib.REPO, 'tests', 'asm', '*.S')))]
        small = [s for s in shipped if len(s) < 20000]
        n = 700 if not ck.thorough() else 60000
        cases.append({'src': b'', 'items': None, 'tag': 'empty'})
        for w in [b' ', b'\n', b'# c', b'#', b'\xff', b'x', b'FUNC', b'PROC x', b'DATA', b'OPR', b'-', b'LDAC', b'LDAC -', b'BR x', b'x\nx\nBR x\n', b'LDAM x\nOPR ADD\nx\n']:
            cases.append({'src': w, 'items': None, 'tag': 'tiny'})
        for _ in range(n):
            cases.append({'src': random_bytes(rng), 'items': None, 'tag': 'random'})
        for _ in range(n):
            cases.append({'src': mutate(rng, rng.choice(small)).encode('latin1'), 'items': None, 'tag': 'mutation'})
        for _ in range(n):
            cases.append({'src': odd_program(rng), 'items': None, 'tag': 'odd'})
        for s in shipped:
            cases.append({'src': s.encode('latin1'), 'items': None, 'tag': 'shipped'})
    r = A.pipeline(ck, cases)
    if r is None:
        ck.finish()
    cases, hv, d = r
    dist = {}
    nbad = 0
    distinct = set()
    for c in cases:
        st = c['real']['status']
        cls = 'accept' if c['accept'] else ('reject' if st == 'ok' else st)
        key = c['tag'] + '/' + cls
        dist[key] = dist.get(key, 0) + 1
        ck.cov['evaluations'] += 1
        distinct.add(hash(c['src']))
        if st != 'ok':
            nbad += 1
            detail = c['real'].get('detail', '')
            kind = 'empty-program' if not (c['model'] and c['model'][0] == 'ACCEPT' and len(c['model']) > 3) and 'stl_iterator' in detail or 'stl_vector' in detail else st
            if nbad <= 4:
                ck.violation('hexasm %s instead of accept/diagnostic: %s' % (st, detail.strip().split('\n')[0][:300]),
                             {'source_hex': c['src'].hex(), 'source': c['src'].decode('latin1')[:2000], 'detail': detail, 'replay_cmd': './check C10 --replay <this file>'},
                             tags={'kind': st})
        m = c['model']
        if m and (m[0].startswith('UB') or m[0].startswith('OUTOFFUEL')):
            ck.violation('the model reaches %s on this source although C10_total is proved (model/extraction fault)' % m[0],
                         {'source_hex': c['src'].hex()}, tags={'kind': 'model-ub'})
        elif st == 'ok' and len(ck.cov['samples']) < 6 and ck.cov['evaluations'] % 211 == 0:
            ck.sample({'source': c['src'].decode('latin1')[:120], 'real': c['real']['lines'][0][:100]})
    ncorr = A.correspondence(ck, cases)
    if ncorr:
        ex = next(c for c in cases if 'corr_diff' in c)
        ck.broken.append('correspondence model vs real hexasm: %d of %d sources differ, e.g. model [%s] real [%s] on source (hex) %s'
                         % (ncorr, len(cases), ex['corr_diff'][0], ex['corr_diff'][1], ex['src'][:200].hex()))
    # ---- executable level: the built hexasm on a sample: terminates, exit path, no output file on a diagnostic
    hexasm, log = vlib.repo_tool('hexasm')
    nexe = 0
    if hexasm is None:
        ck.broken.append('hexasm does not build: ' + log[-300:])
    else:
        sample = [c for c in cases if c['tag'] in ('tiny', 'empty', 'odd', 'corpus', 'replay', 'mutation') or (c['tag'] == 'random' and len(c['src']) < 400)][:1500 if not ck.thorough() else 40000]
        for c in sample:
            sp = os.path.join(d, 'in.S')
            op = os.path.join(d, 'out.bin')
            open(sp, 'wb').write(c['src'])
            if os.path.exists(op):
                os.remove(op)
            rc, out, err = run3([hexasm, sp, '-o', op], cwd=d, timeout=20)
            nexe += 1
            ck.cov['evaluations'] += 1
            crashed = rc < 0 or rc == 124 or rc >= 126
            if crashed:
                ck.violation('the hexasm executable %s (rc=%d) on this source' % ('hangs' if rc == 124 else 'crashes', rc),
                             {'source_hex': c['src'].hex(), 'stderr': err.decode('latin1')[-300:]}, tags={'kind': 'hang' if rc == 124 else 'crash'})
            elif err.strip() and os.path.exists(op):
                ck.violation('hexasm printed a diagnostic but left an output file', {'source_hex': c['src'].hex(), 'stderr': err.decode('latin1')[-300:]}, tags={'kind': 'file-after-diagnostic'})
    ck.cov['distinct_nontrivial'] = len(distinct)
    ck.cov['rule'] = 'byte strings: random bytes, token soup, token-level mutations of shipped .S, generated odd programs; distinct by content; every one is non-trivial (must end in accept or diagnostic)'
    ck.cov['input_distribution'] = dist
    ck.cov['executable_runs'] = nexe
    ck.cov['correspondence_differences'] = ncorr
    ck.log('cases %d, crashes/hangs %d, correspondence differences %d, executable runs %d' % (len(cases), nbad, ncorr, nexe))
    ck.finish()


if __name__ == '__main__':
    main()
