#!/usr/bin/env python3
"""xgen.py -- seeded grammar-based generator of mostly well-defined, typed X programs (AST of xparse.py),
aimed at the case splits of xcmp's code generator, and a shrinker.

Well-definedness is kept likely by construction (initialised variables, in-range subscripts, bounded
loops and recursion, small values) and DECIDED by the extracted XSem afterwards; nothing here is trusted.

Case splits aimed at (DESIGN.md C01 "Generators and bounds"):
  operand shapes {constant, val constant, global, local, formal, array element with constant/computed
  subscript, call, parenthesised constant tree, nested operator} on each side of every operator;
  right operands that need a spill; calls in actuals in every order, nested calls, temporaries in later
  actuals; recursion (fib/fac shapes, deep linear recursion); subscripts containing calls and input;
  strings incl. the empty string passed to array formals; val constants at the +-65536 immediate/pool
  boundary; procedures named like generated labels (lab0, start); 0-12 formals; array formals;
  main returning / exit(e) / stop; `return e` inside procedures; shadowing of globals by locals;
  identifiers (globals, arrays, procedures, formals, locals) that look like names the compiler or the assembler
  uses itself (start, exit, lab3, const0, string0, sp, mnemonics: NAME_POOL); local vals declared before, between
  and after local vars; a local var that is a subscript across an array assignment / a call (live_index);
  functions that return a call of themselves with actuals that read formals other actuals replace (tail_rec);
  long sequences of array-element assignments."""
import random

BOUNDARY = [65535, 65536, 65537, 65534, 70000, 100000, 1 << 20, 131071, 131072]
SMALL = [0, 1, 2, 3, 4, 5, 7, 9, 15, 16, 17, 100, 255, 256, 1000]
RELOPS = ['=', '~=', '<', '<=', '>', '>=']
# identifiers X allows that coincide with names the compiler / assembler use themselves: generated labels (_start, _exit,
# _labN, _constN, _stringN: a tool that derives a label from an X name collides), register and section names, mnemonics
# and directives of the assembly language, and identifiers with underscores and digits
NAME_POOL = ['start', 'start', 'start', 'exit', 'lab0', 'lab1', 'lab2', 'lab3', 'lab4', 'lab5', 'lab8', 'lab13', 'const0', 'const1', 'string0',
             'string1', 'sp', 'pc', 'areg', 'breg', 'oreg', 'BR', 'BRZ', 'BRN', 'BRB', 'LDAM', 'LDBM', 'STAM', 'LDAC', 'LDBC', 'LDAP',
             'LDAI', 'LDBI', 'STAI', 'OPR', 'SVC', 'ADD', 'SUB', 'PFIX', 'NFIX', 'DATA', 'PROC', 'FUNC', 'PADDING', 'main_', 'start_',
             'exit_', 'x_1', 'a_', 'end', 'begin', 'data', 'text', 'mem', 'size', 'main0', 'Main', 'START', 'Exit']


def _ren_expr(e, m):
    t = e[0]
    if t == 'var':
        return ('var', m.get(e[1], e[1]))
    if t == 'sub':
        return ('sub', m.get(e[1], e[1]), _ren_expr(e[2], m))
    if t == 'call':
        return ('call', m.get(e[1], e[1]), [_ren_expr(a, m) for a in e[2]])
    if t == 'sys':
        return ('sys', e[1], [_ren_expr(a, m) for a in e[2]])
    if t in ('neg', 'not'):
        return (t, _ren_expr(e[1], m))
    if t == 'bin':
        return ('bin', e[1], _ren_expr(e[2], m), _ren_expr(e[3], m))
    return e


def _ren_stmt(s, m):
    t = s[0]
    if t == 'seq':
        return ('seq', [_ren_stmt(x, m) for x in s[1]])
    if t == 'if':
        return ('if', _ren_expr(s[1], m), _ren_stmt(s[2], m), _ren_stmt(s[3], m))
    if t == 'while':
        return ('while', _ren_expr(s[1], m), _ren_stmt(s[2], m))
    if t == 'return':
        return ('return', _ren_expr(s[1], m))
    if t == 'assign':
        return ('assign', m.get(s[1], s[1]), _ren_expr(s[2], m))
    if t == 'assignsub':
        return ('assignsub', m.get(s[1], s[1]), _ren_expr(s[2], m), _ren_expr(s[3], m))
    if t == 'call':
        return ('call', m.get(s[1], s[1]), [_ren_expr(a, m) for a in s[2]])
    if t == 'sys':
        return ('sys', s[1], [_ren_expr(a, m) for a in s[2]])
    return s


def _ren_decl(d, m):
    if d[0] == 'var':
        return ('var', m.get(d[1], d[1]))
    return (d[0], m.get(d[1], d[1]), _ren_expr(d[2], m))


def declared_names(p):
    """every identifier the program declares, by class"""
    out = {'gvar': [], 'garray': [], 'gval': [], 'proc': [], 'formal': [], 'local': []}
    for d in p['globals']:
        out[{'var': 'gvar', 'array': 'garray', 'val': 'gval'}[d[0]]].append(d[1])
    for q in p['procs']:
        out['proc'].append(q['name'])
        out['formal'] += [f[1] for f in q['formals']]
        out['local'] += [d[1] for d in q['locals']]
    return out


def rename_program(p, m):
    """the program with every occurrence of the identifiers in m renamed (the new names must not occur in p: scopes are
    by name, so the meaning is unchanged)"""
    q = dict(p)
    q['globals'] = [_ren_decl(d, m) for d in p['globals']]
    q['procs'] = [{'kind': r['kind'], 'name': m.get(r['name'], r['name']), 'formals': [(f[0], m.get(f[1], f[1])) for f in r['formals']],
                   'locals': [_ren_decl(d, m) for d in r['locals']], 'body': _ren_stmt(r['body'], m)} for r in p['procs']]
    return q


def num(n):
    """an expression for the integer n (negative numbers are written -k or as the unsigned literal)"""
    if n >= 0:
        return ('num', n)
    return ('neg', ('num', -n))


class Func:
    def __init__(self, name, kind, formals, effect, ret):
        self.name = name
        self.kind = kind            # 'proc' | 'func'
        self.formals = formals      # list of (kind, name, info)  info: for arrays dict(minlen, writes)
        self.effect = effect        # 'none' | 'reads' | 'writes'
        self.ret = ret              # 'int' | 'bool' (functions)
        self.rec = False            # first formal is a recursion depth
        self.loop = None            # (base, step): the first formal drives a loop at the very start of the body


class Env:
    """what a body may use"""

    def __init__(self):
        self.ints = []          # readable initialised integer variables (locals, formals, globals)
        self.bools = []         # variables known to hold 0/1
        self.small = {}         # name -> exclusive upper bound (value known in [0, bound))
        self.assign = []        # assignable integer variables
        self.arrays = {}        # name -> (len, writable, is_global_effect)
        self.globs = set()      # names among the above that are global (reading them is an effect)
        self.vals = {}          # name -> value
        self.funcs = []         # callable Func objects
        self.selfrec = None     # (Func, depthvar) for a guarded self call
        self.counters = []      # free loop counters

    def copy(self):
        e = Env()
        e.ints = list(self.ints); e.bools = list(self.bools); e.small = dict(self.small); e.assign = list(self.assign)
        e.arrays = dict(self.arrays); e.globs = set(self.globs); e.vals = dict(self.vals); e.funcs = list(self.funcs)
        e.selfrec = self.selfrec; e.counters = list(self.counters)
        return e


class Gen:
    def __init__(self, rng, big=False):
        self.r = rng
        self.big = big
        self.named_sys = rng.random() < 0.75
        self.sysname = {}
        self.need_idx = False
        self.strings_used = 0

    # ------------------------------------------------------------ small helpers
    def chance(self, p):
        return self.r.random() < p

    def const_value(self):
        r = self.r.random()
        if r < 0.62:
            return self.r.choice(SMALL)
        if r < 0.92:
            v = self.r.choice(BOUNDARY)
            return v if self.chance(0.7) else -v
        if r < 0.97:
            return -self.r.choice(SMALL)
        return self.r.choice([2147483647, 2147483646, 1 << 30, -(1 << 30)])

    def const_tree(self, depth=2):
        """a constant expression built from literals (folded by the compiler)"""
        if depth <= 0 or self.chance(0.35):
            v = self.const_value()
            if v < 0 and self.chance(0.3):
                return ('num', v % (1 << 32))
            return num(v)
        op = self.r.choice(['+', '-', '+', '-', '=', '<', 'and'])
        if op == 'and':
            return ('bin', self.r.choice(['and', 'or']), self.r.choice([('true',), ('false',)]), self.r.choice([('true',), ('false',)]))
        return ('bin', op, self.const_tree(depth - 1), self.const_tree(depth - 1))

    def sys(self, n, args):
        name = self.sysname.get(n)
        if name is not None and self.chance(0.85):
            return ('call', name, args)
        return ('sys', n, args)

    def string_bytes(self, minwords):
        need = max(0, 4 * minwords - 4)
        n = need + self.r.choice([0, 0, 1, 2, 3, 4, 5, 11])
        if minwords <= 1 and self.chance(0.3):
            n = 0
        alphabet = b'abcxyz019 ,.!' + bytes([10, 9, 0x5c, 0x27, 0x22, 0x7e])
        return [self.r.choice(alphabet) for _ in range(n)]

    # ------------------------------------------------------------ expressions
    def leaf_int(self, env, glob, small=False):
        c = []
        c += [('k', None)] * 3
        for v in env.ints:
            if glob or v not in env.globs:
                c.append(('v', v))
        for v in env.vals:
            c.append(('v', v))
        for a, (n, _, g) in env.arrays.items():
            if (glob or not g) and n > 0:
                c += [('a', a)]
        t, x = self.r.choice(c)
        if t == 'k':
            if self.chance(0.12):
                return self.const_tree(2)
            v = self.const_value()
            return num(v) if v >= 0 or self.chance(0.8) else ('num', v % (1 << 32))
        if t == 'v':
            return ('var', x)
        return ('sub', x, self.index(env, x, glob, False))

    def index(self, env, a, glob, imp):
        """an expression whose value is a valid subscript of array a"""
        n = env.arrays[a][0]
        r = self.r.random()
        k = self.r.randrange(n)
        sm = [v for v, b in env.small.items() if b <= n and (glob or v not in env.globs)]
        if r < 0.35 or (not sm and r < 0.6):
            return ('num', k)
        if sm and r < 0.75:
            v = ('var', self.r.choice(sm))
            c = self.r.choice([1, 2, 3, 65536])
            return self.r.choice([v, v, ('bin', '-', ('bin', '+', v, ('num', c)), ('num', c)),
                                  ('bin', '+', ('num', 0), v), ('bin', '-', v, ('bin', '-', ('num', c), ('num', c)))])
        if r < 0.83:
            c = self.r.choice([1, 3, 255, 65536, 70000])
            return ('bin', '-', ('num', k + c), ('num', c))
        if r < 0.93 and self.idx is not None and glob:
            # a call in the subscript
            self.need_idx = True
            sv = [('var', v) for v in env.small if glob or v not in env.globs] + [('num', self.r.randrange(40))]
            e = self.r.choice(sv)
            if self.chance(0.5):
                e = ('bin', self.r.choice(['+', '-']), e, ('num', self.r.randrange(12)))
            return ('call', 'idx', [e, ('num', n)])
        if imp and n >= 2 and self.chance(0.8):
            # input in the subscript: the inputs are digits below the array length
            self.uses_input = True
            return ('bin', '-', self.sys(2, [('num', 0)]), ('num', 48))
        return ('num', k)

    def call_expr(self, env, depth, glob, imp, want='int'):
        """a function call usable under the (glob, imp) restrictions, or None"""
        ok = []
        for f in env.funcs:
            if f.kind != 'func' or f.ret != want:
                continue
            if f.effect == 'writes' and not imp:
                continue
            if f.effect == 'reads' and not glob:
                continue
            ok.append(f)
        if env.selfrec is not None and env.selfrec[0].ret == want and self.chance(0.5):
            f, d = env.selfrec
            if (f.effect != 'writes' or imp) and (f.effect != 'reads' or glob):
                return ('call', f.name, self.actuals(env, f, depth - 1, glob, imp, rec=d))
        if not ok:
            return None
        f = self.r.choice(ok)
        return ('call', f.name, self.actuals(env, f, depth - 1, glob, imp and f.effect == 'writes'))

    def actuals(self, env, f, depth, glob, imp, rec=None):
        """actual parameters of f; siblings obey the footprint discipline (at most one impure sibling, and then
        the other siblings do not read globals)"""
        n = len(f.formals)
        impure_at = self.r.randrange(n) if (imp and n and self.chance(0.35)) else None
        args = []
        for i, (k, name, info) in enumerate(f.formals):
            g = glob and impure_at is None
            if k == 'val':
                if i == 0 and f.loop is not None:
                    base, step = f.loop
                    args.append(num(base + step * self.r.randint(2, 5)))
                elif i == 0 and f.rec:
                    if rec is not None:
                        args.append(('bin', '-', ('var', rec), ('num', self.r.choice([1, 1, 1, 2]))))
                    else:
                        args.append(('num', self.r.choice([0, 1, 2, 3, 4, 5])))
                elif i == impure_at:
                    args.append(self.int_expr(env, depth, glob, True))
                else:
                    args.append(self.int_expr(env, depth, g, False))
            else:
                cands = [a for a, (ln, w, _) in env.arrays.items() if ln >= info['minlen'] and (w or not info['writes'])]
                if not info['writes'] and (not cands or self.chance(0.45)):
                    self.strings_used += 1
                    args.append(('str', self.string_bytes(info['minlen'])))
                elif cands:
                    args.append(('var', self.r.choice(cands)))
                else:
                    args.append(('str', self.string_bytes(info['minlen'])))
        return args

    def int_expr(self, env, depth, glob=True, imp=False):
        r = self.r.random()
        if depth <= 0 or r < 0.22:
            return self.leaf_int(env, glob)
        if r < 0.62:
            op = self.r.choice(['+', '+', '-', '-'])
            li, ri = self.split(imp)
            gl = glob and not ri
            gr = glob and not li
            l = self.int_expr(env, depth - 1, gl, li)
            if self.chance(0.15):
                rr = self.const_tree(2)            # constant subtree as the right operand
            else:
                rr = self.int_expr(env, depth - 1, gr, ri)
            if op == '+' and self.chance(0.2):
                # a chain a + b + c (right nested)
                rr = ('bin', '+', rr, self.leaf_int(env, gr))
            return ('bin', op, l, rr)
        if r < 0.70:
            return ('neg', self.int_expr(env, depth - 1, glob, imp))
        if r < 0.88:
            c = self.call_expr(env, depth, glob, imp)
            if c is not None:
                return c
            return self.leaf_int(env, glob)
        if r < 0.92 and imp:
            self.uses_input = True
            return self.sys(2, [('num', self.r.choice([0, 0, 0, 1, 255]))])
        if r < 0.96:
            # a truth value used as an integer (true = 1)
            return self.bool_expr(env, depth - 1, glob, imp)
        return self.leaf_int(env, glob)

    def split(self, imp):
        """which of two siblings may contain an impure call"""
        if not imp or self.chance(0.5):
            return False, False
        return (True, False) if self.chance(0.5) else (False, True)

    def bool_expr(self, env, depth, glob=True, imp=False):
        r = self.r.random()
        if depth <= 0 or r < 0.55:
            op = self.r.choice(RELOPS)
            li, ri = self.split(imp)
            d = max(depth - 1, 0)
            l = self.int_expr(env, d, glob and not ri, li)
            if self.chance(0.25):
                rr = self.r.choice([('num', 0), ('num', 0), self.const_tree(1)])
            else:
                rr = self.int_expr(env, d, glob and not li, ri)
            if self.chance(0.1):
                l, rr = rr, l
            return ('bin', op, l, rr)
        if r < 0.72:
            return ('bin', self.r.choice(['and', 'or']), self.bool_expr(env, depth - 1, glob, imp), self.bool_expr(env, depth - 1, glob, imp))
        if r < 0.82:
            return ('not', self.bool_expr(env, depth - 1, glob, imp))
        if r < 0.88:
            return self.r.choice([('true',), ('false',)])
        if r < 0.94:
            bs = [b for b in env.bools if glob or b not in env.globs]
            if bs:
                return ('var', self.r.choice(bs))
        if r < 0.98:
            c = self.call_expr(env, depth, glob, imp, 'bool')
            if c is not None:
                return c
        li, ri = self.split(imp)
        return ('bin', self.r.choice(['=', '~=']), self.bool_expr(env, depth - 1, glob and not ri, li), self.bool_expr(env, depth - 1, glob and not li, ri))

    # ------------------------------------------------------------ statements
    def stmt(self, env, depth, fn):
        """fn: the Func being generated (None for main)"""
        eff = fn.effect if fn is not None else 'writes'
        glob = eff != 'none'
        imp = eff == 'writes'
        r = self.r.random()
        if depth > 0 and imp and self.chance(0.12):
            s = self.live_index(env, fn)
            if s is not None:
                return s
        if depth <= 0 or r < 0.34:
            warr = [a for a, (n, w, _) in env.arrays.items() if w and n > 0]
            if warr and imp and depth > 0 and self.chance(0.08):
                # a run of array-element assignments in one sequence (each needs a temporary for the element address)
                a = self.r.choice(warr)
                n = env.arrays[a][0]
                return ('seq', [('assignsub', a, self.r.choice([('num', self.r.randrange(n)), self.index(env, a, True, False)]),
                                 self.int_expr(env, 1, True, False)) for _ in range(self.r.randint(3, 9))])
            if len(warr) >= 2 and imp and depth > 0 and self.chance(0.15):
                # A[k] := e directly followed by a read of another array at the same constant subscript
                a, b = self.r.sample(warr, 2)
                k = self.r.randrange(min(env.arrays[a][0], env.arrays[b][0]))
                ks = [v for v, x in env.vals.items() if x == k]
                ke = ('var', self.r.choice(ks)) if ks and self.chance(0.4) else ('num', k)
                tg = [v for v in env.assign if v not in env.bools]
                first = ('assignsub', a, ke, self.int_expr(env, 1, True, False))
                rd = ('sub', b, ke)
                if self.chance(0.5):
                    rd = ('bin', self.r.choice(['+', '-']), rd, self.leaf_int(env, True))
                second = ('assign', self.r.choice(tg), rd) if tg and self.chance(0.6) else self.sys(1, [rd, ('num', 0)])
                return ('seq', [first, second])
            if warr and imp and self.chance(0.3):
                a = self.r.choice(warr)
                li, ri = self.split(True)
                i = self.index(env, a, not ri, li)
                return ('assignsub', a, i, self.int_expr(env, 2, not li, ri))
            tg = [v for v in env.assign if imp or v not in env.globs]
            if not tg:
                return ('skip',)
            x = self.r.choice(tg)
            if x in env.bools:
                return ('assign', x, self.bool_expr(env, 2, glob, imp))
            return ('assign', x, self.int_expr(env, 3, glob, imp))
        if r < 0.50:
            t = self.stmt(env, depth - 1, fn)
            e = self.stmt(env, depth - 1, fn) if self.chance(0.6) else ('skip',)
            if self.chance(0.1):
                t, e = e, t
            return ('if', self.bool_expr(env, 2, glob, imp), t, e)
        if r < 0.60:
            return ('seq', [self.stmt(env, depth - 1, fn) for _ in range(self.r.randint(1, 3))])
        if r < 0.70 and imp:
            return self.sys(1, [self.int_expr(env, 2, True, self.chance(0.3)), ('num', self.r.choice([0, 0, 0, 0, 1, 255]))])
        if r < 0.82 and imp:
            ps = [f for f in env.funcs if f.kind == 'proc']
            if ps:
                f = self.r.choice(ps)
                return ('call', f.name, self.actuals(env, f, 2, True, True))
        if r < 0.92 and env.counters:
            c = env.counters[0]
            e2 = env.copy()
            e2.counters = env.counters[1:]
            e2.assign = [v for v in env.assign if v != c]
            k = self.r.randint(1, 4)
            e2.small[c] = k
            e2.ints = e2.ints + [c] if c not in e2.ints else e2.ints
            body = self.stmt(e2, depth - 1, fn)
            if self.chance(0.5):
                cond = ('bin', '<', ('var', c), ('num', k))
            else:
                cond = self.r.choice([('bin', '~=', ('var', c), ('num', k)), ('bin', '>', ('num', k), ('var', c)),
                                      ('not', ('bin', '>=', ('var', c), ('num', k))),
                                      ('bin', 'and', ('bin', '<', ('var', c), ('num', k)), ('true',))])
            return ('seq', [('assign', c, ('num', 0)),
                            ('while', cond, ('seq', [body, ('assign', c, ('bin', '+', ('var', c), ('num', 1)))]))])
        if r < 0.95 and fn is not None and fn.kind == 'func':
            return ('return', self.ret_expr(env, fn))
        if r < 0.965 and fn is not None and fn.kind == 'proc':
            return ('return', self.int_expr(env, 1, glob, False))
        if r < 0.975 and imp:
            return self.r.choice([('stop',), self.sys(0, [self.int_expr(env, 1, True, False)])])
        return ('skip',)

    def live_index(self, env, fn):
        """v := k; a[v] := e; [p(..);] a[v] := e' / x := a[v]: a local variable that is a subscript, live across an array
        assignment (whose element address is kept in a temporary) and across a procedure call (whose link word and
        actuals lie in the outgoing area)"""
        r = self.r
        warr = [a for a, (n, w, _) in env.arrays.items() if w and n > 0]
        locs = [v for v in env.assign if v not in env.globs and v not in env.bools and v not in env.counters]
        if not warr or not locs:
            return None
        a = r.choice(warr)
        n = env.arrays[a][0]
        v = r.choice(locs)
        k = r.randrange(n)
        e2 = env.copy()
        e2.assign = [x for x in env.assign if x != v]
        e2.small[v] = k + 1
        e2.counters = []
        out = [('assign', v, r.choice([('num', k), ('bin', '-', ('num', k + 3), ('num', 3))]))]
        if self.chance(0.3):
            vs = [x for x in env.vals if 0 <= env.vals[x] < n]
            if vs:
                x = r.choice(vs)
                out = [('assign', v, ('var', x))]
                e2.small[v] = env.vals[x] + 1
        for _ in range(r.randint(1, 3)):
            q = r.random()
            if q < 0.5:
                out.append(('assignsub', a, ('var', v), self.int_expr(e2, 2, True, self.chance(0.3))))
            elif q < 0.8:
                ps = [f for f in e2.funcs if f.kind == 'proc']
                if ps:
                    f = r.choice(ps)
                    out.append(('call', f.name, self.actuals(e2, f, 1, True, True)))
                else:
                    out.append(('assignsub', a, ('var', v), self.int_expr(e2, 2, True, False)))
            else:
                tg = [x for x in e2.assign if x not in e2.bools]
                if tg:
                    out.append(('assign', r.choice(tg), ('bin', r.choice(['+', '-']), ('sub', a, ('var', v)), self.int_expr(e2, 1, True, False))))
        out.append(('assignsub', a, ('var', v), ('bin', '+', ('sub', a, ('var', v)), ('num', r.randint(0, 3)))) if self.chance(0.6)
                   else self.sys(1, [('bin', '+', ('sub', a, ('var', v)), ('num', 48)), ('num', 0)]))
        return ('seq', out)

    def ret_expr(self, env, fn):
        glob = fn.effect != 'none'
        imp = fn.effect == 'writes'
        if fn.ret == 'bool':
            return self.bool_expr(env, 2, glob, imp)
        return self.int_expr(env, 3, glob, imp)

    # ------------------------------------------------------------ name clashes
    def clash_name(self, genv, used, default):
        """a name for a formal or local: mostly the default, sometimes the name of a global val, a global variable, a
        global array or another procedure (the inner declaration hides it; XSem resolves the scopes)"""
        if not self.chance(0.12):
            return default
        sysn = set(self.sysname.values())
        cands = [v for v in genv.ints] + [k for k in genv.vals if k not in sysn] + [a for a in genv.arrays] + \
                [f.name for f in genv.funcs if f.name not in ('main',)]
        cands = [c for c in cands if c not in used]
        if not cands:
            return default
        return self.r.choice(cands)

    def hide(self, env, nm):
        """nm is declared locally: whatever global it named is out of scope in env"""
        env.globs.discard(nm)
        if nm in env.bools:
            env.bools.remove(nm)
        if nm in env.vals:
            del env.vals[nm]
        if nm in env.arrays:
            del env.arrays[nm]
        if nm in env.ints:
            env.ints.remove(nm)
        if nm in env.assign:
            env.assign.remove(nm)
        if nm in env.small:
            del env.small[nm]
        env.funcs = [f for f in env.funcs if f.name != nm]

    # ------------------------------------------------------------ procedures
    def proc(self, i, genv, arrays, name):
        r = self.r
        kind = r.choice(['func', 'func', 'proc'])
        effect = r.choice(['none', 'reads', 'reads', 'writes', 'writes']) if kind == 'func' else 'writes'
        nf = r.choice([0, 1, 1, 2, 2, 3, 3, 4, 5]) if not self.chance(0.08) else r.randint(6, 12)
        rec = kind == 'func' and self.chance(0.3)
        # a function that returns a call of itself whose actuals read formals that other actuals replace
        tail = rec and self.chance(0.4)
        if tail:
            nf = max(nf, r.choice([2, 2, 3, 4]))
        # how the body begins: with the initialisation of the locals (None), or directly behind the prologue with a
        # while / if / return that reads a value formal
        first_mode = None if rec or not self.chance(0.3) else r.choice(['while', 'while', 'if', 'return'])
        if first_mode == 'return' and kind != 'func':
            first_mode = 'if'
        formals = []
        env = Env()
        env.vals = dict(genv.vals)
        env.funcs = [f for f in genv.funcs if effect == 'writes' or (f.kind == 'func' and (f.effect == 'none' or (effect == 'reads' and f.effect == 'reads')))]
        shadow = None
        if effect != 'none':
            env.ints = list(genv.ints); env.bools = list(genv.bools); env.globs = set(genv.globs)
            env.arrays = dict(genv.arrays)
            if effect == 'writes':
                env.assign = list(genv.assign)
            else:
                for a in env.arrays:
                    n, w, g = env.arrays[a]
                    env.arrays[a] = (n, False, g)
        if rec:
            formals.append(('val', 'd', None))
            env.ints.append('d')
            nf = max(nf, 1)
        if first_mode is not None:
            formals.append(('val', 'w', None))
            env.ints.append('w')
            nf = max(nf, 1)
        for j in range(len(formals), nf):
            if effect != 'none' and not tail and self.chance(0.18):
                info = {'minlen': r.choice([1, 1, 2, 3]), 'writes': effect == 'writes' and self.chance(0.4)}
                nm = self.clash_name(genv, [f[1] for f in formals], 's%d' % j)
                self.hide(env, nm)
                formals.append(('array', nm, info))
                env.arrays[nm] = (info['minlen'], info['writes'], True)
            else:
                nm = self.clash_name(genv, [f[1] for f in formals], 'p%d' % j)   # may hide a global val / var / array / procedure
                self.hide(env, nm)
                formals.append(('val', nm, None))
                env.ints.append(nm)
                if nm not in env.assign and self.chance(0.3):
                    env.assign.append(nm)
        fn = Func(name, kind, formals, effect, r.choice(['int', 'int', 'int', 'bool']) if kind == 'func' else None)
        fn.rec = rec
        if first_mode == 'while':
            fn.loop = (r.choice([0, 3, 100, 65536, 199990, 200000, 200010, 200400, 1 << 20]), r.choice([1, 1, 2, 100]))
        env_first = env.copy()          # what the first statement may use: the locals are not initialised yet
        locs = []
        init = []
        nl = r.choice([0, 1, 1, 2, 3])
        used = set(f[1] for f in formals)
        for j in range(nl):
            nm = self.clash_name(genv, used, 'l%d' % j)       # may hide a global val / var / array / procedure
            used.add(nm)
            locs.append(('var', nm))
            self.hide(env, nm)
            env.ints.append(nm)
            env.assign.append(nm)
            init.append(('assign', nm, num(r.randint(0, 9))))
        if self.chance(0.5):
            locs.append(('var', 'c'))
            env.counters = ['c']
            used.add('c')
        if self.chance(0.2):
            locs.append(('var', 'b'))
            env.bools.append('b')
            env.assign.append('b')
            env.ints.append('b')
            init.append(('assign', 'b', r.choice([('true',), ('false',), ('bin', '<', ('num', 1), ('num', 2))])))
        if self.chance(0.3):
            # local vals: declared before, between and after the local vars (a val takes no frame word)
            for nm in ['k', 'kk', 'k_'][:r.choice([1, 1, 2, 3])]:
                if nm in used:
                    continue
                v = self.const_value() if self.chance(0.5) else r.randint(0, 3)
                used.add(nm)
                self.hide(env, nm)
                locs.insert(0, ('val', nm, self.r.choice([num(v), num(v), ('bin', '+', num(v), ('num', 0))])))
                env.vals[nm] = v
        r.shuffle(locs)
        if any(d[0] == 'val' for d in locs) and self.chance(0.5):
            # the vals first (then every local var is declared behind a val)
            locs = [d for d in locs if d[0] == 'val'] + [d for d in locs if d[0] != 'val']
        first = []
        if first_mode == 'while':
            base, step = fn.loop
            cond = r.choice([('bin', '~=', ('var', 'w'), num(base)), ('bin', '>', ('var', 'w'), num(base)),
                             ('not', ('bin', '=', ('var', 'w'), num(base))), ('bin', '<', num(base), ('var', 'w'))])
            ef = env_first.copy()
            ef.counters = []
            inner = [self.stmt(ef, 1, fn)] if self.chance(0.5) else []
            inner = [s for s in inner if s[0] != 'return']
            first = [('while', cond, ('seq', inner + [('assign', 'w', ('bin', '-', ('var', 'w'), num(step)))])
                      if inner or self.chance(0.5) else ('assign', 'w', ('bin', '-', ('var', 'w'), num(step))))]
        elif first_mode == 'if':
            ef = env_first.copy()
            ef.counters = []
            cond = ('bin', r.choice(RELOPS), ('var', 'w'), self.leaf_int(ef, glob=(effect != 'none')))
            first = [('if', cond, self.stmt(ef, 1, fn), self.stmt(ef, 1, fn) if self.chance(0.5) else ('skip',))]
        elif first_mode == 'return':
            ef = env_first.copy()
            first = [('if', ('bin', r.choice(RELOPS), ('var', 'w'), num(r.choice([0, 3, 200000]))),
                      ('return', ('bin', r.choice(['+', '-']), ('var', 'w'), self.leaf_int(ef, glob=(effect != 'none')))), ('skip',))]
        body = first + list(init)
        if rec:
            env.selfrec = (fn, 'd')
            base = ('return', self.bool_expr(env, 1, False, False) if fn.ret == 'bool' else self.leaf_int(env, False))
            if tail:
                # the result shows what the formals hold at the bottom of the recursion
                fv = [f[1] for f in formals[1:]]
                e = ('var', fv[0])
                for x in fv[1:]:
                    e = ('bin', r.choice(['+', '-']), e, ('var', x)) if e[0] == 'var' or e[1] == '+' else ('bin', '-', e, ('var', x))
                    if e[1] == '-':
                        break
                if fn.ret == 'bool':
                    e = ('bin', r.choice(['<', '>=', '=']), e, r.choice([('num', r.randint(0, 9)), ('var', fv[-1])]))
                base = ('return', e)
            e2 = env.copy()
            inner = [self.stmt(e2, 1, fn) for _ in range(r.randint(0, 2))]
            if tail:
                inner = [x for x in inner if self.chance(0.3)]
                fv = [f[1] for f in formals]
                acts = [('bin', '-', ('var', 'd'), ('num', 1))]
                for j in range(1, len(fv)):
                    # a call-free actual that reads formals of other positions (earlier ones above all): a permutation,
                    # an accumulator, a difference
                    o = r.choice(fv[:j]) if self.chance(0.7) else r.choice(fv)
                    o2 = r.choice(fv)
                    acts.append(r.choice([('var', o), ('bin', '+', ('var', fv[j]), ('var', o)), ('bin', '+', ('var', o), ('var', o2)),
                                          ('bin', '-', ('var', o), ('var', fv[j])), ('bin', '+', ('var', o), ('num', r.randint(0, 3)))]))
                call = ('call', name, acts)
                inner.append(('return', call if fn.ret != 'bool' else ('bin', '~=', call, ('num', 0))) if self.chance(0.85)
                             else ('return', ('bin', '+', call, ('num', 0))))
            else:
                inner.append(('return', self.ret_expr(e2, fn)))
            guard = r.choice([('bin', '<=', ('var', 'd'), ('num', 0)), ('bin', '<', ('var', 'd'), ('num', 1)),
                              ('not', ('bin', '>', ('var', 'd'), ('num', 0)))])
            body.append(('if', guard, base, ('seq', inner)))
            if 'd' in env.assign:
                env.assign.remove('d')
        else:
            for _ in range(r.randint(1, 3)):
                body.append(self.stmt(env, 2, fn))
        if kind == 'func':
            body.append(('return', self.ret_expr(env, fn)))
        p = {'kind': kind, 'name': name, 'formals': [(k, n) for k, n, _ in formals], 'locals': locs,
             'body': body[0] if len(body) == 1 and self.chance(0.5) else ('seq', body)}
        return fn, p

    # ------------------------------------------------------------ programs
    def program(self):
        r = self.r
        self.uses_input = False
        self.idx = True
        globals_ = []
        genv = Env()
        if self.named_sys:
            for n, nm in ((0, 'exit'), (1, 'put'), (2, 'get')):
                if self.chance(0.85):
                    self.sysname[n] = nm
                    globals_.append(('val', nm, ('num', n)))
        for i in range(r.choice([0, 1, 1, 2, 3])):
            v = self.const_value()
            if abs(v) >= (1 << 30):
                v = r.choice(BOUNDARY)
            nm = 'k%d' % i
            e = num(v)
            if self.chance(0.25):
                c = r.choice([1, 2, 65535])
                e = ('bin', '-', num(v + c), ('num', c)) if self.chance(0.5) else ('bin', '+', num(v - c), ('num', c))
            globals_.append(('val', nm, e))
            genv.vals[nm] = v
        gvars = ['g%d' % i for i in range(r.randint(1, 3))]
        for g in gvars:
            globals_.append(('var', g))
            genv.ints.append(g); genv.assign.append(g); genv.globs.add(g)
        if self.chance(0.3):
            globals_.append(('var', 'gb'))
            genv.ints.append('gb'); genv.bools.append('gb'); genv.assign.append('gb'); genv.globs.add('gb')
            gvars.append('gb')
        arrays = {}
        for i in range(r.choice([0, 1, 1, 2])):
            n = r.randint(3, 12)
            nm = 'a%d' % i
            arrays[nm] = n
            ks = [k for k, v in genv.vals.items() if v == n]
            le = ('var', ks[0]) if ks else r.choice([('num', n), ('num', n), ('bin', '+', ('num', n - 1), ('num', 1))])
            globals_.append(('array', nm, le))
            genv.arrays[nm] = (n, True, True)
            genv.globs.add(nm)
        r.shuffle(globals_)
        # vals used by array lengths must precede them: keep all vals first, in their order
        globals_ = [d for d in globals_ if d[0] == 'val'] + [d for d in globals_ if d[0] != 'val']
        # procedures
        procs = []
        nproc = r.choice([0, 1, 2, 2, 3, 3, 4, 5])
        special = []
        if self.chance(0.10):
            special = [r.choice(['lab0', 'lab1', 'lab2', 'lab3', 'lab5', 'lab8', 'start', 'start'])]
        for i in range(nproc):
            name = special.pop() if special else 'f%d' % i
            fn, p = self.proc(i, genv, arrays, name)
            genv.funcs.append(fn)
            procs.append(p)
        # a pair of procedures that are neighbours in the text: the first ENDS in straight-line code with a system call, the
        # second BEGINS (no label in between) with a system call that has the same constant in the same actual position;
        # main calls the second one late, when deeper activations have left their words in the stack
        pair = None
        if self.chance(0.18):
            k = r.choice([0, 0, 0, 0, 1, 255])
            c1 = r.choice([num(r.randint(33, 90)), ('bin', '+', ('var', 'c'), num(r.randint(0, 9))), ('var', 'c')])
            pre = [('assign', r.choice([g for g in gvars if g != 'gb']), ('bin', '+', ('var', 'c'), num(r.randint(0, 3))))] if self.chance(0.3) else []
            pe = {'kind': 'proc', 'name': 'e%d' % nproc, 'formals': [('val', 'c')], 'locals': [],
                  'body': ('seq', pre + [self.sys(1, [c1, ('num', k)])]) if pre or self.chance(0.5) else self.sys(1, [c1, ('num', k)])}
            qbody = [self.sys(1, [r.choice([num(r.randint(33, 90)), ('bin', '+', ('var', 'x'), ('num', 48)), ('var', 'x')]), ('num', k)])
                     for _ in range(r.randint(1, 3))]
            pq = {'kind': 'proc', 'name': 'q%d' % nproc, 'formals': [('val', 'x')] if self.chance(0.7) else [('val', 'x'), ('val', 'y')], 'locals': [],
                  'body': ('seq', qbody)}
            fe = Func(pe['name'], 'proc', [('val', 'c', None)], 'writes', None)
            fq = Func(pq['name'], 'proc', [(kk, nn, None) for kk, nn in pq['formals']], 'writes', None)
            genv.funcs += [fe, fq]
            pair = (pe, pq)
        # main
        env = genv.copy()
        locs = [('var', 'm0'), ('var', 'm1'), ('var', 'c'), ('var', 'c2')]
        for v in ('m0', 'm1'):
            env.ints.append(v); env.assign.append(v)
        env.counters = ['c', 'c2']
        init = [('assign', v, ('true',) if v == 'gb' else num(r.randint(0, 9))) for v in gvars + ['m0', 'm1']]
        for a, n in arrays.items():
            if self.chance(0.5):
                init += [('assignsub', a, ('num', j), num(r.randint(0, 9))) for j in range(n)]
            else:
                init += [('seq', [('assign', 'c', ('num', 0)),
                                  ('while', ('bin', '<', ('var', 'c'), ('num', n)),
                                   ('seq', [('assignsub', a, ('var', 'c'), ('bin', '+', ('var', 'c'), ('num', r.randint(0, 5)))),
                                            ('assign', 'c', ('bin', '+', ('var', 'c'), ('num', 1)))]))])]
        if self.chance(0.3):
            r.shuffle(init)
        body = init + [self.stmt(env, 3, None) for _ in range(r.randint(2, 6))]
        if pair is not None:
            body.insert(len(init) + r.randint(0, 1), ('call', pair[0]['name'], [num(r.randint(33, 90))]))
            body.append(('call', pair[1]['name'], [num(r.randint(0, 9)) for _ in pair[1]['formals']]))
        end = r.random()
        if end < 0.45:
            body.append(self.sys(0, [self.int_expr(env, 3, True, self.chance(0.3))]))
        elif end < 0.55:
            body.append(('stop',))
        elif end < 0.65:
            body.append(('return', self.int_expr(env, 2, True, False)))
        main = {'kind': 'proc', 'name': 'main', 'formals': [], 'locals': locs, 'body': ('seq', body)}
        if self.need_idx:
            # idx(x, n): x reduced into [0, n) by repeated subtraction (x is small)
            idx = {'kind': 'func', 'name': 'idx', 'formals': [('val', 'x'), ('val', 'n')], 'locals': [],
                   'body': ('seq', [('while', ('bin', '<', ('var', 'x'), ('num', 0)), ('assign', 'x', ('bin', '+', ('var', 'x'), ('var', 'n')))),
                                    ('while', ('bin', '>=', ('var', 'x'), ('var', 'n')), ('assign', 'x', ('bin', '-', ('var', 'x'), ('var', 'n')))),
                                    ('return', ('var', 'x'))])}
            procs.append(idx)
        pos = r.choice([0, len(procs), len(procs), r.randint(0, len(procs))])
        procs.insert(pos, main)
        if pair is not None:
            pos = r.randint(0, len(procs))
            procs[pos:pos] = list(pair)
        prog = {'globals': globals_, 'procs': procs, 'style': r.choice([0, 0, 1, 1, 2, 3])}
        prog = self.special_names(prog)
        minlen = min(arrays.values()) if arrays else 10
        digits = [48 + r.randrange(min(minlen, 10)) for _ in range(24)]
        inputs = [[], digits, [r.randrange(256) for _ in range(r.randint(1, 12))]]
        if not self.uses_input:
            inputs = inputs[:2]
        return prog, inputs


def _special_names(self, prog):
    """some identifiers renamed to names the compiler / assembler use themselves (NAME_POOL); in about one program in six
    a global variable or a global array is called `start`"""
    r = self.r
    dn = declared_names(prog)
    sysn = set(self.sysname.values())
    taken = set(x for v in dn.values() for x in v) | sysn
    m = {}

    def pick(cands, new=None):
        cands = [c for c in cands if c not in m and c not in sysn and c not in ('main',)]
        if not cands:
            return
        old = r.choice(cands)
        for _ in range(8):
            nn = new if new is not None else r.choice(NAME_POOL)
            new = None
            if nn not in taken:
                m[old] = nn
                taken.add(nn)
                return
    x = r.random()
    if x < 0.16:
        pick(dn['gvar'] + dn['garray'] * 2, 'start')
    if x < 0.45:
        for _ in range(r.choice([1, 1, 2, 3, 5])):
            cls = r.choice(['gvar', 'gvar', 'garray', 'garray', 'gval', 'proc', 'proc', 'formal', 'local', 'local'])
            pick(dn[cls])
    return rename_program(prog, m) if m else prog


Gen.special_names = _special_names


def generate(seed):
    rng = random.Random(seed)
    g = Gen(rng)
    return g.program()


# ---------------------------------------------------------------- directed shapes
def directed():
    """hand-written shapes for the case splits the random generator reaches only rarely; each is
    (name, X source text, [inputs]).  They are parsed by xparse and go through the same pipeline."""
    S = []
    hdr = 'val exit = 0; val put = 1; val get = 2;\n'
    S.append(('const-subtree-right', hdr + 'var a;\nproc main() is { a := 5; exit(a + (1 + 2)) }\n', [[]]))
    S.append(('const-subtree-right-rel', hdr + 'proc main() is exit((9 - 256) <= 0)\n', [[]]))
    S.append(('const-subtree-right-minus', hdr + 'var a;\nproc main() is { a := 100; exit(a - (70000 - 69990)) }\n', [[]]))
    S.append(('eq-in-call-actual', hdr + 'func f(val x) is return x + 1\nproc main() is exit(f(1) = 2)\n', [[]]))
    S.append(('eq-in-call-actual-2', hdr + 'var c;\nfunc f0(val a, val b) is return a + b\nproc main() is { c := 1; put(f0(1 = c, 1) + 64, 0) }\n', [[]]))
    S.append(('subscript-with-input', hdr + 'array a[10];\nproc main() is var i;\n{ i := 0; while i < 10 do { a[i] := i + i; i := i + 1 }; exit(a[get(0) - 48]) }\n', [[49], [52, 53], [57]]))
    S.append(('temporaries-vs-actuals', hdr + 'var g; var x;\nfunc add3(val a, val b, val c) is return b\nproc main() is { g := 1; x := 5; exit(add3(x, 7, (x - (g + 1)) - (g + 2))) }\n', [[]]))
    S.append(('temporary-before-call-actual', hdr + 'var g;\nfunc id(val a) is return a\nfunc pick(val a, val b) is return (a + a) + b\nproc main() is { g := 3; exit(pick((g - (g - 1)) - (g - 2), id(7))) }\n', [[]]))
    S.append(('empty-string', hdr + 'func len(array s) is return s[0]\nproc main() is exit(len("") + (len("abc") + len("")))\n', [[]]))
    S.append(('proc-named-lab0', hdr + 'var g;\nproc lab0() is g := g + 1\nproc main() is { g := 1; lab0(); exit(g) }\n', [[]]))
    S.append(('proc-named-start', hdr + 'func start(val a) is return a + 1\nproc main() is exit(start(4))\n', [[]]))
    S.append(('proc-named-lab2', hdr + 'var g;\nfunc lab2(val a) is if a < 1 then return 0 else return a + lab2(a - 1)\nproc main() is exit(lab2(4))\n', [[]]))
    S.append(('main-returns', 'proc main() is skip\n', [[]]))
    S.append(('main-returns-arrays', hdr + 'array a[4]; array b[3];\nproc main() is { a[0] := 1; a[1] := 2; a[2] := 3; a[3] := 4; b[0] := 5; b[1] := 6; b[2] := 7; put(b[1] + 48, 0) }\n', [[]]))
    S.append(('stop-in-main-no-frame', 'proc main() is stop\n', [[]]))
    S.append(('fib', hdr + 'func fib(val n) is if n < 2 then return n else return fib(n - 1) + fib(n - 2)\nproc main() is exit(fib(get(0) - 48))\n', [[48], [49], [55], [57]]))
    S.append(('deep-recursion', hdr + 'func sum(val n) is if n = 0 then return 0 else return n + sum(n - 1)\nproc main() is exit(sum(250))\n', [[]]))
    S.append(('twelve-formals', hdr + 'func f(val a, val b, val c, val d, val e, val f0, val g, val h, val i, val j, val k, val l) is return (a - b) + (c - d) + (e - f0) + (g - h) + (i - j) + (k - l)\n'
              'func one() is return 1\nproc main() is exit(f(20, one(), 30, 2, one() + one(), 3, 50, one(), 60, 5, 70, 6))\n', [[]]))
    S.append(('string-chars', hdr + 'proc p(array s) is { put(s[0], 0); put(s[1], 0) }\nfunc w(array s, val i) is return s[i]\nproc main() is { p("abcdefg"); exit(w("xy", 0) - w("xy", 0)) }\n', [[]]))
    S.append(('array-formal-write', hdr + 'array a[5];\nproc fill(array v, val n) is var i; { i := 0; while i < n do { v[i] := i + 65; i := i + 1 } }\nproc main() is { fill(a, 5); put(a[4], 0); put(a[0], 0) }\n', [[]]))
    S.append(('return-in-proc', hdr + 'var g;\nproc p(val x) is { if x < 3 then return 0 else skip; g := g + 10 }\nproc main() is { g := 0; p(1); p(5); exit(g) }\n', [[]]))
    S.append(('shadowing', hdr + 'var g; var h;\nfunc f(val g) is var h; { h := g + 1; return h + h }\nproc main() is { g := 1; h := 100; exit(f(20) + (g + h)) }\n', [[]]))
    S.append(('pool-constants', hdr + 'val big = 65536; val nbig = -65536; val edge = 65535; val nedge = -65535;\nvar v;\nproc main() is { v := big; v := v + nedge; v := (v + edge) - big; v := v + (nbig + big); exit(v + (big - edge)) }\n', [[]]))
    S.append(('hex-and-char', hdr + 'proc main() is { put(\'a\', 0); put(#41, 0); put(\'\\n\', 0); exit(#7fffffff - 2147483600) }\n', [[]]))
    S.append(('logic-values', hdr + 'var t; var f;\nfunc yes() is return true\nfunc no() is return false\nproc main() is { t := true; f := false; put(48 + ((t and f) or (~f)), 0); put(48 + (yes() and no()), 0); put(48 + (no() or yes()), 0); exit((t = f) + ((t ~= f) + (t or f))) }\n', [[]]))
    S.append(('relational-both-sides', hdr + 'var a; var b;\nfunc id(val x) is return x\nproc main() is { a := 3; b := 7; exit(((a < b) + (a <= b)) + ((a > b) + (a >= b)) + ((id(a) < id(b)) + (id(b) <= (a + a))) + ((b - a) > (a - b)) + ((0 < a) + (a < 0)) + ((0 = a) + (b = 0))) }\n', [[]]))
    S.append(('call-in-subscript', hdr + 'array a[6];\nfunc two() is return 2\nproc main() is var i; { i := 0; while i < 6 do { a[i] := i + 1; i := i + 1 }; a[two() + 1] := a[two()] + a[two() + two()]; exit(a[3] + a[two() - 2]) }\n', [[]]))
    S.append(('nested-calls', hdr + 'func inc(val x) is return x + 1\nfunc add(val x, val y) is return x + y\nproc main() is exit(add(inc(inc(1)), add(inc(2), add(3, inc(inc(inc(0)))))))\n', [[]]))
    S.append(('while-first-on-formal', 'val exit = 0;\nproc drain(val level) is\n  var spare;\n  while level ~= 200010 do level := level - 1\nproc main() is { drain(200013); exit(0) }\n', [[]]))
    S.append(('while-first-on-formal-func', 'val exit = 0;\nvar total;\nproc bump(val by) is total := total + by\nfunc climb(val level, val top) is\n{ while level ~= top do { bump(1); level := level + 100 };\n  return total\n}\nproc main() is { total := 0; exit(climb(200100, 200400)) }\n', [[]]))
    S.append(('while-first-on-formal-locals', hdr + 'var g;\nfunc f(val w, val k) is var a; var b; var c;\n{ while w > 199999 do { g := g + k; w := w - 2 }; a := g; b := a + 1; c := b - a; return a + c }\nproc main() is { g := 0; put(f(200007, 3) + 48, 0); exit(f(200003, 1)) }\n', [[]]))
    S.append(('if-first-on-formal', hdr + 'func f(val w) is var a;\n{ if w < 200000 then a := 1 else a := 2; return a + w }\nproc main() is exit(f(199999) + f(200001))\n', [[]]))
    S.append(('return-first-on-formal', hdr + 'func f(val w, val v) is var a; var b;\n{ if w = 200000 then return v + 1 else skip; a := w; b := v; return a - b }\nproc main() is exit(f(200000, 4) + f(7, 2))\n', [[]]))
    # identifiers that coincide with names the compiler / assembler use themselves
    S.append(('global-var-named-start', hdr + 'var start; var lab0; var sp;\nproc main() is { start := 5; lab0 := start + 1; sp := lab0 + start; put(start + 48, 0); exit(sp) }\n', [[]]))
    S.append(('global-array-named-start', hdr + 'array start[3]; array const0[2];\nproc set(array v, val i, val x) is v[i] := x\n'
              'proc main() is { set(start, 0, 4); set(start, 2, 6); const0[1] := start[0] + start[2]; put(const0[1] + 48, 0); exit(start[2]) }\n', [[]]))
    S.append(('globals-named-like-labels', hdr + 'val string0 = 70000; var exit_; var lab1; array lab2[2]; array DATA[2]; var BR;\n'
              'func LDAM(val OPR, val PROC) is var FUNC; { FUNC := OPR - PROC; return FUNC + (string0 - 69999) }\n'
              'proc main() is { exit_ := 1; lab1 := 2; lab2[0] := 3; lab2[1] := 4; DATA[0] := 5; DATA[1] := lab2[1] + DATA[0]; BR := LDAM(DATA[1], lab1); put(BR + 48, 0); exit(BR + (exit_ + lab2[0])) }\n', [[]]))
    # local vals before / between local vars; the var behind the val is a subscript across a temporary and across a call
    S.append(('local-val-before-var-index', hdr + 'array t[6]; array u[6];\nproc fill(val n, val x) is val lo = 1; var i; val step = 1; var j;\n'
              '{ i := lo; j := 0; while i < n do { t[i] := x + i; u[i] := t[i] + (x - (j + 1)); j := j + step; i := i + step } }\n'
              'proc main() is { t[0] := 0; u[0] := 0; fill(6, 2); put(t[5] + 48, 0); put(u[3] + 48, 0); exit(u[5] + t[1]) }\n', [[]]))
    S.append(('local-val-before-var-call', hdr + 'array v[5]; var n; var acc;\nproc bump() is n := n + 1\n'
              'func scan() is val top = 5; var i; { i := 0; acc := 0; while i < top do { bump(); acc := acc + v[i]; i := i + 1 }; return acc }\n'
              'proc main() is { n := 0; v[0] := 1; v[1] := 2; v[2] := 3; v[3] := 4; v[4] := 5; put(scan() + 48, 0); exit(n) }\n', [[]]))
    # a function returning a call of itself with two and three formals: permuted and dependent actuals
    S.append(('self-tail-call-accumulator', hdr + 'func tri(val n, val acc) is if n = 0 then return acc else return tri(n - 1, acc + n)\n'
              'func fibt(val n, val a, val b) is if n = 0 then return a else return fibt(n - 1, b, a + b)\n'
              'proc main() is { put(tri(4, 0) + 48, 0); put(fibt(6, 0, 1) + 48, 0); exit(tri(9, 1)) }\n', [[]]))
    S.append(('self-tail-call-swap', hdr + 'func gcd(val a, val b) is if a = b then return a else if a < b then return gcd(b, a) else return gcd(a - b, b)\n'
              'func rot(val n, val x, val y, val z) is if n < 1 then return (x - y) + (z + z) else return rot(n - 1, y, z, x)\n'
              'proc main() is { put(gcd(12, 18) + 48, 0); put(rot(4, 1, 2, 3) + 48, 0); exit(gcd(35, 14)) }\n', [[]]))
    # a long sequence of array-element assignments in a recursive procedure
    S.append(('sequence-of-array-assignments', hdr + 'array m[6];\nproc w(val n) is if n = 0 then skip else { m[0] := n; m[1] := n + 1; m[2] := m[0] + m[1]; m[3] := n - 1; m[4] := m[3] + 2; m[5] := n; w(n - 1) }\n'
              'proc main() is { w(40); put(m[2] + 48, 0); exit(m[4]) }\n', [[]]))
    # a call that occurs only inside an array subscript of a later actual
    S.append(('call-in-subscript-of-later-actual', hdr + 'array t[5];\nfunc nxt(val i) is return i + 1\nfunc sub(val a, val b) is return a - b\n'
              'proc show(val c, val v) is { put(c, 0); put(v + 48, 0) }\n'
              'proc main() is { t[0] := 1; t[1] := 2; t[2] := 3; t[3] := 4; t[4] := 5; show(65, t[nxt(2)]); show(t[nxt(0)] + 65, t[nxt(nxt(1))]); exit(sub(40, t[nxt(3)])) }\n', [[]]))
    # an element assignment directly followed by a read of ANOTHER array at the same constant subscript
    S.append(('two-arrays-same-constant-subscript', hdr + 'val two = 2; array lo[4]; array hi[4]; var t;\n'
              'proc main() is { hi[2] := 7; hi[1] := 3; lo[1] := 5; lo[2] := 9; t := hi[2]; put(t + 48, 0); hi[1] := 6; put(lo[1] + 48, 0); lo[two] := 1; t := hi[two] + t; exit(t) }\n', [[]]))
    # calls of parameterless functions only: the outgoing area is the link word (and the result word)
    S.append(('only-parameterless-function-calls', hdr + 'array a[4]; var i;\nfunc big() is return 70001 - 70000\nfunc pick() is return big() + big()\nfunc wrap() is return pick()\n'
              'proc store() is { i := 2; a[i] := wrap(); a[i + 1] := pick() }\n'
              'proc main() is { a[2] := 0; a[3] := 0; store(); put(a[2] + 48, 0); exit(a[3] + wrap()) }\n', [[]]))
    S.append(('exit-in-function', hdr + 'func f(val x) is { if x > 2 then exit(x + 40) else skip; return x }\nproc main() is { put(f(1) + 48, 0); put(f(7) + 48, 0) }\n', [[]]))
    return S


# ---------------------------------------------------------------- shrinker
def _expr_children(e):
    t = e[0]
    if t in ('neg', 'not'):
        return [e[1]]
    if t == 'bin':
        return [e[2], e[3]]
    if t == 'sub':
        return [e[2]]
    if t in ('call', 'sys'):
        return list(e[2])
    return []


def _expr_variants(e):
    """smaller expressions to try in place of e"""
    t = e[0]
    out = []
    if t == 'num':
        for v in (0, 1, e[1] // 2):
            if v != e[1]:
                out.append(('num', v))
        return out
    if t in ('true', 'false'):
        return []
    out += [('num', 0), ('num', 1)]
    for c in _expr_children(e):
        if c[0] != 'str':
            out.append(c)
    if t == 'str' and e[1]:
        out.append(('str', e[1][:len(e[1]) // 2]))
    if t == 'bin':
        for i in (2, 3):
            for v in _expr_variants(e[i]):
                out.append(e[:i] + (v,) + e[i + 1:])
    elif t in ('neg', 'not'):
        for v in _expr_variants(e[1]):
            out.append((t, v))
    elif t == 'sub':
        for v in _expr_variants(e[2]):
            out.append(('sub', e[1], v))
    elif t in ('call', 'sys'):
        for i, a in enumerate(e[2]):
            for v in _expr_variants(a):
                out.append((t, e[1], e[2][:i] + [v] + e[2][i + 1:]))
    return out


def _stmt_variants(s):
    t = s[0]
    out = []
    if t != 'skip':
        out.append(('skip',))
    if t == 'seq':
        ss = s[1]
        if len(ss) == 1:
            out.append(ss[0])
        n = len(ss)
        # drop halves first, then single statements
        if n > 3:
            out.append(('seq', ss[n // 2:]))
            out.append(('seq', ss[:n // 2]))
        for i in range(n):
            if n > 1:
                out.append(('seq', ss[:i] + ss[i + 1:]))
        for i in range(n):
            for v in _stmt_variants(ss[i]):
                if v != ('skip',) or n == 1:
                    out.append(('seq', ss[:i] + [v] + ss[i + 1:]))
    elif t == 'if':
        out += [s[2], s[3]]
        for v in _expr_variants(s[1]):
            out.append(('if', v, s[2], s[3]))
        for v in _stmt_variants(s[2]):
            out.append(('if', s[1], v, s[3]))
        for v in _stmt_variants(s[3]):
            out.append(('if', s[1], s[2], v))
    elif t == 'while':
        out.append(s[2])
        for v in _stmt_variants(s[2]):
            out.append(('while', s[1], v))
    elif t == 'return':
        for v in _expr_variants(s[1]):
            out.append(('return', v))
    elif t == 'assign':
        for v in _expr_variants(s[2]):
            out.append(('assign', s[1], v))
    elif t == 'assignsub':
        for v in _expr_variants(s[2]):
            out.append(('assignsub', s[1], v, s[3]))
        for v in _expr_variants(s[3]):
            out.append(('assignsub', s[1], s[2], v))
    elif t in ('call', 'sys'):
        for i, a in enumerate(s[2]):
            for v in _expr_variants(a):
                out.append((t, s[1], s[2][:i] + [v] + s[2][i + 1:]))
    return out


def _map_calls_expr(e, f):
    t = e[0]
    if t in ('neg', 'not'):
        return (t, _map_calls_expr(e[1], f))
    if t == 'bin':
        return ('bin', e[1], _map_calls_expr(e[2], f), _map_calls_expr(e[3], f))
    if t == 'sub':
        return ('sub', e[1], _map_calls_expr(e[2], f))
    if t == 'sys':
        return ('sys', e[1], [_map_calls_expr(a, f) for a in e[2]])
    if t == 'call':
        return f(('call', e[1], [_map_calls_expr(a, f) for a in e[2]]))
    return e


def _map_calls_stmt(s, f):
    t = s[0]
    if t == 'seq':
        return ('seq', [_map_calls_stmt(x, f) for x in s[1]])
    if t == 'if':
        return ('if', _map_calls_expr(s[1], f), _map_calls_stmt(s[2], f), _map_calls_stmt(s[3], f))
    if t == 'while':
        return ('while', _map_calls_expr(s[1], f), _map_calls_stmt(s[2], f))
    if t == 'return':
        return ('return', _map_calls_expr(s[1], f))
    if t == 'assign':
        return ('assign', s[1], _map_calls_expr(s[2], f))
    if t == 'assignsub':
        return ('assignsub', s[1], _map_calls_expr(s[2], f), _map_calls_expr(s[3], f))
    if t == 'sys':
        return ('sys', s[1], [_map_calls_expr(a, f) for a in s[2]])
    if t == 'call':
        return f(('call', s[1], [_map_calls_expr(a, f) for a in s[2]]))
    return s


def program_variants(p):
    """smaller programs to try, most drastic first"""
    procs = p['procs']
    base = {k: v for k, v in p.items() if k not in ('procs', 'globals')}

    def mk(globals_=None, procs_=None):
        q = dict(base)
        q['globals'] = p['globals'] if globals_ is None else globals_
        q['procs'] = procs if procs_ is None else procs_
        return q
    for i, q in enumerate(procs):
        if q['name'] != 'main':
            yield mk(procs_=procs[:i] + procs[i + 1:])
    for i, q in enumerate(procs):
        if q['body'] != ('skip',):
            triv = ('return', ('num', 0)) if q['kind'] == 'func' else ('skip',)
            if q['body'] != triv:
                yield mk(procs_=procs[:i] + [dict(q, body=triv)] + procs[i + 1:])
    for i, q in enumerate(procs):
        for v in _stmt_variants(q['body']):
            yield mk(procs_=procs[:i] + [dict(q, body=v)] + procs[i + 1:])
    for i, q in enumerate(procs):
        for j in range(len(q['locals'])):
            yield mk(procs_=procs[:i] + [dict(q, locals=q['locals'][:j] + q['locals'][j + 1:])] + procs[i + 1:])
    for i, q in enumerate(procs):
        for j in range(len(q['formals'])):
            name = q['name']

            def drop(c, name=name, j=j):
                if c[1] == name and len(c[2]) > j:
                    return ('call', c[1], c[2][:j] + c[2][j + 1:])
                return c
            np_ = []
            for k, o in enumerate(procs):
                o2 = dict(o, body=_map_calls_stmt(o['body'], drop))
                if k == i:
                    o2['formals'] = q['formals'][:j] + q['formals'][j + 1:]
                np_.append(o2)
            yield mk(procs_=np_)
    g = p['globals']
    for i in range(len(g)):
        yield mk(globals_=g[:i] + g[i + 1:])
    for i, d in enumerate(g):
        if d[0] in ('val', 'array'):
            for v in _expr_variants(d[2]):
                yield mk(globals_=g[:i] + [(d[0], d[1], v)] + g[i + 1:])
    if p.get('style'):
        q = mk()
        q['style'] = 0
        yield q


def shrink(p, fails, budget=1500):
    """greedy descent to a local minimum: walk the list of smaller variants, keep every one on which
    `fails` still holds and continue from the same position in the variant list of the new program"""
    used = 0
    changed = True
    while changed and used < budget:
        changed = False
        idx = 0
        while used < budget:
            variants = list(program_variants(p))
            if idx >= len(variants):
                break
            q = variants[idx]
            used += 1
            try:
                ok = fails(q)
            except Exception:
                ok = False
            if ok:
                p = q
                changed = True
            else:
                idx += 1
    return p, used
