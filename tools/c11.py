#!/usr/bin/env python3
"""C11 -- compilation and assembly are deterministic functions of the source.
proof:  Properties_C11.v: the assembler model is a Gallina function of the source bytes, total, and its outcome type has
        no indeterminate constructor (C11_asm_function, C11_asm_no_indeterminate; corollary of assemble_total); the same
        for the model of xcmp's lexer+parser (..._partial: the compiler passes after the parser are not modelled).
tie:    for hexasm, the real tool's binary and --instrs listing must equal the extracted model's single output.
oracle: byte identity of everything the real tools emit for one source (binary, -S / --instrs listing, diagnostic, exit
        status) across MALLOC_PERTURB_ in {0,85,170,255} x environment size {empty, 64 KB} x ASLR on/off (setarch -R), and
        across repeated, reordered compilations in ONE process with heap, stack and the tool objects' storage dirtied with
        0xA5/0x5A/0xFF/random bytes between runs (harness/xcmp_harness.cpp det, harness/asm_det_harness.cpp).
        Independence from heap contents / address-space layout is CORRESPONDENCE ONLY: no theorem can exhibit a heap."""
import os, sys, glob, json, subprocess, hashlib
from concurrent.futures import ThreadPoolExecutor
sys.path.insert(0, os.path.dirname(os.path.abspath(__file__)))
import vlib, xfrontcommon as X, asmcommon as A
from vlib import Check, run3

QUICK = {'xgen': 260, 'odd': 400, 'asm': 160, 'rounds': 6, 'configs': 12}
THOROUGH = {'xgen': 2500, 'odd': 9000, 'asm': 4000, 'rounds': 9, 'configs': 16}
SETARCH = '/usr/bin/setarch'


def fnv(b):
    h = 1469598103934665603
    for c in b:
        h = ((h ^ c) * 1099511628211) & 0xffffffffffffffff
    return '%016x' % h


def configs(n, have_setarch):
    out = []
    for perturb in (0, 85, 170, 255):
        for big in (False, True):
            for noaslr in ((False, True) if have_setarch else (False,)):
                out.append((perturb, big, noaslr))
    # quick: 12 of the 16, always containing every value of every dimension
    if n < len(out):
        drop = {(85, True, True), (170, False, True), (85, False, False), (170, True, False)}
        out = [c for c in out if c not in drop][:n]
    return out


def run_cfg(cmd, cwd, cfg, timeout=120):
    perturb, big, noaslr = cfg
    env = {'MALLOC_PERTURB_': str(perturb), 'PATH': '/usr/bin:/bin'}
    if big:
        env['HEXVERIF_PAD'] = 'x' * 65536
    if noaslr:
        cmd = [SETARCH, 'x86_64', '-R'] + cmd
    try:
        p = subprocess.run(cmd, cwd=cwd, env=env, timeout=timeout, stdin=subprocess.DEVNULL, stdout=subprocess.PIPE, stderr=subprocess.PIPE)
        return p.returncode, p.stdout, p.stderr
    except subprocess.TimeoutExpired:
        return 124, b'', b''


def exe_matrix(tool, listing_flag, sources, ext, workdir, cfgs, nproc=16):
    """every source x every configuration: (rc, binary bytes, stderr) of `tool in -o out.bin` and (rc, stdout, stderr) of `tool in <listing_flag>`.
    returns per source: dict(cfg -> (digest tuple)), plus the raw outputs of the first configuration"""
    def one(k):
        d = os.path.join(workdir, 'm%d' % k)
        os.makedirs(d, exist_ok=True)
        inp = 'in' + ext
        with open(os.path.join(d, inp), 'wb') as f:
            f.write(sources[k])
        res = {}
        first = None
        for cfg in cfgs:
            op = os.path.join(d, 'out.bin')
            if os.path.exists(op):
                os.remove(op)
            rc1, o1, e1 = run_cfg([tool, inp, '-o', 'out.bin'], d, cfg)
            b = open(op, 'rb').read() if os.path.exists(op) else None
            rc2, o2, e2 = run_cfg([tool, inp, listing_flag], d, cfg)
            res[cfg] = (rc1, hashlib.sha256(b).hexdigest() if b is not None else 'nofile', hashlib.sha256(o1 + b'|' + e1).hexdigest(),
                        rc2, hashlib.sha256(o2).hexdigest(), hashlib.sha256(e2).hexdigest())
            if first is None:
                first = {'rc': rc1, 'bin': b, 'err': e1.decode('latin1'), 'listing': o2, 'rc2': rc2}
        for fn in os.listdir(d):
            os.remove(os.path.join(d, fn))
        os.rmdir(d)
        return res, first
    with ThreadPoolExecutor(max_workers=nproc) as ex:
        return list(ex.map(one, range(len(sources))))


def run_det(harness, sources, workdir, rounds, seed, nshards=16, timeout=1800, perturb=None):
    """in-process repeated/reordered/dirty-heap mode; returns per source the list of H tuples (one per round), or None on failure"""
    n = len(sources)
    nsh = max(1, min(nshards, (n + 19) // 20))
    idx = [list(range(k, n, nsh)) for k in range(nsh)]

    def run_once(d, srcs, sd, tmo=None):
        os.makedirs(d, exist_ok=True)
        cf = os.path.join(d, 'cases.bin')
        X.write_casefile(cf, srcs)
        env = {'MALLOC_PERTURB_': str(perturb)} if perturb is not None else None
        rc, out, err = run3([harness, 'det', cf, str(rounds), str(sd)], cwd=d, timeout=tmo or timeout, env=env)
        per = {}
        for l in out.decode('latin1').split('\n'):
            t = l.split()
            if len(t) >= 6 and t[0] == 'H':
                per.setdefault(int(t[2]), []).append(tuple(t[3:]))
        return rc, per, err.decode('latin1')[-600:]

    def one(k):
        d = os.path.join(workdir, 'det%d' % k)
        rc, per, err = run_once(d, [sources[i] for i in idx[k]], seed + k)
        crashed = []
        if rc != 0:
            # a crash/hang of the tool itself is C09's / C10's business: isolate the source, count it, go on with the others
            per = {}
            for j, i in enumerate(idx[k]):
                rc1, per1, err1 = run_once(os.path.join(d, 'solo'), [sources[i]], seed + k, 300)
                if rc1 != 0:
                    crashed.append(i)
                else:
                    per[j] = per1.get(0)
        return per, crashed
    res = [None] * n
    crashed_all = []
    with ThreadPoolExecutor(max_workers=nsh) as ex:
        for ix, (per, crashed) in zip(idx, ex.map(one, range(nsh))):
            crashed_all += crashed
            for j, i in enumerate(ix):
                res[i] = per.get(j)
    return res, crashed_all


def x_sources(ck, P):
    rng = ck.rng
    out = []
    for f in sorted(glob.glob(os.path.join(vlib.ROOT, 'corpus', 'C11', '*.x'))):
        out.append({'src': open(f, 'rb').read(), 'tag': 'corpus', 'name': os.path.basename(f)})
    for n, s in X.shipped_x():
        out.append({'src': s, 'tag': 'shipped', 'name': n})
    for t, s in X.directed_odd():
        out.append({'src': s, 'tag': 'directed', 'name': t})
    for n, s in X.generated_programs(rng, P['xgen']):
        out.append({'src': s, 'tag': 'xgen', 'name': n})
    for _ in range(P['odd']):
        out.append({'src': X.Odd(rng).program().encode('latin1'), 'tag': 'odd', 'name': ''})
    return out


def asm_sources(ck, P):
    rng = ck.rng
    out = []
    for f in sorted(glob.glob(os.path.join(vlib.ROOT, 'corpus', 'C11', '*.S'))):
        out.append({'src': open(f, 'rb').read(), 'tag': 'corpus', 'name': os.path.basename(f)})
    for f in sorted(glob.glob(os.path.join(vlib.REPO, 'tests', 'asm', '*.S'))):
        out.append({'src': open(f, 'rb').read(), 'tag': 'shipped', 'name': os.path.basename(f)})
    for k in range(P['asm']):
        items = A.gen_layout_program(rng, big=(k % 50 == 0)) if k % 2 == 0 else A.gen_boundary_pair(rng, big=(k % 40 == 1))
        out.append({'src': A.to_source(items), 'tag': 'generated', 'name': ''})
    import c10
    for k in range(max(20, P['asm'] // 4)):
        out.append({'src': c10.odd_program(rng), 'tag': 'odd', 'name': ''})
    return out


def main():
    ck = Check('C11', level='exploration')   # function/no-indeterminate theorems cover the models; host-state independence is explored
    P = THOROUGH if ck.thorough() else QUICK
    ck.cov['trusted_base'] = ['Coq 8.16.1 kernel + VM', 'AsmModel.v/AsmLayout.v hand model of hexasm.hpp (tied by correspondence: here and in C05/C10/C17)',
                              'XFront.v hand model of xcmp.hpp Lexer/Parser (tied in C09)', 'extraction + ocaml/asmdrv.ml',
                              'glibc MALLOC_PERTURB_, setarch -R, harness/xcmp_harness.cpp (det mode, no sanitizer), harness/asm_det_harness.cpp, g++ 12 -O1']
    ck.assumptions = ['TRUSTED, NOT PROVED: the real lexer calls std::isspace/isalpha/isdigit/isalnum on a plain (signed) char (xcmp.hpp ~269, 322, 342, 346), undefined in ISO C for '
                      'bytes 0x80..0xFE; XFront.v models them with glibc\'s behaviour (C-locale tables indexed from -128).  XFront.v never produces its UB verdict (unreachable by '
                      'construction), so C11_front_no_indeterminate_partial is a totality/fuel theorem (no OutOfFuel), not evidence about undefined behaviour of the real lexer',
                      'independence from heap contents, environment size, ASLR and earlier work in the same process is CORRESPONDENCE ONLY (a theorem cannot exhibit a heap); '
                      'the theorems say: the models are functions of the source, total, and have no indeterminate outcome',
                      'for xcmp only lexer+parser are modelled; code generation determinism rests on the perturbation runs',
                      'sources the tools reject are compared too (diagnostic and exit status must not vary), but only accepted ones count as non-trivial']
    ok = ck.proofs()
    ck.log('proofs', 'ok' if ok else 'BROKEN')
    d = vlib.scratch()
    xcmp, log1 = vlib.repo_tool('xcmp')
    hexasm, log2 = vlib.repo_tool('hexasm')
    xh, log3 = X.build_harness(False)
    ah, log4 = vlib.cxx_build('asm_det_harness', [os.path.join(vlib.ROOT, 'harness', 'asm_det_harness.cpp')], '-O1 -g')
    hv, log5 = vlib.ocaml_build()
    for nm, v, lg in (('xcmp', xcmp, log1), ('hexasm', hexasm, log2), ('xcmp_harness (plain)', xh, log3), ('asm_det_harness', ah, log4), ('hvmain', hv, log5)):
        if v is None:
            ck.broken.append('%s does not build against the working tree: %s' % (nm, lg[-500:]))
    if ck.broken:
        ck.finish()
    have_setarch = subprocess.run([SETARCH, 'x86_64', '-R', '/bin/true'], stdout=subprocess.DEVNULL, stderr=subprocess.DEVNULL).returncode == 0 if os.path.exists(SETARCH) else False
    cfgs = configs(P['configs'], have_setarch)
    ck.cov['configurations'] = ['MALLOC_PERTURB_=%d env=%s aslr=%s' % (p, '64KB' if b else 'empty', 'off' if n else 'on') for p, b, n in cfgs]
    ck.cov['setarch_available'] = have_setarch

    if ck.replay_arg:
        r = json.load(open(ck.replay_arg))
        src = bytes.fromhex(r['source_hex'])
        xs = [{'src': src, 'tag': 'replay', 'name': 'replay'}] if r.get('tool', 'xcmp') == 'xcmp' else []
        ss = [{'src': src, 'tag': 'replay', 'name': 'replay'}] if r.get('tool') == 'hexasm' else []
    else:
        xs = x_sources(ck, P)
        ss = asm_sources(ck, P)

    groups = {}

    def fail(tool, where, c, detail):
        has_val = b'val' in c['src'] if tool == 'xcmp' else False
        g = groups.setdefault((tool, has_val), {'count': 0, 'c': c, 'detail': detail, 'where': {}, 'seen': set()})
        g['where'][where] = g['where'].get(where, 0) + 1
        if id(c) not in g['seen']:
            g['seen'].add(id(c))
            g['count'] += 1
        if len(c['src']) < len(g['c']['src']):
            g['c'], g['detail'] = c, detail

    stats = {}
    for tool, exe, flag, ext, srcs, har in (('xcmp', xcmp, '-S', '.x', xs, xh), ('hexasm', hexasm, '--instrs', '.S', ss, ah)):
        if not srcs:
            continue
        wd = os.path.join(d, tool)
        os.makedirs(wd)
        raw = [c['src'] for c in srcs]
        mat = exe_matrix(exe, flag, raw, ext, wd, cfgs)
        det, fails = run_det(har, raw, wd, P['rounds'], ck.seed)
        det2, fails2 = run_det(har, raw, os.path.join(wd, 'p'), 2, ck.seed + 99, perturb=165)
        crashed = sorted(set(fails) | set(fails2))
        st = {'sources': len(srcs), 'accepted': 0, 'rejected': 0, 'exe_runs': 0, 'in_process_runs': 0, 'exe_mismatch': 0, 'in_process_mismatch': 0,
              'harness_vs_exe_mismatch': 0, 'model_compared': 0, 'model_mismatch': 0,
              'in_process_crashed_not_judged': len(crashed)}
        model = None
        if tool == 'hexasm':
            model, mrc, merr = A.run_model(hv, raw, wd)
            if mrc != 0:
                ck.broken.append('extracted assembler model failed rc=%d %s' % (mrc, merr))
        for k, c in enumerate(srcs):
            res, first = mat[k]
            ck.cov['evaluations'] += 2 * len(cfgs)
            st['exe_runs'] += 2 * len(cfgs)
            acc = first['rc'] == 0 and first['bin'] is not None
            st['accepted' if acc else 'rejected'] += 1
            c['acc'] = acc
            ref = res[cfgs[0]]
            bad = [cfg for cfg in cfgs if res[cfg] != ref]
            if any(r[0] not in (0, 1) or r[3] not in (0, 1) for r in res.values()):
                # crashes / hangs are C09's and C10's business; they are counted here, not judged
                st['crashed_not_judged'] = st.get('crashed_not_judged', 0) + 1
            if bad:
                st['exe_mismatch'] += 1
                fields = ['exit status', 'binary', 'diagnostic', 'listing exit status', 'listing', 'listing diagnostic']
                which = sorted({fields[i] for cfg in bad for i in range(6) if res[cfg][i] != ref[i]})
                dims = []
                if any(cfg[0] != cfgs[0][0] for cfg in bad):
                    dims.append('MALLOC_PERTURB_')
                fail(tool, 'executable: %s differs between environments' % '+'.join(which), c,
                     'reference %s=%s; differing: %s' % (cfgs[0], ref, [(cfg, res[cfg]) for cfg in bad[:3]]))
            # in-process: all rounds identical
            for dd, label in ((det, 'dirty heap/reordered'), (det2, 'MALLOC_PERTURB_=165 in-process')):
                h = dd[k]
                if h is None:
                    if k not in crashed:
                        st['in_process_missing'] = st.get('in_process_missing', 0) + 1
                    continue
                ck.cov['evaluations'] += len(h)
                st['in_process_runs'] += len(h)
                if len(set(h)) != 1:
                    st['in_process_mismatch'] += 1
                    fail(tool, 'in one process: output differs between repeated compilations (%s)' % label, c, 'rounds: %s' % h[:6])
            # harness vs executable (same working tree, same source): binary hash must agree
            h = det[k]
            if h is not None and len(set(h)) == 1 and not bad:
                hb = h[0][1].split('=')[1]
                eb = fnv(first['bin']) if first['bin'] is not None else 'nofile'
                if hb != eb:
                    st['harness_vs_exe_mismatch'] += 1
                    fail(tool, 'binary of the in-process run differs from the executable\'s', c, 'harness %s executable %s' % (hb, eb))
            # hexasm: identical to the model's single output
            if model is not None and model[k] is not None and first['rc'] in (0, 1):
                m = model[k]
                if m and not (m[0].startswith('UB') or m[0].startswith('OUTOFFUEL')):
                    st['model_compared'] += 1
                    mfile = A.parse_file_line(m) if m[0] == 'ACCEPT' else None
                    mlist = ''.join(l[2:] + '\n' for l in m if l.startswith('L ')).encode('latin1') if m[0] == 'ACCEPT' else None
                    okm = (mfile == first['bin']) and (m[0] == 'ACCEPT') == acc
                    if acc and mlist is not None and mlist != first['listing']:
                        okm = False
                    if not okm:
                        st['model_mismatch'] += 1
                        c['model_diff'] = True
        stats[tool] = st
        if st.get('in_process_missing'):
            ck.broken.append('%s determinism harness gave no result for %d sources that did not crash' % (tool, st['in_process_missing']))
        ck.log('%s: %s' % (tool, st))
        if tool == 'hexasm' and st['model_mismatch']:
            ex = next(c for c in srcs if c.get('model_diff'))
            ck.broken.append('hexasm output differs from the extracted model on %d of %d sources, e.g. (hex) %s' % (st['model_mismatch'], st['model_compared'], ex['src'][:200].hex()))

    for (tool, has_val), g in sorted(groups.items(), key=str):
        c = g['c']
        where = '; '.join('%s [%d]' % kv for kv in sorted(g['where'].items()))
        what = '%s is not a function of the source (%d source(s), e.g. %r): %s' % (tool, g['count'], c['src'][:120].decode('latin1'), where)
        ck.violation(what, {'tool': tool, 'source_hex': c['src'].hex(), 'source': c['src'].decode('latin1')[:3000], 'where': where, 'detail': g['detail'][:2000],
                            'sources_hit': g['count'], 'replay_cmd': './check C11 --replay <this file>'},
                     tags={'kind': 'nondeterministic', 'tool': tool, 'has_val': has_val})

    allc = xs + ss
    ck.cov['distinct_nontrivial'] = len({hash(c['src']) for c in allc if c.get('acc')})
    ck.cov['rule'] = ('sources: shipped tests/x and tests/asm, xgen programs, directed programs reading unset members (val of a variable, forward val, val as system-call id), '
                      'grammar-valid odd programs, generated assembly layouts; each x %d environment configurations x {binary, listing} + %d(+2) in-process rounds; '
                      'non-trivial = accepted by the tool (an artefact is emitted); distinct by content' % (len(cfgs), P['rounds']))
    ck.cov['per_tool'] = stats
    ck.cov['input_distribution'] = {}
    for c in allc:
        key = c['tag'] + '/' + ('accept' if c.get('acc') else 'reject')
        ck.cov['input_distribution'][key] = ck.cov['input_distribution'].get(key, 0) + 1
    ck.cov['heap_aslr_independence'] = 'correspondence only (perturbation runs); not a theorem'
    for c in allc[:3] + allc[-3:]:
        ck.sample({'tag': c['tag'], 'name': c['name'], 'source': c['src'][:100].decode('latin1'), 'accepted': c.get('acc')})
    if ck.violations:
        for b in ck.broken:       # a broken proof/tie is never masked by violations found elsewhere
            ck.violation(b, {'broken': b}, no_input=True)
    ck.finish()


if __name__ == '__main__':
    main()
