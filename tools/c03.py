#!/usr/bin/env python3
"""C03 -- the Verilog processor (processor.sv + memory.sv wired as in hex.sv) is cycle-for-cycle equivalent to the ISA; so are
        the two shipped plain-Verilog copies of the processor, verilog/processor.v and synth/processor.v.
proof : Properties_C03.v -- the design regenerated from the working tree (gen/RtlHex.v) IS the hand-written reference
        datapath RefRtl (reflection, vm_compute over 256 bytes), and RefRtl refines Isa.step under Inv /\\ in_range, per clock
        and for whole runs from reset with the testbench's system-call shim as environment.  Theorems 6-9 (RtlCopies.v):
        C16's equivalence of the copies with processor.sv (gen/RtlV.v, gen/RtlVSynth.v, gen/RtlSv.v) composed with the
        reference datapath at the ports of the processor: same request, same next registers, same reset, and -- wired to
        the memory as hex.sv does -- the same clock-by-clock refinement of the ISA.
tie   : translator validation -- extracted RtlSem.cycle/outs/wire of the generated design vs the Verilated `hex` top,
        in lock-step on planted states.
oracle: Verilated `hex` (built from the working tree, --public-flat-rw) vs extracted Isa.step after every clock: pc, areg,
        breg, oreg, written word, o_syscall_valid/o_syscall -- on planted states (all 256 bytes x corner grid, judged only
        inside Inv /\\ in_range; the rest is run and reported) and on whole runs of toolchain binaries with hextb's
        system-call shim re-implemented in the harness; warm resets from planted states; and the Verilated copies
        (verilog/processor.v, synth/processor.v, top processor) fed at their ports with the fetched byte and the read data
        of the same judged planted states, against the same Isa.step successors."""
import glob, json, os, re, shutil, sys
sys.path.insert(0, os.path.dirname(os.path.abspath(__file__)))
import vlib, gen_rtl, tbcommon
from vlib import Check, sh, run3

W32 = 1 << 32
MEMW = 200000
RTLW = 1 << 19
CORNERS = [0, 1, 2, 3, 4, 15, 16, 17, 255, 256, 0x7fffffff, 0x80000000, 0xffffffff, 0xfffffff0, 0xffffff00, MEMW - 1, MEMW - 2,
           0x7ffff, 0x80000, 0x1fffff, 0x200000, 799999, 800000]


def gen_case(rng, byte, wild):
    """a planted state whose fetched byte is `byte`.  wild=False: inside Inv (oreg low nibble clear) and mostly inside the
    address range; wild=True: deliberately outside (reported, never judged)"""
    def val():
        r = rng.random()
        if r < 0.35:
            return rng.choice(CORNERS)
        if r < 0.6:
            return rng.randrange(0, 64)
        if r < 0.8:
            return rng.randrange(0, MEMW)
        return rng.randrange(0, W32)
    opc, nib = byte >> 4, byte & 15
    if wild and rng.random() < 0.4:
        pc = rng.choice([800000, 800003, (1 << 21) - 1, (1 << 21) - 2, rng.randrange(800000, 1 << 21)])
    else:
        pc = rng.choice([0, 1, 2, 3, 4, 5, 6, 7, 4 * (MEMW - 1), 4 * (MEMW - 1) + 2, 799998, 4 * rng.randrange(0, MEMW) + rng.randrange(4)])
    r = rng.random()
    if r < 0.4:
        oreg = 0
    elif r < 0.85 or not wild:
        oreg = (rng.choice([1, 2, 15, 16, 255, 0x3fff, 0x4000, 0x7fff, 0x8000, 0xffff, 0x10000, 0xffffff0, 0xfffffff, rng.randrange(0, 1 << 28)]) << 4) & 0xffffffff
    else:
        oreg = val()
    if wild and rng.random() < 0.5:
        oreg |= rng.randrange(1, 16)                 # breaks Inv: a low nibble left in oreg
    if opc == 13 and rng.random() < (0.5 if wild else 0.9):
        oreg = 0
    a, b = val(), val()
    o = oreg | nib
    if not wild or rng.random() < 0.5:
        # steer word addresses inside the ISA's memory and byte addresses below 800000
        if opc in (0, 1, 2) and o >= MEMW:
            oreg = (rng.randrange(0, MEMW) & ~15)
            o = oreg | nib
        if opc == 6 and (a + o) % W32 >= MEMW:
            a = (rng.randrange(0, MEMW) - o) % W32
        if opc in (7, 8) and (b + o) % W32 >= MEMW:
            b = (rng.randrange(0, MEMW) - o) % W32
        if opc in (9, 10, 11, 5) and (pc + 1 + o) % W32 >= 800000:
            oreg = ((rng.randrange(0, 800000) - pc - 1) % W32) & ~15
            o = oreg | nib
        if opc == 13 and o == 0 and b >= 800000:
            b = rng.randrange(0, 800000)
    if wild and rng.random() < 0.5 and (pc >> 2) < MEMW:
        # byte addresses at and beyond the edge of the range (and beyond 21 bits, where the RTL truncates)
        far = rng.choice([800000, 800001, (1 << 21) - 1, 1 << 21, (1 << 21) + 5, 1 << 31, rng.randrange(800000, 1 << 22), rng.randrange(800000, W32)])
        if opc in (9, 10, 11, 5):
            oreg = ((far - pc - 1) % W32) & ~15
            o = oreg | nib
            if opc == 10:
                a = 0
            if opc == 11:
                a |= 0x80000000
        elif byte == 0xD0:
            oreg, o, b = 0, 0, far
        else:
            pc = rng.choice([799999, 4 * (MEMW - 1) + 3])
    cells = {}
    word = rng.randrange(0, W32)
    sh_ = 8 * (pc & 3)
    cells[pc >> 2] = (word & ~(0xff << sh_)) | (byte << sh_)
    if opc == 13 and o == 3:
        a = rng.choice([0, 1, 2, 0, 1, 2, 3, 4, 0xffffffff, 0x80000001]) if (wild or rng.random() < 0.1) else rng.choice([0, 1, 2])
        sp = rng.choice([10, 100, MEMW - 4, MEMW - 5, rng.randrange(2, MEMW - 4)])
        if (pc >> 2) != 1:
            cells[1] = sp
    # memory content at the effective address (never equal to areg, so that a store is visible as a change)
    for ad in (o % W32, (a + o) % W32, (b + o) % W32, rng.randrange(0, MEMW)):
        if ad < RTLW and ad not in cells and rng.random() < 0.8:
            v = val()
            cells[ad] = v if v != a else (v ^ 1)
    return (pc, a, b, oreg, sorted(cells.items()))


def case_line(c):
    pc, a, b, o, cells = c
    t = [pc, a, b, o, len(cells)]
    for ad, v in cells:
        t += [ad, v]
    return ' '.join(str(x) for x in t)


def parse_R(line):
    """'pc a b o | W ad v | sv sc | f [STRAY]' -> dict"""
    p = [x.strip() for x in line.split('|')]
    regs = tuple(int(x) for x in p[0].split())
    w = p[1]
    sv, sc = [int(x) for x in p[2].split()]
    rest = p[3].split()
    return {'regs': regs, 'w': w, 'sv': sv, 'sc': sc, 'f': int(rest[0]), 'stray': 'STRAY' in rest}


def norm_w(w, cells):
    """a store of the value that is already there is not a change: report it as no write"""
    m = re.match(r'W (\d+) (\d+)$', w)
    if m and cells.get(int(m.group(1))) == int(m.group(2)):
        return '-'
    return w


def ref_daddr(op, n, a, b, o):
    """word address of the data request (RefRtl.r_daddr): what memory.sv would be asked for"""
    opr = o | n
    if op <= 2:
        return opr & 0x7ffff
    if op == 6:
        return ((a & 0x7ffff) + (opr & 0x7ffff)) & 0x7ffff
    if op in (7, 8):
        return ((b & 0x7ffff) + (opr & 0x7ffff)) & 0x7ffff
    return 0


def coq_failures():
    d = vlib.scratch()
    open(os.path.join(d, 'Diag.v'), 'w').write(
        'From Coq Require Import ZArith List String Bool.\nFrom HexVerif Require Import Vexp RtlEquiv RtlSem RefRtl.\n'
        'From HexVerif.gen Require RtlHex.\nSet Printing Width 100000.\n'
        'Eval vm_compute in (filter (fun k => negb (design_eqb (sub2 n_fdata "i_rst" k 0) RtlHex.design (spec k))) bytes256).\n')
    rc, out = sh('coqc -Q %s HexVerif %s/Diag.v' % (vlib.COQ, d), cwd=d, timeout=600)
    if rc != 0:
        return None
    flat = re.sub(r'\s+', ' ', out).replace('%Z', '')
    body = flat.split('=', 1)[1].split(': list')[0] if '=' in flat else ''
    return [int(x) for x in re.findall(r'\d+', body)]


def main():
    global run3
    ck = Check('C03')
    run3 = tbcommon.retrying(ck)          # a timed-out run is re-run once before it counts
    ck.cov['trusted_base'] = ['Coq 8.16.1 kernel + VM (vm_compute)', 'Isa.v as a reading of hexb.pdf (spec)',
                              'Verilator 5.006 front end incl. --flatten (shared by translator and oracle)',
                              'tools/vl2coq.py (XML -> vexp) and RtlSem.v (state <-> environment, wires, clocked write), validated on every run against the Verilated hex top',
                              'Vexp.eval as the 2-state meaning of an expression', 'ExtrOcamlBasic extraction + ocaml/rtldrv.ml',
                              'harness/rtl_hex.cpp (incl. the re-implemented system-call shim), harness/rtl_proc.cpp (the copies at their ports), g++ 12',
                              'RtlCopies.pcycle: the hand-written wiring of a processor copy to the memory (fetch byte at o_f_addr, read word at o_d_addr, store when o_d_valid and o_d_we), as hex.sv/memory.sv do for processor.sv -- the copies have no top of their own in the repository']
    ck.assumptions = ['Inv: register widths, memory words < 2^32, low nibble of oreg_q clear (proved to hold after reset and to be preserved)',
                      'in_range: next pc / branch / BRB target / LDAP result < 800000; word addresses < 200000 follow from Isa.step = Ok',
                      'READ system call: the memory write is the testbench shim\'s; run theorems assume it does not overwrite the byte of its own SVC instruction (read_safe) -- '
                      'KNOWN FINDING (known_findings.json, kind read-overwrites-own-svc): inside the literal quantifier the RTL+shim and the ISA differ on exactly that shape; exhibited on every run by two hand-assembled images',
                      'covered designs: the hex top with verilog/processor.sv (theorems 1-5, whole runs) and the two plain-Verilog copies verilog/processor.v, synth/processor.v at the processor boundary and per clock (theorems 6-9); whole runs of the copies follow by induction from the per-clock theorem but are not stated separately',
                      'runs start from a properly reset state (registers 0, image loaded); hextb\'s own reset sequence is property C13',
                      '2-state semantics as Verilator implements it; timing, X-propagation, synthesis not modelled',
                      'file streams (>= 256) are empty in the run harness; console input is stdin']
    rng = ck.rng
    # ---- regenerate + proofs
    status = gen_rtl.generate_all()
    if status.get('hex'):
        ck.broken.append('translation of the hex top (hex.sv/processor.sv/memory.sv) failed: %s' % status['hex'])
    ok = ck.proofs()
    ck.log('proofs', 'ok' if ok else 'BROKEN')
    focus = set()
    if not ok:
        fl = coq_failures()
        if fl:
            focus = set(fl)
            ck.cov['coq_failing_bytes'] = sorted(focus)[:64]
            ck.log('the generated design leaves the reference datapath for bytes', ['%02x' % k for k in sorted(focus)][:32])
    hv, log = vlib.ocaml_build()
    if hv is None:
        ck.broken.append('extraction/OCaml build failed: ' + log[-400:])
        ck.finish()
    har, log = gen_rtl.build_hex()
    if har is None:
        ck.broken.append('Verilator cannot build the hex top from the working tree: ' + log[-600:])
        ck.finish()
    d = vlib.scratch()
    # ---- planted states
    cases = []
    ncorpus = 0
    if ck.replay_arg:
        rp = json.load(open(ck.replay_arg))
        if 'case' in rp:
            cases = [rp['case']]
    else:
        corp = os.path.join(vlib.ROOT, 'corpus', 'C03', 'steps.txt')
        if os.path.exists(corp):
            cases += [l.strip() for l in open(corp) if l.strip() and not l.startswith('#')]
        ncorpus = len(cases)
        per_byte = 150 if not ck.thorough() else 6000
        for byte in range(256):
            n = per_byte * (4 if byte in focus else 1) * (10 if byte == 0xD3 else 1)
            for i in range(n):
                cases.append(case_line(gen_case(rng, byte, wild=(i % 6 == 5))))
    nviol = 0
    tdiff = 0
    dist = {'judged': 0, 'isa_undefined_opcode': 0, 'isa_undefined_opr': 0, 'isa_undefined_svc': 0, 'isa_undefined_address': 0,
            'outside_Inv': 0, 'outside_range': 0}
    would_differ = {'outside_Inv': 0, 'outside_range': 0, 'isa_undefined_svc': 0, 'isa_undefined_opr': 0}
    distinct = set()
    judged_cases = []
    if cases:
        open(os.path.join(d, 'cases.txt'), 'w').write('\n'.join(cases) + '\n')
        rc1, o1 = sh('%s step < cases.txt > real.txt' % har, cwd=d, timeout=3600)
        rc2, o2 = sh('%s rtlhex < cases.txt > model.txt' % hv, cwd=d, timeout=3600)
        rc3, o3 = sh('%s c03step < cases.txt > isa.txt' % hv, cwd=d, timeout=3600)
        R = [l[2:] for l in open(os.path.join(d, 'real.txt')).read().split('\n') if l.startswith('R ')]
        M = [l[2:] for l in open(os.path.join(d, 'model.txt')).read().split('\n') if l.startswith('R ')]
        I = [l[2:] for l in open(os.path.join(d, 'isa.txt')).read().split('\n') if l.startswith('I ')]
        if rc1 == 124:
            ck.broken.append('the Verilated hex top did not finish the planted states within the time limit (machine loaded?): inconclusive')
            ck.finish()
        if rc1 != 0 or len(R) != len(cases):
            ck.violation('the Verilated hex top stopped on a planted state (rc=%d, %d/%d results)' % (rc1, len(R), len(cases)),
                         {'case': cases[len(R)] if len(R) < len(cases) else None, 'log': o1[-300:]}, tags={'kind': 'crash'})
            ck.finish()
        if rc2 != 0 or len(M) != len(cases):
            ck.broken.append('extracted RtlSem.cycle of the generated design failed: rc=%d %d/%d %s' % (rc2, len(M), len(cases), o2[-300:]))
            M = None
        if rc3 != 0 or len(I) != len(cases):
            ck.broken.append('extracted Isa.step failed: rc=%d %d/%d %s' % (rc3, len(I), len(cases), o3[-300:]))
            ck.finish()
        for i, c in enumerate(cases):
            t = c.split()
            pc0, a0, b0, o0, nc = [int(x) for x in t[:5]]
            cells = {int(t[5 + 2 * j]): int(t[6 + 2 * j]) for j in range(nc)}
            r = parse_R(R[i])
            rw = norm_w(r['w'], cells)
            # translator validation (all cases, judged or not)
            if M is not None and not status.get('hex'):
                m = parse_R(M[i])
                if (m['regs'], norm_w(m['w'], cells), m['sv'], m['sc'], m['f']) != (r['regs'], rw, r['sv'], r['sc'], r['f']) or r['stray']:
                    tdiff += 1
                    if tdiff <= 3:
                        ck.broken.append('translator validation: extracted cycle of the generated design [%s] disagrees with the Verilated hex top [%s] on case [%s]'
                                         % (M[i], R[i], c))
            # direct oracle
            parts = [x.strip() for x in I[i].split('|')]
            meta = dict(x.split('=') for x in parts[-1].split())
            byte = int(meta['byte'])
            inv = meta['inv'] == '1'
            if parts[0].startswith('undef'):
                cl = parts[0].split()[1]
                dist['isa_undefined_' + cl] += 1
                if cl in ('svc', 'opr') and (r['regs'][0] != (pc0 + 1) % (1 << 21) or r['regs'][1:3] != (a0, b0)):
                    would_differ['isa_undefined_' + cl] += 1
                continue
            iregs = tuple(int(x) for x in parts[0].split()[1:5])
            iw, ev = parts[1], parts[2]
            same = (iregs == r['regs'] and iw == rw and r['f'] == byte and r['sv'] == (1 if byte == 0xD3 else 0) and
                    (r['sv'] == 1) == (ev != 'tau') and (r['sv'] == 0 or r['sc'] == a0))
            if not inv:
                dist['outside_Inv'] += 1
                would_differ['outside_Inv'] += 0 if same else 1
                continue
            if meta['rng'] != '1':
                dist['outside_range'] += 1
                would_differ['outside_range'] += 0 if same else 1
                continue
            dist['judged'] += 1
            distinct.add((byte, iregs, iw, ev))
            judged_cases.append((i, byte, iregs, iw, (pc0, a0, b0, o0), cells))
            if not same:
                nviol += 1
                if nviol <= 3:
                    ck.violation('after one clock the Verilog design differs from the ISA successor on byte 0x%02x: ISA [%s] RTL [%s]' % (byte, I[i], R[i]),
                                 {'case': c, 'format': 'pc areg breg oreg ncells (addr val)*', 'isa': I[i], 'rtl': R[i], 'generated_design': M[i] if M else None,
                                  'replay_cmd': './check C03 --replay <this file>'}, tags={'kind': 'step', 'opcode': '%x' % (byte >> 4)})
            elif i % 5003 == 0:
                ck.sample({'case': c, 'isa_successor': I[i], 'rtl': R[i], 'generated_design': M[i] if M else None})
        ck.log('planted states: %d (%s); judged differences %d; translator-validation differences %d; outside-quantifier differences (not judged) %s'
               % (len(cases), dist, nviol, tdiff, would_differ))
        # ---- the two plain-Verilog copies (verilog/processor.v, synth/processor.v; theorems 6-9 compose C16's equivalence with the
        # reference datapath): their Verilated models, fed at the ports with the fetched byte and the read data of the same planted
        # states, against the same extracted Isa.step successors -- every judged case
        copies = {}
        for variant, fname in (('v', 'verilog/processor.v'), ('vsynth', 'synth/processor.v')):
            pexe, plog = gen_rtl.build_proc(variant)
            if pexe is None:
                ck.broken.append('Verilator cannot build %s from the working tree: %s' % (fname, plog[-400:]))
                continue
            lines = []
            for (i, byte, iregs, iw, (pc0, a0, b0, o0), cells) in judged_cases:
                dad = ref_daddr(byte >> 4, byte & 15, a0, b0, o0)
                lines.append('1 %d 0 %d %d %d %d %d' % (byte, pc0, a0, b0, o0, cells.get(dad, 0)))
            open(os.path.join(d, 'copy_%s.txt' % variant), 'w').write('\n'.join(lines) + '\n')
            rcp, op_ = sh('%s < copy_%s.txt > copy_%s.out' % (pexe, variant, variant), cwd=d, timeout=1800)
            P = [l[2:] for l in open(os.path.join(d, 'copy_%s.out' % variant)).read().split('\n') if l.startswith('R ')]
            if rcp == 124:
                ck.broken.append('the Verilated %s did not finish the planted states within the time limit (machine loaded?): inconclusive' % fname)
                continue
            if rcp != 0 or len(P) != len(lines):
                ck.violation('the Verilated %s stopped on a planted state (rc=%d, %d/%d results)' % (fname, rcp, len(P), len(lines)),
                             {'case': cases[judged_cases[len(P)][0]] if len(P) < len(judged_cases) else None, 'copy': fname, 'log': op_[-300:]}, tags={'kind': 'crash', 'copy': variant})
                continue
            ncopy = 0
            for (i, byte, iregs, iw, (pc0, a0, b0, o0), cells), pl, line in zip(judged_cases, P, lines):
                outs_, regs_ = [dict(x.split('=') for x in part.split()) for part in pl.split('|')]
                outs_ = {k_: int(v_) for k_, v_ in outs_.items()}
                got = (int(regs_['pc_q']), int(regs_['areg_q']), int(regs_['breg_q']), int(regs_['oreg_q']))
                w = ('W %d %d' % (outs_['o_d_addr'], outs_['o_d_data'])) if outs_['o_d_valid'] and outs_['o_d_we'] else '-'
                opc = byte >> 4
                dad = ref_daddr(opc, byte & 15, a0, b0, o0)
                good = (got == iregs and norm_w(w, cells) == iw and outs_['o_f_addr'] == pc0 and outs_['o_f_valid'] == 1 and
                        outs_['o_syscall_valid'] == (1 if byte == 0xD3 else 0) and (byte != 0xD3 or outs_['o_syscall'] == a0) and
                        (opc not in (0, 1, 6, 7) or (outs_['o_d_valid'] == 1 and outs_['o_d_addr'] == dad)))
                ck.cov['evaluations'] += 1
                if not good:
                    ncopy += 1
                    nviol += 1
                    if ncopy <= 2:
                        ck.violation('after one clock %s differs from the ISA successor on byte 0x%02x: ISA [%s]; %s at its ports (i_f_data = %d, i_d_data = %s, registers pc areg breg oreg = %d %d %d %d) gives [%s]'
                                     % (fname, byte, I[i], fname, byte, line.split()[-1], pc0, a0, b0, o0, pl.strip()),
                                     {'case': cases[i], 'format': 'pc areg breg oreg ncells (addr val)*', 'copy': fname, 'copy_case': line,
                                      'copy_case_format': 'plant byte rst pc areg breg oreg ddata (harness/rtl_proc.cpp)', 'isa': I[i], 'rtl_copy': pl.strip(),
                                      'processor_sv': R[i], 'replay_cmd': './check C03 --replay <this file>'}, tags={'kind': 'step', 'copy': variant, 'opcode': '%x' % opc})
            copies[fname] = {'judged': len(lines), 'differing': ncopy}
        ck.cov['copies_against_isa'] = copies
        ck.log('copies against the ISA: %s' % copies)
    ck.cov['evaluations'] += 3 * len(cases)
    # ---- warm resets: from any planted state (= any state a run may have reached), i_rst raised between two clock edges or
    # together with one: the registers are 0 at once and stay 0, nothing is stored, and while reset is held the design shows the
    # fetch and the request of the instruction at address 0 (C03_reset_clears_registers, RtlC03.rtl_no_write_in_reset / rtl_outs_in_reset)
    if not ck.replay_arg or 'reset_case' in json.load(open(ck.replay_arg)):
        if ck.replay_arg:
            rcases = [json.load(open(ck.replay_arg))['reset_case']]
        else:
            rcases = []
            for i in range(600 if not ck.thorough() else 20000):
                byte0 = rng.choice([0xD3, 0xD3, 0x20, 0x21, 0x80, 0x8F, 0x00, 0x30, 0xD0, 0xD1, rng.randrange(256), rng.randrange(256)])
                w0 = byte0 | (rng.getrandbits(24) << 8)
                wild = i % 3 == 0
                regs = (rng.randrange(1 << 21) if wild else rng.randrange(64), rng.choice([0, 1, 2, 3, rng.getrandbits(32)]),
                        rng.choice([0, 1, rng.getrandbits(32)]), rng.choice([0, 0x10, 0xFFFFFF00, rng.getrandbits(28) << 4, rng.getrandbits(32) if wild else 0]))
                rcases.append('%d %d %d %d %d %d' % (regs + (w0, i % 2)))
        open(os.path.join(d, 'resets.txt'), 'w').write('\n'.join(rcases) + '\n')
        rcz, oz = sh('%s reset < resets.txt > resets.out' % har, cwd=d, timeout=1800)
        Z = [l[2:] for l in open(os.path.join(d, 'resets.out')).read().split('\n') if l.startswith('Z ')]
        if rcz == 124:
            ck.broken.append('the Verilated hex top did not finish the reset cases within the time limit (machine loaded?): inconclusive')
        elif rcz != 0 or len(Z) != len(rcases):
            ck.violation('the Verilated hex top stopped on a reset case (rc=%d, %d/%d results)' % (rcz, len(Z), len(rcases)),
                         {'reset_case': rcases[len(Z)] if len(Z) < len(rcases) else None, 'log': oz[-300:]}, tags={'kind': 'crash'})
        else:
            nres = 0
            for c, z in zip(rcases, Z):
                byte0 = int(c.split()[4]) & 0xff
                want = '0 0 0 0 %d 0 %d' % (1 if byte0 == 0xD3 else 0, byte0)
                expect = ' | '.join([want, want, want, '0'])
                ck.cov['evaluations'] += 1
                if z.strip() != expect:
                    nres += 1
                    if nres <= 3:
                        ck.violation('a warm reset from [pc areg breg oreg word0 how = %s] does not put the design into the start state: expected [%s] (registers 0, request and fetch of the instruction at address 0, no store) at: reset raised | clock edge under reset | reset released; got [%s]'
                                     % (c, expect, z.strip()),
                                     {'reset_case': c, 'format': 'pc areg breg oreg word0 how(0 = i_rst raised with the clock low, 1 = together with a rising edge)',
                                      'expected': expect, 'rtl': z.strip(), 'replay_cmd': './check C03 --replay <this file>'}, tags={'kind': 'reset'})
            ck.cov['reset_cases'] = {'cases': len(rcases), 'differing': nres}
            ck.log('warm resets: %d cases, differing %d' % (len(rcases), nres))
    # ---- whole runs
    runs = 0
    rundiff = 0
    run_classes = {}
    total_clocks = 0
    observations = []
    if not ck.replay_arg or 'binary' in json.load(open(ck.replay_arg)):
        bins = []
        if ck.replay_arg:
            rp = json.load(open(ck.replay_arg))
            bins = [(rp['binary'], bytes(rp.get('input', [])))]
        else:
            xcmp, lx = vlib.repo_tool('xcmp')
            hexasm, la = vlib.repo_tool('hexasm')
            if xcmp is None or hexasm is None:
                ck.broken.append('the toolchain does not build from the working tree (whole runs of toolchain binaries would silently shrink to random images): %s'
                                 % (lx if xcmp is None else la)[-300:])
            inputs = [b'', b'hello world\n', bytes(range(256))]
            for src in sorted(glob.glob(os.path.join(vlib.REPO, 'tests', 'x', '*.x'))):
                if xcmp:
                    o = os.path.join(d, os.path.basename(src) + '.bin')
                    rcx, _, _ = run3([xcmp, src], cwd=d, timeout=120)          # the pinned xcmp always writes a.out in cwd
                    if rcx == 0 and os.path.exists(os.path.join(d, 'a.out')):
                        os.rename(os.path.join(d, 'a.out'), o)
                        bins += [(o, inp) for inp in inputs]
            for src in sorted(glob.glob(os.path.join(vlib.REPO, 'tests', 'asm', '*.S'))):
                if hexasm:
                    o = os.path.join(d, os.path.basename(src) + '.bin')
                    rcx, _, _ = run3([hexasm, src, '-o', o], cwd=d, timeout=120)
                    if rcx == 0 and os.path.exists(o):
                        bins += [(o, inp) for inp in inputs[:2]]
            nrand = 40 if not ck.thorough() else 800
            for k in range(nrand):
                n = rng.randrange(8, 300)
                img = bytearray()
                for _ in range(n):
                    r = rng.random()
                    if r < 0.3:
                        img.append(rng.choice([0xE0, 0xF0]) | rng.randrange(16))
                    elif r < 0.9:
                        img.append((rng.choice([0, 1, 2, 3, 4, 5, 6, 7, 8, 9, 10, 11, 3, 4]) << 4) | rng.randrange(16))
                    else:
                        img.append(0xD0 | rng.choice([0, 1, 2, 1, 2]))
                while len(img) % 4:
                    img.append(0xD1)
                o = os.path.join(d, 'rand%d.bin' % k)
                open(o, 'wb').write((len(img) // 4).to_bytes(4, 'little') + bytes(img))
                bins.append((o, b''))
        maxsteps = 200000 if not ck.thorough() else 3000000
        for b, inp in bins:
            ip = os.path.join(d, 'in.bin')
            open(ip, 'wb').write(inp)
            ms = maxsteps if 'rand' not in os.path.basename(b) else min(maxsteps, 100000)   # random images mostly loop
            rc1, o1, e1 = run3([hv, 'c03run', b, str(ms), '0', '0'], cwd=d, stdin=open(ip, 'rb'), timeout=1800)
            isa = o1.decode().strip().split('\n')
            if rc1 != 0 or not isa[-1].startswith('END'):
                ck.broken.append('extracted ISA run failed on %s: %s' % (os.path.basename(b), (o1 + e1)[-200:]))
                continue
            f = dict(x.split('=') for x in isa[-1].split()[2:])
            end = isa[-1].split()[1]
            steps = int(f['clocks'])
            run_classes[end] = run_classes.get(end, 0) + 1
            if end not in ('exit', 'cut') and 'rand' not in os.path.basename(b):
                obs = '%s leaves the property\'s quantifier after %d instructions (%s); only that prefix is compared' % (os.path.basename(b), steps, end)
                if obs not in observations:
                    observations.append(obs)
            if steps == 0:
                continue
            rc2, o2, e2 = run3([har, 'run', b, str(steps), '0', '0'], cwd=d, stdin=open(ip, 'rb'), timeout=1800)
            rtl = o2.decode().strip().split('\n')
            runs += 1
            total_clocks += steps
            ck.cov['evaluations'] += 1
            if rc2 == 124:
                continue          # timed out twice: already recorded by the runner as a run that does not terminate
            if rc2 != 0 or not rtl[-1].startswith('END'):
                ck.violation('the Verilated hex top failed on a whole run rc=%d' % rc2, {'binary': os.path.basename(b), 'stderr': e2.decode()[-300:]}, tags={'kind': 'run-crash'})
                continue
            g = dict(x.split('=') for x in rtl[-1].split()[2:])
            keys = ['clocks', 'hash', 'pc', 'a', 'b', 'o', 'memhash', 'out'] + (['rc'] if end == 'exit' else [])
            same = all(f.get(k) == g.get(k) for k in keys) and (end not in ('exit',) or rtl[-1].split()[1] == 'exit')
            if same:
                if runs % 9 == 1:
                    ck.sample({'binary': os.path.basename(b), 'input_len': len(inp), 'isa_end': isa[-1][:160], 'rtl_end': rtl[-1][:160]})
                continue
            rundiff += 1
            # localise: first differing digest window, then the first differing clock inside it
            di = dict(l.split()[1:3] for l in isa if l.startswith('D '))
            dr = dict(l.split()[1:3] for l in rtl if l.startswith('D '))
            lo = 0
            for k in sorted(di, key=int):
                if dr.get(k) == di[k]:
                    lo = int(k)
                else:
                    break
            hi = lo + 4096
            _, t1, _ = run3([hv, 'c03run', b, str(min(hi, steps)), str(lo), str(hi)], cwd=d, stdin=open(ip, 'rb'), timeout=1800)
            _, t2, _ = run3([har, 'run', b, str(min(hi, steps)), str(lo), str(hi)], cwd=d, stdin=open(ip, 'rb'), timeout=1800)
            ti = [l for l in t1.decode().split('\n') if l.startswith('T ')]
            tr = [l for l in t2.decode().split('\n') if l.startswith('T ')]
            first = next(((x, y) for x, y in zip(ti, tr) if x != y), (isa[-1], rtl[-1]))
            if rundiff <= 3:
                keep = os.path.join(vlib.REPLAYS, 'C03')
                os.makedirs(keep, exist_ok=True)
                kb = os.path.join(keep, 'run-%d-%s' % (int(ck.t0), os.path.basename(b)))
                shutil.copy(b, kb)
                ck.violation('a whole run on the Verilog design leaves the ISA trace: ISA [%s] RTL [%s]' % first,
                             {'binary': kb, 'input': list(inp), 'isa': first[0], 'rtl': first[1], 'isa_end': isa[-1], 'rtl_end': rtl[-1],
                              'replay_cmd': './check C03 --replay <this file>'}, tags={'kind': 'run'})
        ntool = len([1 for b_, _ in bins if 'rand' not in os.path.basename(b_)])
        if not ck.replay_arg and (ntool < 30 or runs < 60):
            ck.broken.append('only %d runs of toolchain binaries (%d whole runs in all; expected at least 30 / 60): the check would pass without having looked' % (ntool, runs))
        ck.log('whole runs: %d (%d clocks, ISA endings %s), differing %d' % (runs, total_clocks, run_classes, rundiff))
    # ---- the known-finding shape inside the literal quantifier (judged, reported through known_findings.json):
    # a READ system call whose result slot mem[sp+1] is the word that holds its own OPR SVC.  The testbench's shim
    # writes the byte before the clock edge that retires the SVC, so the RTL retires the overwritten byte, the ISA the SVC
    # (hypothesis read_safe of C03_clock_refines_isa_partial / C03_run_refines_isa_partial).
    shapes_run = 0
    exhibits = []
    if not ck.replay_arg or json.load(open(ck.replay_arg)).get('shape'):
        only = json.load(open(ck.replay_arg)).get('shape') if ck.replay_arg else None
        for sname, (img, sinp, kind, isa_does, rtl_does) in sorted(tbcommon.known_shapes().items()):
            if kind != 'read-overwrites-own-svc' or (only and sname != only):
                continue
            b = os.path.join(d, 'shape-%s.bin' % sname)
            open(b, 'wb').write(img)
            ip = os.path.join(d, 'shape.in')
            open(ip, 'wb').write(sinp)
            n = 12
            _, t1, _ = run3([hv, 'c03run', b, str(n), '0', str(n), 'judge-all'], cwd=d, stdin=open(ip, 'rb'), timeout=120)
            _, t2, _ = run3([har, 'run', b, str(n), '0', str(n)], cwd=d, stdin=open(ip, 'rb'), timeout=120)
            ti = [l for l in t1.decode().split('\n') if l.startswith('T ')]
            tr = [l for l in t2.decode().split('\n') if l.startswith('T ')]
            shapes_run += 1
            ck.cov['evaluations'] += 1
            first = next(((x, y) for x, y in zip(ti, tr) if x != y), None)
            if first is None and len(ti) != len(tr):
                first = ((ti + ['(ended)'])[min(len(ti), len(tr))], (tr + ['(ended)'])[min(len(ti), len(tr))])
            exhibits.append({'shape': sname, 'differs': first is not None, 'isa': first[0] if first else None, 'rtl': first[1] if first else None})
            if first is not None:
                ck.violation('READ whose result slot is the word of its own SVC (%s): the ISA %s, the RTL with the testbench shim %s: ISA [%s] RTL [%s]'
                             % (sname, isa_does, rtl_does, first[0], first[1]),
                             {'shape': sname, 'binary_hex': img.hex(), 'input': list(sinp), 'isa': ti, 'rtl': tr, 'replay_cmd': './check C03 --replay <this file>'},
                             tags={'kind': 'read-overwrites-own-svc'})
    ck.cov['known_finding_shapes_run'] = shapes_run
    ck.cov['known_finding_exhibits'] = exhibits
    if not ck.replay_arg and dist['judged'] < (20000 if not ck.thorough() else 500000):
        ck.broken.append('only %d planted states were judged: the check would pass without having looked' % dist['judged'])
    ck.cov['distinct_nontrivial'] = len(distinct)
    ck.cov['rule'] = ('planted state = (pc, areg, breg, oreg, memory cells) for each of the 256 instruction bytes, one clock; judged iff Isa.step is defined, '
                      'oreg mod 16 = 0 and the produced byte addresses are < 800000; non-trivial = judged; distinct by (byte, ISA successor registers, written word, event class); '
                      'whole runs = shipped .x/.S programs (three inputs) and random byte images from reset, compared clock by clock through a rolling digest of '
                      '(pc, areg, breg, oreg, written word, event, fetched byte), final memory and output')
    ck.cov['input_distribution'] = dist
    ck.cov['not_judged_but_run'] = {'counts': {k: v for k, v in dist.items() if k != 'judged'}, 'rtl_differs_from_isa_or_isa_undefined': would_differ,
                                    'why': 'prefixed OPR decodes the low nibble only, the SVC number is areg[1:0], pc/LDAP are 21 bits, memory is 2^19 words: by design outside Inv/in_range'}
    ck.cov['whole_runs'] = runs
    ck.cov['whole_run_clocks'] = total_clocks
    ck.cov['whole_run_isa_endings'] = run_classes
    ck.cov['observations'] = observations
    ck.cov['translator_validation_disagreements'] = tdiff
    ck.cov['oracle_disagreements'] = nviol + rundiff
    ck.cov['corpus_cases'] = ncorpus
    ck.cov['exhaustive'] = False
    ck.finish()


if __name__ == '__main__':
    main()
