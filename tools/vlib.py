#!/usr/bin/env python3
"""vlib.py -- shared machinery of the /verif checks: building the Coq development, the extracted
OCaml engines and the C++/Verilator harnesses from /repo's *current working tree*; verdicts,
known findings, replay files, evidence files."""
import contextlib, fcntl, hashlib, json, os, random, re, shutil, subprocess, sys, tempfile, time

ROOT = os.path.dirname(os.path.dirname(os.path.abspath(__file__)))
REPO = os.environ.get('HEX_REPO', '/repo')
COQ = os.path.join(ROOT, 'coq')
WORK = os.path.join(ROOT, '_work')
CACHE = os.path.join(WORK, 'cache')
REPLAYS = os.path.join(WORK, 'replays')
NCPU = os.cpu_count() or 4
GUARD = 'HEX_VERIF'

STD_AXIOMS_OK = ('functional_extensionality_dep', 'proof_irrelevance', 'classic', 'JMeq_eq', 'eq_rect_eq',
                 'propositional_extensionality', 'constructive_indefinite_description')


def sh(cmd, timeout=600, cwd=None, env=None, stdin=None, input=None, binary=False):
    """run a command under a timeout; returns (rc, stdout+stderr) ; rc=124 on timeout"""
    e = dict(os.environ)
    if env:
        e.update(env)
    try:
        p = subprocess.run(cmd, shell=isinstance(cmd, str), cwd=cwd, env=e, timeout=timeout, stdin=stdin, input=input,
                           stdout=subprocess.PIPE, stderr=subprocess.STDOUT)
        out = p.stdout if binary else p.stdout.decode('utf-8', 'replace')
        return p.returncode, out
    except subprocess.TimeoutExpired as ex:
        out = ex.stdout or b''
        return 124, (out if binary else out.decode('utf-8', 'replace')) + '\n[timeout after %ss]' % timeout


def run3(cmd, timeout=60, cwd=None, env=None, input=None, stdin=None):
    """run; returns (rc, stdout bytes, stderr bytes); rc=124 on timeout, negative on signal"""
    e = dict(os.environ)
    if env:
        e.update(env)
    try:
        p = subprocess.run(cmd, cwd=cwd, env=e, timeout=timeout, input=input, stdin=stdin, stdout=subprocess.PIPE, stderr=subprocess.PIPE)
        return p.returncode, p.stdout, p.stderr
    except subprocess.TimeoutExpired as ex:
        return 124, ex.stdout or b'', ex.stderr or b''


def big_stack(cmd):
    """wrap a command so that it runs with an unlimited stack (extracted code is not tail recursive)"""
    return ['sh', '-c', 'ulimit -s unlimited 2>/dev/null || ulimit -s 1000000; exec "$@"', 'sh'] + list(cmd)


@contextlib.contextmanager
def locked(name):
    os.makedirs(WORK, exist_ok=True)
    with open(os.path.join(WORK, name + '.lock'), 'w') as f:
        fcntl.flock(f, fcntl.LOCK_EX)
        try:
            yield
        finally:
            fcntl.flock(f, fcntl.LOCK_UN)


_design_lock = [None]


def design_session():
    """coq/gen/*.v (the Verilog designs as Coq data) is one shared, mutable directory, and every extracted engine and
    every RTL proof is built from it.  A check therefore holds a SHARED lock on it for its whole life, and the directory
    is stamped with the identity (content hash of the Verilog sources and of the translator) of the tree it was
    generated from.  A check whose tree has another identity (a scratch worktree given by HEX_REPO, or /repo after an
    edit) takes the lock EXCLUSIVELY, regenerates, stamps, and only then shares it.  So two runs against different
    trees never see each other's designs, and a design left behind by an earlier run is never judged."""
    if _design_lock[0] is not None:
        return
    import vl2coq
    os.makedirs(WORK, exist_ok=True)
    srcs = sorted(set(os.path.join(REPO, p) for t in vl2coq.TARGETS.values() for p in t[2]))
    ident = file_hash([p for p in srcs if os.path.exists(p)] + [os.path.join(ROOT, 'tools', 'vl2coq.py')],
                                                      '|'.join(p for p in srcs if not os.path.exists(p)))
    stamp = os.path.join(WORK, 'design.stamp')
    f = open(os.path.join(WORK, 'design.lock'), 'w')
    gen_ok = lambda: all(os.path.exists(os.path.join(COQ, 'gen', t[0])) for t in vl2coq.TARGETS.values())
    while True:
        fcntl.flock(f, fcntl.LOCK_SH)
        if os.path.exists(stamp) and open(stamp).read() == ident and gen_ok():
            break
        fcntl.flock(f, fcntl.LOCK_UN)
        fcntl.flock(f, fcntl.LOCK_EX)
        if not (os.path.exists(stamp) and open(stamp).read() == ident and gen_ok()):
            if os.path.exists(stamp):
                os.remove(stamp)
            vl2coq.generate_all()
            with open(stamp + '.tmp', 'w') as g:
                g.write(ident)
            os.rename(stamp + '.tmp', stamp)
        fcntl.flock(f, fcntl.LOCK_UN)
    _design_lock[0] = f


_scratch_dirs = []


def scratch(prefix='hexverif-'):
    d = tempfile.mkdtemp(prefix=prefix)
    _scratch_dirs.append(d)
    return d


def cleanup():
    for d in _scratch_dirs:
        shutil.rmtree(d, ignore_errors=True)
    del _scratch_dirs[:]


import atexit
atexit.register(cleanup)


def file_hash(paths, extra=''):
    h = hashlib.sha256()
    h.update(extra.encode())
    for p in sorted(paths):
        h.update(p.encode())
        try:
            with open(p, 'rb') as f:
                h.update(f.read())
        except OSError:
            h.update(b'<missing>')
    return h.hexdigest()[:24]


def repo_sources(patterns=('*.hpp', '*.cpp')):
    import glob
    out = []
    for pat in patterns:
        out += glob.glob(os.path.join(REPO, pat))
    return sorted(out)


def _prune_cache(keep=60, min_age_s=4 * 3600):
    """bounded cache: drop the least recently used entries beyond `keep`, but never one used in the last hours
    (another check may be running from it)"""
    try:
        ents = [os.path.join(CACHE, d) for d in os.listdir(CACHE)]
        ents.sort(key=lambda p: os.path.getmtime(p), reverse=True)
        now = time.time()
        for p in ents[keep:]:
            if now - os.path.getmtime(p) > min_age_s:
                shutil.rmtree(p, ignore_errors=True)
    except OSError:
        pass


def cxx_build(name, sources, flags='', deps=None, timeout=900):
    """compile a harness/tool from the repo working tree; cached by content hash of deps+flags.
    returns (path or None, log)"""
    deps = list(deps) if deps is not None else repo_sources()
    deps += [s for s in sources if os.path.exists(s)]
    key = file_hash(deps, name + '|' + flags)
    d = os.path.join(CACHE, name + '-' + key)
    exe = os.path.join(d, name)
    with locked('cxx-' + name):
        if os.path.exists(exe):
            os.utime(d, None)
            return exe, 'cached'
        os.makedirs(d, exist_ok=True)
        tmpexe = exe + '.tmp'
        cmd = 'g++ -std=c++17 %s -I%s %s -o %s' % (flags, REPO, ' '.join(sources), tmpexe)
        rc, out = sh(cmd, timeout=timeout)
        if rc != 0:
            shutil.rmtree(d, ignore_errors=True)
            return None, cmd + '\n' + out
        os.rename(tmpexe, exe)
        _prune_cache()
        return exe, out


def repo_tool(tool, flags='-O1', define_guard=False):
    """build one of the repo's own executables (hexasm, xcmp, xrun, hexsim) from the working tree"""
    srcs = {'hexasm': ['hex.cpp', 'hexasm.cpp'], 'xcmp': ['hex.cpp', 'xcmp.cpp'], 'xrun': ['hex.cpp', 'xrun.cpp'],
            'hexsim': ['hex.cpp', 'hexsim.cpp']}[tool]
    fl = flags + (' -D' + GUARD if define_guard else '')
    return cxx_build(tool, [os.path.join(REPO, s) for s in srcs], fl)


# ---------------------------------------------------------------- Coq

FORBIDDEN = re.compile(r'\b(Admitted|admit|Axiom|Axioms|Parameter|Parameters|Conjecture|Hypothesis|Hypotheses|Variable|Variables)\b|Unset\s+Guard|bypass_check|type-in-type|impredicative-set|Admit\s+Obligations|Unset\s+Positivity|Unset\s+Universe')


def strip_coq_comments(text):
    """remove (nested) comments; string literals are respected both outside comments (a "(*" in a string opens
    nothing) and inside them (Coq lexes strings inside comments: a "*)" in a string closes nothing)"""
    out = []
    depth = 0
    i = 0
    n = len(text)
    instr = False
    while i < n:
        c = text[i]
        if instr:
            if depth == 0:
                out.append(c)
            if c == '"':
                instr = False
            i += 1
        elif c == '"':
            instr = True
            if depth == 0:
                out.append(c)
            i += 1
        elif text.startswith('(*', i):
            depth += 1
            i += 2
        elif text.startswith('*)', i) and depth > 0:
            depth -= 1
            i += 2
        else:
            if depth == 0:
                out.append(c)
            i += 1
    return ''.join(out)


def coq_forbidden_scan():
    """list of (file, line, token) for declarations that would add an axiom or switch off a check.
    Variable/Hypothesis are allowed only inside a Section (checked syntactically)."""
    bad = []
    for root, _, files in os.walk(COQ):
        for fn in files:
            if not fn.endswith('.v'):
                continue
            p = os.path.join(root, fn)
            text = strip_coq_comments(open(p, encoding='utf-8', errors='replace').read())
            # strip string literals
            text = re.sub(r'"[^"]*"', '""', text)
            depth = 0
            for ln, line in enumerate(text.split('\n'), 1):
                if re.match(r'\s*Section\b', line):
                    depth += 1
                m = FORBIDDEN.search(line)
                if m:
                    tok = m.group(0)
                    if tok in ('Variable', 'Variables', 'Hypothesis', 'Hypotheses') and depth > 0:
                        pass
                    else:
                        bad.append((os.path.relpath(p, ROOT), ln, tok))
                if re.match(r'\s*End\b', line) and depth > 0:
                    depth -= 1
    return bad


def coq_make(targets, timeout=1500):
    """(re)build .vo targets of the Coq development under an exclusive lock; returns (ok, log)"""
    with locked('coq'):
        mk = os.path.join(COQ, 'Makefile')
        proj = os.path.join(COQ, '_CoqProject')
        # _CoqProject lists every .v under coq/ and coq/gen/ (kept in sync automatically)
        vs = sorted(f for f in os.listdir(COQ) if f.endswith('.v'))
        gd = os.path.join(COQ, 'gen')
        if os.path.isdir(gd):
            vs += sorted('gen/' + f for f in os.listdir(gd) if f.endswith('.v'))
        want = '-Q . HexVerif\n' + '\n'.join(vs) + '\n'
        if not os.path.exists(proj) or open(proj).read() != want:
            with open(proj + '.tmp', 'w') as f:
                f.write(want)
            os.rename(proj + '.tmp', proj)
        if not os.path.exists(mk) or os.path.getmtime(mk) < os.path.getmtime(proj):
            rc, out = sh('coq_makefile -f _CoqProject -o Makefile', cwd=COQ, timeout=60)
            if rc != 0:
                return False, out
        rc, out = sh('make -k -j%d %s' % (NCPU, ' '.join(targets)), cwd=COQ, timeout=timeout)
        return rc == 0, out


def coq_properties(pid, timeout=600):
    """compile Properties_<pid>.v afresh (to a scratch .vo) so that Print Assumptions is printed on every
    run.  returns dict(ok, theorems=[(name, 'closed'|[axioms])], log)"""
    src = os.path.join(COQ, 'Properties_%s.v' % pid)
    text = strip_coq_comments(open(src).read())
    names = re.findall(r'^\s*Theorem\s+(\w+)', text, re.M)
    printed = re.findall(r'^\s*Print\s+Assumptions\s+(\w+)\s*\.', text, re.M)
    d = scratch()
    rc, out = sh('coqc -Q . HexVerif -o %s/Properties_%s.vo Properties_%s.v' % (d, pid, pid), cwd=COQ, timeout=timeout)
    res = {'ok': rc == 0, 'log': out, 'theorems': [], 'names': names}
    if rc != 0:
        return res
    # parse the Print Assumptions blocks in order
    blocks = []
    cur = None
    for line in out.split('\n'):
        if line.startswith('Closed under the global context'):
            blocks.append('closed')
            cur = None
        elif line.startswith('Axioms:'):
            cur = []
            blocks.append(cur)
        elif cur is not None:
            m = re.match(r'^(\S+)\s*:', line)
            if m:
                cur.append(m.group(1))
    res['theorems'] = list(zip(printed, blocks))
    if len(blocks) != len(printed) or set(printed) != set(names):
        res['ok'] = False
        res['log'] += '\n[every Theorem must be followed by Print Assumptions: %s vs %s]' % (names, printed)
    for n, b in res['theorems']:
        if b != 'closed':
            for ax in b:
                if ax.split('.')[-1] not in STD_AXIOMS_OK or ax.startswith('HexVerif.'):
                    res['ok'] = False
                    res['log'] += '\n[theorem %s depends on non-standard axiom %s]' % (n, ax)
    return res


def ocaml_build(timeout=900):
    """extract (Extract.v) and build ocaml/hvmain.exe; returns (path or None, log)"""
    with locked('ocaml'):
        ok, log = coq_make(['Extract.vo'])
        gen = os.path.join(ROOT, 'ocaml', 'gen')
        os.makedirs(gen, exist_ok=True)
        stamp = os.path.join(gen, '.stamp')
        vo = os.path.join(COQ, 'Extract.vo')
        if not ok or not os.path.exists(vo):
            return None, log
        if not os.path.exists(stamp) or os.path.getmtime(stamp) < os.path.getmtime(vo):
            for f in os.listdir(gen):
                if f.endswith('.ml') or f.endswith('.mli'):
                    os.remove(os.path.join(gen, f))
            d = scratch()
            rc, out = sh('coqc -Q %s HexVerif -o %s/Extract.vo %s/Extract.v' % (COQ, d, COQ), cwd=gen, timeout=timeout)
            if rc != 0:
                return None, out
            open(stamp, 'w').write('ok')
        rc, out = sh('dune build ./hvmain.exe 2>&1', cwd=os.path.join(ROOT, 'ocaml'), timeout=timeout)
        exe = os.path.join(ROOT, 'ocaml', '_build', 'default', 'hvmain.exe')
        if rc != 0 or not os.path.exists(exe):
            return None, out
        # hand out a content-addressed copy: a later rebuild (another check, another builder) must not pull the
        # executable from under a running check
        with open(exe, 'rb') as f:
            key = hashlib.sha256(f.read()).hexdigest()[:24]
        d = os.path.join(CACHE, 'hvmain-' + key)
        stable = os.path.join(d, 'hvmain.exe')
        if not os.path.exists(stable):
            os.makedirs(d, exist_ok=True)
            shutil.copy2(exe, stable + '.tmp')
            os.rename(stable + '.tmp', stable)
        else:
            os.utime(d, None)
        return stable, out


# ---------------------------------------------------------------- verdicts

def load_known_findings(pid):
    p = os.path.join(ROOT, 'known_findings.json')
    if not os.path.exists(p):
        return []
    return [k for k in json.load(open(p)) if k.get('property') == pid and k.get('status') == 'finding']


class Check:
    def __init__(self, pid, level='proof'):
        self.pid = pid
        self.level = level
        self.tier = os.environ.get('VERIF_TIER', 'quick')
        if '--tier' in sys.argv:
            self.tier = sys.argv[sys.argv.index('--tier') + 1]
        if self.tier not in ('quick', 'thorough'):
            self.tier = 'quick'
        try:
            self.seed = int(os.environ.get('VERIF_SEED', '1'))
        except ValueError:
            self.seed = 1
        self.rng = random.Random(self.seed * 1000003 + sum(ord(c) for c in pid))
        self.t0 = time.time()
        self.violations = []        # (what, replay_path)
        self.known = []
        self.cov = {'evaluations': 0, 'distinct_nontrivial': 0, 'samples': [], 'trusted_base': [],
                    'obligations': 0, 'discharged': 0, 'checker_cmd': '', 'rule': ''}
        self.assumptions = []
        self.broken = []            # names of theorems / ties that no longer check
        self.findings = load_known_findings(pid)
        self.nreplay = 0
        self.replay_arg = None
        if '--replay' in sys.argv:
            self.replay_arg = sys.argv[sys.argv.index('--replay') + 1]
        design_session()

    def thorough(self):
        return self.tier == 'thorough'

    def log(self, *a):
        print('[%s %6.1fs]' % (self.pid, time.time() - self.t0), *a, flush=True)

    def sample(self, s, limit=8):
        if len(self.cov['samples']) < limit:
            self.cov['samples'].append(s)

    def write_replay(self, obj):
        d = os.path.join(REPLAYS, self.pid)
        os.makedirs(d, exist_ok=True)
        self.nreplay += 1
        p = os.path.join(d, '%s-%d-%d.json' % (self.tier, int(self.t0), self.nreplay))
        with open(p, 'w') as f:
            json.dump(obj, f, indent=1, default=str)
        return p

    def match_known(self, tags):
        """tags: dict describing the minimised failing input; a finding matches if all its `match` items agree"""
        for k in self.findings:
            m = k.get('match', {})
            if all(tags.get(a) == b for a, b in m.items()):
                return k
        return None

    def violation(self, what, replay_obj, tags=None, no_input=False):
        k = self.match_known(tags or {}) if not no_input else None
        if k is not None:
            line = 'KNOWN-FINDING: property=%s %s' % (self.pid, k.get('what', what))
            if line not in self.known:
                self.known.append(line)
            return
        obj = dict(replay_obj)
        obj.setdefault('property', self.pid)
        obj.setdefault('what', what)
        if no_input:
            obj['no_failing_input_found'] = True
        p = self.write_replay(obj)
        self.violations.append((what, p, no_input))

    def proofs(self, extra_targets=()):
        """build Properties_<pid>.vo (+deps) and collect assumptions; on failure record the broken theorem"""
        bad = coq_forbidden_scan()
        if bad:
            self.broken.append('forbidden declarations: %s' % bad[:5])
        ok, log = coq_make(['Properties_%s.vo' % self.pid] + list(extra_targets))
        res = coq_properties(self.pid) if ok else {'ok': False, 'log': log, 'theorems': [], 'names': []}
        self.cov['checker_cmd'] = 'make -C coq Properties_%s.vo && coqc Properties_%s.v (Print Assumptions under every theorem)' % (self.pid, self.pid)
        names = res.get('names') or re.findall(r'^\s*Theorem\s+(\w+)', strip_coq_comments(open(os.path.join(COQ, 'Properties_%s.v' % self.pid)).read()), re.M)
        self.cov['obligations'] = len(names)
        self.cov['discharged'] = len([1 for n, b in res['theorems'] if b == 'closed' or isinstance(b, list)]) if res['ok'] else 0
        self.cov['theorems'] = [{'name': n, 'assumptions': ('closed under the global context' if b == 'closed' else b)} for n, b in res['theorems']]
        if not res['ok']:
            m = re.findall(r'File "\./([^"]+)", line (\d+)', res['log'])
            where = ('%s:%s' % m[0]) if m else 'Properties_%s.v' % self.pid
            self.broken.append('proof obligation no longer checks (%s): %s' % (where, res['log'][-600:]))
        return res['ok']

    def finish(self):
        """print verdict lines, write evidence, exit"""
        if self.broken and not self.violations:
            # a proof or tie broke and the search found no failing input
            for b in self.broken:
                self.violation(b, {'broken': b}, no_input=True)
        for line in self.known:
            print(line)
        for what, p, no_input in self.violations:
            print('VIOLATION property=%s replay=%s%s' % (self.pid, p, ' no-failing-input-found' if no_input else ''))
            print('  ' + what.replace('\n', ' ')[:400])
        cov = self.cov
        if not cov['samples']:
            cov['samples'] = ['(no sample recorded)']
        cov['broken_obligations_or_ties'] = [b[:300] for b in self.broken]
        ev = {'property_id': self.pid, 'tier': self.tier, 'seed': self.seed, 'level': self.level,
              'coverage': cov, 'assumptions': self.assumptions, 'wall_s': round(time.time() - self.t0, 2),
              'violations': len(self.violations), 'known_findings_reported': self.known}
        evdir = os.environ.get('HEX_EVIDENCE_DIR') or os.path.join(ROOT, 'evidence')   # (seeded-change runs write elsewhere)
        os.makedirs(evdir, exist_ok=True)
        tmp = os.path.join(evdir, '.%s.json.tmp' % self.pid)
        with open(tmp, 'w') as f:
            json.dump(ev, f, indent=1, default=str)
        os.rename(tmp, os.path.join(evdir, '%s.json' % self.pid))
        self.log('done: %d violation(s), %d known finding(s), %d evaluations' % (len(self.violations), len(self.known), cov['evaluations']))
        cleanup()
        sys.exit(1 if self.violations else 0)
