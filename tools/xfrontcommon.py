#!/usr/bin/env python3
"""xfrontcommon.py -- shared machinery of C09 / C11 (X compiler half): building harness/xcmp_harness.cpp from the
working tree (sanitizer build and plain build), running case files through it in parallel with crash attribution,
running the built xcmp executable (plain and under valgrind), running the extracted front-end model
(`hvmain xfront`), input generators (random bytes, token-level mutations, grammar-valid odd programs) and a
line-based minimiser."""
import os, re, sys, glob, hashlib, subprocess
from concurrent.futures import ThreadPoolExecutor
sys.path.insert(0, os.path.dirname(os.path.abspath(__file__)))
import vlib
from vlib import run3

SAN_ENV = {'ASAN_OPTIONS': 'detect_leaks=0:abort_on_error=0:exitcode=99:detect_stack_use_after_return=0',
           'UBSAN_OPTIONS': 'print_stacktrace=1:halt_on_error=1', '_BIGSTACK': '1'}
HARNESS_SRC = os.path.join(vlib.ROOT, 'harness', 'xcmp_harness.cpp')
NPROC = min(16, vlib.NCPU)


def build_harness(sanitize=True):
    flags = '-O1 -g' + (' -fsanitize=address,undefined -fno-sanitize-recover=all' if sanitize else '')
    return vlib.cxx_build('xcmp_harness' + ('_san' if sanitize else '_plain'), [HARNESS_SRC, os.path.join(vlib.REPO, 'hex.cpp')], flags)


def write_casefile(path, sources):
    with open(path, 'wb') as f:
        for s in sources:
            f.write(b'%d\n' % len(s) + s)


def split_cases(text):
    """harness output -> ({index: [lines]}, set of indices whose END was seen)"""
    d, ended, cur = {}, set(), None
    for l in text.split('\n'):
        if l.startswith('CASE ') and l[5:].isdigit():
            cur = int(l[5:])
            d[cur] = []
        elif l.startswith('END ') and l[4:].isdigit():
            ended.add(int(l[4:]))
            cur = None
        elif cur is not None:
            d[cur].append(l)
    return d, ended


def _fn(frame_text):
    f = re.sub(r'\(.*', '', frame_text).strip()
    f = re.sub(r'<.*', '', f)
    return f[:70]


def crash_where(err):
    """classify a sanitizer report / signal: (kind, where); where = '<error class> in <first frame inside the repo code>'
    kind: ub (UBSan), crash (ASan memory error, abort, signal), stack-overflow"""
    frames = re.findall(r'#\d+ 0x[0-9a-f]+ in ([^\n]*?) (/[^\s:]+):(\d+)', err)
    first = next((f for f in frames if os.path.basename(f[1]) in ('xcmp.hpp', 'hexasm.hpp', 'util.hpp', 'xcmp.cpp', 'hex.cpp')), None)
    fn = _fn(first[0]) if first else '?'
    m = re.search(r'runtime error: ([^\n]*)', err)
    if m:
        msg = m.group(1)
        if 'signed integer overflow' in msg or msg.startswith('negation of'):
            cls = 'signed-overflow'
        elif 'left shift of negative' in msg:
            cls = 'shift-of-negative'
        elif 'shift exponent' in msg:
            cls = 'shift-exponent'
        elif 'null pointer' in msg:
            cls = 'null-pointer'
        elif 'out of bounds' in msg:
            cls = 'index-out-of-bounds'
        else:
            cls = re.sub(r'-?\d+', 'N', msg)[:50]
        return 'ub', '%s in %s' % (cls, fn)
    m = re.search(r'ERROR: AddressSanitizer: ([\w-]+)', err)
    if m:
        cls = m.group(1)
        if cls == 'stack-overflow':
            return 'stack-overflow', 'stack-overflow'
        return 'crash', '%s in %s' % (cls, fn)
    if 'terminate called' in err:
        m = re.search(r"what\(\):\s*([^\n]*)", err)
        return 'crash', 'terminate: %s' % (re.sub(r'\d+', 'N', m.group(1))[:60] if m else 'uncaught exception')
    m = re.search(r"Assertion `([^']*)' failed", err)
    if m:
        return 'crash', 'assert: %s' % m.group(1)[:60]
    return 'crash', 'signal/exit without report'


def _run_shard(args):
    harness, sources, workdir, opts, env, per_case_timeout = args
    os.makedirs(workdir, exist_ok=True)
    cf = os.path.join(workdir, 'cases.bin')
    write_casefile(cf, sources)
    res = [None] * len(sources)
    start = 0
    penv = {k: v for k, v in env.items() if not k.startswith('_')}

    def cmdline(c):
        # the sanitizer build runs with an unlimited stack: its instrumented frames are several times larger than the
        # real tool's, so stack exhaustion is judged on the real executable (default 8 MB) instead
        return vlib.big_stack(c) if env.get('_BIGSTACK') else c
    while start < len(sources):
        # a generous limit for the whole remaining batch; a single slow case is re-run alone below
        tmo = max(60, per_case_timeout + 0.25 * (len(sources) - start))
        rc, out, err = run3(cmdline([harness, 'batch', cf, str(start)] + opts), cwd=workdir, env=penv, timeout=tmo)
        text = out.decode('latin1')
        d, ended = split_cases(text)
        done = start - 1
        for i in sorted(d):
            if i in ended:
                res[i] = {'status': 'ok', 'lines': d[i]}
                done = max(done, i)
        nxt = done + 1
        if nxt >= len(sources):
            break
        e = err.decode('latin1')
        if rc == 124:
            # was it this case, or the batch limit?  re-run the single case with the per-case limit
            cf1 = os.path.join(workdir, 'one.bin')
            write_casefile(cf1, [sources[nxt]])
            rc1, out1, err1 = run3(cmdline([harness, 'batch', cf1, '0'] + opts), cwd=workdir, env=penv, timeout=per_case_timeout)
            d1, ended1 = split_cases(out1.decode('latin1'))
            if 0 in ended1:
                res[nxt] = {'status': 'ok', 'lines': d1[0]}
            elif rc1 == 124:
                res[nxt] = {'status': 'hang', 'lines': d1.get(0, []), 'detail': 'no result within %ss' % per_case_timeout, 'rc': 124, 'kind': 'hang', 'where': 'timeout'}
            else:
                k, w = crash_where(err1.decode('latin1'))
                res[nxt] = {'status': 'crash', 'lines': d1.get(0, []), 'detail': err1.decode('latin1')[-3000:], 'rc': rc1, 'kind': k, 'where': w}
        else:
            k, w = crash_where(e)
            res[nxt] = {'status': 'crash', 'lines': d.get(nxt, []), 'detail': e[-3000:], 'rc': rc, 'kind': k, 'where': w}
        start = nxt + 1
    for i in range(len(sources)):
        if res[i] is None:
            res[i] = {'status': 'crash', 'lines': [], 'detail': 'no output', 'rc': -1, 'kind': 'crash', 'where': 'no output'}
    return res


def run_real(harness, sources, workdir, tree=False, asm=False, env=None, per_case_timeout=30, nproc=None):
    """every source through the real compiler (batch harness), sharded over processes.
    returns list of dict(status ok|crash|hang, lines, detail, kind, where)"""
    nproc = nproc or NPROC
    opts = (['tree'] if tree else []) + (['asm'] if asm else [])
    env = dict(SAN_ENV if env is None else env)
    n = len(sources)
    if n == 0:
        return []
    nsh = max(1, min(nproc * 4, (n + 24) // 25))
    idx = [list(range(k, n, nsh)) for k in range(nsh)]      # interleaved: long inputs are spread
    jobs = [(harness, [sources[i] for i in ix], os.path.join(workdir, 'sh%d' % k), opts, env, per_case_timeout) for k, ix in enumerate(idx)]
    res = [None] * n
    with ThreadPoolExecutor(max_workers=nproc) as ex:
        for ix, r in zip(idx, ex.map(_run_shard, jobs)):
            for i, x in zip(ix, r):
                res[i] = x
    return res


def parse_real(lines):
    """harness lines of one case -> dict(cls accept|reject|reject-std, head, diag [E lines], rc, file bytes|None, tree_cls, tree_head, tree [T lines], asm)"""
    o = {'cls': None, 'head': '', 'diag': [], 'rc': None, 'file': None, 'tree_cls': None, 'tree_head': '', 'tree': [], 'asm_cls': None, 'asm': []}
    for l in lines:
        if l == 'ACCEPT':
            o['cls'] = 'accept'
        elif l.startswith('REJECT-STD '):
            o['cls'], o['head'] = 'reject-std', l[11:]
        elif l.startswith('REJECT '):
            o['cls'], o['head'] = 'reject', l[7:]
        elif l.startswith('E '):
            o['diag'].append(l[2:])
        elif l.startswith('RC '):
            o['rc'] = int(l[3:])
        elif l.startswith('FILE '):
            t = l.split()
            o['file'] = bytes(int(x, 16) for x in t[2:])
        elif l == 'TREE-OK':
            o['tree_cls'] = 'ok'
        elif l.startswith('TREE-REJECT-STD '):
            o['tree_cls'], o['tree_head'] = 'reject-std', l[16:]
        elif l.startswith('TREE-REJECT '):
            o['tree_cls'], o['tree_head'] = 'reject', l[12:]
        elif l.startswith('T '):
            o['tree'].append(l[2:])
        elif l == 'ASM-OK':
            o['asm_cls'] = 'ok'
        elif l.startswith('ASM-'):
            o['asm_cls'] = 'reject'
        elif l.startswith('S '):
            o['asm'].append(l[2:])
    return o


# ------------------------------------------------------------------ the built executable

def run_exe(xcmp, sources, workdir, extra=(), valgrind=False, timeout=60, nproc=None, env=None):
    """`xcmp in.x -o out.bin` in a private cwd per source.  returns list of dict(rc, err, file_exists, default_exists)"""
    nproc = nproc or NPROC

    def one(k):
        d = os.path.join(workdir, 'exe%d' % k)
        os.makedirs(d, exist_ok=True)
        with open(os.path.join(d, 'in.x'), 'wb') as f:
            f.write(sources[k])
        for fn in ('out.bin', 'a.out'):
            p = os.path.join(d, fn)
            if os.path.exists(p):
                os.remove(p)
        cmd = [xcmp, 'in.x', '-o', 'out.bin'] + list(extra)
        if valgrind:
            cmd = ['valgrind', '-q', '--error-exitcode=9', '--track-origins=no', '--leak-check=no'] + cmd
        rc, out, err = run3(cmd, cwd=d, timeout=timeout, env=env)
        r = {'rc': rc, 'out': out, 'err': err.decode('latin1'), 'file': None}
        p = os.path.join(d, 'out.bin')
        if os.path.exists(p):
            r['file'] = open(p, 'rb').read()
        r['stray'] = [fn for fn in os.listdir(d) if fn not in ('in.x', 'out.bin')]
        for fn in os.listdir(d):
            try:
                os.remove(os.path.join(d, fn))
            except OSError:
                pass
        os.rmdir(d)
        return r
    with ThreadPoolExecutor(max_workers=nproc) as ex:
        return list(ex.map(one, range(len(sources))))


def valgrind_where(err):
    m = re.search(r'==\d+== (Conditional jump or move depends on uninitialised value|Use of uninitialised value|Invalid read|Invalid write|Syscall param [^\n]*uninitialised|Invalid free|Mismatched free|Jump to the invalid address|Process terminating[^\n]*)', err)
    what = m.group(1) if m else 'valgrind error'
    what = re.sub(r'\(s\)', '', what)
    fr = re.findall(r'==\d+==\s+(?:at|by) 0x[0-9A-F]+: ([^\n]*?) \(', err)
    first = next((f for f in fr if f.startswith('xcmp::') or f.startswith('hexasm::') or f.startswith('hexutil::')), fr[0] if fr else '?')
    first = re.sub(r'\(.*', '', first)
    return 'valgrind: %s in %s' % (what.split(' depends')[0][:40], first[:60])


# ------------------------------------------------------------------ the extracted front-end model

def run_model(hv, sources, workdir, timeout=1200, nproc=None):
    """`hvmain xfront <casefile>`: per case the model's verdict (lines), sharded"""
    nproc = nproc or NPROC
    n = len(sources)
    nsh = max(1, min(nproc, (n + 49) // 50))
    idx = [list(range(k, n, nsh)) for k in range(nsh)]

    def one(k):
        cf = os.path.join(workdir, 'model%d.bin' % k)
        write_casefile(cf, [sources[i] for i in idx[k]])
        rc, out, err = run3(vlib.big_stack([hv, 'xfront', cf]), cwd=workdir, timeout=timeout)
        d, ended = split_cases(out.decode('latin1'))
        return rc, [d.get(j) if j in ended else None for j in range(len(idx[k]))], err.decode('latin1')[-400:]
    res = [None] * n
    bad = None
    with ThreadPoolExecutor(max_workers=nproc) as ex:
        for ix, (rc, r, err) in zip(idx, ex.map(one, range(nsh))):
            if rc != 0:
                bad = (rc, err)
            for i, x in zip(ix, r):
                res[i] = x
    return res, bad


LOC_RE = re.compile(r' \[loc=line \d+:\d+\]$')


# ------------------------------------------------------------------ generators

X_TOKS = ['and', 'array', 'do', 'else', 'false', 'func', 'if', 'is', 'or', 'proc', 'return', 'skip', 'stop', 'then', 'true', 'val', 'var', 'while',
          '[', ']', '(', ')', '{', '}', ';', ',', '+', '-', '=', '<', '<=', '>', '>=', '~', '~=', ':=', ':', "'a'", "'\\n'", "'", '"', '"s"', '""', '#',
          '#ff', '#FFFFFFFF', '#0x10', '#g', '0', '1', '2', '3', '65535', '65536', '2147483647', '2147483648', '4294967295', '4294967296',
          '18446744073709551616', '99999999999999999999999', 'x', 'y', 'main', 'f', 'a', 'g', 'v', '_', 'x_1', '|', '| c\n', '\n', '\xff', '\x00', '\x80',
          '@', '$', '\\', '"\\q"', "'\\", "''", "'''", "'ab'", '"abc', '"a\nb"', '\t', '\r', '\x0b', '\x0c']


def random_bytes(rng):
    n = rng.choice([0, 1, 2, 3, 5, 8, 30, 100, 400, 1000, 4000])
    r = rng.random()
    if r < 0.3:
        return bytes(rng.randrange(256) for _ in range(n))
    if r < 0.5:
        return bytes(rng.choice(b'abxyz 0123456789+-=<>~:;,()[]{}\n#|\'"\\_\t\xff\x00\x80\xe9') for _ in range(n))
    if r < 0.6:
        # a valid prefix followed by junk
        pre = rng.choice([b'proc main() is ', b'var x; proc main() is x := ', b'val v = ', b'proc main() is { ', b'func f(val a) is return '])
        return pre + bytes(rng.randrange(256) for _ in range(rng.choice([0, 1, 2, 5, 20])))
    return ''.join(rng.choice(X_TOKS) + rng.choice([' ', '\n', '', ' ', '\t']) for _ in range(max(1, n // 4))).encode('latin1')


TOKEN_RE = re.compile(r'\s+|\|[^\n]*|"(?:\\.|[^"\\])*"|\'(?:\\.|[^\'\\])\'|[A-Za-z][A-Za-z0-9_]*|#[0-9A-Za-z]*|\d+|:=|<=|>=|~=|.', re.S)


def mutate(rng, text):
    """token-level mutation: delete / duplicate / swap / replace tokens, truncate"""
    toks = TOKEN_RE.findall(text)
    if not toks:
        return text
    for _ in range(rng.choice([1, 1, 1, 2, 2, 3, 5])):
        k = rng.randrange(len(toks))
        op = rng.random()
        if op < 0.25:
            del toks[k]
            if not toks:
                break
        elif op < 0.45:
            toks.insert(k, toks[k])
        elif op < 0.75:
            toks[k] = rng.choice(X_TOKS)
        elif op < 0.85:
            toks.insert(k, rng.choice(X_TOKS))
        else:
            j = rng.randrange(len(toks))
            toks[k], toks[j] = toks[j], toks[k]
    s = ''.join(toks)
    if rng.random() < 0.15:
        s = s[:rng.randrange(len(s) + 1)]
    return s


def trim_program(rng, text, limit=6000):
    """a window of whole procedures of a long program (xhexb.x is 100 KB), so that mutations stay small"""
    if len(text) <= limit:
        return text
    parts = re.split(r'(?m)^(?=proc |func )', text)
    head, procs = parts[0], parts[1:]
    k = rng.randrange(len(procs)) if procs else 0
    out = head[:3000] if rng.random() < 0.7 else ''
    while k < len(procs) and len(out) < limit:
        out += procs[k]
        k += 1
    return out[:limit * 2]


class Odd:
    """grammar-valid, semantically unusual programs: every name may be of the wrong kind, undeclared or redeclared"""

    NAMES = ['a', 'b', 'g', 'v', 'w', 'f', 'p', 'q', 'main', 'x', 'arr', 'undefined_name']

    def __init__(self, rng):
        self.rng = rng
        self.feat = set()

    def name(self):
        return self.rng.choice(self.NAMES)

    def number(self):
        r = self.rng
        return r.choice(['0', '1', '2', '3', '7', '255', '65535', '65536', '65537', '2147483647', '2147483648', '4294967295', '4294967296',
                         '18446744073709551615', '18446744073709551616', '99999999999999999999999999', '#7fffffff', '#80000000', '#ffffffff', '#0',
                         "'a'", "'\\n'", "'\xe9'", str(r.randrange(0, 100))])

    def expr(self, d):
        r = self.rng
        if r.random() < 0.12:
            self.feat.add('unary')
            return r.choice(['-', '~']) + self.element(d)
        e = self.element(d)
        if r.random() < 0.45:
            op = r.choice(['+', '-', 'or', 'and', '=', '~=', '<', '<=', '>', '>='])
            e2 = self.element(d)
            s = e + ' ' + op + ' ' + e2
            if op in ('+', 'or', 'and'):
                while r.random() < 0.3:
                    s += ' ' + op + ' ' + self.element(d)
            return s
        return e

    def element(self, d):
        r = self.rng
        k = r.random()
        if d <= 0:
            k = k * 0.5
        if k < 0.2:
            return self.number()
        if k < 0.4:
            return self.name()
        if k < 0.45:
            return r.choice(['true', 'false'])
        if k < 0.5:
            self.feat.add('string')
            return r.choice(['""', '"s"', '"hello\\n"', '"\xe9\xff\x80"', '"' + 'x' * r.choice([3, 4, 5, 300]) + '"', '"a\nb"'])
        if k < 0.62:
            return self.name() + '[' + self.expr(d - 1) + ']'
        if k < 0.78:
            self.feat.add('call-expr')
            return self.name() + '(' + self.actuals(d - 1) + ')'
        if k < 0.86:
            self.feat.add('syscall-expr')
            return r.choice(['0', '1', '2', '3', '4294967295', '4294967294', '2147483648', '7', self.number()]) + '(' + self.actuals(d - 1) + ')'
        return '(' + self.expr(d - 1) + ')'

    def actuals(self, d):
        r = self.rng
        n = r.choice([0, 0, 1, 1, 2, 3, 5])
        if n == 0:
            self.feat.add('empty-actuals')
        return ', '.join(self.expr(d) for _ in range(n))

    def stmt(self, d):
        r = self.rng
        k = r.random()
        if d <= 0:
            k = k * 0.55
        if k < 0.08:
            return r.choice(['skip', 'stop'])
        if k < 0.16:
            return 'return ' + self.expr(2)
        if k < 0.32:
            return self.name() + ' := ' + self.expr(2)
        if k < 0.40:
            return self.name() + '[' + self.expr(1) + '] := ' + self.expr(2)
        if k < 0.50:
            return self.name() + '(' + self.actuals(2) + ')'
        if k < 0.55:
            self.feat.add('syscall-stmt')
            return r.choice(['0', '1', '2', '3', '4294967295', '4294967294', self.number()]) + '(' + self.actuals(2) + ')'
        if k < 0.70:
            return 'if ' + self.expr(2) + ' then ' + self.stmt(d - 1) + ' else ' + self.stmt(d - 1)
        if k < 0.80:
            return 'while ' + self.expr(2) + ' do ' + self.stmt(d - 1)
        return '{ ' + '; '.join(self.stmt(d - 1) for _ in range(r.choice([1, 1, 2, 3]))) + ' }'

    def decl(self, glob):
        r = self.rng
        k = r.random()
        if k < 0.4:
            return 'var ' + self.name() + ';'
        if k < 0.8 or not glob:
            self.feat.add('val')
            if r.random() < 0.6:
                return 'val ' + self.name() + ' = ' + r.choice([self.number(), '3', '70000', '-1', '(1 + 2)', "'a'", 'true']) + ';'
            return 'val ' + self.name() + ' = ' + self.expr(2) + ';'
        self.feat.add('array')
        ln = r.choice(['0', '1', '10', '-1', '2147483647', '4294967295', '200000', '199990', 'v', 'g', 'w + 1', self.expr(1), '-' + self.number()])
        return 'array ' + self.name() + '[' + ln + '];'

    def formals(self):
        r = self.rng
        n = r.choice([0, 0, 1, 1, 2, 3, 12])
        if n == 0:
            self.feat.add('empty-formals')
        return ', '.join(r.choice(['val', 'val', 'array', 'proc', 'func']) + ' ' + self.name() for _ in range(n))

    def proc(self, name=None):
        r = self.rng
        s = r.choice(['proc', 'proc', 'func']) + ' ' + (name or self.name()) + '(' + self.formals() + ') is\n'
        for _ in range(r.choice([0, 0, 1, 2, 3])):
            s += '  ' + self.decl(False) + '\n'
        return s + '  ' + self.stmt(3) + '\n'

    def program(self):
        r = self.rng
        s = ''
        for _ in range(r.choice([0, 1, 2, 3, 5])):
            s += self.decl(True) + '\n'
        np_ = r.choice([0, 1, 1, 2, 3, 4])
        names = [self.name() for _ in range(np_)]
        if names and r.random() < 0.75:
            names[r.randrange(len(names))] = 'main'
        for n in names:
            s += self.proc(n)
        if r.random() < 0.05:
            s += r.choice(['x', ';', '}', '0', '"s" "t"', 'proc', '\xff more text'])
        return s


def directed_odd():
    """the fixed list of DESIGN.md C09 stream (c) and section 9 witnesses (each a complete program)"""
    M = 'proc main() is '
    out = [
        ('val-of-var', 'var g; val v = g; ' + M + '0(v)'),
        ('val-of-var-local', 'var g; ' + M + 'val v = g; 0(v)'),
        ('val-forward', 'val a = b; val b = 7; ' + M + '0(a)'),
        ('val-as-syscall-id', 'var g; val v = g; ' + M + 'v(1)'),
        ('val-const-as-syscall-id', 'val v = 0; ' + M + 'v(3)'),
        ('val-const-bad-syscall-id', 'val v = 3; ' + M + 'v(3)'),
        ('call-of-val', 'val v = 1; ' + M + 'v()'),
        ('call-of-var', 'var x; ' + M + 'x(1)'),
        ('call-undeclared', M + 'nothing(1)'),
        ('call-expr-undeclared', 'var x; ' + M + 'x := nothing(1)'),
        ('assign-to-proc', 'proc p() is skip ' + M + 'p := 1'),
        ('assign-to-main', M + 'main := 1'),
        ('assign-to-val', 'val v = 1; ' + M + 'v := 2'),
        ('assign-to-array', 'array a[3]; ' + M + 'a := 2'),
        ('assign-undeclared', M + 'x := 2'),
        ('subscript-of-var', 'var x; ' + M + 'x[1] := x[2]'),
        ('subscript-of-proc', 'proc p() is skip ' + M + 'p[1] := 0'),
        ('var-as-value-proc', 'var x; proc p() is skip ' + M + 'x := p'),
        ('redeclared-global', 'var x; var x; val x = 1; array x[2]; ' + M + 'x := 1'),
        ('redeclared-proc', 'proc p() is skip proc p() is stop ' + M + 'p()'),
        ('redeclared-main', 'var g; ' + M + 'g := (g+1)+(g+2) ' + M + 'skip'),
        ('redeclared-proc-frame', 'var g; proc p() is g := (g+1)+(g+2) proc p() is skip ' + M + 'p()'),
        ('redeclared-formal', 'proc p(val a, val a, array a) is a := 1 ' + M + 'p(1,2,3)'),
        ('redeclared-local', M + 'var a; var a; val a = 1; a := 2'),
        ('local-shadows-proc', 'proc p() is skip ' + M + 'var p; { p := 1; p() }'),
        ('wrong-arity-more', 'proc p(val a) is skip ' + M + 'p(1, 2, 3)'),
        ('wrong-arity-less', 'func f(val a, val b) is return a + b ' + M + '0(f())'),
        ('empty-formals-actuals', 'func f() is return 1 ' + M + '0(f())'),
        ('func-as-proc', 'func f() is return 1 ' + M + 'f()'),
        ('proc-as-func', 'proc p() is skip ' + M + '0(p())'),
        ('proc-formals-3-deep', 'proc a(proc b) is b() proc c(proc d) is a(d) proc e() is skip ' + M + 'c(e)'),
        ('func-formal-call', 'func ap(func f, val x) is return f(x) func id(val x) is return x ' + M + '0(ap(id, 3))'),
        ('array-neg', 'array a[-1]; ' + M + 'a[0] := 1'),
        ('array-intmax', 'array a[2147483647]; ' + M + 'a[0] := 1'),
        ('array-intmax-twice', 'array a[2147483647]; array b[2147483647]; ' + M + 'b[0] := 1'),
        ('array-uintmax', 'array a[4294967295]; ' + M + 'a[0] := 1'),
        ('array-zero', 'array a[0]; ' + M + 'a[0] := 1'),
        ('array-nonconst', 'var n; array a[n]; ' + M + 'skip'),
        ('array-len-val', 'val n = 4; array a[n + 1]; ' + M + 'a[n] := 1'),
        ('array-len-string', 'array a["s"]; ' + M + 'skip'),
        ('array-len-call', 'array a[f(1)]; func f(val x) is return x ' + M + 'skip'),
        ('syscall-minus1', M + '4294967295(1)'),
        ('syscall-3', M + '3(1)'),
        ('syscall-huge', M + '99999999999999999999(1)'),
        ('syscall-neg', M + '2147483648(1)'),
        ('syscall-expr-3', 'var x; ' + M + 'x := 3()'),
        ('fold-add-overflow', M + '0(2147483647 + 1)'),
        ('fold-sub-overflow', M + '0((0 - 2147483647) - 2)'),
        ('fold-neg-intmin', M + '0(-2147483648)'),
        ('fold-val-overflow', 'val a = 2147483647; val b = a + a; ' + M + '0(b)'),
        ('fold-chain', M + '0(2147483647 + 2147483647 + 2147483647)'),
        ('fold-minus-intmin', M + '0(0 - 2147483648)'),
        ('huge-literal', 'val h = 999999999999999999999999999999; ' + M + '0(h)'),
        ('hex-literals', 'val h = #ffffffff; val i = #123456789abcdef01; val j = #; val k = #0x1f; val l = #zz; ' + M + '0(h + i + j + k + l)'),
        ('char-high', "val c = '\xe9'; " + M + '0(c)'),
        ('string-high-bytes', M + '1("\xe9\x80\xfe", 0)'),
        ('string-long', M + '1("' + 'x' * 1000 + '", 0)'),
        ('string-newline', M + '1("a\nb", 0)'),
        ('string-twice', M + 'return "a" "b"'),
        ('no-main', 'proc p() is skip'),
        ('no-procs', 'var x;'),
        ('empty-after-skip', 'var x; ;'),
        ('trailing-token', M + 'skip garbage'),
        ('main-func', 'func main() is return 3'),
        ('main-with-formals', 'proc main(val a, array b) is b[a] := 1'),
        ('return-in-proc', M + 'return 1'),
        ('func-without-return', 'func f() is skip ' + M + '0(f())'),
        ('val-formal-as-array', 'proc p(val a) is a[1] := 2 ' + M + 'p(1)'),
        ('array-formal-as-val', 'proc p(array a) is a := a + 1 ' + M + 'p(1)'),
        ('proc-formal-as-val', 'proc p(proc q) is q := q + 1 ' + M + 'p(main)'),
        ('string-as-everything', M + '{ "s"(1); x := "s"["t"] }'),
        ('number-subscript', M + 'x := 1[2]'),
        ('eq-with-calls', 'func f(val x) is return x ' + M + '0((f(1) = f(2)) = (f(3) < f(4)))'),
        ('nested-unary', M + '0(-(-(-(-1))))'),
        ('not-of-string', M + '0(~"s")'),
        ('keyword-like', 'var iff; var proc1; var _x; ' + M + 'iff := proc1'),
        ('label-like-names', 'var _start; proc _exit() is skip proc lab0() is skip proc start() is skip ' + M + '{ lab0(); start() }'),
        ('const-names', 'var _const0; ' + M + '0(100000)'),
        ('formal-named-main', 'proc p(val main) is main := 1 ' + M + 'p(1)'),
        ('many-formals', 'proc p(' + ', '.join('val a%d' % i for i in range(300)) + ') is skip ' + M + 'p(' + ', '.join('1' for i in range(300)) + ')'),
        ('many-locals', M + ''.join('var l%d; ' % i for i in range(500)) + 'l0 := l499'),
        ('many-globals', ''.join('var g%d; ' % i for i in range(700)) + M + 'g0 := g699'),
        ('many-procs', ''.join('proc p%d() is skip ' % i for i in range(400)) + M + 'p0()'),
        ('big-frame-consts', M + ''.join('var l%d; ' % i for i in range(70)) + '0(' + ' + '.join(['l0'] * 3) + ')'),
        ('while-true', M + 'while true do skip'),
        ('if-const', M + 'if 1 = 1 then stop else skip'),
        ('stmt-number', M + '5'),
        ('stmt-string', M + '"s"'),
    ]
    return [(t, s.encode('latin1')) for t, s in out]


def nested(kind, n):
    M = 'proc main() is '
    if kind == 'paren':
        s = M + '0(' + '(' * n + '1' + ')' * n + ')'
    elif kind == 'begin':
        s = M + '{ ' * n + 'skip' + ' }' * n
    elif kind == 'if':
        s = M + 'if 1 then ' * n + 'skip' + ' else skip' * n
    elif kind == 'while':
        s = M + 'while 1 do ' * n + 'skip'
    elif kind == 'plus':
        s = 'var x; ' + M + '0(' + 'x + ' * n + '1)'
    elif kind == 'and':
        s = 'var x; ' + M + '0(' + 'x and ' * n + '1)'
    elif kind == 'minus':
        s = 'var x; ' + M + '0(' + '(' * n + 'x' + ' - 1)' * n + ')'
    elif kind == 'minus-right':
        s = 'var x; ' + M + '0(' + 'x - (' * n + '1' + ')' * n + ')'
    elif kind == 'sub':
        s = 'array a[2]; ' + M + '0(' + 'a[' * n + '0' + ']' * n + ')'
    elif kind == 'call':
        s = 'func f(val x) is return x ' + M + '0(' + 'f(' * n + '0' + ')' * n + ')'
    elif kind == 'eq':
        s = 'var x; ' + M + '0(' + '(' * n + 'x' + ' = 1)' * n + ')'
    elif kind == 'comment':
        s = '| c\n' * n + M + 'skip'
    elif kind == 'unary':
        s = 'var x; ' + M + '0(' + '-(' * n + 'x' + ')' * n + ')'
    elif kind == 'val-chain':
        s = 'val v0 = 1; ' + ''.join('val v%d = v%d + 1; ' % (i + 1, i) for i in range(n)) + M + '0(v%d)' % n
    else:
        raise ValueError(kind)
    return s.encode()


# ------------------------------------------------------------------ misuse matrix
MISUSE_KINDS = ['gv', 'gx', 'ga', 'pp', 'ff', 'lv', 'lx', 'fv', 'fa', 'fp', 'fn']   # global val/var/array, proc, func, local val/var, formals val/array/proc/func
MISUSE_ROLES = [
    ('value', 'tmp := %s'), ('operand', 'tmp := %s + 1'), ('right-operand', 'tmp := (tmp - 1) - %s'), ('negated', 'tmp := -%s'),
    ('base-read-const', 'tmp := %s[1]'), ('base-read-var', 'tmp := %s[idx]'), ('base-read-call', 'tmp := %s[ff(idx)]'),
    ('base-write-const', '%s[1] := 2'), ('base-write-var', '%s[idx] := tmp'), ('base-copy', 'ga[idx] := %s[idx]'),
    ('assign-const', '%s := 5'), ('assign-expr', '%s := tmp + 1'), ('assign-call', '%s := ff(tmp)'),
    ('call-stmt', '%s(1)'), ('call-stmt-noargs', '%s()'), ('call-stmt-many', '%s(1, tmp, ga, pp)'), ('call-expr', 'tmp := %s(1)'),
    ('call-expr-in-actual', 'pp(%s(2))'),
    ('scalar-actual', 'pp(%s)'), ('array-actual', 'takes(%s)'), ('proc-actual', 'callp(%s)'), ('func-actual', 'tmp := callf(%s)'),
    ('condition-if', 'if %s then tmp := 1 else tmp := 2'), ('condition-while', 'while %s do tmp := tmp + 1'), ('syscall-arg', '1(%s, 0)'),
    ('compare', 'tmp := %s = tmp'), ('less', 'tmp := tmp < %s'), ('and', 'tmp := %s and tmp'),
]
MISUSE_SHAPES = [
    # (locals of `user` before the statement, formals of `user`, actuals of the call in main)
    ('val lv = 4; var lx; var idx; var tmp;', 'val fv, array fa, proc fp, func fn', '1, ga, pp, ff'),
    ('var tmp; var idx; var pad1; var pad2; val other = 70000; var lx; val lv = 4;', 'func fn, proc fp, array fa, val fv', 'ff, pp, ga, 1'),
    ('var tmp; val lv = 4; var idx; var lx;', 'val fv, array fa, proc fp, func fn', '1, ga, pp, ff'),
]


def misuse_program(kind, role_stmt, shape, in_func=False):
    locs, formals, actuals = MISUSE_SHAPES[shape]
    use = role_stmt % kind
    body = '{ idx := 1; tmp := 2; lx := 3; %s; tmp := tmp + lx }' % use
    head = 'val gv = 3;\nvar gx;\narray ga[8];\n'
    helpers = ('proc pp(val a) is skip\nfunc ff(val a) is return a\nproc takes(array z) is z[0] := 1\n'
               'proc callp(proc q) is q(1)\nfunc callf(func q) is return q(1)\n')
    if in_func:
        user = 'func user(%s) is\n  %s\n  { %s; return tmp }\n' % (formals, locs, body)
        main = 'proc main() is\n  var r;\n  { r := user(%s); 0(r) }\n' % actuals
    else:
        user = 'proc user(%s) is\n  %s\n  %s\n' % (formals, locs, body)
        main = 'proc main() is\n  var r;\n  { r := 0; user(%s); 0(r) }\n' % actuals
    return (head + helpers + user + main).encode()


def misuse_matrix(shapes=(0, 1, 2)):
    """every declaration kind in every syntactic role, inside a procedure with locals and formals so that frame offsets matter"""
    out = []
    for sh in shapes:
        for kind in MISUSE_KINDS:
            for role, st in MISUSE_ROLES:
                out.append(('%s-as-%s-shape%d' % (kind, role, sh), misuse_program(kind, st, sh, in_func=(sh == 1))))
    return out


NEST_KINDS = ['paren', 'begin', 'if', 'while', 'plus', 'and', 'minus', 'minus-right', 'sub', 'call', 'eq', 'comment', 'unary', 'val-chain']

UNTERMINATED = [b'proc main() is 1("abc', b'proc main() is 1("abc\\', b'proc main() is 0(\'a', b'proc main() is 0(\'', b'proc main() is 0(\'\\',
                b'proc main() is skip | comment without newline', b'|', b'| \xff', b'"', b"'", b'"\xff"', b"'\xff'", b"'\\\xff'",
                b'val s = "abc\ndef', b'proc main() is 0(\'ab\')', b'proc main() is x :', b'proc main() is x :- 1', b'#', b'\xff', b'\x00',
                b'proc main() is skip\xffproc', b'proc main() is skip \xff garbage $$$', b'proc main() is skip x \xff garbage', b'']


def shipped_x():
    return [(os.path.basename(f), open(f, 'rb').read()) for f in sorted(glob.glob(os.path.join(vlib.REPO, 'tests', 'x', '*.x')))]


def generated_programs(rng, n):
    """well-formed programs from the C01 generator (tools/xgen.py, read-only use)"""
    import xgen, xcommon
    out = []
    for _ in range(n):
        seed = rng.randrange(1 << 30)
        try:
            p = xgen.generate(seed)
            prog = p[0] if isinstance(p, tuple) else p
            out.append(('xgen:%d' % seed, xcommon.to_x(prog)))
        except Exception:
            continue
    return out


# ------------------------------------------------------------------ minimiser

def minimise(src, still_fails, budget=60):
    """greedy chunk removal (ddmin-like) on bytes; still_fails(bytes) -> bool runs the real tool"""
    cur = src
    n = 2
    calls = 0
    while len(cur) >= 2 and calls < budget:
        chunk = max(1, len(cur) // n)
        reduced = False
        for i in range(0, len(cur), chunk):
            cand = cur[:i] + cur[i + chunk:]
            calls += 1
            if cand != cur and still_fails(cand):
                cur = cand
                n = max(n - 1, 2)
                reduced = True
                break
            if calls >= budget:
                break
        if not reduced:
            if chunk == 1:
                break
            n = min(len(cur), n * 2)
    return cur


# ------------------------------------------------------------------ XFront.front as the reader of X text (C01/C08 tie)
# The programs of C01/C08 reach the spec interpreter as a machine-format AST (.sx) printed by Python (xcommon.to_sx) while
# the real xcmp gets the pretty-printed text.  Here the text goes through the extracted Coq model of the REAL lexer+parser
# (XFront.front, tied to xcmp's parser on every C09 run) and the resulting XAst.program, printed in the same .sx format by
# ocaml/xfrontdrv.ml, must be the program the generator / tools/xparse.py handed to the spec.

_SX_TOK = re.compile(r'[()]|[^\s()]+')


def sx_tokens(text):
    return _SX_TOK.findall(text)


def sx_first_difference(a, b):
    """None when the two .sx texts are the same program (whitespace ignored), else a short description of the first difference"""
    ta, tb = sx_tokens(a), sx_tokens(b)
    if ta == tb:
        return None
    k = next((i for i, (x, y) in enumerate(zip(ta, tb)) if x != y), min(len(ta), len(tb)))
    return 'token %d: XFront [%s] vs Python [%s]' % (k, ' '.join(ta[max(0, k - 6):k + 6]), ' '.join(tb[max(0, k - 6):k + 6]))


def front_sx(hv, x_text, workdir=None):
    """.sx text of XFront.front(x_text) (str), or None when the model rejects the text / fails; the reason is in front_sx.last"""
    import tempfile
    d = workdir or tempfile.mkdtemp(prefix='xfrontsx-')
    p = os.path.join(d, 'reader_in.x')
    try:
        with open(p, 'wb') as f:
            f.write(x_text if isinstance(x_text, bytes) else x_text.encode('latin1'))
        rc, out, err = run3(vlib.big_stack([hv, 'xfront2sx', p]), cwd=d, timeout=300)
    finally:
        try:
            os.remove(p)
            if workdir is None:
                os.rmdir(d)
        except OSError:
            pass
    text = out.decode('latin1')
    if rc != 0 or not text.startswith('(program'):
        front_sx.last = (text.strip() or err.decode('latin1').strip() or 'rc=%d' % rc)[:300]
        return None
    front_sx.last = ''
    return text


front_sx.last = ''


def reader_sampled(arg):
    """C01/C08 job -> is it in the cross-check sample?  all corpus/directed/shipped sources; every 5th generated program in quick, all in thorough"""
    if arg[0] != 'gen':
        return True
    thorough = os.environ.get('VERIF_TIER') == 'thorough' or ('--tier' in sys.argv and sys.argv[sys.argv.index('--tier') + 1:][:1] == ['thorough'])
    return thorough or arg[1] % 5 == 0


def reader_crosscheck(hv, x_text, python_sx, workdir=None):
    """-> ('same', '') | ('differs', first difference) | ('rejected', diagnostic)"""
    fs = front_sx(hv, x_text, workdir)
    if fs is None:
        return 'rejected', front_sx.last
    d = sx_first_difference(fs, python_sx)
    return ('same', '') if d is None else ('differs', d)


def reader_report(ck, results):
    """collect the per-program cross-check results of the jobs into the evidence; a disagreement is a broken tie"""
    n = same = 0
    bad = []
    for r in results:
        x = r.get('xfront')
        if not x:
            continue
        n += 1
        if x[0] == 'same':
            same += 1
        else:
            bad.append((r.get('name'), x, (r.get('src') or '')[:400]))
    ck.cov['xfront_reader_crosscheck'] = {'compared': n, 'matching': same, 'differing': len(bad),
                                          'what': '.sx of extracted XFront.front(program text) == .sx the generator / tools/xparse.py gave to XSem (whitespace ignored); '
                                                  'sample: every corpus, directed and shipped program, every 5th generated one in quick, all in thorough'}
    for name, x, src in bad[:3]:
        ck.broken.append('X reader: XFront.front and the Python printer/parser disagree on %s: %s %s; source: %r' % (name, x[0], x[1], src))
    return n, same
