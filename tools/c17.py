#!/usr/bin/env python3
"""C17 -- listings agree with the binary they describe.
proof:  Properties_C17.v: the model's listing (emitProgramText) passes the spec validator AsmSpec.check_listing against the
        model's image, for every accepted program.
tie:    model vs real hexasm (listing text and file bytes compared verbatim on every source).
oracle: extracted AsmSpec.check_listing on the REAL `--instrs` / `xcmp -S` listing and the REAL binary: decoding the binary at
        the listed offsets yields the listed mnemonic, operand and size, in order, with only zeros in between/after.
        The real listing TEXT is read by the extracted Coq reader AsmListingRead.read_listing_line, for which
        C17_text_listing_reads_back proves that it recovers exactly struct_listing from the text the model prints (and the
        Coq printer is compared verbatim with the real text on every source)."""
import os, sys
sys.path.insert(0, os.path.dirname(os.path.abspath(__file__)))
import vlib, asmcommon as A
from vlib import Check


def main():
    ck = Check('C17')
    ck.cov['trusted_base'] = ['Coq 8.16.1 kernel + VM', 'AsmSpec.v (check_listing, ISA decode)', 'AsmLayout.v hand model tied by correspondence',
                              'extraction + asmdrv.ml/asmlistdrv.ml (hex transport of the listing lines)', 'AsmListingRead.v reader: proved to invert the model printer (C17_text_listing_reads_back); tools/asmcommon.py parse_listing only as a cross-check', 'asm_harness.cpp / real xcmp -S']
    ok = ck.proofs()
    ck.log('proofs', 'ok' if ok else 'BROKEN')
    n1, n2 = (500, 500) if not ck.thorough() else (25000, 25000)
    cases = A.standard_cases(ck, n1, n2, 'C17')
    r = A.pipeline(ck, cases)
    if r is None:
        ck.finish()
    cases, hv, d = r
    ncorr = A.correspondence(ck, cases)
    # ---- the oracle: the REAL listing text read by the extracted Coq reader (AsmListingRead.read_listing_line, proved to
    # invert the model's printer), judged by the extracted AsmSpec.check_listing against the REAL image
    import asmlisting as AL
    ocases, meta = [], []
    for i, c in enumerate(cases):
        if c['accept']:
            ocases.append({'file': c['file'], 'lines': AL.listing_lines(c['real']['lines'])})
            meta.append(('asm', c['src'].decode('latin1'), c['real']['lines']))
    for x in A.xcmp_listings(ck, d, limit=None if ck.thorough() else 8):
        ocases.append({'file': x['file'], 'lines': AL.listing_lines(x['lines'])})
        meta.append(('xcmp', x['name'], x['lines']))
    try:
        res = AL.read_listings(hv, ocases, d)
    except RuntimeError as ex:
        ck.broken.append('the extracted listing reader/validator did not run: %s' % ex)
        res = [None] * len(ocases)
    nfail = nrej = ncross = 0
    dist = {'asm': 0, 'xcmp': 0}
    distinct = set()
    for j, rj in enumerate(res):
        kind, src, lines = meta[j]
        dist[kind] += 1
        ck.cov['evaluations'] += 1
        distinct.add(hash(src))
        if rj is None:
            nfail += 1
            if nfail <= 3:
                ck.violation('the binary file is malformed, the listing cannot be compared with it (%s)' % kind,
                             {'source': src[:4000], 'listing': lines[:60], 'file_hex': ocases[j]['file'].hex()[:4000]}, tags={'kind': 'listing'})
            continue
        if not rj['consistent']:
            ck.broken.append('read_listing and the line-by-line use of read_listing_line disagree (driver fault) on %r' % src[:200])
        if rj['read'] != 'ok':
            nrej += 1
            bad = ocases[j]['lines'][rj['read'][1]].decode('latin1')
            if nrej <= 3:
                ck.violation('a listing line does not show what the property requires (offset, mnemonic, operand value in parentheses for labels, size): %r' % bad,
                             {'source': src[:4000], 'line': bad}, tags={'kind': 'listing-line'})
            continue
        # cross-check: the Python reader must see the same items
        pi = AL.python_items(lines)
        if pi != rj['items']:
            ncross += 1
            if ncross <= 2:
                k = next((q for q, (a, b) in enumerate(zip(pi or [], rj['items'])) if a != b), min(len(pi or []), len(rj['items'])))
                ck.broken.append('listing readers disagree (Coq read_listing_line vs tools/asmcommon.parse_listing) at item %d: %r vs %r; source %r'
                                 % (k, rj['items'][k:k + 1], (pi or [None])[k:k + 1], src[:200]))
        if rj['verdict'] != 'ok':
            nfail += 1
            if nfail <= 3:
                ck.violation('the listing does not describe the binary (%s): decoding the image at the listed offsets does not give the listed lines' % kind,
                             {'source': src[:4000], 'listing': lines[:60], 'file_hex': ocases[j]['file'].hex()[:4000]}, tags={'kind': 'listing'})
        elif j % 101 == 0:
            ck.sample({'kind': kind, 'listing_head': lines[1:5], 'read_as': rj['items'][:4], 'verdict': 'check_listing ok'})
    # ---- tie of the Coq line printer (AsmListingRead.listing_lines, the printer of C17_text_listing_reads_back): verbatim = real text
    acc = [c for c in cases if c['accept']]
    mt, mrc, merr = AL.model_text(hv, [c['src'] for c in acc], d)
    if mrc != 0:
        ck.broken.append('asmlisttext failed rc=%d %s' % (mrc, merr))
    ntext = ntextdiff = 0
    for c, t in zip(acc, mt):
        if t is None:
            continue
        ntext += 1
        real = AL.listing_lines(c['real']['lines'])
        if t != real:
            ntextdiff += 1
            if ntextdiff <= 2:
                k = next((q for q, (a, b) in enumerate(zip(t, real)) if a != b), min(len(t), len(real)))
                ck.broken.append('the Coq listing printer (AsmListingRead.listing_lines) differs from the real text at line %d: model %r real %r; source %r'
                                 % (k, t[k:k + 1], real[k:k + 1], c['src'][:150]))
    ck.cov['listing_reader'] = {'read_by': 'extracted AsmListingRead.read_listing_line (Coq)', 'listings': len(res), 'lines_refused': nrej,
                                'python_cross_check_disagreements': ncross, 'coq_printer_vs_real_text': {'compared': ntext, 'differing': ntextdiff}}
    if ncorr:
        ex = next(c for c in cases if 'corr_diff' in c)
        ck.broken.append('correspondence model vs real hexasm: %d sources differ, e.g. model [%s] real [%s] source %r'
                         % (ncorr, ex['corr_diff'][0], ex['corr_diff'][1], ex['src'][:150]))
    ck.cov['distinct_nontrivial'] = len(distinct)
    ck.cov['rule'] = 'accepted assembly programs (generated + shipped) and xcmp -S listings of shipped X programs; distinct by source; non-trivial = every accepted listing'
    ck.cov['input_distribution'] = dist
    ck.cov['correspondence_differences'] = ncorr
    ck.log('listings checked %d (%s), failures %d, correspondence differences %d' % (len(res), dist, nfail, ncorr))
    ck.finish()


if __name__ == '__main__':
    main()
