#!/usr/bin/env python3
"""C17 -- listings agree with the binary they describe.
proof:  Properties_C17.v: the model's listing (emitProgramText) passes the spec validator AsmSpec.check_listing against the
        model's image, for every accepted program.
tie:    model vs real hexasm (listing text and file bytes compared verbatim on every source).
oracle: extracted AsmSpec.check_listing on the REAL `--instrs` / `xcmp -S` listing and the REAL binary: decoding the binary at
        the listed offsets yields the listed mnemonic, operand and size, in order, with only zeros in between/after."""
import os, sys
sys.path.insert(0, os.path.dirname(os.path.abspath(__file__)))
import vlib, asmcommon as A
from vlib import Check


def main():
    ck = Check('C17')
    ck.cov['trusted_base'] = ['Coq 8.16.1 kernel + VM', 'AsmSpec.v (check_listing, ISA decode)', 'AsmLayout.v hand model tied by correspondence',
                              'extraction + asmdrv.ml/asmoracle.ml', 'tools/asmcommon.py parse_listing (reads the real listing text)', 'asm_harness.cpp / real xcmp -S']
    ok = ck.proofs()
    ck.log('proofs', 'ok' if ok else 'BROKEN')
    n1, n2 = (500, 500) if not ck.thorough() else (25000, 25000)
    cases = A.standard_cases(ck, n1, n2, 'C17')
    r = A.pipeline(ck, cases)
    if r is None:
        ck.finish()
    cases, hv, d = r
    ncorr = A.correspondence(ck, cases)
    ocases, meta = [], []
    for i, c in enumerate(cases):
        if c['accept']:
            ll = A.parse_listing(c['real']['lines'])
            if ll is None:
                bad = next((l for l in c['real']['lines'] if l.startswith('L ') and A.parse_listing([l]) is None), '')
                ck.violation('a listing line does not show what the property requires (offset, mnemonic, operand value in parentheses for labels, size): %r' % bad,
                             {'source': c['src'].decode('latin1')[:4000], 'line': bad}, tags={'kind': 'listing-line'})
                continue
            ocases.append({'prog': [], 'file': c['file'], 'listing': ll, 'use_syms': False})
            meta.append(('asm', c['src'].decode('latin1'), c['real']['lines']))
    for x in A.xcmp_listings(ck, d, limit=None if ck.thorough() else 8):
        ll = A.parse_listing(x['lines'])
        if ll is None:
            ck.broken.append('cannot read the listing xcmp -S printed for %s' % x['name'])
            continue
        ocases.append({'prog': [], 'file': x['file'], 'listing': ll, 'use_syms': False})
        meta.append(('xcmp', x['name'], x['lines']))
    res = A.oracle(hv, ocases, d)
    nfail = 0
    dist = {'asm': 0, 'xcmp': 0}
    distinct = set()
    for j, rj in enumerate(res):
        kind, src, lines = meta[j]
        dist[kind] += 1
        ck.cov['evaluations'] += 1
        distinct.add(hash(src))
        if rj is None or rj['listing'] != 'ok':
            nfail += 1
            if nfail <= 3:
                ck.violation('the listing does not describe the binary (%s): decoding the image at the listed offsets does not give the listed lines' % kind,
                             {'source': src[:4000], 'listing': lines[:60], 'file_hex': ocases[j]['file'].hex()[:4000]}, tags={'kind': 'listing'})
        elif j % 101 == 0:
            ck.sample({'kind': kind, 'listing_head': lines[1:5], 'verdict': 'check_listing ok'})
    if ncorr:
        ex = next(c for c in cases if 'corr_diff' in c)
        ck.broken.append('correspondence model vs real hexasm: %d sources differ, e.g. model [%s] real [%s] source %r'
                         % (ncorr, ex['corr_diff'][0], ex['corr_diff'][1], ex['src'][:150]))
    ck.cov['distinct_nontrivial'] = len(distinct)
    ck.cov['rule'] = 'accepted assembly programs (generated + shipped) and xcmp -S listings of shipped X programs; distinct by source; non-trivial = every accepted listing'
    ck.cov['input_distribution'] = dist
    ck.cov['correspondence_differences'] = ncorr
    ck.log('listings checked %d (%s), failures %d, correspondence differences %d' % (len(res), dist, nfail, ncorr))
    ck.finish()


if __name__ == '__main__':
    main()
