#!/usr/bin/env python3
"""xcommon.py -- shared code of the C01 / C08 checks: printers of the X AST (X source text for the real
xcmp, s-expression machine format for the extracted XSem), runners for the extracted spec engines
(`hvmain xsem`, `hvmain xisa`), the real xcmp and the real hexsim, and the per-program evaluation.

AST: see xparse.py."""
import os, re, subprocess, sys
sys.path.insert(0, os.path.dirname(os.path.abspath(__file__)))
import vlib

MEMW = 200000
OPNAME = {'+': 'plus', '-': 'minus', 'or': 'or', 'and': 'and', '=': 'eq', '~=': 'ne', '<': 'ls', '<=': 'le',
          '>': 'gr', '>=': 'ge'}

# ---------------------------------------------------------------- machine format (s-expressions)


def sx_expr(e):
    t = e[0]
    if t == 'num':
        return '(num %d)' % e[1]
    if t in ('true', 'false'):
        return '(%s)' % t
    if t == 'str':
        return '(str%s)' % ''.join(' %d' % b for b in e[1])
    if t == 'var':
        return '(var %s)' % e[1]
    if t == 'sub':
        return '(sub %s %s)' % (e[1], sx_expr(e[2]))
    if t == 'call':
        return '(call %s%s)' % (e[1], ''.join(' ' + sx_expr(a) for a in e[2]))
    if t == 'sys':
        return '(sys %d%s)' % (e[1], ''.join(' ' + sx_expr(a) for a in e[2]))
    if t in ('neg', 'not'):
        return '(%s %s)' % (t, sx_expr(e[1]))
    if t == 'bin':
        return '(bin %s %s %s)' % (OPNAME[e[1]], sx_expr(e[2]), sx_expr(e[3]))
    raise ValueError('bad expr %r' % (e,))


def sx_stmt(s):
    t = s[0]
    if t in ('skip', 'stop'):
        return '(%s)' % t
    if t == 'return':
        return '(return %s)' % sx_expr(s[1])
    if t == 'if':
        return '(if %s %s %s)' % (sx_expr(s[1]), sx_stmt(s[2]), sx_stmt(s[3]))
    if t == 'while':
        return '(while %s %s)' % (sx_expr(s[1]), sx_stmt(s[2]))
    if t == 'seq':
        return '(seq%s)' % ''.join(' ' + sx_stmt(x) for x in s[1])
    if t == 'assign':
        return '(assign %s %s)' % (s[1], sx_expr(s[2]))
    if t == 'assignsub':
        return '(assignsub %s %s %s)' % (s[1], sx_expr(s[2]), sx_expr(s[3]))
    if t == 'call':
        return '(call %s%s)' % (s[1], ''.join(' ' + sx_expr(a) for a in s[2]))
    if t == 'sys':
        return '(sys %d%s)' % (s[1], ''.join(' ' + sx_expr(a) for a in s[2]))
    raise ValueError('bad stmt %r' % (s,))


def sx_decl(d):
    if d[0] == 'var':
        return '(var %s)' % d[1]
    return '(%s %s %s)' % (d[0], d[1], sx_expr(d[2]))


def to_sx(p):
    procs = []
    for q in p['procs']:
        procs.append('(%s %s (formals%s) (locals%s) %s)' % (
            q['kind'], q['name'], ''.join(' (%s %s)' % f for f in q['formals']),
            ''.join(' ' + sx_decl(d) for d in q['locals']), sx_stmt(q['body'])))
    return '(program (globals%s) (procs%s))\n' % (''.join(' ' + sx_decl(d) for d in p['globals']),
                                                  ''.join('\n ' + x for x in procs))

# ---------------------------------------------------------------- X source text


def x_string(bs):
    out = bytearray(b'"')
    esc = {0x5c: b'\\\\', 0x27: b"\\'", 0x22: b'\\"', 9: b'\\t', 13: b'\\r', 10: b'\\n'}
    for b in bs:
        out += esc.get(b, bytes([b]))
    out += b'"'
    return bytes(out)


def x_expr(e, top=True, style=0):
    """bytes of an expression.  top: the position accepts a full <expr>; otherwise an <element> is needed,
    so unary/binary expressions are parenthesised.  style bit 0: print right-nested chains of an
    associative operator without parentheses (a + b + c); bit 1: numbers above 65535 in hexadecimal."""
    t = e[0]
    if t == 'num':
        if (style & 2) and e[1] > 65535:
            return b'#%x' % e[1]
        return b'%d' % e[1]
    if t == 'true' or t == 'false':
        return t.encode()
    if t == 'str':
        return x_string(e[1])
    if t == 'var':
        return e[1].encode()
    if t == 'sub':
        return e[1].encode() + b'[' + x_expr(e[2], True, style) + b']'
    if t == 'call':
        return e[1].encode() + b'(' + b', '.join(x_expr(a, True, style) for a in e[2]) + b')'
    if t == 'sys':
        return b'%d(' % e[1] + b', '.join(x_expr(a, True, style) for a in e[2]) + b')'
    if t == 'neg':
        s = b'-' + x_expr(e[1], False, style)
    elif t == 'not':
        s = b'~' + x_expr(e[1], False, style)
    elif t == 'bin':
        op = e[1]
        r = e[3]
        if (style & 1) and op in ('+', 'and', 'or') and r[0] == 'bin' and r[1] == op:
            rs = x_expr(r, True, style)        # chain: a + b + c parses as a + (b + c)
        else:
            rs = x_expr(r, False, style)
        s = x_expr(e[2], False, style) + b' ' + op.encode() + b' ' + rs
    else:
        raise ValueError('bad expr %r' % (e,))
    return s if top else b'(' + s + b')'


def x_stmt(s, ind, style):
    t = s[0]
    pad = b'  ' * ind
    if t in ('skip', 'stop'):
        return pad + t.encode()
    if t == 'return':
        return pad + b'return ' + x_expr(s[1], True, style)
    if t == 'if':
        return (pad + b'if ' + x_expr(s[1], True, style) + b' then\n' + x_stmt(s[2], ind + 1, style) + b'\n' + pad + b'else\n'
                + x_stmt(s[3], ind + 1, style))
    if t == 'while':
        return pad + b'while ' + x_expr(s[1], True, style) + b' do\n' + x_stmt(s[2], ind + 1, style)
    if t == 'seq':
        if not s[1]:
            raise ValueError('empty sequence is not in the grammar')
        return pad + b'{\n' + b';\n'.join(x_stmt(x, ind + 1, style) for x in s[1]) + b'\n' + pad + b'}'
    if t == 'assign':
        return pad + s[1].encode() + b' := ' + x_expr(s[2], True, style)
    if t == 'assignsub':
        return pad + s[1].encode() + b'[' + x_expr(s[2], True, style) + b'] := ' + x_expr(s[3], True, style)
    if t == 'call':
        return pad + s[1].encode() + b'(' + b', '.join(x_expr(a, True, style) for a in s[2]) + b')'
    if t == 'sys':
        return pad + b'%d(' % s[1] + b', '.join(x_expr(a, True, style) for a in s[2]) + b')'
    raise ValueError('bad stmt %r' % (s,))


def x_decl(d, ind, style):
    pad = b'  ' * ind
    if d[0] == 'var':
        return pad + b'var ' + d[1].encode() + b';'
    if d[0] == 'val':
        return pad + b'val ' + d[1].encode() + b' = ' + x_expr(d[2], True, style) + b';'
    return pad + b'array ' + d[1].encode() + b'[' + x_expr(d[2], True, style) + b'];'


def to_x(p):
    style = p.get('style', 0)
    out = [x_decl(d, 0, style) for d in p['globals']]
    for q in p['procs']:
        out.append(b'%s %s(%s) is' % (q['kind'].encode(), q['name'].encode(),
                                     b', '.join(('%s %s' % f).encode() for f in q['formals'])))
        out += [x_decl(d, 1, style) for d in q['locals']]
        out.append(x_stmt(q['body'], 1, style))
    return b'\n'.join(out) + b'\n'

# ---------------------------------------------------------------- engines


class Tools:
    """the extracted engines and the repo's own executables, built from the current working tree"""

    def __init__(self, ck=None):
        self.err = None
        self.hv, log = vlib.ocaml_build()
        if self.hv is None:
            self.err = 'extraction/OCaml build failed: ' + log[-600:]
            return
        # a private copy: other checks may rebuild ocaml/_build while this one runs
        import shutil
        with vlib.locked('ocaml'):
            priv = os.path.join(vlib.scratch(), 'hvmain.exe')
            shutil.copy2(self.hv, priv)
        self.hv = priv
        for attempt in range(4):
            self.xcmp, log = vlib.repo_tool('xcmp')
            if self.xcmp is not None:
                break
            import time
            time.sleep(45)        # a header of the repo may be in the middle of an edit
        if self.xcmp is None:
            self.err = 'xcmp does not build from the working tree: ' + log[-600:]
            return
        self.hexsim, log = vlib.repo_tool('hexsim')
        if self.hexsim is None:
            self.err = 'hexsim does not build from the working tree: ' + log[-600:]


def hexline(bs):
    return bytes(bs).hex() if bs else '-'


def _big_stack():
    import resource
    try:
        resource.setrlimit(resource.RLIMIT_STACK, (resource.RLIM_INFINITY, resource.RLIM_INFINITY))
    except (ValueError, OSError):
        try:
            soft, hard = resource.getrlimit(resource.RLIMIT_STACK)
            resource.setrlimit(resource.RLIMIT_STACK, (hard, hard))
        except (ValueError, OSError):
            pass


TIMEOUT = -999          # not a possible exit status (124 is: a program may exit with 124)


def _run(cmd, cwd, input=None, timeout=120, big_stack=False):
    try:
        p = subprocess.run(cmd, cwd=cwd, input=input, stdout=subprocess.PIPE, stderr=subprocess.PIPE, timeout=timeout,
                           preexec_fn=_big_stack if big_stack else None)
        return p.returncode, p.stdout, p.stderr
    except subprocess.TimeoutExpired as ex:
        return TIMEOUT, ex.stdout or b'', ex.stderr or b''


def parse_out(s):
    """'0:104,0:105' -> [(0,104),(0,105)]"""
    if not s:
        return []
    return [tuple(int(v) for v in x.split(':')) for x in s.split(',')]


def run_xsem(hv, sxfile, inputs, steps=None, depth=None, timeout=300):
    """-> list of dicts {'kind': 'behaviour', exit, consumed, out} | {'kind': 'undef', 'reason', 'detail'}; None if the engine failed"""
    cmd = [hv, 'xsem', sxfile]
    if steps is not None:
        cmd += [str(steps), str(depth if depth is not None else 2000)]
    rc, out, err = _run(cmd, os.path.dirname(sxfile), ('\n'.join(hexline(i) for i in inputs) + '\n').encode(), timeout, big_stack=True)
    lines = out.decode().strip().split('\n') if out.strip() else []
    if rc != 0 or len(lines) != len(inputs):
        return None, 'xsem rc=%d %s %s' % (rc, out[-200:], err[-300:])
    res = []
    for l in lines:
        if l.startswith('behaviour '):
            f = dict(x.split('=', 1) for x in l.split()[1:])
            res.append({'kind': 'behaviour', 'exit': int(f['exit']), 'consumed': int(f['consumed']), 'out': parse_out(f.get('out', ''))})
        else:
            w = l.split(' ', 2)
            res.append({'kind': 'undef', 'reason': w[1], 'detail': w[2] if len(w) > 2 else ''})
    return res, ''


def run_xsemtrace(hv, sxfile, inputs, steps=None, depth=None, timeout=300):
    """the spec run with its call sequence (hvmain xsemtrace): -> list of (calls [names], result dict as run_xsem)"""
    cmd = [hv, 'xsemtrace', sxfile]
    if steps is not None:
        cmd += [str(steps), str(depth if depth is not None else 2000)]
    rc, out, err = _run(cmd, os.path.dirname(sxfile), ('\n'.join(hexline(i) for i in inputs) + '\n').encode(), timeout, big_stack=True)
    lines = out.decode().strip().split('\n') if out.strip() else []
    if rc != 0 or len(lines) != len(inputs):
        return None, 'xsemtrace rc=%d %s %s' % (rc, out[-200:], err[-300:])
    res = []
    for l in lines:
        left, right = l.split(' | ', 1)
        calls = [c for c in left[len('calls '):].split(',') if c]
        if right.startswith('behaviour '):
            f = dict(x.split('=', 1) for x in right.split()[1:])
            r = {'kind': 'behaviour', 'exit': int(f['exit']), 'consumed': int(f['consumed']), 'out': parse_out(f.get('out', ''))}
        else:
            w = right.split(' ', 2)
            r = {'kind': 'undef', 'reason': w[1], 'detail': w[2] if len(w) > 2 else ''}
        res.append((calls, r))
    return res, ''


def run_isa(hv, binfile, inputs, maxsteps, layout=None, timeout=900):
    """-> list of dicts {end, code, steps, consumed, minsp, out, mon}"""
    cmd = [hv, 'xisa', binfile, str(maxsteps)]
    if layout is not None:
        cmd += [str(layout['data_lo']), str(layout['data_hi']), str(layout['exit_pc'])]
    rc, out, err = _run(cmd, os.path.dirname(binfile), ('\n'.join(hexline(i) for i in inputs) + '\n').encode(), timeout)
    lines = out.decode().strip().split('\n') if out.strip() else []
    if rc != 0 or len(lines) != len(inputs):
        return None, 'xisa rc=%d %s %s' % (rc, out[-200:], err[-300:])
    res = []
    for l in lines:
        left, mon = l.split(' | MON ')
        w = left.split()
        f = dict(x.split('=', 1) for x in w[2:])
        res.append({'end': w[1], 'code': int(f['code']), 'steps': int(f['steps']), 'consumed': int(f['consumed']),
                    'minsp': int(f['minsp']), 'out': parse_out(f.get('out', '')), 'mon': mon})
    return res, ''


MEMORY_WORDS = 200000


def capacity_rejection_is_right(xcmp, d, name, timeout=60):
    """xcmp says the program does not fit in memory.  Independent check: array lengths do not influence the code, so
    the same program with every (literal) array length replaced by 1 compiles to an image of the same number of words;
    the rejection is right iff that image + the declared array cells + the 3 words reserved above the stack pointer
    exceed the 200000-word memory.  Anything else (a non-literal length, the shrunk program rejected too) is not
    accepted as a capacity rejection."""
    try:
        src = open(os.path.join(d, name), 'rb').read().decode('latin-1')
    except OSError:
        return False
    decls = re.findall(r'\barray\s+\w+\s*\[\s*([^\]]*?)\s*\]', src)
    if not decls or not all(re.fullmatch(r'\d+', x) for x in decls):
        return False
    cells = sum(int(x) for x in decls)
    shrunk = re.sub(r'(\barray\s+\w+\s*\[)\s*\d+\s*(\])', r'\g<1>1\2', src)
    sd = os.path.join(d, 'capacity_probe')
    os.makedirs(sd, exist_ok=True)
    open(os.path.join(sd, 'p.x'), 'wb').write(shrunk.encode('latin-1'))
    rc, out, err = _run([xcmp, 'p.x'], sd, timeout=timeout)
    aout = os.path.join(sd, 'a.out')
    if rc != 0 or not os.path.exists(aout):
        return False
    words = int.from_bytes(open(aout, 'rb').read(4), 'little')
    return words + cells + 3 > MEMORY_WORDS


def compile_x(xcmp, d, name='prog.x', timeout=60):
    """run the real xcmp in the private directory d; -> (status, detail) status in ok crash diagnostic timeout nofile"""
    aout = os.path.join(d, 'a.out')
    if os.path.exists(aout):
        os.remove(aout)
    rc, out, err = _run([xcmp, name], d, timeout=timeout)
    if rc == TIMEOUT:
        return 'timeout', 'xcmp did not finish in %ds' % timeout
    if rc < 0:
        return 'crash', 'xcmp killed by signal %d %s' % (-rc, err[-200:].decode('latin-1'))
    if rc != 0:
        text = (out + err)[-300:].decode('latin-1')
        if 'not fit in memory' in text and capacity_rejection_is_right(xcmp, d, name, timeout):
            return 'capacity', 'xcmp rc=%d %s (checked: image + global arrays + reserved words exceed the memory)' % (rc, text)
        return 'diagnostic', 'xcmp rc=%d %s' % (rc, text)
    if not os.path.exists(aout):
        return 'nofile', 'xcmp rc=0 but wrote no a.out'
    return 'ok', ''


def listing_layout(xcmp, d, name='prog.x', timeout=60):
    """word range of the DATA directives and the byte address of _exit from the assembly listing `xcmp -S`"""
    rc, out, err = _run([xcmp, name, '-S'], d, timeout=timeout)
    if rc != 0:
        return None
    data = []
    exit_pc = None
    start = None
    for line in out.decode('latin-1').split('\n'):
        m = re.match(r'^(?:0x)?([0-9a-fA-F]+)\s+(\S+)(?:\s+(\S+))?', line)
        if not m:
            continue
        off = int(m.group(1), 16)
        if m.group(2) == 'DATA':
            data.append(off)
        elif m.group(2) == '_exit' and exit_pc is None:
            exit_pc = off
        elif m.group(2) in ('start', '_start') and start is None and (m.group(3) or '').startswith('('):
            start = off
    if not data or exit_pc is None or any(o % 4 for o in data):
        return None
    ws = sorted(o // 4 for o in data)
    if ws != list(range(ws[0], ws[0] + len(ws))):
        return None
    return {'data_lo': ws[0], 'data_hi': ws[-1] + 1, 'exit_pc': exit_pc, 'start': start}


def run_hexsim(hexsim, binfile, inp, maxcycles=20000000, timeout=120):
    rc, out, err = _run([hexsim, binfile, '--max-cycles', str(maxcycles)], os.path.dirname(binfile), bytes(inp), timeout)
    return rc, out, err


def console_bytes(out):
    """bytes written to the console among (stream, byte) pairs: stream < 256 as a signed 32-bit int"""
    def signed(v):
        return v - (1 << 32) if v >= (1 << 31) else v
    return bytes(b for st, b in out if signed(st) < 256)


def evaluate(tools, d, prog, inputs, steps=20000, depth=300, maxisa=3000000, want_monitor=False, want_hexsim=True,
             xtext=None):
    """the whole pipeline for one program in the private directory d.
    -> dict(spec=[...], status=..., findings=[(kind, input_index, what)], undef={reason: n}, isa=[...])
    findings only concern inputs on which the spec says Behaviour."""
    r = {'spec': None, 'findings': [], 'undef': {}, 'welldef': 0, 'isa': None, 'layout': None, 'broken': None}
    sx = os.path.join(d, 'prog.sx')
    open(sx, 'w').write(to_sx(prog))
    open(os.path.join(d, 'prog.x'), 'wb').write(xtext if xtext is not None else to_x(prog))
    spec, msg = run_xsem(tools.hv, sx, inputs, steps, depth)
    if spec is None:
        r['broken'] = msg
        return r
    r['spec'] = spec
    good = [i for i, s in enumerate(spec) if s['kind'] == 'behaviour']
    for s in spec:
        if s['kind'] == 'undef':
            r['undef'][s['reason']] = r['undef'].get(s['reason'], 0) + 1
    r['welldef'] = len(good)
    if not good:
        return r
    status, detail = compile_x(tools.xcmp, d)
    r['status'] = status
    if status == 'capacity':
        r['capacity_rejected'] = detail       # the program does not fit the machine: rejected, rightly (checked); nothing to run
        return r
    if status != 'ok':
        r['findings'].append(('compile-' + status, good[0], detail))
        return r
    layout = None
    if want_monitor:
        layout = listing_layout(tools.xcmp, d)
        r['layout'] = layout
        if layout is None:
            r['findings'].append(('no-listing', good[0], 'xcmp -S gave no usable listing for a program it compiles'))
    binf = os.path.join(d, 'a.out')
    isa, msg = run_isa(tools.hv, binf, [inputs[i] for i in good], maxisa, layout)
    if isa is None:
        r['broken'] = msg
        return r
    r['isa'] = isa
    for k, i in enumerate(good):
        s, m = spec[i], isa[k]
        if m['end'] != 'exit':
            r['findings'].append(('isa-' + m['end'].split(':')[0] + ('-' + m['end'].split(':')[1] if ':' in m['end'] else ''), i,
                                  'the binary does not reach exit on the ISA: %s after %d instructions; spec: exit=%d out=%r'
                                  % (m['end'], m['steps'], s['exit'], s['out'][:8])))
        elif m['code'] != s['exit'] or m['out'] != s['out'] or m['consumed'] != s['consumed']:
            what = []
            if m['out'] != s['out']:
                what.append('output %r, spec %r' % (m['out'][:12], s['out'][:12]))
            if m['consumed'] != s['consumed']:
                what.append('consumed %d input bytes, spec %d' % (m['consumed'], s['consumed']))
            if m['code'] != s['exit']:
                what.append('exit value %d, spec %d' % (m['code'], s['exit']))
            r['findings'].append(('isa-mismatch', i, '; '.join(what)))
        if want_monitor and layout is not None and m['mon'] != 'ok':
            r['findings'].append(('monitor', i, m['mon']))
    if want_hexsim:
        for k, i in enumerate(good):
            s = spec[i]
            rc, out, err = run_hexsim(tools.hexsim, binf, inputs[i])
            if rc == TIMEOUT:
                r['findings'].append(('hexsim-timeout', i, 'hexsim did not finish'))
            elif rc < 0:
                r['findings'].append(('hexsim-crash', i, 'hexsim killed by signal %d' % -rc))
            elif rc != (s['exit'] & 0xff) or out != console_bytes(s['out']):
                r['findings'].append(('hexsim-mismatch', i, 'hexsim rc=%d stdout=%r; spec exit=%d (mod 256 = %d) console=%r'
                                      % (rc, out[:24], s['exit'], s['exit'] & 0xff, console_bytes(s['out'])[:24])))
    return r
