#!/usr/bin/env python3
"""C02 -- hexsim executes every instruction exactly as the Hex ISA defines.
proof: Properties_C02.v (SimModel refines Isa for all states / all runs).
tie:   SimModel.step (extracted) vs the real hexsim::Processor through the HEX_VERIF hook, on planted states
       (all 256 bytes x corner/random states) and whole runs; direct oracle: real code vs Isa.step (extracted)."""
import os, sys, glob
sys.path.insert(0, os.path.dirname(os.path.abspath(__file__)))
import vlib
from vlib import Check, sh, run3

W = 1 << 32
MEMW = 200000
CORNERS = [0, 1, 2, 3, 4, 15, 16, 17, 255, 256, 0x7fffffff, 0x80000000, 0xffffffff, 0xfffffff0, 0xffffff00, MEMW - 1, MEMW - 2]


def gen_case(rng, byte):
    """a planted state whose fetched byte is `byte`; effective addresses are mostly kept inside memory"""
    def val():
        r = rng.random()
        if r < 0.35:
            return rng.choice(CORNERS)
        if r < 0.6:
            return rng.randrange(0, 64)
        if r < 0.8:
            return rng.randrange(0, MEMW)
        return rng.randrange(0, W)
    pc = rng.choice([0, 1, 2, 3, 4, 5, 6, 7, 4 * (MEMW - 1), 4 * (MEMW - 1) + 3, 4 * rng.randrange(0, MEMW) + rng.randrange(4)])
    opc, nib = byte >> 4, byte & 15
    # oreg: a prefix-chain shaped value (multiple of 16) most of the time
    r = rng.random()
    if r < 0.4:
        oreg = 0
    elif r < 0.8:
        oreg = (rng.choice([1, 2, 15, 16, 255, 0xffffff0, 0xfffffff, rng.randrange(0, 1 << 28)]) << 4) & 0xffffffff
    else:
        oreg = val()
    if opc == 13 and rng.random() < 0.85:
        oreg = 0
    a, b = val(), val()
    o = oreg | nib
    # steer memory operands inside memory for loads/stores
    if opc in (0, 1, 2) and o >= MEMW and rng.random() < 0.9:
        oreg = (rng.randrange(0, MEMW) & ~15) & 0xffffffff
        o = oreg | nib
    if opc == 6 and (a + o) % W >= MEMW and rng.random() < 0.9:
        a = (rng.randrange(0, MEMW) - o) % W
    if opc in (7, 8) and (b + o) % W >= MEMW and rng.random() < 0.9:
        b = (rng.randrange(0, MEMW) - o) % W
    cells = {}
    word = rng.randrange(0, W)
    sh_ = 8 * (pc & 3)
    word = (word & ~(0xff << sh_)) | (byte << sh_)
    cells[pc >> 2] = word
    cons, files = [], []
    if opc == 13 and o == 3:
        # system call: choose areg, sp and argument slots
        a = rng.choice([0, 1, 2, 0, 1, 2, 3, 4, 0xffffffff]) if rng.random() < 0.9 else val()
        sp = rng.choice([10, 100, MEMW - 4, MEMW - 5, rng.randrange(2, MEMW - 4), rng.randrange(2, MEMW - 4), rng.randrange(2, MEMW - 4),
                         rng.choice([0, 1, W - 1, W - 2, W - 3])])      # argument slots that wrap around 2^32 / fall on words 0 and 1
        if (pc >> 2) != 1:
            cells[1] = sp
        else:
            sp = cells[1]
        streams = [0, 1, 255, 256, 257, 512, 1024, 2047, 0x700, 0xffffffff, 0x80000000, 0x7fffffff, 0x80000100, rng.randrange(0, W)]
        for k in (1, 2, 3):
            ad = (sp + k) % W
            if ad < MEMW and ad != (pc >> 2) and ad != 1:
                cells[ad] = rng.choice(streams + [rng.randrange(0, 256), rng.randrange(0, W)])
        n = rng.choice([0, 1, 2, 5])
        cons = [rng.randrange(0, 256) for _ in range(n)]
        idxs = set(rng.sample(range(8), rng.choice([0, 1, 2])))
        st = cells.get((sp + 2) % W, 0)
        if rng.random() < 0.8:
            idxs.add((st >> 8) & 7)          # the file the stream word routes to, if it is not the console
        for idx in sorted(idxs):
            files.append((idx, [rng.randrange(0, 256) for _ in range(rng.choice([0, 1, 3]))]))
    # some surrounding memory content for loads
    for _ in range(rng.choice([0, 1, 2])):
        ad = rng.choice([o % W, (a + o) % W, (b + o) % W, rng.randrange(0, MEMW)])
        if ad < MEMW and ad not in cells:
            cells[ad] = val()
    return (pc, a, b, oreg, sorted(cells.items()), cons, files)


def gen_selfmod(rng):
    """k-instruction sequence whose first instruction overwrites the very word it is fetched from (or the next one):
    STAM / STAI / the READ system call storing into code; the following bytes differ between old and new word"""
    SAFE = [0x35, 0x47, 0xD1, 0xD2, 0x31, 0x42, 0x3F, 0x40, 0x51, 0xE1, 0xE2]      # LDAC/LDBC/ADD/SUB/LDAP/PFIX bytes
    w = rng.choice([2, 3, 5, 8, 100, 1000, rng.randrange(2, 5000)])
    off = rng.choice([0, 0, 1, 2])
    pc = 4 * w + off
    kind = rng.choice(['stam', 'stai', 'read', 'read'])
    target = w if rng.random() < 0.8 or off == 3 else w + 1
    old = [rng.choice(SAFE) for _ in range(8)]
    new = [rng.choice(SAFE) for _ in range(4)]
    cells = {}
    cons, files = [], []
    a, b, oreg = rng.randrange(0, 1000), rng.randrange(0, 1000), 0
    if kind == 'stam':
        n = target & 15
        oreg = target & ~15
        old[off] = 0x20 | n
        a = new[0] | new[1] << 8 | new[2] << 16 | new[3] << 24
    elif kind == 'stai':
        n = rng.randrange(16)
        old[off] = 0x80 | n
        b = (target - n) % W
        a = new[0] | new[1] << 8 | new[2] << 16 | new[3] << 24
    else:
        old[off] = 0xD3
        a = 2
        sp = (target - 1) % W
        cells[1] = sp
        st_ad = (sp + 2) % W
        if st_ad == w or st_ad >= MEMW or st_ad == 1:
            return None
        if st_ad == w + 1:
            old[4:8] = [0, 0, 0, 0]          # the stream word (0 = console) is the next code word
        else:
            cells[st_ad] = 0
        cons = [rng.choice(SAFE + [0x11, 0x21, 0x91])]
    if 1 in (w, w + 1):
        return None
    cells[w] = old[0] | old[1] << 8 | old[2] << 16 | old[3] << 24
    cells[w + 1] = old[4] | old[5] << 8 | old[6] << 16 | old[7] << 24
    k = rng.choice([2, 3, 4, 5])
    return 'k%d ' % k + case_line((pc, a, b, oreg, sorted(cells.items()), cons, files))


def gen_io_sequence(rng):
    """two READ system calls in one short run, the stream word rewritten in between: same stream twice (the file
    position must persist) or two stream numbers that name the same file (index (s >> 8) & 7 is shared)"""
    base = rng.choice([8, 12, 100, 4000])
    spw = rng.choice([40, 50, 200, 3000])           # mem[1] = sp ; slots sp+1 (result), sp+2 (stream)
    if abs(spw - base // 4) < 8:
        return None
    idx = rng.randrange(1, 8)
    s1 = idx << 8 | rng.randrange(0, 256)
    s2 = rng.choice([s1, (idx + 8) << 8, (idx + 8 * rng.randrange(1, 9)) << 8 | rng.randrange(256), idx << 8])
    def enc_(opc, v):
        nibs = []
        x = v
        while True:
            nibs.append(x & 15)
            x >>= 4
            if not x:
                break
        return [0xE0 | n for n in reversed(nibs[1:])] + [opc << 4 | nibs[0]]
    code = [0xD3] + enc_(3, s2) + enc_(2, spw + 2) + enc_(3, 2) + [0xD3]
    k = len(code) - sum(1 for b in code if False)
    steps = len(code)
    pc = base
    cells = {}
    for i, b in enumerate(code):
        w = (pc + i) >> 2
        cells[w] = cells.get(w, 0) | (b << (8 * ((pc + i) & 3)))
    cells[1] = spw
    cells[spw + 2] = s1
    data = [rng.randrange(1, 255) for _ in range(rng.choice([0, 1, 2, 3]))]
    files = [(idx, data)]
    return 'k%d ' % steps + case_line((pc, 2, rng.randrange(100), 0, sorted(cells.items()), [rng.randrange(256)], files))


def enc_op(opc, v):
    """prefix encoding of an operand (python, independent of hexasm)"""
    v &= 0xffffffff
    sv = v - (1 << 32) if v >= 1 << 31 else v
    if 0 <= sv < 16:
        return bytes([opc << 4 | sv])
    if sv >= 0:
        nibs = []
        x = sv
        while x:
            nibs.append(x & 15)
            x >>= 4
        return bytes([0xE0 | n for n in reversed(nibs[1:])] + [opc << 4 | nibs[0]])
    n = 2
    while sv < -(16 ** n):
        n += 1
    ns = [(sv >> (4 * i)) & 15 for i in range(n)]
    return bytes([0xF0 | ns[-1]] + [0xE0 | x for x in reversed(ns[1:-1])] + [opc << 4 | ns[0]])


IO_STREAMS = [0, 5, 255, 256, 300, 511, 512, 0x700, 0x900, 0x1100, 0xA00, 0xffffffff, 0x80000100, 0x7fffff00]


def gen_io_program(rng, mixed):
    """a program that writes to and reads from console and file streams in a generated order, echoes every byte it
    reads to the console and exits with the last one.  mixed=False keeps every file index in one direction (the ISA's
    independent input/output files and the device agree); mixed=True uses indices in both directions (device model)."""
    sp = 150000
    code = bytearray()
    nops = rng.randint(2, 14)
    direction = {}
    ops = []
    for _ in range(nops):
        stream = rng.choice(IO_STREAMS)
        w = rng.random() < 0.5
        sint = stream - (1 << 32) if stream >= 1 << 31 else stream
        if sint >= 256:
            k = (sint >> 8) & 7
            if not mixed:
                w = direction.setdefault(k, w)
        ops.append(('w', rng.randrange(256), stream) if w else ('r', stream))
    for op in ops:
        if op[0] == 'w':
            code += enc_op(3, op[1]) + enc_op(1, 1) + enc_op(8, 2) + enc_op(3, op[2]) + enc_op(8, 3) + enc_op(3, 1) + bytes([0xD3])
        else:
            code += enc_op(3, op[1]) + enc_op(1, 1) + enc_op(8, 2) + enc_op(3, 2) + bytes([0xD3])
            code += enc_op(0, sp + 1) + enc_op(1, 1) + enc_op(8, 2) + enc_op(3, 0) + enc_op(8, 3) + enc_op(3, 1) + bytes([0xD3])   # echo to the console
    code += enc_op(0, sp + 1) + enc_op(1, 1) + enc_op(8, 2) + enc_op(3, 0) + bytes([0xD3])
    b = bytearray([0x97, 0, 0, 0]) + sp.to_bytes(4, 'little') + code
    while len(b) % 4:
        b.append(0)
    files = {k: bytes(rng.randrange(256) for _ in range(rng.choice([0, 1, 2, 5]))) for k in range(8) if rng.random() < 0.7}
    return (len(b) // 4).to_bytes(4, 'little') + bytes(b), files, ops


def case_line(c):
    pc, a, b, o, cells, cons, files = c
    t = [pc, a, b, o, len(cells)]
    for ad, v in cells:
        t += [ad, v]
    t.append(len(cons))
    t += cons
    t.append(len(files))
    for idx, bs in files:
        t += [idx, len(bs)] + bs
    return ' '.join(str(x) for x in t)


INTROSPECT = [True]


def strip_read(s):
    """the harness cannot name a read event's source; compare reads through W/cons/file positions"""
    import re
    s = re.sub(r'\| read \d+ (console|file\d) \|', '| tau |', s)
    if not INTROSPECT[0]:
        s = re.sub(r' f\d=\d+', '', s)
    return s


def replay_whole(ck, r, hv, har, d):
    """replay of a finding that is a whole binary: an I/O program (binary_hex, simin, console) against the device model,
    or a kept binary + input against the ISA run"""
    if 'binary_hex' in r and 'simin' in r:
        dd = os.path.join(d, 'replay_io')
        os.makedirs(dd)
        open(os.path.join(dd, 'p.bin'), 'wb').write(bytes.fromhex(r['binary_hex']))
        for fk, content in r['simin'].items():
            open(os.path.join(dd, 'simin%s' % fk), 'wb').write(bytes(content))
        cons = bytes(r.get('console', []))
        hexsim_exe, lg = vlib.repo_tool('hexsim')
        rcm, om, em = run3([hv, 'c02iorun', 'p.bin', '100000'], cwd=dd, input=cons, timeout=120)
        mod = om.decode().strip().split('\n')
        want_rc = int(dict(x.split('=') for x in mod[0].split()[2:])['rc']) & 0xff
        want_out = bytes(int(x) for x in mod[1].split()[2:])
        want_files = {int(l.split()[1]): bytes(int(x) for x in l.split()[2:]) for l in mod if l.startswith('FILE ')}
        rcr, orr, er = run3([hexsim_exe, 'p.bin'], cwd=dd, input=cons, timeout=60)
        got_files = {fk: open(os.path.join(dd, 'simout%d' % fk), 'rb').read() for fk in range(8)
                     if os.path.exists(os.path.join(dd, 'simout%d' % fk)) and os.path.getsize(os.path.join(dd, 'simout%d' % fk))}
        ck.cov['evaluations'] += 1
        if rcr != want_rc or orr != want_out or got_files != want_files:
            ck.violation('hexsim on the replayed I/O program: status %d console %r files %s; the device model gives status %d console %r files %s'
                         % (rcr, orr[:30], got_files, want_rc, want_out[:30], want_files), dict(r), tags={'kind': 'io-program'})
    elif 'binary' in r and os.path.exists(r['binary']):
        ip = os.path.join(d, 'in.bin')
        open(ip, 'wb').write(bytes(r.get('input', [])))
        rc1, o1, e1 = run3([hv, 'c02run', r['binary'], '200000'], cwd=d, stdin=open(ip, 'rb'), timeout=600)
        rc2, o2, e2 = run3([har, 'run', r['binary'], '200010', '0', '0', '0'], cwd=d, stdin=open(ip, 'rb'), timeout=600)
        isa, real = o1.decode().strip().split('\n'), o2.decode().strip().split('\n')
        ck.cov['evaluations'] += 1
        if isa[0].split()[1] == 'exit' and real[:4] != isa[:4]:
            ck.violation('whole run of hexsim leaves the ISA trace: isa [%s] impl [%s]' % (isa[0], real[0] if real else rc2), dict(r), tags={'kind': 'run'})
    else:
        ck.broken.append('this replay file names neither a step case, an I/O program nor an existing binary')
    ck.cov['rule'] = 'replay of one recorded finding'
    ck.finish()


def main():
    ck = Check('C02')
    ck.cov['trusted_base'] = ['Coq 8.16.1 kernel + VM (vm_compute)', 'Isa.v as a reading of hexb.pdf (spec)',
                              'SimModel.v hand model of hexsim.hpp and SimIO.v hand model of hexsimio.hpp (one stream per file index, bound at first use), both tied by this correspondence run',
                              'Loader.v hand model of Processor::load (the image the whole runs start from)',
                              'ExtrOcamlBasic extraction + OCaml 4.13 driver ocaml/c02drv.ml', 'harness/sim_harness.cpp, g++ 12']
    ck.assumptions = ['effective word addresses < 200000 (C02 quantifier); out-of-range cases are generated, counted, not judged',
                      'SimModel models tracing-off runs; -t is C12/C15',
                      'the ISA gives every file index independent input and output files; hexsim binds an index to one direction at first use: the whole-run sentence is proved for the device on runs that use each index in one direction (C02_io_single_direction_partial), refuted otherwise (C02_io_mixed_refuted); mixed-direction programs are compared with the device model']
    ok = ck.proofs()
    ck.log('proofs', 'ok' if ok else 'BROKEN')
    hv, log = vlib.ocaml_build()
    if hv is None:
        ck.broken.append('extraction/OCaml build failed: ' + log[-400:])
        ck.finish()
    har, log = vlib.cxx_build('sim_harness', [os.path.join(vlib.ROOT, 'harness', 'sim_harness.cpp'), os.path.join(vlib.REPO, 'hex.cpp')],
                              '-O1 -g -D' + vlib.GUARD)
    introspect = True
    if har is None:
        # HexSimIO's private members may have been refactored: fall back to a harness that does not look at stream-file
        # positions (reads are still judged through the value stored and through later reads in k-step sequences)
        har, log = vlib.cxx_build('sim_harness_noio', [os.path.join(vlib.ROOT, 'harness', 'sim_harness.cpp'), os.path.join(vlib.REPO, 'hex.cpp')],
                                  '-O1 -g -DNO_IO_INTROSPECTION -D' + vlib.GUARD)
        introspect = False
    if har is None:
        ck.broken.append('sim_harness does not build against the working tree: ' + log[-600:])
        ck.finish()
    INTROSPECT[0] = introspect
    d = vlib.scratch()
    rng = ck.rng
    per_byte = 60 if not ck.thorough() else 1500
    # ---- corpus first
    cases = []
    corp = os.path.join(vlib.ROOT, 'corpus', 'C02', 'steps.txt')
    if os.path.exists(corp):
        cases += [l.strip() for l in open(corp) if l.strip() and not l.startswith('#')]
    ncorpus = len(cases)
    if ck.replay_arg:
        import json
        rj = json.load(open(ck.replay_arg))
        if 'case' in rj:
            cases = [rj['case']]
            ncorpus = 1
        else:
            replay_whole(ck, rj, hv, har, d)        # a whole-run or I/O-program finding: judged on its own, then finish
    else:
        for byte in range(256):
            for _ in range(per_byte if byte != 0xD3 else per_byte * 40):
                cases.append(case_line(gen_case(rng, byte)))
    if not ck.replay_arg:
        nself = 1500 if not ck.thorough() else 60000
        for _ in range(nself):
            c = gen_selfmod(rng)
            if c:
                cases.append(c)
        for _ in range(nself // 3):
            c = gen_io_sequence(rng)
            if c:
                cases.append(c)
    open(os.path.join(d, 'cases.txt'), 'w').write('\n'.join(cases) + '\n')
    rc, out = sh('%s c02step < cases.txt > model.txt' % hv, cwd=d, timeout=1800)
    lines = open(os.path.join(d, 'model.txt')).read().split('\n')
    I = [l[2:] for l in lines if l.startswith('I ')]
    M = [l[2:] for l in lines if l.startswith('M ')]
    if rc != 0 or len(I) != len(cases) or len(M) != len(cases):
        ck.broken.append('extracted model run failed rc=%d (%d/%d lines) %s' % (rc, len(I), len(cases), out[-300:]))
        ck.finish()
    dist = {'defined': 0, 'illegal': 0, 'badaddr_not_judged': 0}
    byop = {}
    send = []
    for i, c in enumerate(cases):
        if I[i] == 'badaddr':
            dist['badaddr_not_judged'] += 1
            continue
        dist['illegal' if I[i] == 'illegal' else 'defined'] += 1
        if I[i] != M[i]:
            ck.violation('model SimModel.step disagrees with Isa.step although C02_step_refines_isa is proved (model/extraction fault)',
                         {'case': c, 'isa': I[i], 'model': M[i]}, no_input=False, tags={'kind': 'model-vs-isa'})
        send.append(i)
    open(os.path.join(d, 'send.txt'), 'w').write('\n'.join(cases[i] for i in send) + '\n')
    rc, out = sh('%s step < send.txt > real.txt' % har, cwd=d, timeout=1800)
    R = [l[2:] for l in open(os.path.join(d, 'real.txt')).read().split('\n') if l.startswith('R ')]
    if rc != 0 or len(R) != len(send):
        ck.violation('real hexsim crashed or stopped on a planted state (rc=%d, %d/%d results)' % (rc, len(R), len(send)),
                     {'case': cases[send[len(R)]] if len(R) < len(send) else None, 'log': out[-400:]}, tags={'kind': 'crash'})
        ck.finish()
    distinct = set()
    nviol = 0
    for j, i in enumerate(send):
        exp = strip_read(I[i])
        got = R[j]
        toks = [t for t in cases[i].split() if not t.startswith('k')]
        distinct.add((I[i].split('|')[0], cases[i].split()[0:4] and tuple(toks[1:4])))
        if exp != got:
            nviol += 1
            if nviol <= 3:
                ck.violation('hexsim step differs from the ISA successor: expected [%s] got [%s]' % (exp, got),
                             {'case': cases[i], 'isa': I[i], 'impl': got, 'model': M[i],
                              'replay_cmd': './check C02 --replay <this file>'}, tags={'kind': 'step'})
        elif j % 4001 == 0:
            ck.sample({'case': cases[i], 'isa_successor': I[i], 'impl': got})
    ck.cov['evaluations'] += len(cases)
    ck.log('step cases: %d (%s), %d sent to the real simulator, %d differences' % (len(cases), dist, len(send), nviol))
    # ---- whole runs: shipped programs + random instruction sequences
    runs = 0
    rundiff = 0
    if not ck.replay_arg:
        xcmp, _ = vlib.repo_tool('xcmp')
        hexasm, _ = vlib.repo_tool('hexasm')
        if not xcmp or not hexasm:
            ck.broken.append('xcmp/hexasm do not build from the working tree: the whole-run comparison has no toolchain binaries')
        bins = []
        for src in sorted(glob.glob(os.path.join(vlib.REPO, 'tests', 'x', '*.x'))):
            if xcmp:
                o = os.path.join(d, os.path.basename(src) + '.bin')
                rcx, _, _ = run3([xcmp, src], cwd=d, timeout=60)
                if rcx == 0 and os.path.exists(os.path.join(d, 'a.out')):
                    os.rename(os.path.join(d, 'a.out'), o)
                    bins.append(o)
        for src in sorted(glob.glob(os.path.join(vlib.REPO, 'tests', 'asm', '*.S'))):
            if hexasm:
                o = os.path.join(d, os.path.basename(src) + '.bin')
                rcx, _, _ = run3([hexasm, src, '-o', o], cwd=d, timeout=60)
                if rcx == 0 and os.path.exists(o):
                    bins.append(o)
        # random byte images (defined bytes only, short), exercising prefix chains and branches
        nrand = 30 if not ck.thorough() else 600
        for k in range(nrand):
            n = rng.randrange(8, 200)
            img = bytearray()
            for _ in range(n):
                r = rng.random()
                if r < 0.3:
                    img.append(rng.choice([0xE0, 0xF0]) | rng.randrange(16))
                elif r < 0.9:
                    img.append((rng.choice([3, 4, 5, 9, 10, 11, 3, 4]) << 4) | rng.randrange(16))
                else:
                    img.append(0xD0 | rng.choice([1, 2]))
            while len(img) % 4:
                img.append(0xD1)
            o = os.path.join(d, 'rand%d.bin' % k)
            open(o, 'wb').write((len(img) // 4).to_bytes(4, 'little') + bytes(img))
            bins.append(o)
        inputs = [b'', b'hello world\n', bytes(range(256))]
        maxsteps = 200000 if not ck.thorough() else 2000000
        for b in bins:
            for inp in (inputs if 'rand' not in b else inputs[:1]):
                ip = os.path.join(d, 'in.bin')
                open(ip, 'wb').write(inp)
                rc1, o1, e1 = run3([hv, 'c02run', b, str(maxsteps)], cwd=d, stdin=open(ip, 'rb'), timeout=600)
                isa = o1.decode().strip().split('\n')
                if rc1 != 0 or not isa or not isa[0].startswith('END'):
                    ck.broken.append('extracted ISA run failed on %s: %s' % (b, (o1 + e1)[-200:]))
                    continue
                if any(l.startswith('MODELDIFF') for l in isa):
                    ck.violation('SimModel.step left the ISA trace in a whole run although C02_run_is_isa_trace is proved', {'binary': os.path.basename(b), 'isa': isa}, tags={'kind': 'model-vs-isa'})
                f = dict(x.split('=') for x in isa[0].split()[2:])
                end = isa[0].split()[1]
                steps = int(f['steps'])
                lim = steps if end in ('badaddr', 'cut') else maxsteps + 10
                if steps == 0:
                    continue
                rc2, o2, e2 = run3([har, 'run', b, str(lim), '0', '0', '0'], cwd=d, stdin=open(ip, 'rb'), timeout=600)
                real = o2.decode().strip().split('\n')
                runs += 1
                ck.cov['evaluations'] += 1
                if rc2 != 0 or not real or not real[0].startswith('END'):
                    ck.violation('real hexsim failed on a whole run rc=%d' % rc2, {'binary': os.path.basename(b), 'stderr': e2.decode()[-300:]}, tags={'kind': 'run-crash'})
                    continue
                if end in ('badaddr', 'cut'):
                    # compare the common prefix only: state digest after `steps` instructions
                    same = real[0].replace('END cut', 'END x').split(' rc=')[1].split(' ', 1)[1] == isa[0].split(' rc=')[1].split(' ', 1)[1]
                    same = same and real[1] == isa[1]
                elif end == 'throw':
                    # an illegal byte: the state after the exception is not architectural; compare what was executed before it
                    same = real[0].split(' pc=')[0] == isa[0].split(' pc=')[0] and real[1:4] == isa[1:4]
                else:
                    same = real[:4] == isa[:4]
                if not same:
                    rundiff += 1
                    keep = os.path.join(vlib.REPLAYS, 'C02')
                    os.makedirs(keep, exist_ok=True)
                    import shutil
                    kb = os.path.join(keep, 'run-%d-%s' % (int(ck.t0), os.path.basename(b)))
                    shutil.copy(b, kb)
                    ck.violation('whole run of hexsim leaves the ISA trace: isa [%s] impl [%s]' % (isa[0], real[0]),
                                 {'binary': kb, 'input': list(inp), 'isa': isa, 'impl': real}, tags={'kind': 'run'})
                elif runs % 17 == 1:
                    ck.sample({'binary': os.path.basename(b), 'input_len': len(inp), 'isa_end': isa[0]})
    # ---- I/O programs against the device model (SimIO.v) and, where every index keeps one direction, the ISA as well
    hexsim_exe, lg = vlib.repo_tool('hexsim')
    nio = 0
    if hexsim_exe is None:
        ck.broken.append('hexsim does not build from the working tree: ' + lg[-300:])
    elif not ck.replay_arg:
        for k in range(60 if not ck.thorough() else 3000):
            mixed = k % 2 == 1
            binary, files, ops = gen_io_program(rng, mixed)
            dd = os.path.join(d, 'io%d' % k)
            os.makedirs(dd)
            open(os.path.join(dd, 'p.bin'), 'wb').write(binary)
            for fk, content in files.items():
                open(os.path.join(dd, 'simin%d' % fk), 'wb').write(content)
            cons = bytes(rng.randrange(256) for _ in range(rng.choice([0, 1, 3, 8])))
            rcm, om, em = run3([hv, 'c02iorun', 'p.bin', '100000'], cwd=dd, input=cons, timeout=120)
            mod = om.decode().strip().split('\n')
            if rcm != 0 or not mod[0].startswith('END exit'):
                ck.broken.append('the device-model run of a generated I/O program did not reach its exit: %s' % (om + em).decode('latin1')[-200:])
                continue
            want_rc = int(dict(x.split('=') for x in mod[0].split()[2:])['rc']) & 0xff
            want_out = bytes(int(x) for x in mod[1].split()[2:])
            want_files = {int(l.split()[1]): bytes(int(x) for x in l.split()[2:]) for l in mod if l.startswith('FILE ')}
            if not mixed:
                rci, oi, ei = run3([hv, 'c02run', 'p.bin', '100000'], cwd=dd, input=cons, timeout=120)
                isa = oi.decode().strip().split('\n')
                isa_files = {int(l.split()[1]): bytes(int(x) for x in l.split()[2:]) for l in isa if l.startswith('FILE ')}
                isa_rc = int(dict(x.split('=') for x in isa[0].split()[2:])['rc']) & 0xff
                if isa_rc != want_rc or bytes(int(x) for x in isa[2].split()[2:]) != want_out or isa_files != want_files:
                    ck.broken.append('SimIO device model and the ISA disagree on a single-direction I/O program although io_agree is proved: ops %s' % ops)
            rcr, orr, er = run3([hexsim_exe, 'p.bin'], cwd=dd, input=cons, timeout=60)
            got_files = {}
            for fk in range(8):
                p = os.path.join(dd, 'simout%d' % fk)
                if os.path.exists(p) and os.path.getsize(p):
                    got_files[fk] = open(p, 'rb').read()
            nio += 1
            ck.cov['evaluations'] += 1
            if rcr != want_rc or orr != want_out or got_files != want_files:
                ck.violation('hexsim on an I/O program (%s directions per file index): status %d console %r files %s; the %s gives status %d console %r files %s'
                             % ('mixed' if mixed else 'single', rcr, orr[:30], {a: b[:12] for a, b in got_files.items()}, 'device model' if mixed else 'ISA and the device model',
                                want_rc, want_out[:30], {a: b[:12] for a, b in want_files.items()}),
                             {'binary_hex': binary.hex(), 'simin': {str(a): list(b) for a, b in files.items()}, 'console': list(cons), 'ops': ops, 'mixed': mixed},
                             tags={'kind': 'io-program', 'mixed': mixed})
            elif k % 13 == 0:
                ck.sample({'io_ops': [list(o) for o in ops][:6], 'mixed': mixed, 'status': rcr, 'console_out': list(orr[:8]), 'files_written': sorted(got_files)})
    ck.cov['io_programs'] = nio
    ck.log('whole runs: %d, differing %d' % (runs, rundiff))
    ck.cov['distinct_nontrivial'] = len(distinct)
    ck.cov['rule'] = ('planted state = (pc, areg, breg, oreg, memory cells, console/file input) for each of the 256 instruction bytes; '
                      'non-trivial = ISA step defined or illegal (address in range); distinct by (successor registers, planted registers); '
                      'whole runs = shipped .x/.S programs and random defined-byte images compared by per-instruction state digest')
    ck.cov['input_distribution'] = dist
    ck.cov['whole_runs'] = runs
    ck.cov['exhaustive'] = False
    ck.cov['corpus_cases'] = ncorpus
    ck.finish()


if __name__ == '__main__':
    main()
