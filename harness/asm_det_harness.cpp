// asm_det_harness.cpp -- determinism mode for the real hexasm Lexer/Parser/CodeGen (header-only, compiled from /repo's
// working tree, WITHOUT sanitizers: ASan fills fresh allocations and would hide a dependence on heap contents).
//   asm_det_harness det <casefile> <rounds> <seed>
// Every source of the case file (repeated "<len>\n<len bytes>") is assembled <rounds> times in ONE process, in a
// different order each round; Lexer and Parser are constructed by placement new in buffers pre-filled with
// 0xA5 / 0x5A / 0xFF / pseudo-random bytes, and the heap and the stack below the current frame are dirtied with the same
// pattern before every assembly.  Output, one line per assembly:
//   H <round> <case> <ACCEPT|REJECT|REJECT-STD> bin=<fnv64 of the file emitBin wrote|nofile> list=<fnv64 of emitProgramText|none> diag=<fnv64 of location+message>
// The hash is FNV-1a 64 over the bytes; the listing is hashed line by line, each line followed by '\n'.
#include <cassert>
#include <cstdint>
#include <cstdio>
#include <cstdlib>
#include <cstring>
#include <sstream>
#include <iostream>
#include <fstream>
#include <map>
#include <vector>
#include <memory>
#include <new>
#include <string>
#include <boost/format.hpp>
#include "hexasm.hpp"

static const char *OUT_NAME = "asm_det_out.bin";

static uint64_t fnv(const std::string &s) {
  uint64_t h = 1469598103934665603ULL;
  for (unsigned char c : s) { h ^= c; h *= 1099511628211ULL; }
  return h;
}
static std::string hx(uint64_t v) { return (boost::format("%016x") % v).str(); }
static uint64_t lcg(uint64_t &s) { s = s * 6364136223846793005ULL + 1442695040888963407ULL; return s >> 33; }

static void fillPattern(unsigned char *p, size_t n, int kind, uint64_t &s) {
  if (kind == 0) memset(p, 0xA5, n);
  else if (kind == 1) memset(p, 0x5A, n);
  else if (kind == 2) memset(p, 0xFF, n);
  else for (size_t i = 0; i < n; i++) p[i] = (unsigned char)lcg(s);
}

static void dirtyHeap(int kind, uint64_t &s) {
  std::vector<std::pair<unsigned char*, size_t>> blocks;
  static const size_t sizes[] = {8, 16, 24, 32, 40, 48, 56, 64, 72, 80, 96, 104, 112, 128, 160, 192, 224, 256, 320, 384, 512, 640, 768,
                                 1024, 1536, 2048, 4096, 8192, 16384, 65536};
  for (int rep = 0; rep < 24; rep++)
    for (size_t sz : sizes) {
      size_t n = sz + (lcg(s) % 8);
      unsigned char *p = (unsigned char*)malloc(n);
      if (!p) continue;
      fillPattern(p, n, kind, s);
      blocks.push_back({p, n});
    }
  for (size_t i = 1; i < blocks.size(); i += 2) free(blocks[i].first);
  for (size_t i = 0; i < blocks.size(); i += 2) free(blocks[i].first);
}

static void dirtyStack(int kind, uint64_t &s) {
  volatile unsigned char buf[96 * 1024];
  unsigned char tmp[256];
  fillPattern(tmp, sizeof tmp, kind, s);
  for (size_t i = 0; i < sizeof buf; i++) buf[i] = tmp[i & 255];
}

static std::vector<std::string> readCases(const char *path) {
  std::vector<std::string> v;
  std::ifstream f(path, std::ios::binary);
  std::string lenline;
  while (std::getline(f, lenline)) {
    size_t len = strtoull(lenline.c_str(), 0, 10);
    std::string src(len, '\0');
    f.read(&src[0], len);
    v.push_back(src);
  }
  return v;
}

alignas(64) static unsigned char lexerBuf[sizeof(hexasm::Lexer) + 64];
alignas(64) static unsigned char parserBuf[sizeof(hexasm::Parser) + 64];

static void assembleOnce(int round, size_t k, const std::string &src, int kind, uint64_t &s) {
  std::remove(OUT_NAME);
  dirtyHeap(kind, s);
  dirtyStack(kind, s);
  fillPattern(lexerBuf, sizeof lexerBuf, kind, s);
  fillPattern(parserBuf, sizeof parserBuf, kind, s);
  hexasm::Lexer *lexer = new (lexerBuf) hexasm::Lexer();
  hexasm::Parser *parser = new (parserBuf) hexasm::Parser(*lexer);
  std::string status = "ACCEPT", bin = "nofile", list = "none", diag;
  try {
    lexer->loadBuffer(src);
    auto program = parser->parseProgram();
    hexasm::CodeGen codeGen(program);
    std::ostringstream text;
    codeGen.emitProgramText(text);
    codeGen.emitBin(OUT_NAME);
    std::istringstream ts(text.str());
    std::string line, canon;
    while (std::getline(ts, line)) { canon += line; canon += "\n"; }
    list = hx(fnv(canon));
  } catch (const hexutil::Error &e) {
    status = "REJECT";
    diag = (e.hasLocation() ? e.getLocation().str() : std::string("noloc")) + ": " + e.what();
  } catch (const std::exception &e) {
    status = "REJECT-STD";
    diag = e.what();
  }
  parser->~Parser();
  lexer->~Lexer();
  {
    std::ifstream f(OUT_NAME, std::ios::binary);
    if (f.is_open()) { std::stringstream ss; ss << f.rdbuf(); bin = hx(fnv(ss.str())); }
  }
  std::cout << "H " << round << " " << k << " " << status << " bin=" << bin << " list=" << list << " diag=" << hx(fnv(diag)) << "\n" << std::flush;
}

int main(int argc, char **argv) {
  if (argc < 5 || std::string(argv[1]) != "det") { std::cerr << "usage: asm_det_harness det <casefile> <rounds> <seed>\n"; return 2; }
  auto cases = readCases(argv[2]);
  int rounds = atoi(argv[3]);
  uint64_t s = strtoull(argv[4], 0, 0) * 2654435761ULL + 12345;
  for (int round = 0; round < rounds; round++) {
    std::vector<size_t> order(cases.size());
    for (size_t i = 0; i < order.size(); i++) order[i] = i;
    if (round % 3 == 1) for (size_t i = 0; i < order.size() / 2; i++) std::swap(order[i], order[order.size() - 1 - i]);
    if (round % 3 == 2) for (size_t i = order.size(); i > 1; i--) std::swap(order[i - 1], order[lcg(s) % i]);
    for (size_t k : order) assembleOnce(round, k, cases[k], (int)(lcg(s) % 4), s);
  }
  return 0;
}
