// rtl_hex.cpp -- the Verilated `hex` top (verilog/hex_pkg.sv hex.sv processor.sv memory.sv from /repo's working tree,
// --prefix Vhexv --public-flat-rw) stepped one clock at a time, always from a properly reset state (reset/boot
// subtleties of hextb.cpp belong to another property).
//
//   rtl_hex step                  planted states.  stdin, one case per line: "pc areg breg oreg ncells (addr val)*"
//        stdout per case: "R pc a b o | W addr val | sv sc | f"   (W - when no write; sv/sc = o_syscall_valid/o_syscall
//        and f = fetched byte, all sampled before the rising edge; registers and the written word after it)
//   rtl_hex reset                 WARM resets.  stdin, one case per line: "pc areg breg oreg word0 how": the registers and memory
//        word 0 are planted (any state a run may have reached), then i_rst is raised -- how=0: while the clock is low
//        (between two edges), how=1: together with a rising clock edge, as hextb does -- held over one more rising edge
//        and released with the clock low.  stdout per case:
//        "Z <pc a b o sv sc f> | <pc a b o sv sc f> | <pc a b o sv sc f> | stray"  = registers, request lines and fetched byte
//        right after reset is raised / after the rising edge under reset / after release; stray = 1 when a memory
//        word among 0..31 changed
//   rtl_hex run <bin> <maxclocks> <from> <to>     whole run with hextb.cpp's system-call shim re-implemented minimally
//        (exit / write / read through mem[1]; console input = stdin; file streams are empty).  Prints "D <clock> <hash>"
//        every 4096 clocks, "T ..." lines for clocks in [from,to), and an "END ..." summary -- same format as
//        `hvmain c03run`, which runs the extracted ISA.
#include <cinttypes>
#include <cstdint>
#include <cstdio>
#include <cstdlib>
#include <cstring>
#include <memory>
#include <string>
#include <vector>
#include <verilated.h>
#include <verilated_sym_props.h>
#include "Vhexv.h"

double sc_time_stamp() { return 0; }

static void *find(const char *scope, const char *name) {
  const VerilatedScope *sc = Verilated::threadContextp()->scopeFind(scope);
  VerilatedVar *v = sc ? sc->varFind(name) : nullptr;
  if (!v) {
    std::fprintf(stderr, "rtl_hex: no public variable %s.%s in the Verilated model\n", scope, name);
    std::exit(3);
  }
  return v->datap();
}

static const uint32_t MEMWORDS = 1u << 19;
static const uint64_t HM = 2147483647ULL;
static inline uint64_t mix(uint64_t h, uint64_t x) { return (h * 1000003ULL + (x & 0xffffffffULL)) % HM; }

struct Dut {
  std::unique_ptr<VerilatedContext> ctx;
  std::unique_ptr<Vhexv> top;
  uint32_t *pc, *a, *b, *o, *mem, *d_addr, *d_data;
  uint8_t *instr, *d_we, *d_valid;
  Dut(int argc, char **argv) : ctx(new VerilatedContext) {
    ctx->randReset(0);
    ctx->commandArgs(argc, argv);
    top.reset(new Vhexv{ctx.get(), "TOP"});
    pc = (uint32_t *)find("TOP.hex.u_processor", "pc_q");
    a = (uint32_t *)find("TOP.hex.u_processor", "areg_q");
    b = (uint32_t *)find("TOP.hex.u_processor", "breg_q");
    o = (uint32_t *)find("TOP.hex.u_processor", "oreg_q");
    instr = (uint8_t *)find("TOP.hex.u_processor", "instr");
    mem = (uint32_t *)find("TOP.hex.u_memory", "memory_q");
    d_addr = (uint32_t *)find("TOP.hex", "req_d_addr");
    d_data = (uint32_t *)find("TOP.hex", "req_d_data");
    d_we = (uint8_t *)find("TOP.hex", "req_d_we");
    d_valid = (uint8_t *)find("TOP.hex", "req_d_valid");
    // a proper reset: settle, assert reset over a rising clock edge, release it with the clock low
    top->i_clk = 0; top->i_rst = 0; top->eval();
    top->i_clk = 1; top->eval();
    top->i_clk = 0; top->i_rst = 1; top->eval();
    top->i_clk = 1; top->eval();
    top->i_clk = 0; top->eval();
    top->i_rst = 0; top->eval();
  }
  void low() { top->i_clk = 0; top->i_rst = 0; top->eval(); }
  void edge() { top->i_clk = 1; top->eval(); }
};

static int step_mode(Dut &d) {
  std::vector<uint32_t> planted;
  std::string line;
  char buf[1 << 16];
  while (std::fgets(buf, sizeof buf, stdin)) {
    char *p = buf;
    auto next = [&](bool &ok) -> unsigned long long {
      char *e; unsigned long long v = std::strtoull(p, &e, 10); ok = (e != p); p = e; return v; };
    bool ok;
    unsigned long long pc = next(ok); if (!ok) continue;
    unsigned long long a = next(ok), b = next(ok), o = next(ok), nc = next(ok);
    d.low();
    for (uint32_t ad : planted) d.mem[ad] = 0;
    planted.clear();
    for (unsigned long long i = 0; i < nc; i++) {
      unsigned long long ad = next(ok), v = next(ok);
      if (ad < MEMWORDS) { d.mem[ad] = (uint32_t)v; planted.push_back((uint32_t)ad); }
    }
    *d.pc = pc & 0x1fffff; *d.a = (uint32_t)a; *d.b = (uint32_t)b; *d.o = (uint32_t)o;
    d.top->eval();
    unsigned sv = d.top->o_syscall_valid, sc = d.top->o_syscall, f = *d.instr;
    bool we = *d.d_we && *d.d_valid;
    uint32_t wa = *d.d_addr, wd = *d.d_data;
    // memory before the edge at every planted cell (to detect a stray write)
    std::vector<uint32_t> before;
    for (uint32_t ad : planted) before.push_back(d.mem[ad]);
    d.edge();
    std::printf("R %u %u %u %u |", *d.pc, *d.a, *d.b, *d.o);
    bool stray = false;
    for (size_t i = 0; i < planted.size(); i++)
      if (d.mem[planted[i]] != before[i] && !(we && planted[i] == wa)) stray = true;
    if (we) {
      std::printf(" W %u %u", wa, d.mem[wa]);
      if (d.mem[wa] != wd) stray = true;
      planted.push_back(wa);
    } else std::printf(" -");
    std::printf(" | %u %u | %u%s\n", sv, sc, f, stray ? " STRAY" : "");
  }
  d.top->final();
  return 0;
}

static int reset_mode(Dut &d) {
  char buf[1 << 12];
  while (std::fgets(buf, sizeof buf, stdin)) {
    unsigned long long pc, a, b, o, w0, how;
    if (std::sscanf(buf, "%llu %llu %llu %llu %llu %llu", &pc, &a, &b, &o, &w0, &how) != 6) continue;
    d.low();
    for (uint32_t i = 0; i < 32; i++) d.mem[i] = 0x01010101u * (i + 1);
    d.mem[0] = (uint32_t)w0;
    *d.pc = pc & 0x1fffff; *d.a = (uint32_t)a; *d.b = (uint32_t)b; *d.o = (uint32_t)o;
    d.top->eval();
    uint32_t before[32];
    for (uint32_t i = 0; i < 32; i++) before[i] = d.mem[i];
    auto show = [&](const char *sep) {
      std::printf("%s%u %u %u %u %u %u %u", sep, *d.pc, *d.a, *d.b, *d.o, (unsigned)d.top->o_syscall_valid, (unsigned)d.top->o_syscall, (unsigned)*d.instr); };
    d.top->i_rst = 1;
    if (how) d.top->i_clk = 1;
    d.top->eval();
    show("Z ");
    d.top->i_clk = 0; d.top->eval();
    d.top->i_clk = 1; d.top->eval();
    show(" | ");
    d.top->i_clk = 0; d.top->eval();
    d.top->i_rst = 0; d.top->eval();
    show(" | ");
    bool stray = false;
    for (uint32_t i = 0; i < 32; i++) if (d.mem[i] != before[i]) stray = true;
    std::printf(" | %d\n", stray ? 1 : 0);
  }
  d.top->final();
  return 0;
}

static int run_mode(Dut &d, const char *file, unsigned long long maxclocks, unsigned long long from, unsigned long long to) {
  FILE *fp = std::fopen(file, "rb");
  if (!fp) { std::fprintf(stderr, "cannot open %s\n", file); return 2; }
  std::vector<uint8_t> bytes;
  int c;
  while ((c = std::fgetc(fp)) != EOF) bytes.push_back((uint8_t)c);
  std::fclose(fp);
  d.low();
  for (size_t i = 4; i < bytes.size(); i++) {           // image after the 4-byte size header, little endian
    size_t k = i - 4;
    if ((k >> 2) < MEMWORDS) d.mem[k >> 2] |= (uint32_t)bytes[i] << (8 * (k & 3));
  }
  d.top->eval();
  uint64_t h = 7;
  unsigned long long clk = 0;
  long long exitcode = -1;
  std::string out;
  const char *end = "cut";
  while (clk < maxclocks) {
    d.low();
    // system-call shim (hextb.cpp handleSyscall), driven by the design's request lines
    uint64_t evc = 0, e1 = 0, e2 = 0;
    bool exited = false;
    if (d.top->o_syscall_valid) {
      uint32_t sp = d.mem[1 % MEMWORDS];
      auto rdw = [&](uint32_t ad) -> uint32_t { return ad < MEMWORDS ? d.mem[ad] : 0; };
      switch (d.top->o_syscall) {
      case 0: evc = 1; e1 = rdw(sp + 2); exitcode = (long long)e1; exited = true; break;
      case 1: evc = 2; e1 = rdw(sp + 2) & 0xff; e2 = rdw(sp + 3); out.push_back((char)e1); break;
      case 2: {
        uint32_t st = rdw(sp + 2);
        int got = -1;
        if ((int32_t)st < 256) got = std::fgetc(stdin);   // console; file streams are empty here
        uint32_t v = (uint32_t)(got == EOF ? -1 : got) & 0xff;
        if (sp + 1 < MEMWORDS) d.mem[sp + 1] = v;
        evc = 3; e1 = st; e2 = v;
        d.top->eval();
        break; }
      default: end = "badsvc"; goto done;
      }
    }
    {
      bool we = *d.d_we && *d.d_valid;
      uint32_t wa = *d.d_addr;
      unsigned f = *d.instr;
      d.edge();
      clk++;
      uint64_t wv = we ? d.mem[wa] : 0;
      h = mix(h, *d.pc); h = mix(h, *d.a); h = mix(h, *d.b); h = mix(h, *d.o);
      h = mix(h, we ? wa : 0xffffffffu); h = mix(h, wv); h = mix(h, evc); h = mix(h, e1); h = mix(h, e2); h = mix(h, f);
      if (clk >= from + 1 && clk < to + 1)
        std::printf("T %llu f=%u pc=%u a=%u b=%u o=%u w=%s%u:%llu ev=%llu,%llu,%llu\n", clk, f, *d.pc, *d.a, *d.b, *d.o,
                    we ? "" : "-", we ? wa : 0, (unsigned long long)wv, (unsigned long long)evc, (unsigned long long)e1, (unsigned long long)e2);
      if ((clk & 4095) == 0) std::printf("D %llu %llu\n", clk, (unsigned long long)h);
      if (exited) { end = "exit"; break; }
    }
  }
done:
  uint64_t mh = 11;
  for (uint32_t i = 0; i < 200000; i++) mh = mix(mh, d.mem[i]);
  std::printf("END %s clocks=%llu hash=%llu rc=%lld pc=%u a=%u b=%u o=%u memhash=%llu out=", end, clk, (unsigned long long)h, exitcode,
              *d.pc, *d.a, *d.b, *d.o, (unsigned long long)mh);
  for (unsigned char ch : out) std::printf("%02x", ch);
  std::printf("\n");
  d.top->final();
  return 0;
}

int main(int argc, char **argv) {
  Dut d(argc, argv);
  if (argc >= 2 && !std::strcmp(argv[1], "step")) return step_mode(d);
  if (argc >= 2 && !std::strcmp(argv[1], "reset")) return reset_mode(d);
  if (argc >= 6 && !std::strcmp(argv[1], "run"))
    return run_mode(d, argv[2], std::strtoull(argv[3], 0, 10), std::strtoull(argv[4], 0, 10), std::strtoull(argv[5], 0, 10));
  std::fprintf(stderr, "usage: rtl_hex step | reset | run <bin> <maxclocks> <from> <to>\n");
  return 2;
}
