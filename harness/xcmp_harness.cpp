// xcmp_harness.cpp -- drives the real X compiler (xcmp.hpp + hexasm.hpp, header-only, compiled from /repo's working
// tree) exactly as xcmp.cpp's main() / Driver::runCatchExceptions do, and dumps everything observable in a
// canonical text form.  Built twice by tools/xfrontcommon.py: with ASan+UBSan (-fno-sanitize-recover=all) for C09,
// and plain for the determinism mode of C11 (ASan fills fresh allocations, which would hide heap dependence).
//
//   xcmp_harness batch <casefile> [start] [tree] [asm]
//        casefile: repeated "<len>\n<len bytes>"; output per case, flushed so that a crash is attributable to the
//        case after the last END:
//          CASE <i>
//          TREE-OK | TREE-REJECT <location|noloc>: <message> | TREE-REJECT-STD ... (option tree: Lexer+Parser only)
//          T <line of AstPrinter on the tree the parser returned>                  (no symbol pass, no folding)
//          ACCEPT | REJECT <location|noloc>: <message> | REJECT-STD <message>      (EMIT_BINARY to a temp file)
//          E <line written to stderr by runCatchExceptions>                        (verbatim diagnostic text)
//          RC <value returned by runCatchExceptions>
//          FILE <n> <hex bytes> | NOFILE                                           (the output file afterwards)
//          ASM-OK | ASM-REJECT ...                                                 (option asm: EMIT_ASM = xcmp -S)
//          S <listing line>
//          END <i>
//   xcmp_harness det <casefile> <rounds> <seed>
//        every source is compiled <rounds> times in ONE process, in a different order each round, each Driver
//        constructed by placement new in a buffer pre-filled with 0xA5 / 0x5A / pseudo-random bytes, and the heap
//        deliberately dirtied (malloc/fill/free of many sizes) before every compilation.  Output:
//          H <round> <case> <ACCEPT|REJECT|REJECT-STD> bin=<fnv64 of the binary> asm=<fnv64 of the -S listing> diag=<fnv64>
#include <cassert>
#include <cstdint>
#include <cstdio>
#include <cstdlib>
#include <cstring>
#include <sstream>
#include <iostream>
#include <fstream>
#include <map>
#include <vector>
#include <memory>
#include <new>
#include <string>
#include <stack>
#include <optional>
#include <boost/format.hpp>
#include "hex.hpp"
#include "hexasm.hpp"
#include "xcmp.hpp"

static const char *IN_NAME = "harness_in.x";
static const char *OUT_NAME = "harness_out.bin";

static std::string hexBytes(const std::string &b) {
  static const char *hx = "0123456789abcdef";
  std::string h;
  h.reserve(b.size() * 3);
  for (unsigned char c : b) { h.push_back(' '); h.push_back(hx[c >> 4]); h.push_back(hx[c & 15]); }
  return h;
}

static bool readFile(const char *name, std::string &out) {
  std::ifstream f(name, std::ios::binary);
  if (!f.is_open()) return false;
  std::stringstream ss; ss << f.rdbuf();
  out = ss.str();
  return true;
}

static void writeFile(const char *name, const std::string &s) {
  std::ofstream f(name, std::ios::binary | std::ios::trunc);
  f.write(s.data(), s.size());
  f.close();
}

// std::cerr is where runCatchExceptions reports; capture it.
struct CerrCapture {
  std::ostringstream buf;
  std::streambuf *old;
  CerrCapture() : old(std::cerr.rdbuf(buf.rdbuf())) {}
  ~CerrCapture() { std::cerr.rdbuf(old); }
};

static void printPrefixed(std::ostream &o, const char *prefix, const std::string &text) {
  size_t p = 0;
  while (p < text.size()) {
    size_t q = text.find('\n', p);
    if (q == std::string::npos) q = text.size();
    o << prefix << text.substr(p, q - p) << "\n";
    p = q + 1;
  }
}

// One compilation exactly as xcmp.cpp does it for `xcmp <file> -o <out>`: Driver(std::cout) + runCatchExceptions,
// with main()'s catch of std::exception around it.  `driver` is constructed by the caller (so that the determinism
// mode can choose where it lives).
struct Result { std::string status; std::string diag; int rc; };

static Result compileWith(xcmp::Driver &driver, xcmp::DriverAction action, const char *in, const char *out) {
  Result r; r.rc = 0;
  CerrCapture cap;
  try {
    r.rc = driver.runCatchExceptions(action, in, true, out, false);
    r.diag = cap.buf.str();
    r.status = (r.rc == 0 && r.diag.empty()) ? "ACCEPT" : "REJECT";
  } catch (const std::exception &e) {
    r.rc = 1;
    r.diag = cap.buf.str() + (boost::format("Error: %s\n") % e.what()).str();
    r.status = "REJECT-STD";
  }
  return r;
}

// the diagnostic in the form "<location|noloc>: <message>" recovered from "Error line l:c: msg" / "Error: msg"
static std::string diagHead(const std::string &diag) {
  std::string first = diag.substr(0, diag.find('\n'));
  if (first.rfind("Error line ", 0) == 0) return first.substr(6);
  if (first.rfind("Error: ", 0) == 0) return "noloc: " + first.substr(7);
  return "noloc: " + first;
}

static void runCase(const std::string &src, bool tree, bool listing) {
  writeFile(IN_NAME, src);
  std::remove(OUT_NAME);
  if (tree) {
    // the tree as the parser returns it: no CreateSymbols / ConstProp (xcmp --tree prints after those)
    std::ostringstream text;
    try {
      xcmp::Lexer lexer;
      xcmp::Parser parser(lexer);
      lexer.openFile(IN_NAME);
      auto program = parser.parseProgram();
      xcmp::AstPrinter printer(text);
      program->accept(&printer);
      std::cout << "TREE-OK\n";
      printPrefixed(std::cout, "T ", text.str());
    } catch (const hexutil::Error &e) {
      std::cout << "TREE-REJECT " << (e.hasLocation() ? e.getLocation().str() : std::string("noloc")) << ": " << e.what() << "\n";
    } catch (const std::exception &e) {
      std::cout << "TREE-REJECT-STD " << e.what() << "\n";
    }
    std::cout << std::flush;   // the tree survives a crash of the compilation below
  }
  {
    std::ostringstream sink;
    Result r;
    {
      xcmp::Driver driver(sink);
      r = compileWith(driver, xcmp::DriverAction::EMIT_BINARY, IN_NAME, OUT_NAME);
    }
    if (r.status == "ACCEPT") std::cout << "ACCEPT\n";
    else std::cout << r.status << " " << diagHead(r.diag) << "\n";
    printPrefixed(std::cout, "E ", r.diag);
    std::cout << "RC " << r.rc << "\n";
    std::string b;
    if (readFile(OUT_NAME, b)) std::cout << "FILE " << b.size() << hexBytes(b) << "\n";
    else std::cout << "NOFILE\n";
    if (!sink.str().empty()) printPrefixed(std::cout, "O ", sink.str());
  }
  if (listing) {
    std::ostringstream text;
    Result r;
    {
      xcmp::Driver driver(text);
      r = compileWith(driver, xcmp::DriverAction::EMIT_ASM, IN_NAME, OUT_NAME);
    }
    if (r.status == "ACCEPT") { std::cout << "ASM-OK\n"; printPrefixed(std::cout, "S ", text.str()); }
    else std::cout << "ASM-" << r.status << " " << diagHead(r.diag) << "\n";
  }
}

static std::vector<std::string> readCases(const char *path) {
  std::vector<std::string> v;
  std::ifstream f(path, std::ios::binary);
  std::string lenline;
  while (std::getline(f, lenline)) {
    size_t len = strtoull(lenline.c_str(), 0, 10);
    std::string src(len, '\0');
    f.read(&src[0], len);
    v.push_back(src);
  }
  return v;
}

// ------------------------------------------------------------------ determinism mode
static uint64_t fnv(const std::string &s) {
  uint64_t h = 1469598103934665603ULL;
  for (unsigned char c : s) { h ^= c; h *= 1099511628211ULL; }
  return h;
}

static uint64_t lcg(uint64_t &s) { s = s * 6364136223846793005ULL + 1442695040888963407ULL; return s >> 33; }

static void fillPattern(unsigned char *p, size_t n, int kind, uint64_t &s) {
  if (kind == 0) memset(p, 0xA5, n);
  else if (kind == 1) memset(p, 0x5A, n);
  else if (kind == 2) memset(p, 0xFF, n);
  else for (size_t i = 0; i < n; i++) p[i] = (unsigned char)lcg(s);
}

// allocate blocks of many sizes (every small bin, some large), fill them, free them in a scattered order, so that the
// allocations of the next compilation are served from memory holding the pattern
static void dirtyHeap(int kind, uint64_t &s) {
  std::vector<std::pair<unsigned char*, size_t>> blocks;
  static const size_t sizes[] = {8, 16, 24, 32, 40, 48, 56, 64, 72, 80, 96, 104, 112, 128, 160, 192, 224, 256, 320, 384, 512, 640, 768,
                                 1024, 1536, 2048, 4096, 8192, 16384, 65536};
  for (int rep = 0; rep < 24; rep++)
    for (size_t sz : sizes) {
      size_t n = sz + (lcg(s) % 8);
      unsigned char *p = (unsigned char*)malloc(n);
      if (!p) continue;
      fillPattern(p, n, kind, s);
      blocks.push_back({p, n});
    }
  // free odd positions first, then even ones (avoids immediate coalescing into one top chunk)
  for (size_t i = 1; i < blocks.size(); i += 2) free(blocks[i].first);
  for (size_t i = 0; i < blocks.size(); i += 2) free(blocks[i].first);
}

static void dirtyStack(int kind, uint64_t &s) {
  volatile unsigned char buf[96 * 1024];
  unsigned char tmp[256];
  fillPattern(tmp, sizeof tmp, kind, s);
  for (size_t i = 0; i < sizeof buf; i++) buf[i] = tmp[i & 255];
}

static int detMode(const char *path, int rounds, uint64_t seed) {
  auto cases = readCases(path);
  uint64_t s = seed * 2654435761ULL + 12345;
  alignas(64) static unsigned char driverBuf[sizeof(xcmp::Driver) + 64];
  for (int round = 0; round < rounds; round++) {
    std::vector<size_t> order(cases.size());
    for (size_t i = 0; i < order.size(); i++) order[i] = i;
    if (round % 3 == 1) for (size_t i = 0; i < order.size() / 2; i++) std::swap(order[i], order[order.size() - 1 - i]);
    if (round % 3 == 2) for (size_t i = order.size(); i > 1; i--) std::swap(order[i - 1], order[lcg(s) % i]);
    for (size_t k : order) {
      int kind = (int)(lcg(s) % 4);
      writeFile(IN_NAME, cases[k]);
      std::string h[2], st, dg;
      for (int pass = 0; pass < 2; pass++) {
        std::remove(OUT_NAME);
        dirtyHeap(kind, s);
        dirtyStack(kind, s);
        fillPattern(driverBuf, sizeof driverBuf, kind, s);
        std::ostringstream text;
        xcmp::Driver *driver = new (driverBuf) xcmp::Driver(text);
        Result r = compileWith(*driver, pass == 0 ? xcmp::DriverAction::EMIT_BINARY : xcmp::DriverAction::EMIT_ASM, IN_NAME, OUT_NAME);
        driver->~Driver();
        if (pass == 0) {
          std::string b;
          st = r.status; dg = r.diag;
          h[0] = readFile(OUT_NAME, b) ? (boost::format("%016x") % fnv(b)).str() : std::string("nofile");
        } else {
          h[1] = r.status == "ACCEPT" ? (boost::format("%016x") % fnv(text.str())).str() : std::string("none");
        }
      }
      std::cout << "H " << round << " " << k << " " << st << " bin=" << h[0] << " asm=" << h[1]
                << " diag=" << (boost::format("%016x") % fnv(dg)).str() << "\n" << std::flush;
    }
  }
  return 0;
}

int main(int argc, char **argv) {
  if (argc >= 5 && std::string(argv[1]) == "det") return detMode(argv[2], atoi(argv[3]), strtoull(argv[4], 0, 0));
  if (argc < 3 || std::string(argv[1]) != "batch") {
    std::cerr << "usage: xcmp_harness batch <casefile> [start] [tree] [asm] | det <casefile> <rounds> <seed>\n";
    return 2;
  }
  size_t start = 0;
  bool tree = false, listing = false;
  for (int i = 3; i < argc; i++) {
    std::string a = argv[i];
    if (a == "tree") tree = true; else if (a == "asm") listing = true; else start = strtoull(argv[i], 0, 0);
  }
  auto cases = readCases(argv[2]);
  for (size_t i = start; i < cases.size(); i++) {
    std::cout << "CASE " << i << "\n" << std::flush;
    runCase(cases[i], tree, listing);
    std::cout << "END " << i << "\n" << std::flush;
  }
  return 0;
}
