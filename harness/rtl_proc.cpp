// rtl_proc.cpp -- step a Verilated `processor` top (verilog/processor.sv, verilog/processor.v or synth/processor.v,
// built from /repo's working tree with --prefix Vproc --public-flat-rw) on planted states.
// stdin : one case per line  "plant byte rst pc areg breg oreg ddata"
//         plant=1: load the four registers before the cycle; plant=0: continue from the state the design is in
//         rst=0/1: i_rst level at the rising clock edge; rst=2: no clock edge, i_rst pulses high with the clock low
// stdout: "R <outputs before the edge, sorted by name> | <registers after the rising edge, sorted by name>"
// The registers are reached through Verilator's scope/variable tables, so the same source serves every variant of
// the design whatever Verilator decides to inline.
#include <cinttypes>
#include <cstdint>
#include <cstdio>
#include <cstdlib>
#include <memory>
#include <verilated.h>
#include <verilated_sym_props.h>
#include "Vproc.h"

double sc_time_stamp() { return 0; }

static uint32_t *find(const char *name) {
  const VerilatedScope *sc = Verilated::threadContextp()->scopeFind("TOP.processor");
  VerilatedVar *v = sc ? sc->varFind(name) : nullptr;
  if (!v) {
    std::fprintf(stderr, "rtl_proc: no public variable TOP.processor.%s in the Verilated model\n", name);
    std::exit(3);
  }
  return static_cast<uint32_t *>(v->datap());
}

int main(int argc, char **argv) {
  const std::unique_ptr<VerilatedContext> ctx{new VerilatedContext};
  ctx->randReset(0);
  ctx->commandArgs(argc, argv);
  const std::unique_ptr<Vproc> top{new Vproc{ctx.get(), "TOP"}};
  uint32_t *pc = find("pc_q"), *a = find("areg_q"), *b = find("breg_q"), *o = find("oreg_q");
  top->i_clk = 0; top->i_rst = 0; top->i_f_data = 0; top->i_d_data = 0;
  top->eval();
  top->i_clk = 1; top->eval();          // settle Verilator's first-evaluation edge detection
  top->i_clk = 0; top->eval();
  char line[512];
  while (std::fgets(line, sizeof line, stdin)) {
    unsigned long long f[8];
    if (std::sscanf(line, "%llu %llu %llu %llu %llu %llu %llu %llu", &f[0], &f[1], &f[2], &f[3], &f[4], &f[5], &f[6], &f[7]) != 8)
      continue;
    top->i_clk = 0; top->i_rst = 0;
    top->eval();
    if (f[0]) { *pc = f[3] & 0x1fffff; *a = (uint32_t)f[4]; *b = (uint32_t)f[5]; *o = (uint32_t)f[6]; }
    top->i_f_data = f[1] & 0xff;
    top->i_d_data = (uint32_t)f[7];
    top->eval();
    std::printf("R o_d_addr=%u o_d_data=%u o_d_valid=%u o_d_we=%u o_f_addr=%u o_f_valid=%u o_syscall=%u o_syscall_valid=%u |",
                (unsigned)top->o_d_addr, (unsigned)top->o_d_data, (unsigned)top->o_d_valid, (unsigned)top->o_d_we,
                (unsigned)top->o_f_addr, (unsigned)top->o_f_valid, (unsigned)top->o_syscall, (unsigned)top->o_syscall_valid);
    if (f[2] == 2) {
      // a reset pulse between clock edges: i_rst rises while the clock stays low.  A register with an asynchronous reset
      // (posedge i_rst in its sensitivity list) takes its reset value now, one with a synchronous reset keeps its value
      top->i_rst = 1;
      top->eval();
      std::printf(" areg_q=%u breg_q=%u oreg_q=%u pc_q=%u\n", *a, *b, *o, *pc);
      top->i_rst = 0;
      top->eval();
      continue;
    }
    top->i_rst = f[2] ? 1 : 0;
    top->i_clk = 1;
    top->eval();
    std::printf(" areg_q=%u breg_q=%u oreg_q=%u pc_q=%u\n", *a, *b, *o, *pc);
  }
  top->final();
  return 0;
}
