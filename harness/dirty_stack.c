/* dirty_stack.c -- LD_PRELOAD helper for C12: before main() runs, fill the not-yet-used part of the stack (and a
   freed heap block) with a byte pattern taken from DIRTY_BYTE, so that a program reading a stack/heap object it never
   initialised sees that pattern instead of the usual zero pages ("dirty vs clean backing store"). */
#include <stdlib.h>
#include <string.h>
static void __attribute__((noinline)) scribble(int byte) {
  volatile char buf[6 * 1024 * 1024];
  memset((void *)buf, byte, sizeof buf);
  __asm__ volatile("" ::: "memory");
}
__attribute__((constructor)) static void dirty(void) {
  const char *e = getenv("DIRTY_BYTE");
  int b = e ? atoi(e) : 0xAA;
  scribble(b);
  void *p = malloc(1 << 20);
  if (p) { memset(p, b, 1 << 20); free(p); }
}
