// tb_harness.cpp -- links the REAL hextb.cpp (compiled with -Dmain=hextb_main from /repo's working tree) and calls its
// own load() and run() on a Verilated `hex` built with --public-flat-rw, so that a power-on state can be planted
// after construction (C13) and console input/output can be captured exactly (C06).
//   tb_harness <bin> <seed> <maxcycles> [plant...]     stdin = console input of the program
//   plant: pc=<n> areg=<n> breg=<n> oreg=<n> mem:<word>=<value> fill=<byte>   (fill: the whole memory gets the repeated
//          byte BEFORE load(), i.e. it stands for the power-on contents -- load() is expected to clear it; mem: plants a
//          word AFTER load(); registers keep Verilator's random reset unless planted)
// Output:  RC <run() result> / CONSUMED <bytes of input read> / OUT <n> <bytes written to cout after load's banner>
//          IMAGE_INTACT 0|1 and REGS at the first post-reset fetch are reported by the `probe` variant (see below).
#undef main
#include <cstdint>
#include <cstdio>
#include <cstdlib>
#include <cstring>
#include <iostream>
#include <sstream>
#include <fstream>
#include <memory>
#include <string>
#include <vector>
#include <algorithm>
#include <verilated.h>
#include <verilated_sym_props.h>
#include "Vhex_pkg.h"
#include "Vhex_pkg_hex.h"
#include "Vhex_pkg_memory.h"
#include "Vhex_pkg_processor.h"

void load(const char *filename, const std::unique_ptr<Vhex_pkg> &top);
int run(const std::unique_ptr<VerilatedContext> &contextp, const std::unique_ptr<Vhex_pkg> &top, bool trace, size_t maxCycles);

static void plantBit(VerilatedContext *ctx, const char *scope, const char *name, unsigned v) {
  const VerilatedScope *sc = ctx->scopeFind(scope);
  VerilatedVar *var = sc ? sc->varFind(name) : nullptr;
  if (var && var->datap()) *reinterpret_cast<uint8_t *>(var->datap()) = v & 1;
}

int main(int argc, char **argv) {
  if (argc < 4) { std::cerr << "usage: tb_harness <bin> <seed> <maxcycles> [plant...]\n"; return 2; }
  const char *bin = argv[1];
  int seed = atoi(argv[2]);
  size_t maxCycles = strtoull(argv[3], 0, 0);
  // console input
  std::stringstream inbuf; inbuf << std::cin.rdbuf();
  std::string input = inbuf.str();
  std::istringstream in(input);
  std::ostringstream out;
  std::streambuf *oldin = std::cin.rdbuf(in.rdbuf());
  std::streambuf *oldout = std::cout.rdbuf(out.rdbuf());
  int rc = 0; bool threw = false; std::string what;
  size_t imageBytes = 0;
  std::string probeLine;
  {
    const std::unique_ptr<VerilatedContext> contextp{new VerilatedContext};
    contextp->debug(0);
    contextp->randReset(2);
    contextp->randSeed(seed);
    { const char *av[] = {"tb_harness", nullptr}; contextp->commandArgs(1, av); }
    const std::unique_ptr<Vhex_pkg> top{new Vhex_pkg{contextp.get(), "TOP"}};
    try {
      // size of what load() reads: the words the header announces (as far as the file holds them)
      { std::ifstream f(bin, std::ios::binary); f.seekg(0, std::ios::end); size_t rest = (size_t)f.tellg() - 4; f.seekg(0);
        uint32_t hw = 0; f.read(reinterpret_cast<char*>(&hw), 4); imageBytes = std::min((size_t)hw * 4, rest); }
      // optional power-on contents of the memory (before load, which is expected to clear them)
      for (int i = 4; i < argc; i++) {
        std::string a = argv[i];
        if (a.rfind("fill=", 0) == 0) {
          unsigned b = strtoul(a.c_str() + 5, 0, 0) & 0xff;
          std::memset(top->hex->u_memory->memory_q.data(), b, sizeof(top->hex->u_memory->memory_q));
        }
      }
      load(bin, top);
      for (int i = 4; i < argc; i++) {
        std::string a = argv[i];
        auto val = [&](size_t p) { return (uint32_t)strtoul(a.c_str() + p, 0, 0); };
        if (a.rfind("pc=", 0) == 0) top->hex->u_processor->pc_q = val(3);
        else if (a.rfind("areg=", 0) == 0) top->hex->u_processor->areg_q = val(5);
        else if (a.rfind("breg=", 0) == 0) top->hex->u_processor->breg_q = val(5);
        else if (a.rfind("oreg=", 0) == 0) top->hex->u_processor->oreg_q = val(5);
        // Verilator's first eval() takes the "previous" clock/reset of each always_ff block from these module-local copies,
        // which are part of the random power-on state: plant them to decide whether the time-1 edge is seen
        // (looked up by name: a design whose memory or processor has no such port any more still builds and runs -- the plant is
        // then without effect, which is what it means for that design)
        else if (a.rfind("pclk=", 0) == 0) plantBit(contextp.get(), "TOP.hex.u_processor", "i_clk", val(5) & 1);
        else if (a.rfind("mclk=", 0) == 0) plantBit(contextp.get(), "TOP.hex.u_memory", "i_clk", val(5) & 1);
        else if (a.rfind("prst=", 0) == 0) plantBit(contextp.get(), "TOP.hex.u_processor", "i_rst", val(5) & 1);
        else if (a.rfind("mrst=", 0) == 0) plantBit(contextp.get(), "TOP.hex.u_memory", "i_rst", val(5) & 1);
        else if (a.rfind("mem:", 0) == 0) {
          size_t eq = a.find('=');
          uint32_t w = strtoul(a.c_str() + 4, 0, 0);
          top->hex->u_memory->memory_q[w] = strtoul(a.c_str() + eq + 1, 0, 0);
        }
      }
      out.str("");    // drop load()'s banner
      bool probe = false;
      for (int i = 4; i < argc; i++) if (std::string(argv[i]) == "probe=1") probe = true;
      if (probe) {
        // run exactly the five clock edges of times 1..9 (power-on edge + reset window), then look at the state in which
        // the first post-reset instruction will be fetched
        rc = run(contextp, top, false, 4);
        std::vector<unsigned char> img(imageBytes);
        { std::ifstream f(bin, std::ios::binary); f.seekg(4); f.read(reinterpret_cast<char*>(img.data()), imageBytes); }
        bool intact = std::memcmp(top->hex->u_memory->memory_q.data(), img.data(), std::min(imageBytes, sizeof(top->hex->u_memory->memory_q))) == 0;
        probeLine = "PROBE pc=" + std::to_string((unsigned)top->hex->u_processor->pc_q) + " areg=" + std::to_string((unsigned)top->hex->u_processor->areg_q)
                  + " breg=" + std::to_string((unsigned)top->hex->u_processor->breg_q) + " oreg=" + std::to_string((unsigned)top->hex->u_processor->oreg_q)
                  + " image_intact=" + (intact ? "1" : "0");
        // every word outside the image is zero (load() clears the memory; nothing is stored during reset)
        bool restZero = true;
        for (size_t w = (imageBytes + 3) / 4; w < sizeof(top->hex->u_memory->memory_q) / sizeof(uint32_t); w++) if (top->hex->u_memory->memory_q[w] != 0) { restZero = false; break; }
        probeLine += std::string(" rest_zero=") + (restZero ? "1" : "0");
      } else {
        rc = run(contextp, top, false, maxCycles);
      }
    } catch (const std::exception &e) { threw = true; what = e.what(); }
  }
  std::cin.rdbuf(oldin);
  std::cout.rdbuf(oldout);
  in.clear();
  long long consumed = (long long)in.tellg();
  if (consumed < 0) consumed = (long long)input.size();
  std::string o = out.str();
  if (threw) std::cout << "THROW " << what << "\n";
  if (!probeLine.empty()) std::cout << probeLine << "\n";
  std::cout << "RC " << rc << "\n";
  std::cout << "CONSUMED " << consumed << "\n";
  std::cout << "OUT " << o.size();
  for (unsigned char c : o) std::cout << " " << (unsigned)c;
  std::cout << "\n";
  return 0;
}
