// sim_harness.cpp -- drives the real hexsim::Processor (compiled from /repo's working tree with
// -DHEX_VERIF) on the same cases the extracted models run.
//   sim_harness step            cases on stdin (format of ocaml/c02drv.ml), one "R <canon>" line per case
//   sim_harness run <bin> <maxsteps> <fill> <trace01> <maxcycles>
//                               whole run with a per-instruction digest (stdin = program input)
// Only cases whose ISA step is defined-or-illegal are sent here (never out-of-range addresses).
#include <cstdint>
#include <cstdio>
#include <cstdlib>
#include <cstring>
#include <iostream>
#include <sstream>
#include <fstream>
#include <string>
#include <vector>
#include <memory>
#include <new>
#include <algorithm>
#include <array>
#include <map>
#include <exception>
#include <functional>
#include <boost/format.hpp>
#define private public
#define class struct
#include "hexsim.hpp"
#undef private
#undef class

using hexsim::Processor;
static const size_t MEMW = 200000;

struct Buf {
  void *p;
  Buf() { p = aligned_alloc(64, (sizeof(Processor) + 63) / 64 * 64); }
  ~Buf() { free(p); }
};

static std::string slurp(const std::string &name) {
  std::ifstream f(name, std::ios::binary);
  std::stringstream ss; ss << f.rdbuf(); return ss.str();
}

static int stepMode() {
  Buf buf;
  std::vector<uint32_t> shadow(MEMW, 0);
  std::string line;
  while (std::getline(std::cin, line)) {
    if (line.find_first_not_of(" \t\r\n") == std::string::npos) continue;
    std::istringstream ls(line);
    unsigned long long pc, a, b, o; size_t nc;
    size_t nsteps = 1;
    if (line[0] == 'k') { char kc; ls >> kc >> nsteps; }
    ls >> pc >> a >> b >> o >> nc;
    std::vector<std::pair<uint32_t, uint32_t>> cells(nc);
    for (auto &c : cells) { unsigned long long ad, v; ls >> ad >> v; c = {(uint32_t)ad, (uint32_t)v}; }
    size_t ncons; ls >> ncons;
    std::string cons;
    for (size_t i = 0; i < ncons; i++) { int x; ls >> x; cons.push_back((char)x); }
    size_t nf; ls >> nf;
    std::vector<std::pair<int, std::string>> files(nf);
    for (auto &f : files) {
      size_t len; ls >> f.first >> len;
      for (size_t i = 0; i < len; i++) { int x; ls >> x; f.second.push_back((char)x); }
    }
    for (int i = 0; i < 8; i++) { std::remove(("simout" + std::to_string(i)).c_str()); std::remove(("simin" + std::to_string(i)).c_str()); }
    for (auto &f : files) { std::ofstream o2("simin" + std::to_string(f.first), std::ios::binary); o2 << f.second; }
    std::istringstream in(cons);
    std::ostringstream out;
    std::string result;
    {
      Processor *p = new (buf.p) Processor(in, out, 0);
      uint32_t *mem = p->verifMemory();
      std::memset(mem, 0, MEMW * sizeof(uint32_t));
      for (auto &c : cells) { mem[c.first] = c.second; shadow[c.first] = c.second; }
      p->verifPc() = (uint32_t)pc; p->verifAreg() = (uint32_t)a; p->verifBreg() = (uint32_t)b; p->verifOreg() = (uint32_t)o;
      p->verifExitCode() = 0;
      size_t done = 0;
      p->verifObserver = [&](Processor &) { done++; return done < nsteps; };
      bool threw = false;
      try { p->run(); } catch (const std::exception &e) { threw = true; }
      if (threw) {
        result = "illegal";
      } else {
        std::ostringstream r;
        r << "ok " << p->verifPc() << " " << p->verifAreg() << " " << p->verifBreg() << " " << p->verifOreg() << " | W";
        for (size_t i = 0; i < MEMW; i++) if (mem[i] != shadow[i]) r << " " << i << " " << mem[i];
        r << " | ";
        std::string ev = "tau";
        std::streampos consumed = 0;
        bool running = p->verifRunning();
        int exitCode = p->verifExitCode();
        size_t consLeft;
        {
          // console bytes consumed
          in.clear();
          std::streampos pos = in.tellg();
          consLeft = cons.size() - (pos < 0 ? cons.size() : (size_t)pos);
        }
        std::string outs = out.str();
        std::ostringstream frem;
#ifndef NO_IO_INTROSPECTION
        for (auto &f : files) {
          size_t left = f.second.size();
          bool openedForOutput = std::ifstream("simout" + std::to_string(f.first)).good();
          if (p->io.connected[f.first] && !openedForOutput) {
            p->io.fileIO[f.first].clear();
            std::streampos pos = p->io.fileIO[f.first].tellg();
            left = f.second.size() - (pos < 0 ? f.second.size() : (size_t)pos);
          }
          frem << " f" << f.first << "=" << left;
        }
#endif
        p->~Processor();   // flush/close stream files
        p = nullptr;
        // file outputs / remaining file inputs
        std::string fileEv;
        for (int i = 0; i < 8; i++) {
          std::string so = slurp("simout" + std::to_string(i));
          if (!so.empty()) { fileEv = "write " + std::to_string((unsigned char)so[0]) + " file" + std::to_string(i); }
        }
        // which event: decided from what the real code did
        // (exit: running false; write: a byte appeared; read: console/file position advanced or word written)
        if (!running) ev = "exit " + std::to_string((uint32_t)exitCode);
        else if (!outs.empty()) ev = "write " + std::to_string((unsigned char)outs[0]) + " console";
        else if (!fileEv.empty()) ev = fileEv;
        r << ev;   // reads are completed below by the python side from the W part (see c02.py)
        r << " | cons=" << consLeft << " |" << frem.str();
        result = r.str();
      }
      if (p) p->~Processor();
      for (auto &c : cells) shadow[c.first] = 0;
    }
    std::cout << "R " << result << "\n";
  }
  return 0;
}

static inline uint64_t mix(uint64_t h, uint64_t x) { return (h * 31 + x) & 0x3FFFFFFFFFFFFFFFULL; }

static int runMode(int argc, char **argv) {
  const char *bin = argv[2];
  size_t maxSteps = strtoull(argv[3], 0, 0);
  int fill = atoi(argv[4]);
  bool trace = atoi(argv[5]) != 0;
  size_t maxCycles = strtoull(argv[6], 0, 0);
  Buf buf;
  std::memset(buf.p, fill, sizeof(Processor));
  std::ostringstream out;
  Processor *p = new (buf.p) Processor(std::cin, out, maxCycles);
  p->setTracing(trace);
  p->load(bin);
  uint64_t h = 0; size_t steps = 0;
  bool cut = false;
  std::vector<std::string> marks;
  p->verifObserver = [&](Processor &q) {
    steps++;
    h = mix(mix(mix(mix(h, q.verifPc()), q.verifAreg()), q.verifBreg()), q.verifOreg());
    if (steps % 1000 == 0) { marks.push_back(std::to_string(steps) + ":" + std::to_string(h)); }
    if (steps >= maxSteps) { cut = true; return false; }
    return true;
  };
  std::string end;
  int rc = 0;
  try { rc = p->run(); end = cut ? "cut" : (p->verifRunning() ? "limit" : "exit"); }
  catch (const std::exception &e) { end = std::string("throw"); }
  std::cout << "END " << end << " rc=" << rc << " steps=" << steps << " h=" << h
            << " pc=" << p->verifPc() << " a=" << p->verifAreg() << " b=" << p->verifBreg() << " o=" << p->verifOreg() << "\n";
  std::cout << "MARKS";
  for (auto &m : marks) std::cout << " " << m;
  std::cout << "\n";
  std::string outs = out.str();
  std::cout << "OUT " << outs.size();
  for (unsigned char c : outs) std::cout << " " << (unsigned)c;
  std::cout << "\n";
  // console input position
  std::cin.clear();
  std::cout << "CONSUMED " << (long long)std::cin.tellg() << "\n";
  p->~Processor();
  return 0;
}

int main(int argc, char **argv) {
  if (argc >= 2 && std::string(argv[1]) == "step") return stepMode();
  if (argc >= 7 && std::string(argv[1]) == "run") return runMode(argc, argv);
  std::cerr << "usage: sim_harness step | run <bin> <maxsteps> <fill> <trace> <maxcycles>\n";
  return 2;
}
